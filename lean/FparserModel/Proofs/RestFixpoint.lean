import FparserModel.Proofs.RestPlain
import FparserModel.Proofs.IoStmtFixpoint
/-!
# C01 at the class level for the Rest classes: `match_tostr_fixpoint`

Style of `Proofs/IoStmtFixpoint.lean`: for the items `is` of each shape that `match` can build,

    ∃ t, tostrX o is = .ok t ∧ (planX t).bind (runSlots o) = .ok is

under `OracleRT` for each child (the child re-matches from its own printed text) and decidable side
conditions on the children's printed texts.  Each `planX_printed…` lemma is the string-level fact
(the plan applied to the PRINTED text); the last section has, for every side condition shown
necessary, a kernel-checked counter-example on `echoOracle` (nodes are texts, every class accepts
every text and prints it back).
-/
namespace Fp.Rest
open Fp Fp.Splitline Fp.IoStmt
open Fp.Combi (lstrip_append_of_self rstrip_append_of_self lstrip_space_cons strip_self
  cutFirst_append cutLast_append lstrip_cons_nonspace rstrip_append_space strip_sandwich)

variable {Node : Type}

/-! ## helpers -/

theorem rstrip_sp {A : Str} (hr : rstrip A = A) : rstrip (A ++ [' ']) = A := by
  rw [rstrip_append_space, hr]

theorem lstrip_sp {A : Str} (hl : lstrip A = A) : lstrip (' ' :: A) = A := by
  rw [lstrip_space_cons, hl]

/-- `s.find(ab)` in `A + c + ab + R` when `A` has no `ab` and `c` is neither `a` nor `b` -/
theorem cutSub2_append {a b c : Char} (hca : c ≠ a) (hcb : c ≠ b) : ∀ (A R : Str), cutSub2 a b A = none →
    cutSub2 a b (A ++ c :: a :: b :: R) = some (A ++ [c], R)
  | [], R, _ => by
    have h1 : (c == a) = false := by simpa using hca
    simp [cutSub2, h1]
  | [x], R, _ => by
    have h1 : (c == a) = false := by simpa using hca
    have h2 : (c == b) = false := by simpa using hcb
    simp [cutSub2, h1, h2]
  | x :: y :: A', R, h => by
    unfold cutSub2 at h
    split at h
    · cases h
    rename_i hxy
    have h' : cutSub2 a b (y :: A') = none := by
      split at h
      · cases h
      · assumption
    have ih := cutSub2_append hca hcb (y :: A') R h'
    show cutSub2 a b (x :: y :: (A' ++ c :: a :: b :: R)) = _
    unfold cutSub2
    rw [if_neg hxy]
    rw [List.cons_append] at ih
    rw [ih]
    rfl

/-! ## FLUSH / BACKSPACE / ENDFILE / REWIND (one theorem over the keyword) -/

theorem planPos_printed1 (kw A : Str) (hkw : upper kw = kw) (hl : lstrip A = A) (hp : startsC '(' A = false) :
    planPos kw (kw ++ " ".toList ++ A) = .ok [.child C.File_Unit_Number A, .none] := by
  have e : kw ++ " ".toList ++ A = kw ++ ' ' :: A := by simp
  have hk : kwIs kw (kw ++ ' ' :: A) = true := kwIs_append _ hkw
  have hd : (kw ++ ' ' :: A).drop kw.length = ' ' :: A := List.drop_left
  unfold planPos
  rw [e]
  simp [hk, hd, lstrip_sp hl, hp]

theorem planPos_printed2 (kw B : Str) (hkw : upper kw = kw) (hl : lstrip B = B) (hr : rstrip B = B) :
    planPos kw (kw ++ "(".toList ++ B ++ ")".toList) = .ok [.none, .child R.Position_Spec_List B] := by
  have e : kw ++ "(".toList ++ B ++ ")".toList = kw ++ '(' :: (B ++ [')']) := by simp
  have hk : kwIs kw (kw ++ '(' :: (B ++ [')'])) = true := kwIs_append _ hkw
  have hd : (kw ++ '(' :: (B ++ [')'])).drop kw.length = '(' :: (B ++ [')']) := List.drop_left
  have hls : lstrip ('(' :: (B ++ [')'])) = '(' :: (B ++ [')']) := lstrip_cons_nonspace _ (by decide)
  unfold planPos
  rw [e]
  simp [hk, hd, hls, startsC, par_endsC, par_inner, strip_self hl hr]

/-- **Flush_Stmt / Backspace_Stmt / Endfile_Stmt / Rewind_Stmt**, `KW unit` -/
theorem pos_match_tostr_fixpoint_unit (kw : Str) (hkw : upper kw = kw) (o : Oracle Node) (a : Node)
    (hrt : OracleRT o C.File_Unit_Number a)
    (hl : lstrip (o.str a) = o.str a) (hp : startsC '(' (o.str a) = false) :
    ∃ t, tostrPos kw o [.node a, .none] = .ok t ∧
      (planPos kw t).bind (runSlots o) = .ok [.node a, .none] := by
  refine ⟨_, rfl, ?_⟩
  simp only [Item.text]
  rw [planPos_printed1 kw _ hkw hl hp]
  simp [runSlots, run_child o hrt]

/-- **Flush_Stmt / Backspace_Stmt / Endfile_Stmt / Rewind_Stmt**, `KW(position-spec-list)` -/
theorem pos_match_tostr_fixpoint_list (kw : Str) (hkw : upper kw = kw) (o : Oracle Node) (b : Node)
    (hrt : OracleRT o R.Position_Spec_List b)
    (hl : lstrip (o.str b) = o.str b) (hr : rstrip (o.str b) = o.str b) :
    ∃ t, tostrPos kw o [.none, .node b] = .ok t ∧
      (planPos kw t).bind (runSlots o) = .ok [.none, .node b] := by
  refine ⟨_, rfl, ?_⟩
  simp only [Item.text]
  rw [planPos_printed2 kw _ hkw hl hr]
  simp [runSlots, run_child o hrt]

theorem upper_kwFlush : upper kwFlush = kwFlush := by decide
theorem upper_kwBackspace : upper kwBackspace = kwBackspace := by decide
theorem upper_kwEndfile : upper kwEndfile = kwEndfile := by decide
theorem upper_kwRewind : upper kwRewind = kwRewind := by decide

/-! ## Return_Stmt -/

/-- **Return_Stmt**, bare -/
theorem return_match_tostr_fixpoint_bare (o : Oracle Node) :
    ∃ t, tostrReturn o [.none] = .ok t ∧ (planReturn t).bind (runSlots o) = .ok [.none] :=
  ⟨_, rfl, by simp +decide [planReturn, runSlots, runSlot]⟩

theorem planReturn_printed (A : Str) (hl : lstrip A = A) :
    planReturn ("RETURN ".toList ++ A) = .ok [.child C.Scalar_Int_Expr A] := by
  simp +decide [planReturn, kwIs, lstrip_cons, hl]

/-- **Return_Stmt**, `RETURN expr` (an EMPTY printed expression is handed back to the child as well) -/
theorem return_match_tostr_fixpoint (o : Oracle Node) (a : Node)
    (hrt : OracleRT o C.Scalar_Int_Expr a) (hl : lstrip (o.str a) = o.str a) :
    ∃ t, tostrReturn o [.node a] = .ok t ∧ (planReturn t).bind (runSlots o) = .ok [.node a] := by
  refine ⟨_, rfl, ?_⟩
  simp only [Item.text]
  rw [planReturn_printed _ hl]
  simp [runSlots, run_child o hrt]

/-! ## Bind_Stmt -/

theorem planBind_printed (A B : Str) (hA : cutSub2 ':' ':' A = none) (hr : rstrip A = A) (hA0 : A ≠ [])
    (hl : lstrip B = B) (hB0 : B ≠ []) :
    planBind (A ++ " :: ".toList ++ B) =
      .ok [.child R.Language_Binding_Spec A, .child R.Bind_Entity_List B] := by
  have e : A ++ " :: ".toList ++ B = A ++ ' ' :: ':' :: ':' :: (' ' :: B) := by simp
  have hc := cutSub2_append (a := ':') (b := ':') (c := ' ') (by decide) (by decide) A (' ' :: B) hA
  unfold planBind
  rw [e, hc]
  simp [rstrip_sp hr, lstrip_sp hl, isEmpty_false hA0, isEmpty_false hB0]

/-- **Bind_Stmt** -/
theorem bind_match_tostr_fixpoint (o : Oracle Node) (a b : Node)
    (hrta : OracleRT o R.Language_Binding_Spec a) (hrtb : OracleRT o R.Bind_Entity_List b)
    (hA : cutSub2 ':' ':' (o.str a) = none) (hr : rstrip (o.str a) = o.str a) (hA0 : o.str a ≠ [])
    (hl : lstrip (o.str b) = o.str b) (hB0 : o.str b ≠ []) :
    ∃ t, tostrBind o [.node a, .node b] = .ok t ∧
      (planBind t).bind (runSlots o) = .ok [.node a, .node b] := by
  refine ⟨_, rfl, ?_⟩
  simp only [Item.text]
  rw [planBind_printed _ _ hA hr hA0 hl hB0]
  simp [runSlots, run_child o hrta, run_child o hrtb]

/-! ## Target_Stmt -/

theorem planTarget_printed (A : Str) (hl : lstrip A = A) :
    planTarget ("TARGET :: ".toList ++ A) = .ok [.child R.Target_Entity_Decl_List A] := by
  simp +decide [planTarget, kwIs, lstrip_cons, Combi.isPrefix, hl]

/-- **Target_Stmt** -/
theorem target_match_tostr_fixpoint (o : Oracle Node) (a : Node)
    (hrt : OracleRT o R.Target_Entity_Decl_List a) (hl : lstrip (o.str a) = o.str a) :
    ∃ t, tostrTarget o [.node a] = .ok t ∧ (planTarget t).bind (runSlots o) = .ok [.node a] := by
  refine ⟨_, rfl, ?_⟩
  simp only [Item.text]
  rw [planTarget_printed _ hl]
  simp [runSlots, run_child o hrt]

/-! ## Type_Param_Decl / Enumerator -/

theorem cutFirst_eq_printed (A B : Str) (hA : '=' ∉ A) :
    Combi.cutFirst '=' (A ++ " ".toList ++ "=".toList ++ " ".toList ++ B) = some (A ++ [' '], ' ' :: B) := by
  have e : A ++ " ".toList ++ "=".toList ++ " ".toList ++ B = (A ++ [' ']) ++ '=' :: (' ' :: B) := by simp
  rw [e]
  exact cutFirst_append _ _ (by simp [hA])

theorem planTypeParamDecl_printed (A B : Str) (hA : '=' ∉ A) (hr : rstrip A = A) (hA0 : A ≠ [])
    (hl : lstrip B = B) (hB0 : B ≠ []) :
    planTypeParamDecl (A ++ " ".toList ++ "=".toList ++ " ".toList ++ B) =
      .ok [.child R.Type_Param_Name A, .str "=".toList, .child R.Scalar_Int_Initialization_Expr B] := by
  unfold planTypeParamDecl
  rw [cutFirst_eq_printed A B hA]
  simp [rstrip_sp hr, lstrip_sp hl, isEmpty_false hA0, isEmpty_false hB0]

/-- **Type_Param_Decl** -/
theorem typeParamDecl_match_tostr_fixpoint (o : Oracle Node) (a b : Node)
    (hrta : OracleRT o R.Type_Param_Name a) (hrtb : OracleRT o R.Scalar_Int_Initialization_Expr b)
    (hA : '=' ∉ o.str a) (hr : rstrip (o.str a) = o.str a) (hA0 : o.str a ≠ [])
    (hl : lstrip (o.str b) = o.str b) (hB0 : o.str b ≠ []) :
    ∃ t, tostrBinary o [.node a, .str "=".toList, .node b] = .ok t ∧
      (planTypeParamDecl t).bind (runSlots o) = .ok [.node a, .str "=".toList, .node b] := by
  refine ⟨_, rfl, ?_⟩
  simp only [Item.text]
  rw [planTypeParamDecl_printed _ _ hA hr hA0 hl hB0]
  simp [runSlots, run_child o hrta, run_child o hrtb]

theorem planEnumerator_printed (A B : Str) (hA : '=' ∉ A) (hr : rstrip A = A) (hl : lstrip B = B) :
    planEnumerator (A ++ " ".toList ++ "=".toList ++ " ".toList ++ B) =
      .ok [.child R.Named_Constant A, .str "=".toList, .child R.Scalar_Int_Initialization_Expr B] := by
  unfold planEnumerator
  rw [cutFirst_eq_printed A B hA]
  simp [rstrip_sp hr, lstrip_sp hl]

/-- **Enumerator** (`Enumerator.match` does not test for empty sides) -/
theorem enumerator_match_tostr_fixpoint (o : Oracle Node) (a b : Node)
    (hrta : OracleRT o R.Named_Constant a) (hrtb : OracleRT o R.Scalar_Int_Initialization_Expr b)
    (hA : '=' ∉ o.str a) (hr : rstrip (o.str a) = o.str a) (hl : lstrip (o.str b) = o.str b) :
    ∃ t, tostrBinary o [.node a, .str "=".toList, .node b] = .ok t ∧
      (planEnumerator t).bind (runSlots o) = .ok [.node a, .str "=".toList, .node b] := by
  refine ⟨_, rfl, ?_⟩
  simp only [Item.text]
  rw [planEnumerator_printed _ _ hA hr hl]
  simp [runSlots, run_child o hrta, run_child o hrtb]

/-! ## Stmt_Function_Stmt -/

theorem planStmtFunction_printed (F X E : Str) (hFe : '=' ∉ F) (hFp : '(' ∉ F) (hFr : rstrip F = F) (hF0 : F ≠ [])
    (hXe : '=' ∉ X) (hXl : lstrip X = X) (hXr : rstrip X = X) (hX0 : X ≠ [])
    (hEl : lstrip E = E) (hE0 : E ≠ []) :
    planStmtFunction (F ++ " (".toList ++ X ++ ") = ".toList ++ E) =
      .ok [.child R.Function_Name F, .child R.Dummy_Arg_Name_List X, .child R.Scalar_Expr E] := by
  have e : F ++ " (".toList ++ X ++ ") = ".toList ++ E = (F ++ ' ' :: '(' :: (X ++ [')', ' '])) ++ '=' :: (' ' :: E) := by
    simp
  have hc : Combi.cutFirst '=' ((F ++ ' ' :: '(' :: (X ++ [')', ' '])) ++ '=' :: (' ' :: E)) =
      some (F ++ ' ' :: '(' :: (X ++ [')', ' ']), ' ' :: E) :=
    cutFirst_append _ _ (by simp [hFe, hXe])
  have hline : rstrip (F ++ ' ' :: '(' :: (X ++ [')', ' '])) = F ++ ' ' :: '(' :: (X ++ [')']) := by
    have e2 : F ++ ' ' :: '(' :: (X ++ [')', ' ']) = (F ++ ' ' :: '(' :: (X ++ [')'])) ++ [' '] := by simp
    have e3 : F ++ ' ' :: '(' :: (X ++ [')']) = (F ++ [' ']) ++ ('(' :: (X ++ [')'])) := by simp
    rw [e2, rstrip_append_space, e3]
    exact rstrip_append_of_self _ (par_rstrip X) (by simp)
  have hends : endsC ')' (F ++ ' ' :: '(' :: (X ++ [')'])) = true := by
    have e3 : F ++ ' ' :: '(' :: (X ++ [')']) = (F ++ ' ' :: '(' :: X) ++ [')'] := by simp
    rw [e3]; exact endsC_append_one _ _
  have hne : (F ++ ' ' :: '(' :: (X ++ [')'])) ≠ [] := by simp
  have hc2 : Combi.cutFirst '(' (F ++ ' ' :: '(' :: (X ++ [')'])) = some (F ++ [' '], X ++ [')']) := by
    have e3 : F ++ ' ' :: '(' :: (X ++ [')']) = (F ++ [' ']) ++ '(' :: (X ++ [')']) := by simp
    rw [e3]; exact cutFirst_append _ _ (by simp [hFp])
  unfold planStmtFunction
  rw [e, hc]
  simp only [hline, hc2, hends, lstrip_sp hEl, rstrip_sp hFr, isEmpty_false hE0, isEmpty_false hne,
    isEmpty_false hF0, List.dropLast_concat, strip_self hXl hXr, isEmpty_false hX0]
  simp

theorem planStmtFunction_printed0 (F E : Str) (hFe : '=' ∉ F) (hFp : '(' ∉ F) (hFr : rstrip F = F) (hF0 : F ≠ [])
    (hEl : lstrip E = E) (hE0 : E ≠ []) :
    planStmtFunction (F ++ " () = ".toList ++ E) =
      .ok [.child R.Function_Name F, .none, .child R.Scalar_Expr E] := by
  have e : F ++ " () = ".toList ++ E = (F ++ ' ' :: '(' :: ([] ++ [')', ' '])) ++ '=' :: (' ' :: E) := by
    simp
  have hc : Combi.cutFirst '=' ((F ++ ' ' :: '(' :: ([] ++ [')', ' '])) ++ '=' :: (' ' :: E)) =
      some (F ++ ' ' :: '(' :: ([] ++ [')', ' ']), ' ' :: E) :=
    cutFirst_append _ _ (by simp [hFe])
  have hline : rstrip (F ++ ' ' :: '(' :: ([] ++ [')', ' '])) = F ++ ' ' :: '(' :: ([] ++ [')']) := by
    have e2 : F ++ ' ' :: '(' :: ([] ++ [')', ' ']) = (F ++ ' ' :: '(' :: ([] ++ [')'])) ++ [' '] := by simp
    have e3 : F ++ ' ' :: '(' :: ([] ++ [')']) = (F ++ [' ']) ++ ('(' :: ([] ++ [')'])) := by simp
    rw [e2, rstrip_append_space, e3]
    exact rstrip_append_of_self _ (par_rstrip []) (by simp)
  have hends : endsC ')' (F ++ ' ' :: '(' :: ([] ++ [')'])) = true := by
    have e3 : F ++ ' ' :: '(' :: ([] ++ [')']) = (F ++ ' ' :: '(' :: []) ++ [')'] := by simp
    rw [e3]; exact endsC_append_one _ _
  have hne : (F ++ ' ' :: '(' :: ([] ++ [')'])) ≠ [] := by simp
  have hc2 : Combi.cutFirst '(' (F ++ ' ' :: '(' :: ([] ++ [')'])) = some (F ++ [' '], [] ++ [')']) := by
    have e3 : F ++ ' ' :: '(' :: ([] ++ [')']) = (F ++ [' ']) ++ '(' :: ([] ++ [')']) := by simp
    rw [e3]; exact cutFirst_append _ _ (by simp [hFp])
  unfold planStmtFunction
  rw [e, hc]
  simp only [hline, hc2, hends, lstrip_sp hEl, rstrip_sp hFr, isEmpty_false hE0, isEmpty_false hne,
    isEmpty_false hF0, List.dropLast_concat]
  simp +decide

/-- **Stmt_Function_Stmt**, with dummy arguments -/
theorem stmtFunction_match_tostr_fixpoint (o : Oracle Node) (f x e : Node)
    (hrtf : OracleRT o R.Function_Name f) (hrtx : OracleRT o R.Dummy_Arg_Name_List x)
    (hrte : OracleRT o R.Scalar_Expr e)
    (hFe : '=' ∉ o.str f) (hFp : '(' ∉ o.str f) (hFr : rstrip (o.str f) = o.str f) (hF0 : o.str f ≠ [])
    (hXe : '=' ∉ o.str x) (hXl : lstrip (o.str x) = o.str x) (hXr : rstrip (o.str x) = o.str x)
    (hX0 : o.str x ≠ []) (hEl : lstrip (o.str e) = o.str e) (hE0 : o.str e ≠ []) :
    ∃ t, tostrStmtFunction o [.node f, .node x, .node e] = .ok t ∧
      (planStmtFunction t).bind (runSlots o) = .ok [.node f, .node x, .node e] := by
  refine ⟨_, rfl, ?_⟩
  simp only [Item.text]
  rw [planStmtFunction_printed _ _ _ hFe hFp hFr hF0 hXe hXl hXr hX0 hEl hE0]
  simp [runSlots, run_child o hrtf, run_child o hrtx, run_child o hrte]

/-- **Stmt_Function_Stmt**, `f () = expr` -/
theorem stmtFunction_match_tostr_fixpoint_noargs (o : Oracle Node) (f e : Node)
    (hrtf : OracleRT o R.Function_Name f) (hrte : OracleRT o R.Scalar_Expr e)
    (hFe : '=' ∉ o.str f) (hFp : '(' ∉ o.str f) (hFr : rstrip (o.str f) = o.str f) (hF0 : o.str f ≠ [])
    (hEl : lstrip (o.str e) = o.str e) (hE0 : o.str e ≠ []) :
    ∃ t, tostrStmtFunction o [.node f, .none, .node e] = .ok t ∧
      (planStmtFunction t).bind (runSlots o) = .ok [.node f, .none, .node e] := by
  refine ⟨_, rfl, ?_⟩
  simp only [Item.text]
  rw [planStmtFunction_printed0 _ _ hFe hFp hFr hF0 hEl hE0]
  simp [runSlots, run_child o hrtf, run_child o hrte]

/-! ## Where_Construct_Stmt -/

theorem planWhereConstruct_printed (A : Str) (hl : lstrip A = A) (hr : rstrip A = A) (hA0 : A ≠ []) :
    planWhereConstruct ("WHERE (".toList ++ A ++ ")".toList) = .ok [.child C.Mask_Expr A] := by
  simp +decide [planWhereConstruct, kwIs, startsC, lstrip_cons, par_endsC, par_inner, strip_self hl hr,
    isEmpty_false hA0]

/-- **Where_Construct_Stmt** -/
theorem whereConstruct_match_tostr_fixpoint (o : Oracle Node) (a : Node)
    (hrt : OracleRT o C.Mask_Expr a)
    (hl : lstrip (o.str a) = o.str a) (hr : rstrip (o.str a) = o.str a) (hA0 : o.str a ≠ []) :
    ∃ t, tostrWhereConstruct o [.node a] = .ok t ∧
      (planWhereConstruct t).bind (runSlots o) = .ok [.node a] := by
  refine ⟨_, rfl, ?_⟩
  simp only [Item.text]
  rw [planWhereConstruct_printed _ hl hr hA0]
  simp [runSlots, run_child o hrt]

/-! ## Declaration_Type_Spec -/

theorem planDeclTypeSpec_printed_type (A : Str) (hl : lstrip A = A) (hr : rstrip A = A) :
    planDeclTypeSpec ("TYPE".toList ++ "(".toList ++ A ++ ")".toList) =
      .ok [.str "TYPE".toList, .child R.Derived_Type_Spec A] := by
  have e : "TYPE".toList ++ "(".toList ++ A ++ ")".toList = 'T' :: 'Y' :: 'P' :: 'E' :: '(' :: (A ++ [')']) := by
    simp
  have hends : endsC ')' ('T' :: 'Y' :: 'P' :: 'E' :: '(' :: (A ++ [')'])) = true := by
    have := endsC_append_one ('T' :: 'Y' :: 'P' :: 'E' :: '(' :: A) ')'
    simpa using this
  rw [e]
  unfold planDeclTypeSpec
  simp +decide [hends, kwIs, startsC, lstrip_cons, par_inner, strip_self hl hr]

theorem planDeclTypeSpec_printed_class (A : Str) (hl : lstrip A = A) (hr : rstrip A = A) (hstar : A ≠ ['*']) :
    planDeclTypeSpec ("CLASS".toList ++ "(".toList ++ A ++ ")".toList) =
      .ok [.str "CLASS".toList, .child R.Derived_Type_Spec A] := by
  have e : "CLASS".toList ++ "(".toList ++ A ++ ")".toList =
      'C' :: 'L' :: 'A' :: 'S' :: 'S' :: '(' :: (A ++ [')']) := by simp
  have hends : endsC ')' ('C' :: 'L' :: 'A' :: 'S' :: 'S' :: '(' :: (A ++ [')'])) = true := by
    have := endsC_append_one ('C' :: 'L' :: 'A' :: 'S' :: 'S' :: '(' :: A) ')'
    simpa using this
  rw [e]
  unfold planDeclTypeSpec
  simp +decide [hends, kwIs, startsC, lstrip_cons, par_inner, strip_self hl hr, hstar]

/-- **Declaration_Type_Spec**, `TYPE(derived-type-spec)` -/
theorem declTypeSpec_match_tostr_fixpoint_type (o : Oracle Node) (a : Node)
    (hrt : OracleRT o R.Derived_Type_Spec a)
    (hl : lstrip (o.str a) = o.str a) (hr : rstrip (o.str a) = o.str a) :
    ∃ t, tostrDeclTypeSpec o [.str "TYPE".toList, .node a] = .ok t ∧
      (planDeclTypeSpec t).bind (runSlots o) = .ok [.str "TYPE".toList, .node a] := by
  refine ⟨_, rfl, ?_⟩
  simp only [Item.text]
  rw [planDeclTypeSpec_printed_type _ hl hr]
  simp [runSlots, run_child o hrt]

/-- **Declaration_Type_Spec**, `CLASS(derived-type-spec)` -/
theorem declTypeSpec_match_tostr_fixpoint_class (o : Oracle Node) (a : Node)
    (hrt : OracleRT o R.Derived_Type_Spec a)
    (hl : lstrip (o.str a) = o.str a) (hr : rstrip (o.str a) = o.str a) (hstar : o.str a ≠ ['*']) :
    ∃ t, tostrDeclTypeSpec o [.str "CLASS".toList, .node a] = .ok t ∧
      (planDeclTypeSpec t).bind (runSlots o) = .ok [.str "CLASS".toList, .node a] := by
  refine ⟨_, rfl, ?_⟩
  simp only [Item.text]
  rw [planDeclTypeSpec_printed_class _ hl hr hstar]
  simp [runSlots, run_child o hrt]

/-- **Declaration_Type_Spec**, `CLASS(*)` -/
theorem declTypeSpec_match_tostr_fixpoint_star (o : Oracle Node) :
    ∃ t, tostrDeclTypeSpec o [.str "CLASS".toList, .str "*".toList] = .ok t ∧
      (planDeclTypeSpec t).bind (runSlots o) = .ok [.str "CLASS".toList, .str "*".toList] :=
  ⟨_, rfl, by simp +decide [planDeclTypeSpec, runSlots, runSlot, Item.text]⟩

/-! ## Rename (plain form) -/

/-- both sides look like `OPERATOR (…)…`: `Rename.match` then takes the operator branch -/
def renameOpShape (A B : Str) : Bool :=
  kwIs "OPERATOR".toList A && kwIs "OPERATOR".toList B &&
    (!(lstrip (A.drop 8)).isEmpty && !(lstrip (B.drop 8)).isEmpty &&
      startsC '(' (lstrip (A.drop 8)) && endsC ')' (lstrip (A.drop 8)))

theorem planRename_printed (A B : Str) (hA : cutSub2 '=' '>' A = none) (hr : rstrip A = A) (hA0 : A ≠ [])
    (hl : lstrip B = B) (hB0 : B ≠ []) (hop : renameOpShape A B = false) :
    planRename (A ++ " => ".toList ++ B) = .ok [.none, .child R.Local_Name A, .child R.Use_Name B] := by
  have e : A ++ " => ".toList ++ B = A ++ ' ' :: '=' :: '>' :: (' ' :: B) := by simp
  have hc := cutSub2_append (a := '=') (b := '>') (c := ' ') (by decide) (by decide) A (' ' :: B) hA
  unfold planRename
  rw [e, hc]
  simp only [rstrip_sp hr, lstrip_sp hl, isEmpty_false hA0, isEmpty_false hB0]
  unfold renameOpShape at hop
  by_cases h1 : (kwIs "OPERATOR".toList A && kwIs "OPERATOR".toList B) = true
  · rw [h1, Bool.true_and] at hop
    simp only [Bool.or_self, Bool.false_eq_true, if_false, h1, if_true]
    rw [if_neg (by rw [hop]; exact Bool.false_ne_true)]
  · simp only [Bool.or_self, Bool.false_eq_true, if_false]
    rw [if_neg h1]

/-- **Rename**, `local-name => use-name` -/
theorem rename_match_tostr_fixpoint (o : Oracle Node) (a b : Node)
    (hrta : OracleRT o R.Local_Name a) (hrtb : OracleRT o R.Use_Name b)
    (hA : cutSub2 '=' '>' (o.str a) = none) (hr : rstrip (o.str a) = o.str a) (hA0 : o.str a ≠ [])
    (hl : lstrip (o.str b) = o.str b) (hB0 : o.str b ≠ [])
    (hop : renameOpShape (o.str a) (o.str b) = false) :
    ∃ t, tostrRename o [.none, .node a, .node b] = .ok t ∧
      (planRename t).bind (runSlots o) = .ok [.none, .node a, .node b] := by
  refine ⟨_, rfl, ?_⟩
  simp only [Item.text]
  rw [planRename_printed _ _ hA hr hA0 hl hB0 hop]
  simp [runSlots, run_child o hrta, run_child o hrtb]

/-! ## Include_Stmt -/

theorem planInclude_printed (A : Str) (hA0 : A ≠ []) :
    planInclude ("INCLUDE '".toList ++ A ++ "'".toList) = .ok [.child R.Include_Filename A] := by
  have hq : rstrip ['\''] = ['\''] := by decide
  have hs : strip ("INCLUDE '".toList ++ A ++ "'".toList) = "INCLUDE '".toList ++ A ++ "'".toList :=
    strip_sandwich A (by decide) (by decide) hq (by decide)
  have hrhs : strip (' ' :: '\'' :: (A ++ ['\''])) = '\'' :: (A ++ ['\'']) := by
    have h1 : rstrip (' ' :: '\'' :: (A ++ ['\''])) = ' ' :: '\'' :: (A ++ ['\'']) := by
      have := rstrip_append_of_self (' ' :: '\'' :: A) hq (by decide)
      simpa using this
    rw [strip, h1, lstrip_space_cons, lstrip_cons_nonspace _ (by decide)]
  have hlen : ¬ (A.length + 1 + 1 < 3) := by
    have : 0 < A.length := List.length_pos_iff.2 hA0
    omega
  have hlast : ('\'' :: (A ++ ['\''])).getLast? = some '\'' := by
    rw [show '\'' :: (A ++ ['\'']) = ('\'' :: A) ++ ['\''] from rfl, List.getLast?_concat]
  unfold planInclude
  rw [hs]
  simp +decide [kwIs, hrhs, hlen, startsC, endsC, hlast, inner]

/-- **Include_Stmt**: the file name is the text between the FIRST and the LAST character of the quoted part — quote
    characters inside it are kept as they are, the only condition is that it is not empty -/
theorem include_match_tostr_fixpoint (o : Oracle Node) (a : Node)
    (hrt : OracleRT o R.Include_Filename a) (hA0 : o.str a ≠ []) :
    ∃ t, tostrInclude o [.node a] = .ok t ∧ (planInclude t).bind (runSlots o) = .ok [.node a] := by
  refine ⟨_, rfl, ?_⟩
  simp only [Item.text]
  rw [planInclude_printed _ hA0]
  simp [runSlots, run_child o hrt]

/-! ## Deferred_Shape_Spec -/

/-- **Deferred_Shape_Spec** -/
theorem deferredShape_match_tostr_fixpoint (o : Oracle Node) :
    ∃ t, tostrSeparator o [.none, .none] = .ok t ∧
      (planDeferredShape t).bind (runSlots o) = .ok [.none, .none] :=
  ⟨_, rfl, by simp +decide [planDeferredShape, runSlots, runSlot, Item.isNone]⟩

/-! ## non-vacuity and NECESSITY of the side conditions, kernel-checked (`echoOracle`: nodes are texts, every class
    accepts every text and prints it back) -/

/-- a node of `echoOracle` -/
private def nd (s : String) : Item Str := .node s.toList

private def rmE (plan : Str → Res (List Slot)) (t : Str) : Res (List (Item Str)) := (plan t).bind (runSlots echoOracle)

/-- "the printed text is matched again with the same items" -/
private def fixE (ts : Res Str) (plan : Str → Res (List Slot)) (items : List (Item Str)) : Bool :=
  match ts with
  | .ok t => rmE plan t == .ok items
  | _ => false

/-! ### non-vacuity -/
example : fixE (tostrPos kwFlush echoOracle [nd "10", .none]) (planPos kwFlush) [nd "10", .none] = true := by
  decide +kernel
example : fixE (tostrPos kwRewind echoOracle [.none, nd "UNIT = 10, ERR = 5"]) (planPos kwRewind)
    [.none, nd "UNIT = 10, ERR = 5"] = true := by decide +kernel
example : fixE (tostrReturn echoOracle [nd "1 + (2)"]) planReturn [nd "1 + (2)"] = true := by decide +kernel
example : fixE (tostrReturn echoOracle [nd ""]) planReturn [nd ""] = true := by decide +kernel
example : fixE (tostrBind echoOracle [nd "BIND(C)", nd "a, /b/"]) planBind [nd "BIND(C)", nd "a, /b/"] = true := by
  decide +kernel
example : fixE (tostrBind echoOracle [nd "x:", nd "a"]) planBind [nd "x:", nd "a"] = true := by decide +kernel
example : fixE (tostrTarget echoOracle [nd "a(:), b"]) planTarget [nd "a(:), b"] = true := by decide +kernel
example : fixE (tostrBinary echoOracle [nd "k", .str "=".toList, nd "kind(0.0)"]) planTypeParamDecl
    [nd "k", .str "=".toList, nd "kind(0.0)"] = true := by decide +kernel
example : fixE (tostrBinary echoOracle [nd "red", .str "=".toList, nd "a == b"]) planEnumerator
    [nd "red", .str "=".toList, nd "a == b"] = true := by decide +kernel
example : fixE (tostrStmtFunction echoOracle [nd "f", nd "x, y", nd "x + y"]) planStmtFunction
    [nd "f", nd "x, y", nd "x + y"] = true := by decide +kernel
example : fixE (tostrStmtFunction echoOracle [nd "f", .none, nd "g(1) = 2"]) planStmtFunction
    [nd "f", .none, nd "g(1) = 2"] = true := by decide +kernel
example : fixE (tostrWhereConstruct echoOracle [nd "a > (b)"]) planWhereConstruct [nd "a > (b)"] = true := by
  decide +kernel
example : fixE (tostrDeclTypeSpec echoOracle [.str "TYPE".toList, nd "t(k = 4)"]) planDeclTypeSpec
    [.str "TYPE".toList, nd "t(k = 4)"] = true := by decide +kernel
example : fixE (tostrDeclTypeSpec echoOracle [.str "CLASS".toList, nd "t"]) planDeclTypeSpec
    [.str "CLASS".toList, nd "t"] = true := by decide +kernel
example : fixE (tostrRename echoOracle [.none, nd "a", nd "b"]) planRename [.none, nd "a", nd "b"] = true := by
  decide +kernel
example : renameOpShape "OPERATOR(.x.)".toList "b".toList = false ∧
    fixE (tostrRename echoOracle [.none, nd "OPERATOR(.x.)", nd "b"]) planRename
      [.none, nd "OPERATOR(.x.)", nd "b"] = true := by decide +kernel
/-- quote characters and blanks inside the file name are kept -/
example : fixE (tostrInclude echoOracle [nd "a'b"]) planInclude [nd "a'b"] = true ∧
    fixE (tostrInclude echoOracle [nd " x "]) planInclude [nd " x "] = true := by decide +kernel

/-! ### necessity: without the side condition the printed text is NOT matched with the same items
(each line: the items, the text they print, what the same class matches from that text) -/

/-- `lstrip` of the unit -/
example : tostrPos kwFlush echoOracle [nd " 6", .none] = .ok "FLUSH  6".toList ∧
    rmE (planPos kwFlush) "FLUSH  6".toList = .ok [nd "6", .none] := by decide +kernel
/-- `startsC '('`: a unit printed as `(x)` is taken for a position-spec list -/
example : tostrPos kwFlush echoOracle [nd "(x)", .none] = .ok "FLUSH (x)".toList ∧
    rmE (planPos kwFlush) "FLUSH (x)".toList = .ok [.none, nd "x"] := by decide +kernel
/-- tight position-spec list -/
example : tostrPos kwFlush echoOracle [.none, nd "a "] = .ok "FLUSH(a )".toList ∧
    rmE (planPos kwFlush) "FLUSH(a )".toList = .ok [.none, nd "a"] := by decide +kernel
/-- `upper kw = kw`: the printed keyword is compared with the UPPER-cased prefix -/
example : tostrPos "flush".toList echoOracle [nd "6", .none] = .ok "flush 6".toList ∧
    rmE (planPos "flush".toList) "flush 6".toList = .noMatch := by decide +kernel
/-- `lstrip` of the expression -/
example : tostrReturn echoOracle [nd " 1"] = .ok "RETURN  1".toList ∧
    rmE planReturn "RETURN  1".toList = .ok [nd "1"] := by decide +kernel
/-- `::` inside the binding spec (the statement is cut at the FIRST `::`) -/
example : tostrBind echoOracle [nd "a::b", nd "c"] = .ok "a::b :: c".toList ∧
    rmE planBind "a::b :: c".toList = .ok [nd "a", nd "b :: c"] := by decide +kernel
/-- `rstrip` of the binding spec -/
example : tostrBind echoOracle [nd "a ", nd "c"] = .ok "a  :: c".toList ∧
    rmE planBind "a  :: c".toList = .ok [nd "a", nd "c"] := by decide +kernel
/-- empty binding spec -/
example : tostrBind echoOracle [nd "", nd "c"] = .ok " :: c".toList ∧
    rmE planBind " :: c".toList = .noMatch := by decide +kernel
/-- `lstrip` of the entity list -/
example : tostrBind echoOracle [nd "a", nd " c"] = .ok "a ::  c".toList ∧
    rmE planBind "a ::  c".toList = .ok [nd "a", nd "c"] := by decide +kernel
/-- empty entity list -/
example : tostrBind echoOracle [nd "a", nd ""] = .ok "a :: ".toList ∧
    rmE planBind "a :: ".toList = .noMatch := by decide +kernel
/-- `lstrip` of the entity list -/
example : tostrTarget echoOracle [nd " x"] = .ok "TARGET ::  x".toList ∧
    rmE planTarget "TARGET ::  x".toList = .ok [nd "x"] := by decide +kernel
/-- `=` inside the name (cut at the FIRST `=`) -/
example : tostrBinary echoOracle [nd "a=b", .str "=".toList, nd "c"] = .ok "a=b = c".toList ∧
    rmE planTypeParamDecl "a=b = c".toList = .ok [nd "a", .str "=".toList, nd "b = c"] := by decide +kernel
/-- `rstrip` of the name -/
example : tostrBinary echoOracle [nd "a ", .str "=".toList, nd "c"] = .ok "a  = c".toList ∧
    rmE planTypeParamDecl "a  = c".toList = .ok [nd "a", .str "=".toList, nd "c"] := by decide +kernel
/-- empty name -/
example : tostrBinary echoOracle [nd "", .str "=".toList, nd "c"] = .ok " = c".toList ∧
    rmE planTypeParamDecl " = c".toList = .noMatch := by decide +kernel
/-- `lstrip` of the expression -/
example : tostrBinary echoOracle [nd "a", .str "=".toList, nd " c"] = .ok "a =  c".toList ∧
    rmE planTypeParamDecl "a =  c".toList = .ok [nd "a", .str "=".toList, nd "c"] := by decide +kernel
/-- empty expression -/
example : tostrBinary echoOracle [nd "a", .str "=".toList, nd ""] = .ok "a = ".toList ∧
    rmE planTypeParamDecl "a = ".toList = .noMatch := by decide +kernel
/-- `=` inside the constant -/
example : tostrBinary echoOracle [nd "a=b", .str "=".toList, nd "c"] = .ok "a=b = c".toList ∧
    rmE planEnumerator "a=b = c".toList = .ok [nd "a", .str "=".toList, nd "b = c"] := by decide +kernel
/-- `rstrip` of the constant -/
example : tostrBinary echoOracle [nd "a ", .str "=".toList, nd "c"] = .ok "a  = c".toList ∧
    rmE planEnumerator "a  = c".toList = .ok [nd "a", .str "=".toList, nd "c"] := by decide +kernel
/-- `lstrip` of the expression -/
example : tostrBinary echoOracle [nd "a", .str "=".toList, nd " c"] = .ok "a =  c".toList ∧
    rmE planEnumerator "a =  c".toList = .ok [nd "a", .str "=".toList, nd "c"] := by decide +kernel
/-- `Enumerator.match` accepts empty sides (no emptiness condition needed) -/
example : tostrBinary echoOracle [nd "", .str "=".toList, nd ""] = .ok " = ".toList ∧
    rmE planEnumerator " = ".toList = .ok [nd "", .str "=".toList, nd ""] := by decide +kernel
/-- `=` inside the function name -/
example : tostrStmtFunction echoOracle [nd "f=g", nd "x", nd "e"] = .ok "f=g (x) = e".toList ∧
    rmE planStmtFunction "f=g (x) = e".toList = .noMatch := by decide +kernel
/-- `(` inside the function name (the arguments are found with `find("(")`) -/
example : tostrStmtFunction echoOracle [nd "f(", nd "x", nd "e"] = .ok "f( (x) = e".toList ∧
    rmE planStmtFunction "f( (x) = e".toList = .ok [nd "f", nd "(x", nd "e"] := by decide +kernel
/-- `rstrip` of the function name -/
example : tostrStmtFunction echoOracle [nd "f ", nd "x", nd "e"] = .ok "f  (x) = e".toList ∧
    rmE planStmtFunction "f  (x) = e".toList = .ok [nd "f", nd "x", nd "e"] := by decide +kernel
/-- empty function name -/
example : tostrStmtFunction echoOracle [nd "", nd "x", nd "e"] = .ok " (x) = e".toList ∧
    rmE planStmtFunction " (x) = e".toList = .noMatch := by decide +kernel
/-- `=` inside the dummy arguments -/
example : tostrStmtFunction echoOracle [nd "f", nd "a=b", nd "e"] = .ok "f (a=b) = e".toList ∧
    rmE planStmtFunction "f (a=b) = e".toList = .noMatch := by decide +kernel
/-- tight dummy arguments -/
example : tostrStmtFunction echoOracle [nd "f", nd " x", nd "e"] = .ok "f ( x) = e".toList ∧
    rmE planStmtFunction "f ( x) = e".toList = .ok [nd "f", nd "x", nd "e"] := by decide +kernel
/-- tight dummy arguments -/
example : tostrStmtFunction echoOracle [nd "f", nd "x ", nd "e"] = .ok "f (x ) = e".toList ∧
    rmE planStmtFunction "f (x ) = e".toList = .ok [nd "f", nd "x", nd "e"] := by decide +kernel
/-- an empty dummy-argument list comes back as `None` -/
example : tostrStmtFunction echoOracle [nd "f", nd "", nd "e"] = .ok "f () = e".toList ∧
    rmE planStmtFunction "f () = e".toList = .ok [nd "f", .none, nd "e"] := by decide +kernel
/-- `lstrip` of the expression -/
example : tostrStmtFunction echoOracle [nd "f", nd "x", nd " e"] = .ok "f (x) =  e".toList ∧
    rmE planStmtFunction "f (x) =  e".toList = .ok [nd "f", nd "x", nd "e"] := by decide +kernel
/-- empty expression -/
example : tostrStmtFunction echoOracle [nd "f", nd "x", nd ""] = .ok "f (x) = ".toList ∧
    rmE planStmtFunction "f (x) = ".toList = .noMatch := by decide +kernel
/-- tight mask -/
example : tostrWhereConstruct echoOracle [nd "m "] = .ok "WHERE (m )".toList ∧
    rmE planWhereConstruct "WHERE (m )".toList = .ok [nd "m"] := by decide +kernel
/-- empty mask -/
example : tostrWhereConstruct echoOracle [nd ""] = .ok "WHERE ()".toList ∧
    rmE planWhereConstruct "WHERE ()".toList = .noMatch := by decide +kernel
/-- tight type spec -/
example : tostrDeclTypeSpec echoOracle [.str "TYPE".toList, nd " t"] = .ok "TYPE( t)".toList ∧
    rmE planDeclTypeSpec "TYPE( t)".toList = .ok [.str "TYPE".toList, nd "t"] := by decide +kernel
/-- a derived-type spec printed as `*` comes back as the string `*` -/
example : tostrDeclTypeSpec echoOracle [.str "CLASS".toList, nd "*"] = .ok "CLASS(*)".toList ∧
    rmE planDeclTypeSpec "CLASS(*)".toList = .ok [.str "CLASS".toList, .str "*".toList] := by decide +kernel
/-- `=>` inside the local name (cut at the FIRST `=>`) -/
example : tostrRename echoOracle [.none, nd "a=>b", nd "c"] = .ok "a=>b => c".toList ∧
    rmE planRename "a=>b => c".toList = .ok [.none, nd "a", nd "b => c"] := by decide +kernel
/-- `rstrip` of the local name -/
example : tostrRename echoOracle [.none, nd "a ", nd "c"] = .ok "a  => c".toList ∧
    rmE planRename "a  => c".toList = .ok [.none, nd "a", nd "c"] := by decide +kernel
/-- empty local name -/
example : tostrRename echoOracle [.none, nd "", nd "c"] = .ok " => c".toList ∧
    rmE planRename " => c".toList = .noMatch := by decide +kernel
/-- `lstrip` of the use name -/
example : tostrRename echoOracle [.none, nd "a", nd " c"] = .ok "a =>  c".toList ∧
    rmE planRename "a =>  c".toList = .ok [.none, nd "a", nd "c"] := by decide +kernel
/-- empty use name -/
example : tostrRename echoOracle [.none, nd "a", nd ""] = .ok "a => ".toList ∧
    rmE planRename "a => ".toList = .noMatch := by decide +kernel
/-- `renameOpShape`: two names printed as `OPERATOR(…)` are matched as defined operators -/
example : tostrRename echoOracle [.none, nd "OPERATOR(.x.)", nd "OPERATOR(.y.)"] = .ok "OPERATOR(.x.) => OPERATOR(.y.)".toList ∧
    rmE planRename "OPERATOR(.x.) => OPERATOR(.y.)".toList = .ok [.str "OPERATOR".toList, nd ".x.", nd ".y."] := by decide +kernel
/-- … or not at all -/
example : tostrRename echoOracle [.none, nd "OPERATOR(.x.)", nd "OPERATOR .y."] = .ok "OPERATOR(.x.) => OPERATOR .y.".toList ∧
    rmE planRename "OPERATOR(.x.) => OPERATOR .y.".toList = .noMatch := by decide +kernel
/-- empty file name -/
example : tostrInclude echoOracle [nd ""] = .ok "INCLUDE ''".toList ∧
    rmE planInclude "INCLUDE ''".toList = .noMatch := by decide +kernel

/-! ## axioms -/
#print axioms cutSub2_append
#print axioms pos_match_tostr_fixpoint_unit
#print axioms pos_match_tostr_fixpoint_list
#print axioms return_match_tostr_fixpoint_bare
#print axioms return_match_tostr_fixpoint
#print axioms bind_match_tostr_fixpoint
#print axioms target_match_tostr_fixpoint
#print axioms typeParamDecl_match_tostr_fixpoint
#print axioms enumerator_match_tostr_fixpoint
#print axioms stmtFunction_match_tostr_fixpoint
#print axioms stmtFunction_match_tostr_fixpoint_noargs
#print axioms whereConstruct_match_tostr_fixpoint
#print axioms declTypeSpec_match_tostr_fixpoint_type
#print axioms declTypeSpec_match_tostr_fixpoint_class
#print axioms declTypeSpec_match_tostr_fixpoint_star
#print axioms rename_match_tostr_fixpoint
#print axioms include_match_tostr_fixpoint
#print axioms deferredShape_match_tostr_fixpoint

end Fp.Rest
