import FparserModel.Proofs.BlockForest

/-!
# M-D proofs, part 9 (C16): the scope skeleton of a result tree, and what a successful call
adds to the symbol tables

* `SNode` / `Forest`      : the name/nesting skeleton of a forest of symbol tables;
* `scopeSkeleton tbl t`   : the forest of scoping nodes of a result tree;
* `Gain s s' sk`          : between `s` and `s'` the tables gained exactly new closed tables of
  shape `sk`, appended (in order) as the last children of the scope that is current in `s`
  (as top-level tables when no scope is open); everything else — the other top-level tables,
  the whole chain of open tables with their children — is the same;
* `Discipline env S`      : "scoping statements are matched only as block starts" — the
  hypothesis that makes the start statement of a block node recognisable in the tree.
-/
namespace Fp.Block

/-! ## skeletons -/

/-- a symbol table reduced to its name and its nested tables -/
inductive SNode where
  | mk (name : Name) (kids : List SNode)
  deriving Repr

abbrev Forest := List SNode

mutual
def SNode.beq : SNode → SNode → Bool
  | .mk n ks, .mk m ls => n == m && SNode.beqL ks ls
def SNode.beqL : List SNode → List SNode → Bool
  | [], [] => true
  | a :: as, b :: bs => SNode.beq a b && SNode.beqL as bs
  | _, _ => false
end

mutual
theorem SNode.beq_iff : ∀ (a b : SNode), SNode.beq a b = true ↔ a = b
  | .mk n ks, .mk m ls => by
    simp only [SNode.beq, Bool.and_eq_true, beq_iff_eq, SNode.mk.injEq]
    rw [SNode.beqL_iff ks ls]
theorem SNode.beqL_iff : ∀ (a b : List SNode), SNode.beqL a b = true ↔ a = b
  | [], [] => by simp [SNode.beqL]
  | [], _ :: _ => by simp [SNode.beqL]
  | _ :: _, [] => by simp [SNode.beqL]
  | a :: as, b :: bs => by
    simp only [SNode.beqL, Bool.and_eq_true, List.cons.injEq]
    rw [SNode.beq_iff a b, SNode.beqL_iff as bs]
end

instance : DecidableEq SNode := fun a b =>
  if h : SNode.beq a b = true then isTrue ((SNode.beq_iff a b).1 h)
  else isFalse (fun e => h ((SNode.beq_iff a b).2 e))

mutual
/-- forget the identity of a table -/
def Scope.shape : Scope → SNode
  | .mk _ n ks => .mk n (shapeL ks)
def shapeL : List Scope → Forest
  | [] => []
  | s :: ss => s.shape :: shapeL ss
end

theorem shapeL_append (a b : List Scope) : shapeL (a ++ b) = shapeL a ++ shapeL b := by
  induction a with
  | nil => simp [shapeL]
  | cons x xs ih => simp [shapeL, ih]

theorem shapeL_eq_nil {l : List Scope} (h : shapeL l = []) : l = [] := by
  cases l with
  | nil => rfl
  | cons x xs => simp [shapeL] at h

mutual
/-- C16: the forest of scoping nodes of a result tree, nested as the tree nests them, in
frontier order.  A node scopes when

* its class is a `BlockBase.match` block with a start class and its start statement — the first
  child that is a sub-tree or a `ScopingRegionMixin` statement (`skStart`; the children before it
  are the leading comments / includes / directives) — is such a statement: the table has the
  name that statement reported (`get_scope_name()`);
* its class is `Main_Program0`: the table has the fixed name of the class.

All other nodes (`Specification_Part`, `Execution_Part`, `If_Construct`, …, `Program`) are
transparent: the tables of their children are tables of the enclosing scope. -/
def scopeSkeleton (tbl : Table) : Tree → Forest
  | .leaf .. => []
  | .node c ks =>
    match tbl.kind c with
    | .block cfg _ => if cfg.start.isSome then skStart tbl ks else skL tbl ks
    | .main0 cfg scope _ => [.mk scope (if cfg.start.isSome then skStart tbl ks else skL tbl ks)]
    | _ => skL tbl ks
/-- the skeletons of a list of sibling trees, in order -/
def skL (tbl : Table) : List Tree → Forest
  | [] => []
  | t :: ts => scopeSkeleton tbl t ++ skL tbl ts
/-- the children of a block node that has a start class -/
def skStart (tbl : Table) : List Tree → Forest
  | [] => []
  | t :: ts =>
    match t with
    | .leaf _ _ info =>
      if info.scoping then
        match info.scopeName with
        | some n => [.mk n (skL tbl ts)]
        | none => skL tbl ts
      else skStart tbl ts
    | .node _ _ => scopeSkeleton tbl t ++ skL tbl ts
end

/-- the children of a `BlockBase.match(cfg)` result -/
def blockSk (tbl : Table) (cfg : Cfg) (ks : List Tree) : Forest :=
  if cfg.start.isSome then skStart tbl ks else skL tbl ks

theorem skL_append (tbl : Table) (a b : List Tree) : skL tbl (a ++ b) = skL tbl a ++ skL tbl b := by
  induction a with
  | nil => simp [skL]
  | cons x xs ih => simp [skL, ih]

theorem sk_leaf {tbl : Table} {t : Tree} (h : isLeafT t) : scopeSkeleton tbl t = [] := by
  cases t with
  | leaf => simp [scopeSkeleton]
  | node => exact absurd h id

theorem skL_leaves {tbl : Table} {l : List Tree} (h : ∀ t ∈ l, isLeafT t) : skL tbl l = [] := by
  induction l with
  | nil => simp [skL]
  | cons x xs ih =>
    simp [skL, sk_leaf (h x (by simp)), ih (fun t ht => h t (by simp [ht]))]

/-- not a `ScopingRegionMixin` statement -/
def plainT : Tree → Prop
  | .leaf _ _ info => info.scoping = false
  | .node .. => True

/-- a statement that is not a `ScopingRegionMixin` -/
def plainLeaf : Tree → Prop
  | .leaf _ _ info => info.scoping = false
  | .node .. => False

theorem plainLeaf.plain {t : Tree} (h : plainLeaf t) : plainT t := by
  cases t <;> simp_all [plainLeaf, plainT]
theorem plainLeaf.leaf {t : Tree} (h : plainLeaf t) : isLeafT t := by
  cases t <;> simp_all [plainLeaf, isLeafT]

theorem skStart_plain {tbl : Table} {l : List Tree} (h : ∀ t ∈ l, plainT t) :
    skStart tbl l = skL tbl l := by
  induction l with
  | nil => simp [skStart, skL]
  | cons x xs ih =>
    have hx := h x (by simp)
    have ih' := ih (fun t ht => h t (by simp [ht]))
    cases x with
    | leaf c i info =>
      simp only [plainT] at hx
      simp [skStart, skL, hx, ih', scopeSkeleton]
    | node c ks => simp [skStart, skL]

theorem skStart_skip {tbl : Table} {pre rest : List Tree} (h : ∀ t ∈ pre, plainLeaf t) :
    skStart tbl (pre ++ rest) = skStart tbl rest := by
  induction pre with
  | nil => simp
  | cons x xs ih =>
    have hx := h x (by simp)
    cases x with
    | leaf c i info =>
      simp only [plainLeaf] at hx
      simp [skStart, hx, ih (fun t ht => h t (by simp [ht]))]
    | node c ks => exact absurd hx id

/-! ## what a call adds to the tables -/

/-- `new` closed tables appended at the current scope -/
def SymTabs.grow (t : SymTabs) (new : List Scope) : List Scope × List Frame :=
  match t.stack with
  | [] => (t.tops ++ new, [])
  | f :: fs => (t.tops, { f with kids := f.kids ++ new } :: fs)

/-- between `s` and `s'` the symbol tables gained exactly closed tables of shape `sk`, as the
last children of the scope current in `s` (top-level tables if none is open), in that order;
nothing else changed: same other top-level tables, same chain of open tables -/
def Gain (s s' : St) (sk : Forest) : Prop :=
  ∃ new, shapeL new = sk ∧ s'.sym.tops = (s.sym.grow new).1 ∧ s'.sym.stack = (s.sym.grow new).2

theorem SymTabs.grow_nil (t : SymTabs) : t.grow [] = (t.tops, t.stack) := by
  unfold SymTabs.grow
  split
  · rename_i h; simp [h]
  · rename_i f fs h; simp [h]

theorem Gain.of_symEq {s s' : St} (h : SymEq s s') : Gain s s' [] :=
  ⟨[], rfl, by rw [SymTabs.grow_nil]; exact h.1, by rw [SymTabs.grow_nil]; exact h.2⟩

theorem Gain.symEq {s s' : St} (h : Gain s s' []) : SymEq s s' := by
  obtain ⟨new, hn, h1, h2⟩ := h
  have := shapeL_eq_nil hn
  subst this
  rw [SymTabs.grow_nil] at h1 h2
  exact ⟨h1, h2⟩

theorem Gain.refl (s : St) : Gain s s [] := Gain.of_symEq (SymEq.refl s)

theorem Gain.trans {a b c : St} {x y : Forest} (h1 : Gain a b x) (h2 : Gain b c y) :
    Gain a c (x ++ y) := by
  obtain ⟨n1, e1, t1, s1⟩ := h1
  obtain ⟨n2, e2, t2, s2⟩ := h2
  refine ⟨n1 ++ n2, by rw [shapeL_append, e1, e2], ?_, ?_⟩
  · unfold SymTabs.grow at *
    cases ha : a.sym.stack with
    | nil =>
      simp only [ha] at t1 s1
      simp only [s1] at t2 s2
      simp [t2, t1]
    | cons f fs =>
      simp only [ha] at t1 s1
      simp only [s1] at t2 s2
      simp [t2, t1]
  · unfold SymTabs.grow at *
    cases ha : a.sym.stack with
    | nil =>
      simp only [ha] at t1 s1
      simp only [s1] at t2 s2
      simp [s2]
    | cons f fs =>
      simp only [ha] at t1 s1
      simp only [s1] at t2 s2
      simp [s2]

theorem Gain.pre {a b c : St} {x : Forest} (h1 : SymEq a b) (h2 : Gain b c x) : Gain a c x := by
  simpa using (Gain.of_symEq h1).trans h2

theorem Gain.post {a b c : St} {x : Forest} (h1 : Gain a b x) (h2 : SymEq b c) : Gain a c x := by
  simpa using h1.trans (Gain.of_symEq h2)

theorem Gain.post_ss {a b c : St} {x : Forest} (h1 : Gain a b x) (h2 : SS b c) : Gain a c x :=
  h1.post (SymEq.of_sym h2)

theorem Gain.pre_ss {a b c : St} {x : Forest} (h1 : SS a b) (h2 : Gain b c x) : Gain a c x :=
  Gain.pre (SymEq.of_sym h1) h2

theorem Gain.cast {a b : St} {x y : Forest} (h : Gain a b x) (e : x = y) : Gain a b y := e ▸ h

/-- `enter_scope(n)` (creating a table: no top-level table `n` to re-use), a body that adds
tables of shape `sk` to it, `exit_scope()`: one new table `n` with children `sk` -/
theorem Gain.bracket {sp sL : St} {n : Name} {sk : Forest}
    (hc : sp.sym.stack = [] → findNamed n sp.sym.tops = none)
    (h : Gain (sp.enter n) sL sk) :
    ∃ s3, sL.exit = (true, s3) ∧ Gain sp s3 [.mk n sk] := by
  obtain ⟨new, hn, h1, h2⟩ := h
  unfold SymTabs.grow at h1 h2
  simp only [St.enter, SymTabs.enter] at h1 h2
  cases hst : sp.sym.stack with
  | nil =>
    simp only [hst, hc hst] at h1 h2
    simp only [List.nil_append] at h2
    refine ⟨{ sL.ev .exit with sym := { sL.sym with
        tops := sL.sym.tops ++ [Frame.close ⟨sp.sym.next, n, new⟩], stack := [] } }, ?_, ?_⟩
    · unfold St.exit SymTabs.exit; rw [h2]
    · refine ⟨[.mk sp.sym.next n new], by simp [shapeL, Scope.shape, hn], ?_, ?_⟩
      · simp [SymTabs.grow, hst, St.ev, h1, Frame.close]
      · simp [SymTabs.grow, hst, St.ev]
  | cons f fs =>
    simp only [hst] at h1 h2
    simp only [List.nil_append] at h2
    refine ⟨{ sL.ev .exit with sym := { sL.sym with
        stack := { f with kids := f.kids ++ [Frame.close ⟨sp.sym.next, n, new⟩] } :: fs } }, ?_, ?_⟩
    · unfold St.exit SymTabs.exit; rw [h2]
    · refine ⟨[.mk sp.sym.next n new], by simp [shapeL, Scope.shape, hn], ?_, ?_⟩
      · simp [SymTabs.grow, hst, St.ev, h1]
      · simp [SymTabs.grow, hst, St.ev, Frame.close]

/-- no `nameClash` means in particular: no top-level table to re-use -/
theorem noclash_top {t : SymTabs} {n : Name} (h : t.clashes n = false) :
    t.stack = [] → findNamed n t.tops = none := by
  intro hs
  unfold SymTabs.clashes at h
  simp only [hs] at h
  exact isSome_false h

/-! ## the discipline: scoping statements are matched only as block starts -/

/-- the classes tried when `cls.match` gave nothing (`Base.subclasses`), resp. the leaf classes
of `match_cpp_directive` -/
def altsOf : Kind → List Cls
  | .leaf => []
  | .alt subs => subs
  | .block _ subs => subs
  | .many _ subs => subs
  | .seqNR _ subs => subs
  | .main0 _ _ subs => subs
  | .program _ _ subs => subs
  | .comment => []
  | .directive => []
  | .cpp cs => cs

def cfgOf : Kind → Option Cfg
  | .block cfg _ => some cfg
  | .main0 cfg _ _ => some cfg
  | _ => none

/-- `S` = the classes whose statements may be `ScopingRegionMixin`s.  They are only ever asked
for as the start class of a block (not of a same-label-DO block, which also collects further
start statements as content): never as block content, end statement, alternative of a
non-`S` class, comment / include / cpp class, or as the `Main_Program0` class. -/
structure Discipline (env : Env) (S : Cls → Bool) : Prop where
  orc : ∀ i c info, (env.orc i c).res = .matched info → info.scoping = true → S c = true
  alts : ∀ c, S c = false → ∀ d ∈ altsOf (env.tbl.kind c), S d = false
  subs : ∀ c cfg, cfgOf (env.tbl.kind c) = some cfg → ∀ d ∈ cfg.subs, S d = false
  ends : ∀ c cfg, cfgOf (env.tbl.kind c) = some cfg → ∀ d ∈ cfg.end_.toList, S d = false
  hook : ∀ c cfg, cfgOf (env.tbl.kind c) = some cfg → cfg.doHook = true →
    ∀ d ∈ cfg.start.toList, S d = false
  comment : S env.tbl.comment = false
  directive : S env.tbl.directive = false
  includeStmt : S env.tbl.includeStmt = false
  cppFn : S env.tbl.cppFn = false
  main0 : ∀ c unit m subs, env.tbl.kind c = .program unit m subs → S m = false

variable {env : Env} {S : Cls → Bool}

theorem Discipline.cppClasses (hd : Discipline env S) : ∀ c ∈ cppClasses env, S c = false := by
  intro c hc
  unfold Fp.Block.cppClasses at hc
  split at hc
  · rename_i cs hk
    have := hd.alts _ hd.cppFn c
    rw [hk] at this
    exact this hc
  · cases hc

theorem Discipline.blockClasses (hd : Discipline env S) {c : Cls} {cfg : Cfg}
    (hk : cfgOf (env.tbl.kind c) = some cfg) : ∀ d ∈ blockClasses env cfg, S d = false := by
  intro d hdm
  unfold Fp.Block.blockClasses at hdm
  simp only [List.mem_append, List.mem_cons, List.mem_singleton] at hdm
  rcases hdm with (((h | h) | h) | h) | h
  · exact hd.subs c cfg hk d h
  · split at h
    · simp only [List.mem_singleton] at h; rw [h]; exact hd.directive
    · cases h
  · simp only [List.not_mem_nil, or_false] at h
    rcases h with h | h
    · rw [h]; exact hd.comment
    · rw [h]; exact hd.includeStmt
  · exact hd.ends c cfg hk d h
  · simp only [List.not_mem_nil, or_false] at h; rw [h]; exact hd.cppFn

/-! ### the leaves returned for non-`S` classes are plain -/

theorem leafNew_pl (hd : Discipline env S) {c : Cls} {pc : List Cls} {s : St} {t : Tree}
    (hS : S c = false) (heq : (leafNew env c pc s).1 = .tree t) : plainLeaf t := by
  have key : ∀ info, (env.orc (0 : Nat) c).res = (env.orc 0 c).res → ∀ i,
      (env.orc i c).res = .matched info → info.scoping = false := by
    intro info _ i h
    cases hsc : info.scoping with
    | false => rfl
    | true => have := hd.orc i c info h hsc; rw [hS] at this; cases this
  unfold leafNew at heq
  split at heq
  · cases heq
  · split at heq
    · cases heq
    · simp only at heq
      split at heq
      · split at heq
        · rename_i info hm
          simp only [Outcome.tree.injEq] at heq
          subst heq
          exact key info rfl _ hm
        · cases heq
      · split at heq
        · rename_i info hm
          simp only [Outcome.tree.injEq] at heq
          subst heq
          exact key info rfl _ hm
        · cases heq
        · cases heq
        · cases heq

theorem leafFresh_pl (hd : Discipline env S) {c : Cls} {s : St} {t : Tree}
    (hS : S c = false) (heq : (leafFresh env c s).1 = .tree t) : plainLeaf t := by
  unfold leafFresh at heq; exact leafNew_pl hd hS heq

theorem commentNew_pl {s : St} {t : Tree} (heq : (commentNew env s).1 = .tree t) :
    plainLeaf t := by
  unfold commentNew at heq
  split at heq
  · cases heq
  · split at heq
    · simp only [Outcome.tree.injEq] at heq; subst heq; rfl
    · cases heq

theorem directiveNew_pl {s : St} {t : Tree} (heq : (directiveNew env s).1 = .tree t) :
    plainLeaf t := by
  unfold directiveNew at heq
  split at heq
  · cases heq
  · split at heq
    · split at heq
      · simp only [Outcome.tree.injEq] at heq; subst heq; rfl
      · cases heq
    · cases heq

theorem firstLeaf_pl (hd : Discipline env S) {cs : List Cls} {s : St} {t : Tree}
    (hS : ∀ c ∈ cs, S c = false) (heq : (firstLeaf env cs s).1 = .tree t) : plainLeaf t := by
  induction cs generalizing s with
  | nil => simp only [firstLeaf] at heq; cases heq
  | cons c cs ih =>
    simp only [firstLeaf] at heq
    split at heq
    · exact ih (fun d hdm => hS d (by simp [hdm])) heq
    · rename_i r hne
      exact leafFresh_pl hd (hS c (by simp)) heq

theorem cppNew_pl (hd : Discipline env S) {cs : List Cls} {s : St} {t : Tree}
    (hS : ∀ c ∈ cs, S c = false) (heq : (cppNew env cs s).1 = .tree t) : plainLeaf t := by
  unfold cppNew at heq
  split at heq
  · cases heq
  · simp only at heq
    split at heq
    · exact firstLeaf_pl hd hS heq
    · cases heq

theorem cidRest_pl (hd : Discipline env S) {s : St} {t : Tree}
    (heq : (cidRest env s).1 = .tree t) : plainLeaf t := by
  unfold cidRest at heq
  split at heq
  · split at heq
    · exact cppNew_pl hd hd.cppClasses heq
    · exact leafFresh_pl hd hd.includeStmt heq
  · exact commentNew_pl heq

theorem cidOne_pl (hd : Discipline env S) {s : St} {t : Tree}
    (heq : (cidOne env s).1 = .tree t) : plainLeaf t := by
  unfold cidOne at heq
  split at heq
  · split at heq
    · exact cidRest_pl hd heq
    · exact directiveNew_pl heq
  · exact cidRest_pl hd heq

theorem addCID_pl (hd : Discipline env S) {k : Nat} {rc : List Tree} {s : St} {rc' : List Tree}
    {s' : St} (heq : addCID env k rc s = (.ok rc', s')) :
    ∃ new, rc' = new ++ rc ∧ ∀ t ∈ new, plainLeaf t := by
  induction k generalizing rc s with
  | zero => simp only [addCID] at heq; simp at heq
  | succ k ih =>
    simp only [addCID] at heq
    split at heq
    · rename_i t s1 h1
      obtain ⟨new, hn, hl⟩ := ih heq
      refine ⟨new ++ [t], by simp [hn], ?_⟩
      intro x hx
      simp at hx
      rcases hx with hx | rfl
      · exact hl x hx
      · exact cidOne_pl hd (by rw [h1])
    · simp only [Prod.mk.injEq, Except.ok.injEq] at heq
      exact ⟨[], by simp [heq.1], by simp⟩
    · simp at heq

/-- the recursive call returns plain trees for non-`S` classes -/
def FPl (S : Cls → Bool) (f : F) : Prop := ∀ c s t, S c = false → (f c s).1 = .tree t → plainT t
def GPl (S : Cls → Bool) (g : G) : Prop :=
  ∀ c pc s t, S c = false → (g c pc s).1 = .tree t → plainT t

theorem fresh_pl {g : G} (hg : GPl S g) : FPl S (fresh g) := by
  intro c s t hS h; unfold fresh at h; exact hg c [] s t hS h

theorem altLoop_pl {g : G} (hg : GPl S g) {ds pc : List Cls} {s : St} {t : Tree}
    (hS : ∀ d ∈ ds, S d = false) (heq : (altLoop env g ds pc s).1 = .tree t) : plainT t := by
  induction ds generalizing pc s with
  | nil =>
    simp only [altLoop, blankRule] at heq
    split at heq <;> cases heq
  | cons d ds ih =>
    have hS' : ∀ x ∈ ds, S x = false := fun x hx => hS x (by simp [hx])
    simp only [altLoop] at heq
    split at heq
    · exact ih hS' heq
    · split at heq
      · rename_i t1 pc1 s1 h1
        simp only [Outcome.tree.injEq] at heq
        subst heq
        exact hg d pc s _ (hS d (by simp)) (by rw [h1])
      · exact ih hS' heq
      · exact ih hS' heq
      · cases heq

theorem finish_pl {g : G} (hg : GPl S g) {c : Cls} {subs : List Cls} {r : MRes × St}
    {pc : List Cls} {t : Tree} (hS : ∀ d ∈ subs, S d = false)
    (heq : (finish env g c subs r pc).1 = .tree t) : plainT t := by
  unfold finish at heq
  split at heq
  · simp only [Outcome.tree.injEq] at heq; subst heq; trivial
  · exact altLoop_pl hg hS heq
  · exact altLoop_pl hg hS heq
  · cases heq

theorem eval_pl (hd : Discipline env S) (fuel : Nat) : GPl S (eval env fuel) := by
  induction fuel with
  | zero => intro c pc s t _ h; simp only [eval] at h; cases h
  | succ fuel ih =>
    intro c pc s t hS h
    have ha := hd.alts c hS
    simp only [eval] at h
    split at h
    · exact (leafNew_pl hd hS h).plain
    · rename_i subs hk; rw [hk] at ha; exact altLoop_pl ih ha h
    · rename_i cfg subs hk; rw [hk] at ha; exact finish_pl ih ha h
    · rename_i item subs hk; rw [hk] at ha; exact finish_pl ih ha h
    · rename_i cs subs hk; rw [hk] at ha; exact finish_pl ih ha h
    · rename_i cfg scope subs hk; rw [hk] at ha; exact finish_pl ih ha h
    · rename_i unit main0 subs hk
      rw [hk] at ha
      simp only at h
      generalize hfin : finish env (eval env fuel) c subs
        (programMatch env (fresh (eval env fuel)) fuel unit main0 s) [c] = fr at h
      have hp : programConvert fr.1 = .tree t → fr.1 = .tree t := by
        intro hh
        cases hfr : fr.1 with
        | none => rw [hfr] at hh; cases hh
        | tree t' => rw [hfr] at hh; exact hh
        | raise e => rw [hfr] at hh; cases e <;> cases hh
      have ha' : ∀ d ∈ subs, S d = false := ha
      exact finish_pl (r := programMatch env (fresh (eval env fuel)) fuel unit main0 s) (pc := [c])
        ih ha' (by rw [hfin]; exact hp h)
    · exact (commentNew_pl h).plain
    · exact (directiveNew_pl h).plain
    · rename_i cs hk; rw [hk] at ha; exact (cppNew_pl hd ha h).plain

end Fp.Block
