import FparserModel.Proofs.ReaderCount

/-!
# ReaderFree — a free-form reader never un-consumes a line

`Keep r r'`: the format flag is unchanged and an empty `filo_line` stays empty. All operations
used by the free-form path satisfy it, so in free form `linecount = len(source_lines)`.
-/
namespace Fp.Reader
open Fp

structure Keep (r r' : Rd) : Prop where
  free : r'.isFree = r.isFree
  filo : r.filo = [] → r'.filo = []

theorem Keep.refl (r : Rd) : Keep r r := ⟨rfl, id⟩
theorem Keep.trans {a b c : Rd} (h1 : Keep a b) (h2 : Keep b c) : Keep a c :=
  ⟨h2.free.trans h1.free, fun h => h2.filo (h1.filo h)⟩
theorem Keep.setFifo (r : Rd) (f : List Item) : Keep r { r with fifo := f } := ⟨rfl, id⟩

theorem getSingleLine_keep (r : Rd) : Keep r (getSingleLine r).2 := by
  unfold getSingleLine
  cases hf : r.filo with
  | cons l f => exact ⟨rfl, fun h => by simp [hf] at h⟩
  | nil =>
    simp only []
    by_cases hc : r.closed = true
    · simp only [hc, if_true]; exact ⟨rfl, fun _ => hf⟩
    · have hc' : r.closed = false := by simpa using hc
      simp only [hc', Bool.false_eq_true, if_false]
      cases pull (r.omp && !r.isFree) (r.ignoreComments && !r.isFree) r.src r.linecount r.linesRev with
      | mk o rest1 =>
        obtain ⟨src', lc', ls'⟩ := rest1
        cases o <;> exact ⟨rfl, fun _ => rfl⟩

theorem cppLoop_keep : ∀ (fuel : Nat) (line acc : Str) (s : Nat) (r : Rd),
    Keep r (cppLoop fuel line acc s r).2
  | 0, _, _, _, r => by simp only [cppLoop]; exact Keep.refl r
  | fuel + 1, line, acc, s, r => by
    unfold cppLoop
    simp only []
    split
    · have hg := getSingleLine_keep r
      cases hq : getSingleLine r with
      | mk o r' =>
        rw [hq] at hg
        cases o with
        | none => exact hg
        | some l2 => exact hg.trans (cppLoop_keep fuel l2 _ s r')
    · exact Keep.refl r

theorem freeLoop_keep (hadOmp : Bool) : ∀ (fuel : Nat) (line : Option Str) (started : Bool) (acc : Str)
    (q : Option Char) (label : Option Nat) (name : Option Str) (endl : Nat) (r : Rd),
    Keep r (freeLoop hadOmp fuel line started acc q label name endl r).r
  | 0, _, _, _, _, _, _, _, r => by simp only [freeLoop]; exact Keep.refl r
  | fuel + 1, none, _, _, _, _, _, _, r => by simp only [freeLoop]; exact Keep.refl r
  | fuel + 1, some line0, started, acc, q, label, name, endl, r => by
    unfold freeLoop
    simp only []
    generalize (if hadOmp = true then (replaceSentinelFreeCont line0).1 else line0) = line
    split
    · have ha := Keep.setFifo r (r.fifo ++ [Item.comment (lstrip line) r.linecount r.linecount false])
      generalize ({ r with fifo := r.fifo ++ [Item.comment (lstrip line) r.linecount r.linecount false] } : Rd) = r1
        at ha ⊢
      exact (ha.trans (getSingleLine_keep r1)).trans (freeLoop_keep hadOmp fuel _ _ _ _ _ _ _ _)
    · split
      · exact (getSingleLine_keep r).trans (freeLoop_keep hadOmp fuel _ _ _ _ _ _ _ _)
      · generalize freeStep started line r.linecount q label name = stp
        have ha := Keep.setFifo r (r.fifo ++ stp.h.comments)
        generalize ({ r with fifo := r.fifo ++ stp.h.comments } : Rd) = r1 at ha ⊢
        split
        · exact (ha.trans (getSingleLine_keep r1)).trans (freeLoop_keep hadOmp fuel _ _ _ _ _ _ _ _)
        · exact ha

theorem freeItem_keep (r : Rd) (line : Str) (hadOmp : Bool) (s : Nat) :
    Keep r (freeItem r line hadOmp s).2 := by
  unfold freeItem
  have hl := freeLoop_keep hadOmp (r.src.length + r.filo.length + 2) (some line) false [] none none none
    r.linecount r
  generalize freeLoop hadOmp (r.src.length + r.filo.length + 2) (some line) false [] none none none
    r.linecount r = o at hl
  simp only []
  split
  · exact hl
  · split
    · exact hl
    · split
      · exact hl
      · split
        · exact hl.trans (Keep.setFifo _ _)
        · exact hl

theorem getSourceItem_keep (r : Rd) (hf : r.isFree = true) : Keep r (getSourceItem r).2 := by
  unfold getSourceItem
  have hg := getSingleLine_keep r
  cases hq : getSingleLine r with
  | mk o r1 =>
    rw [hq] at hg
    cases o with
    | none => exact hg
    | some line0 =>
      simp only [] at hg ⊢
      have h1 : r1.isFree = true := by rw [hg.free]; exact hf
      by_cases c0 : (line0 != [] && startsWith (lstrip line0) ['#']) = true
      · simp only [c0, if_true]
        exact hg.trans (cppLoop_keep _ _ _ _ _)
      · simp only [c0, Bool.false_eq_true, if_false, h1, Bool.not_true]
        exact hg.trans (freeItem_keep _ _ _ _)

theorem popOrRead_keep (r : Rd) (hf : r.isFree = true) : Keep r (popOrRead r).2 := by
  unfold popOrRead
  cases r.fifo with
  | nil => exact getSourceItem_keep r hf
  | cons x f => exact Keep.setFifo r f

theorem nextRaw_keep : ∀ (fuel : Nat) (r : Rd), r.isFree = true → Keep r (nextRaw fuel r).2
  | 0, r, _ => Keep.refl r
  | fuel + 1, r, hf => by
    unfold nextRaw
    have hp := popOrRead_keep r hf
    generalize popOrRead r = p at hp ⊢
    simp only []
    cases p.1 with
    | ok it =>
      simp only []
      split
      · exact hp.trans (nextRaw_keep fuel p.2 (by rw [hp.free]; exact hf))
      · exact hp
    | stop => exact hp
    | err => exact hp
    | exit => exact hp
    | unsup => exact hp

theorem next1Loop_keep : ∀ (fuel : Nat) (r : Rd), r.isFree = true → Keep r (next1Loop fuel r).2
  | 0, r, _ => Keep.refl r
  | fuel + 1, r, hf => by
    unfold next1Loop
    have hp := nextRaw_keep (nextRawFuel r) r hf
    generalize nextRaw (nextRawFuel r) r = p at hp ⊢
    simp only []
    cases p.1 with
    | ok it =>
      simp only []
      cases hq : splitSemicolon it p.2 with
      | none =>
        simp only []
        exact hp.trans (next1Loop_keep fuel p.2 (by rw [hp.free]; exact hf))
      | some q =>
        simp only []
        obtain ⟨f, hst⟩ := splitSemicolon_state it p.2 q hq
        rw [hst]
        exact hp.trans (Keep.setFifo _ _)
    | stop => exact hp
    | err => exact hp
    | exit => exact hp
    | unsup => exact hp

theorem next1_keep (r : Rd) (hf : r.isFree = true) : Keep r (next1 r).2 :=
  next1Loop_keep _ r hf

/-- free form: `linecount` is exactly the number of physical lines read so far -/
theorem next1_free_linecount (r : Rd) (hf : r.isFree = true) (hfilo : r.filo = []) (hi : Inv r) :
    (next1 r).2.isFree = true ∧ (next1 r).2.filo = [] ∧
    (next1 r).2.linecount = (next1 r).2.sourceLines.length := by
  have hk := next1_keep r hf
  have hinv := (next1_post r).le.inv hi
  refine ⟨by rw [hk.free]; exact hf, hk.filo hfilo, ?_⟩
  have := hk.filo hfilo
  simp only [Inv, this, List.length_nil, Nat.add_zero] at hinv
  simp [Rd.sourceLines, hinv]

end Fp.Reader
