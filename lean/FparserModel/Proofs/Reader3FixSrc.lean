import FparserModel.Proofs.Reader3FixItem

/-!
# Reader3FixSrc — `ReadsAt` for explicit fixed-form reader states

Non-strict fixed form, `include_omp_conditional_lines = False`, nothing pushed back, source not
closed. With `ignore_comments` the comment lines never surface (`pull` skips them, counting them
in `linecount` and `source_lines`).
-/
namespace Fp.Reader
open Fp

/-- the lines that `get_single_line` returns for the physical lines `ls` read after `lc` lines,
    with their line numbers -/
def surf (ic : Bool) : Nat → List Str → List (Str × Nat)
  | _, [] => []
  | lc, l :: ls =>
    if ic && isFixCommentS (cook l) then surf ic (lc + 1) ls else (cook l, lc + 1) :: surf ic (lc + 1) ls

/-- the reader after the physical lines `ls` have been pulled -/
def adv (r : Rd) (ls rest : List Str) : Rd :=
  { r with src := rest, linecount := r.linecount + ls.length,
           linesRev := (ls.map cook).reverse ++ r.linesRev }

structure FixedPlain (r : Rd) : Prop where
  filo : r.filo = []
  closed : r.closed = false
  fixed : r.isFree = false
  omp : r.omp = false

theorem FixedPlain.adv {r : Rd} (h : FixedPlain r) (ls rest : List Str) : FixedPlain (adv r ls rest) :=
  ⟨h.filo, h.closed, h.fixed, h.omp⟩

theorem adv_ic (r : Rd) (ls rest : List Str) : (adv r ls rest).ignoreComments = r.ignoreComments := rfl
theorem adv_lc (r : Rd) (ls rest : List Str) : (adv r ls rest).linecount = r.linecount + ls.length := rfl

theorem adv_adv (r : Rd) (l : Str) (ls rest mid : List Str) :
    adv (adv r [l] mid) ls rest = adv r (l :: ls) rest := by
  simp only [adv, List.length_cons, List.length_nil, List.map_cons, List.map_nil, List.reverse_cons,
    List.reverse_nil, List.nil_append, List.append_assoc, List.singleton_append, Rd.mk.injEq, true_and,
    and_true]
  omega

theorem getSingleLine_fixed_keep (r : Rd) (l : Str) (rest : List Str) (h : FixedPlain r)
    (hsrc : r.src = l :: rest) (hk : (r.ignoreComments && isFixCommentS (cook l)) = false) :
    getSingleLine r = (some (cook l), adv r [l] rest) := by
  obtain ⟨h1, h2, h3, h4⟩ := h
  obtain ⟨src, closed, filo, fifo, lc, linesRev, isFree, ic, omp, dirs⟩ := r
  simp only [] at h1 h2 h3 h4 hsrc hk
  subst h1 h2 h3 h4 hsrc
  unfold getSingleLine
  simp only [pull, Bool.false_and, Bool.false_eq_true, if_false, Bool.not_false, Bool.and_true, hk, adv,
    List.length_cons, List.length_nil, List.map_cons, List.map_nil, List.reverse_cons, List.reverse_nil,
    List.nil_append, List.singleton_append]

theorem getSingleLine_fixed_skip (r : Rd) (l : Str) (rest : List Str) (h : FixedPlain r)
    (hsrc : r.src = l :: rest) (hk : (r.ignoreComments && isFixCommentS (cook l)) = true) :
    getSingleLine r = getSingleLine (adv r [l] rest) := by
  obtain ⟨h1, h2, h3, h4⟩ := h
  obtain ⟨src, closed, filo, fifo, lc, linesRev, isFree, ic, omp, dirs⟩ := r
  simp only [] at h1 h2 h3 h4 hsrc hk
  subst h1 h2 h3 h4 hsrc
  conv => lhs; unfold getSingleLine
  conv => rhs; unfold getSingleLine
  simp only [adv, pull, Bool.false_and, Bool.false_eq_true, if_false, Bool.not_false,
    Bool.and_true, hk, if_true, List.length_cons, List.length_nil, List.map_cons, List.map_nil,
    List.reverse_cons, List.reverse_nil, List.nil_append, List.singleton_append]

theorem getSingleLine_fixed_eof (r : Rd) (h : FixedPlain r) (hsrc : r.src = []) :
    getSingleLine r = (none, { r with closed := true }) := by
  obtain ⟨h1, h2, h3, h4⟩ := h
  obtain ⟨src, closed, filo, fifo, lc, linesRev, isFree, ic, omp, dirs⟩ := r
  simp only [] at h1 h2 h3 h4 hsrc
  subst h1 h2 h3 h4 hsrc
  unfold getSingleLine
  simp [pull]

/-- what the `get_single_line` after the lines `ls` returns: the next line `nx` (not skipped), or
    nothing at the end of the source -/
def tailRead (r : Rd) (ls : List Str) : List Str → Option Str × Rd
  | [] => (none, { adv r ls [] with closed := true })
  | nx :: rest' => (some (cook nx), adv r (ls ++ [nx]) rest')

theorem adv_nil (r : Rd) (rest : List Str) (hs : r.src = rest) : adv r [] rest = r := by
  cases r; simp only [] at hs; subst hs; simp [adv]

theorem tailRead_cons (r : Rd) (l : Str) (ls rest mid : List Str) :
    tailRead (adv r [l] mid) ls rest = tailRead r (l :: ls) rest := by
  cases rest with
  | nil => simp only [tailRead, adv_adv]
  | cons nx rest' => simp only [tailRead, adv_adv, List.cons_append]

/-- the lines `ls` surface as `surf`, then `tailRead` -/
theorem readsAt_fixed : ∀ (ls rest : List Str) (r : Rd), FixedPlain r → r.src = ls ++ rest →
    (∀ nx rest', rest = nx :: rest' → (r.ignoreComments && isFixCommentS (cook nx)) = false) →
    ∃ r_end, ReadsAt r (surf r.ignoreComments r.linecount ls) r_end ∧
      getSingleLine r_end = tailRead r ls rest
  | [], rest, r, h, hs, hnx => by
    refine ⟨r, ReadsAt.nil r, ?_⟩
    simp only [List.nil_append] at hs
    cases rest with
    | nil =>
      rw [getSingleLine_fixed_eof r h hs]
      simp only [tailRead, adv_nil r [] hs]
    | cons nx rest' =>
      rw [getSingleLine_fixed_keep r nx rest' h hs (hnx nx rest' rfl)]
      simp only [tailRead, List.nil_append]
  | l :: ls, rest, r, h, hs, hnx => by
    have hs' : r.src = l :: (ls ++ rest) := by simpa using hs
    obtain ⟨r_end, hr, ht⟩ := readsAt_fixed ls rest (adv r [l] (ls ++ rest)) (h.adv _ _) rfl hnx
    rw [tailRead_cons] at ht
    simp only [adv_ic, adv_lc, List.length_cons, List.length_nil, Nat.zero_add] at hr
    by_cases hk : (r.ignoreComments && isFixCommentS (cook l)) = true
    · have hskip := getSingleLine_fixed_skip r l (ls ++ rest) h hs' hk
      simp only [surf, hk, if_true]
      cases hsf : surf r.ignoreComments (r.linecount + 1) ls with
      | nil =>
        rw [hsf] at hr
        cases hr
        exact ⟨r, ReadsAt.nil r, by rw [hskip]; exact ht⟩
      | cons p ps =>
        rw [hsf] at hr
        cases hr with
        | cons hg hn hr' => exact ⟨r_end, ReadsAt.cons (by rw [hskip]; exact hg) hn hr', ht⟩
    · have hk' : (r.ignoreComments && isFixCommentS (cook l)) = false := by simpa using hk
      have hkeep := getSingleLine_fixed_keep r l (ls ++ rest) h hs' hk'
      simp only [surf, hk', Bool.false_eq_true, if_false]
      exact ⟨r_end, ReadsAt.cons hkeep rfl hr, ht⟩

end Fp.Reader
