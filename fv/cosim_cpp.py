"""Co-simulation of the C-preprocessor directive model (lean/FparserModel/Cpp.lean) against the
real `fparser.two.C99Preprocessor`.

  A  class     every generated text `s` x every class of CPP_CLASS_NAMES: the real `Cls(s)` (object or
               NoMatchError) against `cpp.match Cls s` - class, items/string, payload class, str();
  B  item      `match_cpp_directive(reader)` with a `CppDirective(s)` item as the next item of a real
               reader against `cpp.item s` - first accepting class, items, str(); the item is put
               back / consumed as the real code does (checked: the reader's next item afterwards);
  C  regex     every hand scanner against the live compiled regular expression it stands for
               (`cpp.scan`): token-alphabet enumerations + random texts;
  D  program   small programs with directives (also backslash-continued) between the statements,
               parsed by the real parser: the Cpp_* nodes in tree order against `cpp.classify` of
               the reader's CppDirective items (class, str()), one node per item, rejected exactly
               when the model classifies some item to none, and the text of the tree without the
               directive lines equals the text of the tree of the program without directives;
  N  negative control (every run): three seeded changes of the live classes (`#else` no longer
               accepting trailing tokens, `Cpp_Error_Stmt.tostr` dropping the message,
               `Cpp_Pp_Tokens` no longer stripping) must each produce disagreements on a fixed
               sub-sample; the run FAILS if one of them goes unnoticed.

0 disagreements are required in A-D.
Run:  timeout 600 /venv/bin/python -m fv.cosim_cpp --seed 0 --n 200
"""
import argparse
import collections
import itertools
import os
import random
import sys
import time

from fv import repo
from fv import model as fvmodel

KEYWORDS = ["if", "ifdef", "ifndef", "elif", "else", "endif", "include", "define", "undef", "line",
            "error", "warning"]
BOGUS = ["foo", "definex", "pragma", "include_next", "elseif", "IF", "Define", "ifdefx", "if_", "12",
         "1 2", "ident", "ENDIF", "els", "elif1", "undefine", "lin", "errors", "warn", "", "if0"]
IDENTS = ["FOO", "_x1", "a", "MAX", "__M__", "x_9", "Z"]
PLISTS = ["(a, b)", "(a,b)", "( a )", "(...)", "( ...)", "(... )", "(a, ...)", "(a ,... )", "(a...)", "()",
          "( )", "(a b)", "(a,)", "(1)", "(a, b, c)", "(,a)", "(a, ..)", "(a,\t_b1 )", "(a", "(a)(b)",
          "(a, ... , b)", "(..., a)", "(a,, b)", "(.. .)", "(a\n)", "(....)"]
EXPRS = ["defined(FOO) && BAR > 1", "!X", "(x)", "1+2", "A == 2 || B", "defined FOO", "0", "x y z",
         "X /* c */", "X // c", "\"text\"", "'it''s'", "this is 'bad'", "careful ! not a comment",
         "42 \"file.F90\"", "a \\n b", "a \\ b", "((a)>(b)?(a):(b))", "FOO 1", "FOO(a) a+1", "a\nb",
         "12 \"f.h\" 1 2", "\"f\"", "x\"y\"z"]
FILES = ["\"f.h\"", "<f.h>", "\"a b\"", "\" a\"", "\"a \"", "\"\"", "<>", "\"a", "<a\"", "'f'", "\"a\" // c",
         "<x/y.h> /* c */", "FOO", "\"a\"\"b\"", "<a>b>", "\"a\nb\"", "\"a\n\"", "\"\na\"", "\"ab", "a\"", "\"é\"",
         "\"a\\b\"", "< a >", "\"x", "<x", "\"\"\"", "<<>", "\"a\tb\""]
LEAD = ["", "", "", " ", "\t ", "   "]
GAP0 = ["", "", " ", "\t", "  "]                     # between '#' and the keyword
GAP1 = [" ", " ", "", "\t", "   ", "\n"]            # between the keyword and the payload
TRAIL = ["", "", "", " ", "\t", "\n", "  \n", " \\n", " // x", " /* y */"]
SOUP = list("# \t\nifdelsnuwarco\"<>(),._1aZ/*\\-12")


_REAL = []


def real():
    if _REAL:
        return _REAL[0]
    repo.activate()
    from fparser.two.parser import ParserFactory
    from fparser.two import C99Preprocessor as C
    from fparser.two import Fortran2003
    from fparser.two import pattern_tools as pt
    from fparser.two import utils
    from fparser.common import readfortran
    _REAL.append((C, Fortran2003, pt, utils, readfortran, ParserFactory))
    return _REAL[0]


# --------------------------------------------------------------------------------------- generation
def payloads(rng, kw):
    pools = {
        "if": EXPRS + IDENTS, "elif": EXPRS + IDENTS, "line": EXPRS, "error": EXPRS, "warning": EXPRS,
        "ifdef": IDENTS + EXPRS[:10] + ["A B", "1a", "a-b", "a.b"], "ifndef": IDENTS + ["A B", "X /* c */", "9"],
        "undef": IDENTS + ["A B", "X // gone", "(a)", "a1 \\n"],
        "else": ["", "", "foo", "/* c */", "// c", "if x", "_x", "!"], "endif": ["", "", "FOO", "/* FOO */", "// FOO", "(x)"],
        "include": FILES,
    }
    if kw == "define":
        r = rng.random()
        name = rng.choice(IDENTS + ["1x", "", "é", "a-b", "F.G"])
        if r < 0.25:
            return name
        if r < 0.6:
            return name + rng.choice(["", "", " ", "\t"]) + rng.choice(PLISTS) + rng.choice(["", " ", ""]) + \
                rng.choice(["", "x", "((a)>(b)?(a):(b))", "a+1", "(b)", " 1 \\n + 2"])
        return name + rng.choice([" ", "  ", "\t", ""]) + rng.choice(EXPRS + ["1", "(x)", "=2", "\"s\""])
    if kw == "include" and rng.random() < 0.4:
        return rng.choice(["\"%s\"", "<%s>"]) % rng.choice(["f.h", "a b", "x/y.inc", "defs.h", "a\"b", "a>b", "é", "f"])
    if kw in ("undef", "ifdef", "ifndef") and rng.random() < 0.5:
        return rng.choice(IDENTS)
    pool = pools.get(kw)
    if pool is None:
        pool = EXPRS + IDENTS + FILES[:4] + PLISTS[:4]
    return rng.choice(pool + [""])


def gen_line(rng):
    r = rng.random()
    if r < 0.07:        # soup
        return "".join(rng.choice(SOUP) for _ in range(rng.randint(0, 12)))
    if r < 0.14:        # line marker shapes
        return (rng.choice(LEAD) + "#" + rng.choice([" ", "", "  ", "\t", "\n"]) + rng.choice(["12", "1", "007", "", "1a", "x"])
                + rng.choice([" ", "", "\t "]) + rng.choice(["\"f.f90\"", "\"a b\"", "\"\"", "\"f", "f\"", "<f>", "\"a\"b\"", "\"a\nb\""])
                + rng.choice(["", " 1", " 1 2", "x", " \"", "\n", "\n\n", " \n"]))
    if r < 0.18:        # null directive shapes
        return rng.choice(LEAD) + "#" + rng.choice(["", " ", "\t", "\n", " #", "#", " \\", "!", " !c"])
    kw = rng.choice(KEYWORDS) if rng.random() < 0.85 else rng.choice(BOGUS)
    if rng.random() < 0.06:
        kw = kw.upper() if rng.random() < 0.5 else kw.capitalize()
    pay = payloads(rng, kw)
    gap1 = rng.choice(GAP1) if pay else rng.choice(["", "", " "])
    return rng.choice(LEAD) + "#" + rng.choice(GAP0) + kw + gap1 + pay + rng.choice(TRAIL)


FIXED = [
    "#if", "#ifdef", "#ifndef", "#elif", "#else", "#endif", "#include", "#define", "#undef", "#line", "#error", "#warning",
    "#", "# ", " #", "#\n", "##", "#foo", "# 12 \"file\"", "#12 \"file\"", "# 12 \"file\" 1 2", "#elif", "#definex",
    "#ifdef X /* c */", "#ifdef X // c", "#undef X /* c */", "#include <f.h>", "#include \"f.h\"", "#include \"f.h\" // c",
    "#include FOO", "#define F( ...) x", "#define F(...) x", "#define F(a , b,...)x", "#define F (a)", "#if(x)", "#if!x",
    "#error\"x\"", "#include\"f\"", "#include<f>", "#define A(x)(x)", "#define A()", "#define A( )", "#IF x", "#Else",
    "#else foo", "  #  endif // X", "#pragma once", "#include_next <f>", "#ifdef X Y", "#define X\\n 1", "", " ", "\n",
    "x", "#if x\n", "#ifdef\tX", "#else_", "#else(", "#endif.", "#line 3 \"f\"", "# 1 \"a\"\n", "# 1 \"a\"\n\n", "#\t3\t\"a\"",
    "# 1 \"a\nb\"", "#\n1\n\"a\"", "#include \"a\n\"", "#include \"a\nb\"", "#define A(a\n)", "#error  a  b ", "#warning",
    "#if 1 /* c */", "#elif x // y", "#define EMPTY", "#define LONG 1 +    2 +    3", "#if A   && B",
]


def cases(seed, n):
    rng = random.Random(seed)
    out = list(FIXED)
    # keyword x payload-shape grid (deterministic part)
    for kw in KEYWORDS:
        for pay in ["", "X", "X Y", "(a, b)", "...", "a + b", "X /* c */", "X // c", "\"f\"", "<f>", "F(a,...) a"]:
            for g0, g1, tr in [("", " ", ""), (" ", " ", " "), ("", "", ""), ("\t", "\t", "\n")]:
                out.append("#" + g0 + kw + g1 + pay + tr)
            out.append("#" + kw.upper() + " " + pay)
    for _ in range(max(0, n) * 25):
        out.append(gen_line(rng))
    seen = set()
    uniq = []
    for s in out:
        if s not in seen:
            seen.add(s)
            uniq.append(s)
    return uniq


# ---------------------------------------------------------------------------------------- real side
ARGCLS = {"Cpp_Elif_Stmt": "Cpp_Pp_Tokens", "Cpp_Undef_Stmt": "Cpp_Macro_Identifier", "Cpp_Line_Stmt": "Cpp_Pp_Tokens",
          "Cpp_Linemarker_Stmt": "Cpp_Pp_Tokens", "Cpp_Error_Stmt": "Cpp_Pp_Tokens", "Cpp_Warning_Stmt": "Cpp_Pp_Tokens"}


def describe(o):
    """the real object in the vocabulary of the driver reply"""
    if o is None:
        return ("none",)
    C, F, _, utils, _, _ = real()
    name = type(o).__name__
    text = str(o)
    if isinstance(o, utils.WORDClsBase):
        kw, arg = o.items
        if arg is None:
            return ("some", name, text, "word", kw, "0", "")
        want = ARGCLS.get(name) or ("Cpp_Pp_Tokens" if kw == "#if" else "Cpp_Macro_Identifier")
        extra = () if type(arg).__name__ == want else ("ARGCLS=" + type(arg).__name__,)
        return ("some", name, text, "word", kw, "1", arg.tostr()) + extra
    if isinstance(o, utils.StringBase):
        return ("some", name, text, "str", o.string)
    if isinstance(o, C.Cpp_Include_Stmt):
        (f,) = o.items
        extra = () if type(f).__name__ == "Include_Filename" else ("ARGCLS=" + type(f).__name__,)
        return ("some", name, text, "include", f.string) + extra
    if isinstance(o, C.Cpp_Macro_Stmt):
        nm, pl, df = o.items
        extra = ()
        if type(nm).__name__ != "Cpp_Macro_Identifier" or (pl is not None and type(pl).__name__ != "Cpp_Macro_Identifier_List") \
                or (df is not None and type(df).__name__ != "Cpp_Pp_Tokens"):
            extra = ("ARGCLS",)
        return ("some", name, text, "macro", nm.string, "0" if pl is None else "1", "" if pl is None else pl.string,
                "0" if df is None else "1", "" if df is None else df.items[0]) + extra
    if isinstance(o, C.Cpp_Null_Stmt):
        return ("some", name, text, "null") + (() if o.items == () else ("ITEMS",))
    return ("some", name, text, "?")


def real_cls(name, s):
    C, _, _, utils, _, _ = real()
    try:
        o = getattr(C, name)(s)
    except utils.NoMatchError:
        return ("none",)
    except Exception as exc:          # pylint: disable=broad-except
        return ("EXC", type(exc).__name__, str(exc)[:80])
    return describe(o)


_reader = [None]


def real_item(s):
    """match_cpp_directive on a reader whose next item is CppDirective(s). Returns (description,
    consumed?)"""
    C, _, _, utils, rf, _ = real()
    r = rf.FortranStringReader("x = 1\n")
    try:
        it = rf.CppDirective(s, (1, 1), r)
    except rf.FortranReaderError:
        return ("none",), None
    r.put_item(it)
    try:
        o = C.match_cpp_directive(r)
    except Exception as exc:          # pylint: disable=broad-except
        return ("EXC", type(exc).__name__, str(exc)[:80]), None
    nxt = r.get_item()
    consumed = nxt is not it
    if o is not None and getattr(o, "item", None) is not it:
        return ("ITEM-NOT-ATTACHED",), consumed
    return describe(o), consumed


# -------------------------------------------------------------------------------------------- checks
class Check:
    def __init__(self, verbose=False):
        self.stats = collections.Counter()
        self.first = []
        self.verbose = verbose

    def disagree(self, stage, what, real_v, model_v):
        self.stats["disagree"] += 1
        self.stats["disagree:" + stage] += 1
        if len(self.first) < 12:
            self.first.append("  [%s] %s\n      real : %r\n      model: %r" % (stage, what, real_v, model_v))


def stage_ab(mdl, chk, texts, order, do_items=True):
    reqs = []
    for s in texts:
        for name in order:
            reqs.append(("cpp.match", name, s))
    replies = mdl.ask_many(reqs)
    k = 0
    for s in texts:
        accepted = []
        for name in order:
            m = tuple(replies[k])
            k += 1
            r = real_cls(name, s)
            chk.stats["A"] += 1
            if r[0] == "some":
                accepted.append(name)
                chk.stats["A:" + name] += 1
            if r != m:
                chk.disagree("A", "%s(%r)" % (name, s), r, m)
        if len(accepted) > 1:
            chk.stats["A:several-classes-accept"] += 1
            chk.disagree("A", "several classes accept %r" % s, accepted, "at most one (theorem accept_unique)")
    if not do_items:
        return
    replies = mdl.ask_many([("cpp.item", s) for s in texts])
    for s, m in zip(texts, replies):
        m = tuple(m)
        r, consumed = real_item(s)
        chk.stats["B"] += 1
        chk.stats["B:" + (r[1] if r[0] == "some" else r[0])] += 1
        if r != m:
            chk.disagree("B", "match_cpp_directive(CppDirective(%r))" % s, r, m)
        elif consumed is not None and consumed != (r[0] == "some"):
            chk.disagree("B", "item consumption for %r" % s, "consumed=%r" % consumed, "consumed iff a node is made")


def regex_oracles():
    C, F, pt, _, _, _ = real()

    def grp(p):
        return lambda s: (lambda m: "-" if m is None else str(len(m.group())))(p.match(s))

    def yes(p):
        return lambda s: "1" if p.match(s) else "-"
    o = {}
    o["kw:if"] = grp(C.Cpp_If_Stmt._if_pattern)
    o["kw:ifdef"] = grp(C.Cpp_If_Stmt._def_pattern[0])
    o["kw:ifndef"] = grp(C.Cpp_If_Stmt._def_pattern[1])
    o["kw:elif"] = grp(C.Cpp_Elif_Stmt._pattern)
    o["kw:else"] = grp(C.Cpp_Else_Stmt._pattern)
    o["kw:endif"] = grp(C.Cpp_Endif_Stmt._pattern)
    o["kw:undef"] = grp(C.Cpp_Undef_Stmt._pattern)
    o["kw:line"] = grp(C.Cpp_Line_Stmt._pattern)
    o["kw:error"] = grp(C.Cpp_Error_Stmt._pattern)
    o["kw:warning"] = grp(C.Cpp_Warning_Stmt._pattern)
    o["hkw:include"] = grp(C.Cpp_Include_Stmt._regex)
    o["hkw:define"] = grp(C.Cpp_Macro_Stmt._regex)
    o["idlist"] = grp(C.Cpp_Macro_Identifier_List._pattern)
    o["linemarker"] = grp(C.Cpp_Linemarker_Stmt._pattern)
    o["macroname"] = grp(pt.macro_name)
    o["absmacroname"] = yes(pt.abs_macro_name)
    o["filename"] = yes(pt.file_name)
    return o


REGEX_ALPHABETS = {
    "idlist": (["(", ")", " ", ",", "...", ".", "a", "_1", "9", "\n"], 5),
    "linemarker": (["#", " ", "1", "\"", "a", "\n", "\t"], 6),
    "macroname": (["a", "Z", "_", "1", " ", "-"], 4),
    "absmacroname": (["a", "Z", "_", "1", " ", "\n"], 4),
    "filename": (["a", " ", "\n", "\"", "\t"], 5),
}


def kw_alphabet(kw):
    return (["#", " ", kw, kw[:-1], "x", "_", "(", "\n", "\t"], 4)


def stage_c(mdl, chk, texts, rng):
    oracles = regex_oracles()
    for name, f in oracles.items():
        if name in REGEX_ALPHABETS:
            alpha, ml = REGEX_ALPHABETS[name]
        else:
            alpha, ml = kw_alphabet(name.split(":", 1)[1])
        ins = ["".join(t) for k in range(ml + 1) for t in itertools.product(alpha, repeat=k)]
        if len(ins) > 6000:
            ins = ins[:1500] + rng.sample(ins[1500:], 4500)
        ins += texts[:400]
        replies = mdl.ask_many([("cpp.scan", name, s) for s in ins])
        for s, m in zip(ins, replies):
            chk.stats["C"] += 1
            r = f(s)
            if r != m[0]:
                chk.disagree("C", "%s on %r" % (name, s), r, m[0])


PROGRAMS = [
    ["program p", "integer :: i", "i = 1", "if (i > 0) then", "i = 2", "end if", "end program p"],
    ["module m", "implicit none", "integer :: k", "contains", "subroutine s(a)", "real :: a", "a = 1.0", "end subroutine s",
     "end module m"],
    ["subroutine t", "integer :: j", "do j = 1, 3", "call f(j)", "end do", "end subroutine t"],
]
GOOD = ["#if defined(FOO) && BAR > 1", "#ifdef FOO", "#ifndef _OPENMP", "#elif BAR == 2", "#else", "#endif", "#include \"defs.h\"",
        "#include <stdio.h>", "#define FOO 1", "#define MAX(a,b) ((a)>(b)?(a):(b))", "#define EMPTY", "#undef FOO",
        "#line 42 \"file.F90\"", "#error this is 'bad'", "#warning careful ! not a comment", "#", "# 12 \"marker.f90\" 2",
        "#  define SPACED 2", "  #ifdef INDENTED", "#define LONG 1 + \\\n   2 + \\\n   3", "#if A \\\n  && B", "#endif /* FOO */",
        "#else // other", "#define V(...) f(__VA_ARGS__)", "#if(x)", "#error"]


def cpp_nodes(node, out):
    from fparser.two.utils import Base
    if isinstance(node, Base):
        if type(node).__name__.startswith("Cpp_") and type(node).__name__.endswith("_Stmt"):
            out.append(node)
            return
        for c in node.children:
            cpp_nodes(c, out)
    elif isinstance(node, (list, tuple)):
        for c in node:
            cpp_nodes(c, out)


def stage_d(mdl, chk, rng, texts, n):
    C, _, _, utils, rf, ParserFactory = real()
    parser = ParserFactory().create(std="f2008")
    odd = [t for t in texts if t.strip().startswith("#") and "\n" not in t]
    for _ in range(n):
        prog = rng.choice(PROGRAMS)
        k = rng.randint(1, 5)
        where = sorted(rng.randint(0, len(prog)) for _ in range(k))
        ds = [rng.choice(GOOD) if rng.random() < 0.8 or not odd else rng.choice(odd) for _ in range(k)]
        lines = list(prog)
        for pos, d in sorted(zip(where, ds), key=lambda x: -x[0]):
            lines[pos:pos] = d.split("\n")
        src = "\n".join(lines) + "\n"
        rd = rf.FortranStringReader(src, ignore_comments=True)
        items = []
        try:
            for it in rd:
                if isinstance(it, rf.CppDirective):
                    items.append(it.line)
        except Exception:     # pylint: disable=broad-except
            continue
        model = [tuple(x) for x in mdl.ask_many([("cpp.classify", s) for s in items])]
        chk.stats["D"] += 1
        try:
            tree = parser(rf.FortranStringReader(src, ignore_comments=True))
            err = None
        except (utils.FortranSyntaxError, utils.NoMatchError) as exc:
            tree, err = None, exc
        any_none = any(m[0] == "none" for m in model)
        if err is not None:
            chk.stats["D:rejected"] += 1
            if not any_none:
                chk.disagree("D", "program rejected although every directive classifies: %r" % src, str(err)[:60], model)
            continue
        if any_none:
            chk.disagree("D", "program accepted although some directive does not classify: %r" % src, "accepted", model)
            continue
        nodes = []
        cpp_nodes(tree, nodes)
        got = [(type(x).__name__, str(x)) for x in nodes]
        want = [(m[1], m[2]) for m in model]
        chk.stats["D:nodes"] += len(got)
        if got != want:
            chk.disagree("D", "Cpp nodes of %r" % src, got, want)
            continue
        base = [l.strip() for l in str(parser(rf.FortranStringReader("\n".join(prog) + "\n", ignore_comments=True))).split("\n")]
        rest = [l.strip() for l in str(tree).split("\n")]
        for _, t in got:
            if t.strip() in rest:
                rest.remove(t.strip())
            else:
                chk.disagree("D", "directive text not in str(tree): %r" % src, t, rest)
        if rest != base:
            chk.disagree("D", "Fortran disturbed by the directives: %r" % src, rest, base)


# --------------------------------------------------------------------------------- negative control
def negative_control(mdl, order):
    C, _, pt, utils, _, _ = real()
    sample = ["#else", "#else foo", " # else // x", "#error", "#error  stop now ", "#warning a", "#if  X  ", "#define A  1 ",
              "#line 3", "#endif"]
    results = []

    def run():
        chk = Check()
        stage_ab(mdl, chk, sample, order)
        return chk.stats["disagree"]

    base = run()
    # 1: #else no longer accepts trailing tokens
    old = C.Cpp_Else_Stmt._pattern
    C.Cpp_Else_Stmt._pattern = pt.Pattern("<else>", r"^\s*#\s*else\s*$")
    try:
        results.append(("#else pattern tightened", run()))
    finally:
        C.Cpp_Else_Stmt._pattern = old
    # 2: tostr drops the message
    old = C.Cpp_Error_Stmt.tostr
    C.Cpp_Error_Stmt.tostr = lambda self: self.items[0]
    try:
        results.append(("Cpp_Error_Stmt.tostr drops the message", run()))
    finally:
        C.Cpp_Error_Stmt.tostr = old
    # 3: payload stripped differently
    old = C.Cpp_Pp_Tokens.match
    C.Cpp_Pp_Tokens.match = staticmethod(lambda string: (string,) if string and string.strip() else None)
    try:
        results.append(("Cpp_Pp_Tokens keeps trailing blanks", run()))
    finally:
        C.Cpp_Pp_Tokens.match = old
    # 4: class order changed: no observable effect is EXPECTED (theorem accept_unique); reported only
    old = list(C.CPP_CLASS_NAMES)
    C.CPP_CLASS_NAMES[:] = list(reversed(old))
    try:
        rev = run()
    finally:
        C.CPP_CLASS_NAMES[:] = old
    ok = base == 0 and all(n > 0 for _, n in results) and rev == 0
    text = "negative control: unmodified %d disagreements; %s; reversed class order %d (expected 0: at most one class accepts) -> %s" % (
        base, "; ".join("%s: %d" % r for r in results), rev, "harness detects the changes" if ok else "CONTROL FAILED")
    return ok, text


# ---------------------------------------------------------------------------------------------- main
def run(seed, n, exe=None, verbose=False):
    t0 = time.time()
    C = real()[0]
    real()[5]().create(std="f2008")
    mdl = fvmodel.Model(exe) if exe else fvmodel.get_model()
    chk = Check(verbose)
    order = mdl.ask("cpp.order", "")
    if order != list(C.CPP_CLASS_NAMES):
        chk.disagree("order", "CPP_CLASS_NAMES", list(C.CPP_CLASS_NAMES), order)
        order = list(C.CPP_CLASS_NAMES)
    ok, text = negative_control(mdl, order)
    print(text)
    texts = cases(seed, n)
    stage_ab(mdl, chk, texts, order)
    rng = random.Random(seed * 7919 + 1)
    stage_c(mdl, chk, texts, rng)
    stage_d(mdl, chk, rng, texts, max(20, n))
    st = chk.stats
    print("texts %d; A class-level comparisons %d; B item-level %d; C regex points %d; D programs %d (rejected %d, Cpp nodes %d)"
          % (len(texts), st["A"], st["B"], st["C"], st["D"], st["D:rejected"], st["D:nodes"]))
    print("A accepted per class: " + ", ".join("%s %d" % (c.replace("Cpp_", "").replace("_Stmt", ""), st["A:" + c]) for c in order))
    print("B results: " + ", ".join("%s %d" % (k[2:].replace("Cpp_", "").replace("_Stmt", ""), v) for k, v in sorted(st.items())
                                    if k.startswith("B:")))
    for f in chk.first:
        print(f)
    bad = st["disagree"] + (0 if ok else 1)
    print("disagreements: %d   (%.1f s)" % (st["disagree"], time.time() - t0))
    print("RESULT: %s" % ("PASS" if not bad else "FAIL"))
    return bad


WITNESSES = ["#ifdef X /* c */", "#ifndef X // c", "#undef X /* gone */", "#include \"f.h\" // c", "#include <f.h> /* c */",
             "#include FOO", "#define F( ...) x", "#define F(...) x", "#include <f.h>", "#if(x)", "  # 12 \"f.f90\" 2", "#pragma once"]


def replay(exe=None):
    """the witnesses of Props/Cpp.lean on the real code: match_cpp_directive on the item, and the
    full parser on a program holding the line"""
    _, _, _, utils, rf, ParserFactory = real()
    parser = ParserFactory().create(std="f2008")
    mdl = fvmodel.Model(exe) if exe else fvmodel.get_model()
    bad = 0
    for w in WITNESSES:
        r, _ = real_item(w)
        m = tuple(mdl.ask("cpp.item", w))
        src = "program p\n%s\nx = 1\nend program p\n" % w
        try:
            out = "accepted: " + repr(str(parser(rf.FortranStringReader(src))))
        except (utils.FortranSyntaxError, utils.NoMatchError) as exc:
            out = "REJECTED " + type(exc).__name__ + " " + str(exc).split("\n")[0]
        print("%-28r item -> %s\n%30s program -> %s" % (w, r[:3] if r[0] == "some" else r, "", out))
        if r != m:
            bad += 1
            print("    MODEL DISAGREES: %r" % (m,))
    print("RESULT: %s" % ("PASS" if not bad else "FAIL"))
    return bad


def main(argv=None):
    ap = argparse.ArgumentParser(description=__doc__.split("\n\n")[0])
    ap.add_argument("--seed", type=int, default=0)
    ap.add_argument("--n", type=int, default=200)
    ap.add_argument("--exe", default=os.environ.get("FV_MODEL_EXE"))
    ap.add_argument("-v", action="store_true")
    ap.add_argument("--replay", action="store_true", help="replay the witnesses of Props/Cpp.lean on the real code")
    a = ap.parse_args(argv)
    if a.replay:
        return 1 if replay(a.exe) else 0
    return 1 if run(a.seed, a.n, exe=a.exe, verbose=a.v) else 0


if __name__ == "__main__":
    sys.exit(main())
