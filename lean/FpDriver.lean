import FparserModel.Wire
import FpDriver.Splitline
import FpDriver.Norm
import FpDriver.Expr
import FpDriver.SymTree
import FpDriver.Reader
import FpDriver.Block
import FpDriver.ExprLex
import FpDriver.Combi
import FpDriver.Cpp
import FpDriver.One2
import FpDriver.SymGlue
import FpDriver.Tree3
import FpDriver.Decl
import FpDriver.One3
import FpDriver.IoStmt
import FpDriver.Header
import FpDriver.Primary
import FpDriver.Incl08
import FpDriver.Rest
import FpDriver.Print

/-! dispatcher: one handler per model; each handler lives in FpDriver/<Model>.lean -/
namespace FpDriver
open Fp.Wire

def handlers : List (String → List String → Option String) :=
  [FpDriver.Splitline.handle, FpDriver.Norm.handle, FpDriver.Expr.handle, FpDriver.SymTree.handle, FpDriver.Reader.handle, FpDriver.Block.handle, FpDriver.ExprLex.handle, FpDriver.Combi.handle, FpDriver.Cpp.handle, FpDriver.One2.handle, FpDriver.SymGlue.handle, FpDriver.Tree3.handle, FpDriver.Decl.handle, FpDriver.One3.handle, FpDriver.IoStmt.handle, FpDriver.Header.handle, FpDriver.Primary.handle, FpDriver.Incl08.handle, FpDriver.Rest.handle, FpDriver.Print.handle]

def dispatch (line : String) : String :=
  match fields line with
  | "ping" :: rest => "OK\t" ++ "\t".intercalate rest
  | cmd :: rest =>
    match handlers.findSome? (fun h => h cmd rest) with
    | some r => r
    | none => "ERR\t" ++ enc ("unknown command " ++ cmd)
  | [] => "ERR"

end FpDriver
