import FparserModel.Proofs.CppStr

/-! # scanner lemmas for the Cpp slice: introduction / elimination of every hand scanner -/
namespace Fp.Cpp
open Fp

/-- a keyword: non-empty, word characters only -/
def KW (kw : Str) : Prop := kw ≠ [] ∧ ∀ c ∈ kw, isWord c = true

/-! ## dropPrefix? -/
theorem dropPrefix?_append (p r : Str) : dropPrefix? p (p ++ r) = some r := by
  induction p with
  | nil => cases r <;> rfl
  | cons a p ih => simp [dropPrefix?, ih]

theorem dropPrefix?_some {p s r : Str} (h : dropPrefix? p s = some r) : s = p ++ r := by
  induction p generalizing s with
  | nil => cases s <;> simp [dropPrefix?] at h <;> simp [h]
  | cons a p ih =>
    cases s with
    | nil => simp [dropPrefix?] at h
    | cons b s =>
      simp only [dropPrefix?] at h
      split at h
      · rename_i hab; subst hab; rw [ih h]; rfl
      · cases h

/-! ## takeWhile / dropWhile at a word boundary -/
theorem takeWhile_boundary {w d : Str} (hw : ∀ c ∈ w, isWord c = true) (hd : boundary d = true) :
    (w ++ d).takeWhile isWord = w ∧ (w ++ d).dropWhile isWord = d := by
  induction w with
  | nil =>
    cases d with
    | nil => exact ⟨rfl, rfl⟩
    | cons c d =>
      have : isWord c = false := by simpa [boundary] using hd
      simp [this]
  | cons c w ih =>
    have hc := hw c (by simp)
    have := ih (fun x hx => hw x (by simp [hx]))
    simp [hc, this.1, this.2]

theorem boundary_dropWhile (s : Str) : boundary (s.dropWhile isWord) = true := by
  induction s with
  | nil => rfl
  | cons c s ih =>
    by_cases h : isWord c = true
    · simp only [List.dropWhile, h]; exact ih
    · have h' : isWord c = false := by simpa using h
      simp [List.dropWhile, h', boundary]

theorem takeWhile_all (s : Str) : ∀ c ∈ s.takeWhile isWord, isWord c = true := by
  induction s with
  | nil => intro c hc; cases hc
  | cons d s ih =>
    intro c hc
    by_cases hd : isWord d = true
    · simp only [List.takeWhile, hd] at hc
      rcases List.mem_cons.mp hc with h | h
      · subst h; exact hd
      · exact ih c h
    · have hd' : isWord d = false := by simpa using hd
      simp [List.takeWhile, hd'] at hc

theorem boundary_append_allSp {r b : Str} (hr : boundary r = true) (hb : allSp b) :
    boundary (r ++ b) = true := by
  cases r with
  | nil =>
    cases b with
    | nil => rfl
    | cons c b =>
      have := (allSp_cons.mp hb).1
      simp [boundary, space_not_word this]
  | cons c r => exact hr

theorem KW_head {kw : Str} (h : KW kw) : ∃ c r, kw = c :: r ∧ isSpace c = false := by
  obtain ⟨c, r, e⟩ := List.exists_cons_of_ne_nil h.1
  exact ⟨c, r, e, isWord_not_space (h.2 c (by simp [e]))⟩

theorem lstrip_KW {kw : Str} (h : KW kw) (t : Str) : lstrip (kw ++ t) = kw ++ t := by
  obtain ⟨c, r, e, hc⟩ := KW_head h
  subst e
  exact lstrip_cons_ns _ hc

/-! ## `#\s*KW\b` and `^\s*#\s*KW\b` -/
theorem hashKw_intro {kw g rest : Str} (hk : KW kw) (hg : allSp g) (hb : boundary rest = true) :
    hashKw kw ('#' :: (g ++ (kw ++ rest))) = some rest := by
  simp only [hashKw]
  rw [lstrip_allSp_append _ hg, lstrip_KW hk, dropPrefix?_append]
  simp [hb]

theorem hashKw_elim {kw s rest : Str} (h : hashKw kw s = some rest) :
    ∃ g, s = '#' :: (g ++ (kw ++ rest)) ∧ allSp g ∧ boundary rest = true := by
  unfold hashKw at h
  split at h
  · rename_i r
    split at h
    · rename_i rest' hd
      split at h
      · rename_i hb
        cases h
        obtain ⟨g, h1, h2⟩ := lstrip_decomp r
        refine ⟨g, ?_, h2, hb⟩
        rw [← dropPrefix?_some hd, ← h1]
      · cases h
    · cases h
  · cases h

theorem kwPrefix_intro {kw a g rest : Str} (hk : KW kw) (ha : allSp a) (hg : allSp g)
    (hb : boundary rest = true) :
    kwPrefix kw (a ++ '#' :: (g ++ (kw ++ rest))) = some rest := by
  unfold kwPrefix
  rw [lstrip_allSp_append _ ha, lstrip_cons_ns _ (by decide)]
  exact hashKw_intro hk hg hb

theorem kwPrefix_elim {kw s rest : Str} (h : kwPrefix kw s = some rest) :
    ∃ a g, s = a ++ '#' :: (g ++ (kw ++ rest)) ∧ allSp a ∧ allSp g ∧ boundary rest = true := by
  unfold kwPrefix at h
  obtain ⟨g, h1, h2, h3⟩ := hashKw_elim h
  obtain ⟨a, h4, h5⟩ := lstrip_decomp s
  exact ⟨a, g, by rw [← h1]; exact h4, h5, h2, h3⟩

/-! ## shape -/
theorem shape_intro {w a g rest : Str} (hk : KW w) (ha : allSp a) (hg : allSp g)
    (hb : boundary rest = true) :
    shape (a ++ '#' :: (g ++ (w ++ rest))) = some (w, rest) := by
  unfold shape
  rw [lstrip_allSp_append _ ha, lstrip_cons_ns _ (by decide)]
  simp only
  rw [lstrip_allSp_append _ hg, lstrip_KW hk]
  have := takeWhile_boundary hk.2 hb
  rw [this.1, this.2]

theorem shape_elim {s w rest : Str} (h : shape s = some (w, rest)) :
    ∃ a g, s = a ++ '#' :: (g ++ (w ++ rest)) ∧ allSp a ∧ allSp g ∧ boundary rest = true ∧
      (∀ c ∈ w, isWord c = true) := by
  unfold shape at h
  split at h
  · rename_i r hl
    simp only [Option.some.injEq, Prod.mk.injEq] at h
    obtain ⟨a, h1, h2⟩ := lstrip_decomp s
    obtain ⟨g, h3, h4⟩ := lstrip_decomp r
    refine ⟨a, g, ?_, h2, h4, ?_, ?_⟩
    · rw [← h.1, ← h.2, List.takeWhile_append_dropWhile, ← h3, ← hl]; exact h1
    · rw [← h.2]; exact boundary_dropWhile _
    · rw [← h.1]; exact takeWhile_all _
  · cases h

theorem kwPrefix_shape {kw s rest : Str} (hk : KW kw) (h : kwPrefix kw s = some rest) :
    shape s = some (kw, rest) := by
  obtain ⟨a, g, h1, h2, h3, h4⟩ := kwPrefix_elim h
  rw [h1]; exact shape_intro hk h2 h3 h4

theorem shape_kwPrefix {s w rest : Str} (hk : KW w) (h : shape s = some (w, rest)) :
    kwPrefix w s = some rest := by
  obtain ⟨a, g, h1, h2, h3, h4, _⟩ := shape_elim h
  rw [h1]; exact kwPrefix_intro hk h2 h3 h4

/-- the scanners of `Cpp_Include_Stmt` / `Cpp_Macro_Stmt` work on the stripped text -/
theorem hashKw_strip_shape {kw s rest : Str} (hk : KW kw) (h : hashKw kw (strip s) = some rest) :
    ∃ b, allSp b ∧ shape s = some (kw, rest ++ b) := by
  obtain ⟨g, h1, h2, h3⟩ := hashKw_elim h
  obtain ⟨a, b, h4, h5, h6⟩ := strip_decomp s
  refine ⟨b, h6, ?_⟩
  have e : s = a ++ '#' :: (g ++ (kw ++ (rest ++ b))) := by
    conv => lhs; rw [h4, h1]
    simp [List.append_assoc]
  rw [e]
  exact shape_intro hk h5 h2 (boundary_append_allSp h3 h6)

/-- … and conversely -/
theorem shape_hashKw_strip {s w rest : Str} (hk : KW w) (h : shape s = some (w, rest)) :
    ∃ rest', hashKw w (strip s) = some rest' ∧ strip rest' = strip rest := by
  obtain ⟨a, g, h1, h2, h3, h4, _⟩ := shape_elim h
  obtain ⟨b, h5, h6⟩ := rstrip_decomp rest
  -- s = a ++ # g w (rstrip rest) ++ b
  obtain ⟨c, r, e, hc⟩ := KW_head hk
  by_cases hr : rstrip rest = []
  · refine ⟨[], ?_, ?_⟩
    · have hs : strip s = '#' :: (g ++ (w ++ [])) := by
        have : s = a ++ ('#' :: (g ++ w)) ++ b := by
          rw [h1, h5, hr]; simp [List.append_assoc]
        rw [this, strip_append_allSp _ h6, strip_allSp_append _ h2, List.append_nil]
        have hl : ('#' :: (g ++ w)).getLast? = some (w.getLast hk.1) := by
          rw [show '#' :: (g ++ w) = ('#' :: g) ++ w from rfl, getLast?_append_ne hk.1]
          exact List.getLast?_eq_some_getLast hk.1
        exact strip_of_ends rfl (by decide) hl
          (isWord_not_space (hk.2 _ (List.getLast_mem hk.1)))
      rw [hs]; exact hashKw_intro hk h3 rfl
    · rw [strip_nil, strip_eq, hr]; rfl
  · refine ⟨rstrip rest, ?_, ?_⟩
    · have hs : strip s = '#' :: (g ++ (w ++ rstrip rest)) := by
        have : s = a ++ ('#' :: (g ++ (w ++ rstrip rest))) ++ b := by
          conv => lhs; rw [h1, h5]
          simp [List.append_assoc]
        rw [this, strip_append_allSp _ h6, strip_allSp_append _ h2]
        have hl : ('#' :: (g ++ (w ++ rstrip rest))).getLast? = some ((rstrip rest).getLast hr) := by
          rw [show '#' :: (g ++ (w ++ rstrip rest)) = ('#' :: (g ++ w)) ++ rstrip rest by simp,
            getLast?_append_ne hr]
          exact List.getLast?_eq_some_getLast hr
        exact strip_of_ends rfl (by decide) hl
          (rstrip_getLast (List.getLast?_eq_some_getLast hr))
      rw [hs]
      refine hashKw_intro hk h3 ?_
      cases hrr : rstrip rest with
      | nil => exact absurd hrr hr
      | cons x xs =>
        rw [h5, hrr] at h4; exact h4
    · conv => rhs; rw [h5]
      rw [strip_append_allSp _ h6]

/-! ## identifiers -/
theorem isIdStart_isWord {c : Char} (h : isIdStart c = true) : isWord c = true := by
  unfold isIdStart at h; unfold isWord Char.isAlphanum
  rcases Bool.or_eq_true _ _ |>.mp h with h | h
  · simp [h]
  · simp [h]

theorem macroNamePrefix_elim {s g d : Str} (h : macroNamePrefix s = some (g, d)) :
    s = g ++ d ∧ absMacroName g = true ∧ (∀ c ∈ g, isWord c = true) ∧ boundary d = true ∧ g ≠ [] := by
  unfold macroNamePrefix at h
  split at h
  · rename_i c r
    split at h
    · rename_i hc
      simp only [Option.some.injEq, Prod.mk.injEq] at h
      obtain ⟨h1, h2⟩ := h
      subst h1; subst h2
      refine ⟨by simp [List.takeWhile_append_dropWhile], ?_, ?_, boundary_dropWhile _, by simp⟩
      · simp only [absMacroName, hc, Bool.true_and, List.all_eq_true]
        exact takeWhile_all r
      · intro x hx
        rcases List.mem_cons.mp hx with hx | hx
        · subst hx; exact isIdStart_isWord hc
        · exact takeWhile_all r x hx
    · cases h
  · cases h

theorem absMacroName_word {g : Str} (h : absMacroName g = true) : KW g ∧ ∃ c r, g = c :: r ∧ isIdStart c = true := by
  cases g with
  | nil => cases h
  | cons c r =>
    simp only [absMacroName, Bool.and_eq_true, List.all_eq_true] at h
    refine ⟨⟨by simp, ?_⟩, c, r, rfl, h.1⟩
    intro x hx
    rcases List.mem_cons.mp hx with hx | hx
    · subst hx; exact isIdStart_isWord h.1
    · exact h.2 x hx

theorem macroNamePrefix_intro {g d : Str} (hg : absMacroName g = true) (hd : boundary d = true) :
    macroNamePrefix (g ++ d) = some (g, d) := by
  obtain ⟨hk, c, r, e, hc⟩ := absMacroName_word hg
  subst e
  have hr : ∀ x ∈ r, isWord x = true := fun x hx => hk.2 x (by simp [hx])
  have := takeWhile_boundary hr hd
  simp [macroNamePrefix, hc, this.1, this.2]

/-! ## the identifier list -/
theorem lsStep_done {st : LS} {c : Char} (h : lsStep st c = .done) : c = ')' := by
  cases st <;> simp only [lsStep] at h <;> (repeat' split at h) <;> first | assumption | cases h

theorem idListGo_elim {st : LS} {s r : Str} (h : idListGo st s = some r) :
    ∃ p, s = p ++ r ∧ p.getLast? = some ')' ∧ ∀ y, idListGo st (p ++ y) = some y := by
  induction s generalizing st with
  | nil => cases h
  | cons c s ih =>
    simp only [idListGo] at h
    cases hs : lsStep st c with
    | go st' =>
      rw [hs] at h
      obtain ⟨p, h1, h2, h3⟩ := ih h
      refine ⟨c :: p, by rw [h1]; rfl, ?_, ?_⟩
      · have hne : p ≠ [] := by intro h0; rw [h0] at h2; cases h2
        rw [show c :: p = [c] ++ p from rfl, getLast?_append_ne hne]; exact h2
      · intro y; simp only [List.cons_append, idListGo, hs]; exact h3 y
    | done =>
      rw [hs] at h
      cases h
      refine ⟨[c], rfl, by rw [lsStep_done hs]; rfl, ?_⟩
      intro y; simp [idListGo, hs]
    | fail => rw [hs] at h; cases h

theorem idList_elim {s r : Str} (h : idList s = some r) :
    ∃ p, s = p ++ r ∧ p.getLast? = some ')' ∧ p.head? = some '(' ∧ ∀ y, idList (p ++ y) = some y := by
  unfold idList at h
  split at h
  · rename_i t
    obtain ⟨p, h1, h2, h3⟩ := idListGo_elim h
    refine ⟨'(' :: p, by rw [h1]; rfl, ?_, rfl, ?_⟩
    · have hne : p ≠ [] := by intro h0; rw [h0] at h2; cases h2
      rw [show '(' :: p = ['('] ++ p from rfl, getLast?_append_ne hne]; exact h2
    · intro y; simp only [List.cons_append, idList]; exact h3 y
  · cases h

end Fp.Cpp
