import FparserModel.Splitline
/-! helper lemmas for `splitparen` : join, shape and balance of the `ParenString` items -/
namespace Fp.Splitline
open Fp

def pjoin (l : List PItem) : Str := (l.map PItem.str).flatten

@[simp] theorem pjoin_nil : pjoin [] = [] := rfl
@[simp] theorem pjoin_cons (s : PItem) (l : List PItem) : pjoin (s :: l) = s.str ++ pjoin l := by
  simp [pjoin]
@[simp] theorem pjoin_append (a b : List PItem) : pjoin (a ++ b) = pjoin a ++ pjoin b := by
  simp [pjoin]

/-- text consumed so far by a loop state -/
def PState.text (st : PState) : Str := pjoin st.items.reverse ++ st.cur.reverse

theorem parenStep_text (pairs : List (Char × Char)) (st : PState) (c : Char) :
    (parenStep pairs st c).text = st.text ++ [c] := by
  unfold parenStep PState.text
  repeat' split
  all_goals simp [PItem.str]

theorem foldl_parenStep_text (pairs : List (Char × Char)) (l : Str) (st : PState) :
    (l.foldl (parenStep pairs) st).text = st.text ++ l := by
  induction l generalizing st with
  | nil => simp
  | cons c cs ih => simp [ih, parenStep_text]

theorem parenFinish_join (st : PState) : pjoin (parenFinish st) = st.text := by
  unfold parenFinish PState.text
  split
  · simp_all [List.isEmpty_iff]
  · simp [PItem.str]

theorem splitparen_join' (l : Str) (pairs : List (Char × Char)) : pjoin (splitparen l pairs) = l := by
  unfold splitparen
  rw [parenFinish_join, foldl_parenStep_text]
  simp [PState.text]

end Fp.Splitline
