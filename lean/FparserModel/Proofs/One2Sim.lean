import FparserModel.Proofs.One2Fill

/-!
# One2 — replaying the printed lines (`fill_sim`)

`tr c t` is the tree the second round builds: END items replaced by the printed END line, block
headers by their printed form.  `fill_sim`: if the first round dropped nothing and every printed END
line / `BLOCKTYPE name` header is treated as in the first round (`restep`), the second round over
the printed lines followed by any label-compatible remainder rebuilds `tr c t` with the same fuel.
-/
namespace Fp.One2
open Fp

variable (T : Tables)

def tr (c : Ctx) : Forest → Forest
  | .nil => .nil
  | .leaf it k nx => .leaf it k (tr (nextCtx T c it) nx)
  | .endl it nx => .endl (reEnd it.id it.label (endText T c)) (tr c nx)
  | .blk it ri ch kids nx => .blk (reHdr T it ri ch) ri ch (tr ch kids) (tr c nx)

theorem reHdr_idem (it : Item) (ri : Nat) (ch : Ctx) :
    reHdr T (reHdr T it ri ch) ri ch = reHdr T it ri ch := by
  unfold reHdr
  split <;> simp

theorem reHdr_label (it : Item) (ri : Nat) (ch : Ctx) : (reHdr T it ri ch).label = it.label := by
  unfold reHdr; split <;> rfl

theorem reHdr_isComment (it : Item) (ri : Nat) (ch : Ctx) :
    (reHdr T it ri ch).isComment = it.isComment := by
  unfold reHdr; split <;> rfl

theorem reHdr_id (it : Item) (ri : Nat) (ch : Ctx) : (reHdr T it ri ch).id = it.id := by
  unfold reHdr; split <;> rfl

/-- printing the second-round tree gives the same lines -/
theorem pr_tr : ∀ (t : Forest) (c : Ctx), pr T c (tr T c t) = pr T c t := by
  intro t
  induction t with
  | nil => intro c; rfl
  | leaf it k nx ih => intro c; simp [tr, pr, ih]
  | endl it nx ih => intro c; simp [tr, pr, ih, reEnd]
  | blk it ri ch kids nx ih1 ih2 => intro c; simp [tr, pr, ih1, ih2, reHdr_idem]

def LRel (a b : Item) : Prop := a.label = b.label ∧ (b.isComment = true → a.isComment = true)

inductive LRelL : List Item → List Item → Prop
  | nil : LRelL [] []
  | cons {a b l l2} : LRel a b → LRelL l l2 → LRelL (a :: l) (b :: l2)

theorem LRelL.append {a b c d : List Item} (h1 : LRelL a b) (h2 : LRelL c d) :
    LRelL (a ++ c) (b ++ d) := by
  induction h1 with
  | nil => simpa using h2
  | cons h _ ih => exact LRelL.cons h ih

theorem LRel_flat_pr : ∀ (t : Forest) (c : Ctx),
    LRelL (flat t) (items T (pr T c t)) := by
  intro t
  induction t with
  | nil => intro c; simp only [flat, pr, items, List.map_nil]; exact LRelL.nil
  | leaf it k nx ih =>
    intro c
    simp only [flat, pr, items, List.map_cons, reItem]
    exact LRelL.cons ⟨rfl, id⟩ (ih _)
  | endl it nx ih =>
    intro c
    simp only [flat, pr, items, List.map_cons, reItem]
    exact LRelL.cons ⟨rfl, by simp [reEnd]⟩ (ih c)
  | blk it ri ch kids nx ih1 ih2 =>
    intro c
    simp only [flat, pr, items, List.map_cons, List.map_append, reItem]
    refine LRelL.cons ⟨(reHdr_label T it ri ch).symm, ?_⟩ ?_
    · rw [reHdr_isComment]; exact id
    · exact (ih1 ch).append (ih2 c)

theorem shared_label (c : Ctx) (a b : Item) (h : a.label = b.label) : shared T c a = shared T c b := by
  simp [shared, hit, h]

theorem hit_label (c : Ctx) (a b : Item) (h : a.label = b.label) : hit T c a = hit T c b := by
  simp [hit, h]

theorem step_putback (c : Ctx) (it : Item) (h : step T c it = .putback) :
    it.isComment = false ∧ shared T c it = true := by
  unfold step at h
  split at h
  · simp at h
  · rename_i hc
    split at h
    · rename_i hs; exact ⟨by simpa using hc, hs⟩
    · split at h
      · simp at h
      · exfalso
        revert h
        generalize (rowAt T c.row).classes = ks
        induction ks with
        | nil => simp [scan]
        | cons k ks ih =>
          simp only [scan]
          split
          · split
            · split <;> simp
            · exact ih
          · split
            · split
              · split
                · simp
                · exact ih
              · split
                · split
                  · simp
                  · split <;> simp
                · simp
            · exact ih

theorem split_exact {a b r r1 ls : List Item} (h1 : (a ++ r1).Sublist ls)
    (h2 : (b ++ r).Sublist r1) (h : a ++ b ++ r = ls) : a ++ r1 = ls ∧ b ++ r = r1 := by
  have l1 := h1.length_le
  have l2 := h2.length_le
  have l3 := congrArg List.length h
  simp at l1 l2 l3
  have e2 : b ++ r = r1 := h2.eq_of_length (by simp; omega)
  refine ⟨?_, e2⟩
  exact h1.eq_of_length (by simp; omega)

/-- the simulation: second round = first round on the printed lines -/
theorem fill_sim (ic : Bool) (f : Nat) : ∀ (c : Ctx) (ls : List Item) (t : Forest)
    (rest : List Item), fill T ic f c ls = .ok (t, rest) → flat t ++ rest = ls →
    restep T c t = true → ∀ rest2, LRelL rest rest2 →
    fill T ic f c (items T (pr T c t) ++ rest2) = .ok (tr T c t, rest2) := by
  induction f with
  | zero => intro c ls t rest h; simp [fill] at h
  | succ f ih =>
    intro c ls t rest h hx hr rest2 hrel
    cases ls with
    | nil =>
      simp [fill] at h
      obtain ⟨rfl, rfl⟩ := h
      cases hrel
      simp [pr, items, tr, fill]
    | cons it ls =>
      simp only [fill] at h
      split at h
      · -- ignored comment: something was dropped
        have := fill_length T ic f c ls t rest h
        have := congrArg List.length hx
        simp at this; omega
      · rename_i hg
        split at h
        · -- comment kept
          rename_i hs
          split at h
          · simp at h
          · rename_i nx rest' hn
            simp at h
            obtain ⟨rfl, rfl⟩ := h
            simp only [flat, List.cons_append, List.cons.injEq, true_and] at hx
            simp only [restep] at hr
            have := ih _ _ _ _ hn hx hr rest2 hrel
            simp only [pr, items, List.map_cons, reItem, List.cons_append, fill, hg, hs, tr]
            simp only [items] at this
            simp [this]
        · -- put back
          rename_i hs
          simp at h
          obtain ⟨rfl, rfl⟩ := h
          obtain ⟨hc, hsh⟩ := step_putback T c it hs
          cases hrel with
          | cons hab htl =>
            rename_i it2 ls2
            have hc2 : it2.isComment = false := by
              cases hh : it2.isComment with
              | false => rfl
              | true => have := hab.2 hh; simp [hc] at this
            have hs2 : step T c it2 = .putback := by
              simp [step, hc2, ← shared_label T c it it2 hab.1, hsh]
            simp [pr, items, tr, fill, hc2, hs2]
        · -- END
          simp at h
          obtain ⟨rfl, rfl⟩ := h
          simp only [restep, Bool.and_eq_true, beq_iff_eq] at hr
          have hs2 := hr.1
          simp only [pr, items, List.map_cons, List.map_nil, reItem, List.cons_append,
            List.nil_append, fill, tr]
          have hc2 : ((reEnd it.id it.label (endText T c)).isComment && ic) = false := by simp [reEnd]
          simp [hc2, hs2]
        · -- ignored statement: something was dropped
          split at h
          · simp at h
            obtain ⟨rfl, rfl⟩ := h
            have := congrArg List.length hx
            simp [flat] at this
          · have := fill_length T ic f _ ls t rest h
            have := congrArg List.length hx
            simp at this; omega
        · -- statement
          rename_i k hs
          split at h
          · rename_i hh
            simp at h
            obtain ⟨rfl, rfl⟩ := h
            simp [pr, items, reItem, tr, fill, hg, hs, hh]
          · rename_i hh
            split at h
            · simp at h
            · rename_i nx rest' hn
              simp at h
              obtain ⟨rfl, rfl⟩ := h
              simp only [flat, List.cons_append, List.cons.injEq, true_and] at hx
              simp only [restep] at hr
              have := ih _ _ _ _ hn hx hr rest2 hrel
              simp only [items] at this
              simp [pr, items, reItem, tr, fill, hg, hs, hh, this]
        · -- block
          rename_i ri ch hs
          split at h
          · simp at h
          · rename_i kids r1 hk
            have k1 := (fill_sublist T ic f _ _ _ _ hk).1
            have hg2 : ((reHdr T it ri ch).isComment && ic) = false := by
              rw [reHdr_isComment]; simpa using hg
            have hh2 : hit T c (reHdr T it ri ch) = hit T c it :=
              hit_label T c _ _ (reHdr_label T it ri ch)
            split at h
            · rename_i hh
              simp at h
              obtain ⟨rfl, rfl⟩ := h
              simp only [flat, List.cons_append, List.append_nil, List.cons.injEq, true_and] at hx
              simp only [restep, Bool.and_eq_true, beq_iff_eq] at hr
              have := ih _ _ _ _ hk hx hr.1.2 rest2 hrel
              simp only [items] at this
              simp [pr, items, reItem, tr, fill, hg2, hr.1.1, hh2, hh, this]
            · rename_i hh
              split at h
              · simp at h
              · rename_i nx rest' hn
                simp at h
                obtain ⟨rfl, rfl⟩ := h
                have n1 := (fill_sublist T ic f _ _ _ _ hn).1
                simp only [flat, List.cons_append, List.cons.injEq, true_and] at hx
                obtain ⟨e1, e2⟩ := split_exact k1 n1 (by simpa using hx)
                simp only [restep, Bool.and_eq_true, beq_iff_eq] at hr
                have hrel' : LRelL r1 (items T (pr T c nx) ++ rest2) := by
                  rw [← e2]; exact (LRel_flat_pr T nx c).append hrel
                have hkid := ih _ _ _ _ hk e1 hr.1.2 _ hrel'
                have hnx := ih _ _ _ _ hn e2 hr.2 rest2 hrel
                simp only [items] at hkid hnx
                simp [pr, items, reItem, tr, fill, hg2, hr.1.1, hh2, hh, hkid, hnx]
        · simp at h
        · simp at h

end Fp.One2
