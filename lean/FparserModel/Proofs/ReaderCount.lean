import FparserModel.Reader

/-!
# ReaderCount — `linecount`, `source_lines` and item spans (properties C07, C12)

Invariants of one reader that every operation preserves:

* `Inv r`     : `linecount + len(filo_line) = len(source_lines)` — `linecount` is the number of
                physical lines pulled from the source minus the lines pushed back for peeking
                (free form never pushes back, so there `linecount = len(source_lines)`).
* `FifoOK r`  : every buffered item has `1 ≤ first ≤ last ≤ linecount`.

`Le r r'` packages "linecount did not decrease and both invariants were preserved".
-/
namespace Fp.Reader
open Fp

def Inv (r : Rd) : Prop := r.linecount + r.filo.length = r.linesRev.length

def SpanOK (lc : Nat) (x : Item) : Prop := 1 ≤ x.first ∧ x.first ≤ x.last ∧ x.last ≤ lc

def FifoOK (r : Rd) : Prop := ∀ x ∈ r.fifo, SpanOK r.linecount x

structure Le (r r' : Rd) : Prop where
  lc : r.linecount ≤ r'.linecount
  inv : Inv r → Inv r'
  fifo : FifoOK r → FifoOK r'

theorem SpanOK.mono {lc lc' : Nat} {x : Item} (h : SpanOK lc x) (hl : lc ≤ lc') : SpanOK lc' x :=
  ⟨h.1, h.2.1, Nat.le_trans h.2.2 hl⟩

theorem Le.refl (r : Rd) : Le r r := ⟨Nat.le_refl _, id, id⟩

theorem Le.trans {a b c : Rd} (h1 : Le a b) (h2 : Le b c) : Le a c :=
  ⟨Nat.le_trans h1.lc h2.lc, fun h => h2.inv (h1.inv h), fun h => h2.fifo (h1.fifo h)⟩

/-- appending items with good spans to the FIFO -/
theorem Le.append (r : Rd) (xs : List Item) (h : ∀ x ∈ xs, SpanOK r.linecount x) :
    Le r { r with fifo := r.fifo ++ xs } :=
  ⟨Nat.le_refl _, id, fun hf x hx => by
    rcases List.mem_append.mp hx with h1 | h1
    · exact hf x h1
    · exact h x h1⟩

theorem pull_spec (a b : Bool) : ∀ (src : List Str) (lc : Nat) (ls : List Str),
    ∃ k, (pull a b src lc ls).2.2.1 = lc + k ∧ (pull a b src lc ls).2.2.2.length = ls.length + k ∧
      ((pull a b src lc ls).1.isSome → 1 ≤ k) ∧ (pull a b src lc ls).2.1.length + k = src.length
  | [], lc, ls => ⟨0, by simp [pull]⟩
  | l :: rest, lc, ls => by
    unfold pull
    simp only []
    generalize (if a = true then (replaceSentinelFixed (cook l)).1 else cook l) = l2
    by_cases hc : (b && isFixCommentS l2) = true
    · simp only [hc, if_true]
      obtain ⟨k, h1, h2, h3, h4⟩ := pull_spec a b rest (lc + 1) (l2 :: ls)
      refine ⟨k + 1, ?_, ?_, ?_, ?_⟩
      · rw [h1]; omega
      · rw [h2]; simp; omega
      · intro _; omega
      · simp only [List.length_cons]; omega
    · simp only [hc]; exact ⟨1, by simp⟩

theorem getSingleLine_fifo (r : Rd) : (getSingleLine r).2.fifo = r.fifo := by
  unfold getSingleLine
  cases r.filo with
  | cons l f => rfl
  | nil =>
    simp only []
    by_cases hc : r.closed = true
    · simp [hc]
    · have hc' : r.closed = false := by simpa using hc
      simp only [hc', Bool.false_eq_true, if_false]
      cases pull (r.omp && !r.isFree) (r.ignoreComments && !r.isFree) r.src r.linecount r.linesRev with
      | mk o rest1 =>
        obtain ⟨src', lc', ls'⟩ := rest1
        cases o <;> rfl

theorem getSingleLine_le (r : Rd) : Le r (getSingleLine r).2 := by
  unfold getSingleLine
  cases hf : r.filo with
  | cons l f =>
    simp only []
    refine ⟨by simp, ?_, ?_⟩
    · intro h; simp only [Inv, hf, List.length_cons] at h ⊢; omega
    · intro h x hx; exact (h x hx).mono (by simp)
  | nil =>
    simp only []
    by_cases hc : r.closed = true
    · simp only [hc, if_true]; exact Le.refl r
    · have hc' : r.closed = false := by simpa using hc
      simp only [hc', Bool.false_eq_true, if_false]
      obtain ⟨k, h1, h2, _, _⟩ := pull_spec (r.omp && !r.isFree) (r.ignoreComments && !r.isFree)
        r.src r.linecount r.linesRev
      cases hp : pull (r.omp && !r.isFree) (r.ignoreComments && !r.isFree) r.src r.linecount r.linesRev with
      | mk o rest1 =>
        obtain ⟨src', lc', ls'⟩ := rest1
        rw [hp] at h1 h2
        simp only [] at h1 h2
        cases o with
        | none =>
          simp only []
          refine ⟨by simp only []; omega, ?_, ?_⟩
          · intro h; simp only [Inv, hf, List.length_nil] at h ⊢; omega
          · intro h x hx; exact (h x hx).mono (by simp only []; omega)
        | some l =>
          simp only []
          refine ⟨by simp only []; omega, ?_, ?_⟩
          · intro h; simp only [Inv, hf, List.length_nil] at h ⊢; omega
          · intro h x hx; exact (h x hx).mono (by simp only []; omega)

/-- a successful `get_single_line` advances `linecount` -/
theorem getSingleLine_some (r : Rd) (l : Str) (h : (getSingleLine r).1 = some l) :
    r.linecount + 1 ≤ (getSingleLine r).2.linecount := by
  unfold getSingleLine at h ⊢
  cases hf : r.filo with
  | cons l f => simp
  | nil =>
    rw [hf] at h
    simp only [] at h ⊢
    by_cases hc : r.closed = true
    · simp [hc] at h
    · have hc' : r.closed = false := by simpa using hc
      simp only [hc', Bool.false_eq_true, if_false] at h ⊢
      obtain ⟨k, h1, _, h3, _⟩ := pull_spec (r.omp && !r.isFree) (r.ignoreComments && !r.isFree)
        r.src r.linecount r.linesRev
      cases hp : pull (r.omp && !r.isFree) (r.ignoreComments && !r.isFree) r.src r.linecount r.linesRev with
      | mk o rest1 =>
        obtain ⟨src', lc', ls'⟩ := rest1
        rw [hp] at h h1 h3
        cases o with
        | none => simp at h
        | some l' =>
          simp only [] at h1 h3 ⊢
          have := h3 rfl
          omega

theorem getNextLine_le (r : Rd) : Le r (getNextLine r).2 := by
  unfold getNextLine
  have hle := getSingleLine_le r
  cases hg : getSingleLine r with
  | mk o r' =>
    rw [hg] at hle
    cases o with
    | none => exact hle
    | some l =>
      have hs := getSingleLine_some r l (by rw [hg])
      rw [hg] at hs
      simp only [] at hle hs ⊢
      refine ⟨by simp [putSingleLine]; omega, ?_, ?_⟩
      · intro h
        have := hle.inv h
        simp only [Inv, putSingleLine, List.length_cons] at this ⊢
        omega
      · intro h x hx
        have hf := getSingleLine_fifo r
        rw [hg] at hf
        simp only [] at hf
        have hx' : x ∈ r.fifo := by rw [← hf]; exact hx
        exact (h x hx').mono (by simp [putSingleLine]; omega)

/-- spans of the comments that `handle_inline_comment` buffers -/
def AllAt (n : Nat) (xs : List Item) : Prop := ∀ x ∈ xs, x.first = n ∧ x.last = n

theorem hicQuick_comments (line : Str) (n : Nat) (q : Option Char) (h : Hic)
    (hq : hicQuick line n q = some h) : AllAt n h.comments := by
  unfold hicQuick at hq
  cases q with
  | some c => simp at hq
  | none =>
    cases hf : find line '!' with
    | none => rw [hf] at hq; simp at hq
    | some idx =>
      rw [hf] at hq
      simp only [] at hq
      simp at hq
      obtain ⟨_, _, rfl⟩ := hq
      intro x hx
      simp only [List.mem_singleton] at hx
      subst hx
      exact ⟨rfl, rfl⟩

theorem hicSlow_comments (line : Str) (n : Nat) (q : Option Char) :
    AllAt n (hicSlow line n q).comments := by
  unfold hicSlow
  simp only []
  split
  · intro x hx
    simp only [List.mem_singleton] at hx
    subst hx
    exact ⟨rfl, rfl⟩
  · intro x hx; cases hx

theorem hic_comments (line : Str) (n : Nat) (q : Option Char) :
    AllAt n (handleInlineComment line n q).comments := by
  unfold handleInlineComment
  split
  · intro x hx; cases hx
  · split
    · rename_i r hr; exact hicQuick_comments line n q r hr
    · exact hicSlow_comments line n q

theorem AllAt.spanOK {n lc : Nat} {xs : List Item} (h : AllAt n xs) (h1 : 1 ≤ n) (h2 : n ≤ lc) :
    ∀ x ∈ xs, SpanOK lc x := fun x hx => by
  obtain ⟨a, b⟩ := h x hx
  exact ⟨by omega, by omega, by omega⟩

theorem freeStep_comments (started : Bool) (line : Str) (n : Nat) (q : Option Char)
    (label : Option Nat) (name : Option Str) :
    AllAt n (freeStep started line n q label name).h.comments := by
  unfold freeStep
  simp only []
  split <;> exact hic_comments _ _ _

/-- the free-form loop: counters and invariants -/
theorem freeLoop_le (hadOmp : Bool) : ∀ (fuel : Nat) (line : Option Str) (started : Bool) (acc : Str)
    (q : Option Char) (label : Option Nat) (name : Option Str) (endl : Nat) (r : Rd),
    1 ≤ r.linecount → endl ≤ r.linecount →
    Le r (freeLoop hadOmp fuel line started acc q label name endl r).r ∧
    endl ≤ (freeLoop hadOmp fuel line started acc q label name endl r).endl ∧
    (freeLoop hadOmp fuel line started acc q label name endl r).endl ≤
      (freeLoop hadOmp fuel line started acc q label name endl r).r.linecount
  | 0, _, _, _, _, _, _, _, r, _, h2 => by
    simp only [freeLoop]; exact ⟨Le.refl r, Nat.le_refl _, h2⟩
  | fuel + 1, none, _, _, _, _, _, _, r, _, h2 => by
    simp only [freeLoop]; exact ⟨Le.refl r, Nat.le_refl _, h2⟩
  | fuel + 1, some line0, started, acc, q, label, name, endl, r, h1, h2 => by
    unfold freeLoop
    simp only []
    generalize (if hadOmp = true then (replaceSentinelFreeCont line0).1 else line0) = line
    split
    · -- comment line inside a continuation
      have ha : Le r { r with fifo := r.fifo ++ [Item.comment (lstrip line) r.linecount r.linecount false] } :=
        Le.append r _ (fun x hx => by
          simp only [List.mem_singleton] at hx; subst hx
          exact ⟨h1, Nat.le_refl _, Nat.le_refl _⟩)
      have hlc : ({ r with fifo := r.fifo ++ [Item.comment (lstrip line) r.linecount r.linecount false] } : Rd).linecount
          = r.linecount := rfl
      generalize ({ r with fifo := r.fifo ++ [Item.comment (lstrip line) r.linecount r.linecount false] } : Rd) = r1
        at ha hlc ⊢
      have hg := getSingleLine_le r1
      have ih := freeLoop_le hadOmp fuel (getSingleLine r1).1 started acc q label name endl
          (getSingleLine r1).2 (by have := hg.lc; omega) (by have := hg.lc; omega)
      exact ⟨(ha.trans hg).trans ih.1, ih.2.1, ih.2.2⟩
    · split
      · have hg := getSingleLine_le r
        have ih := freeLoop_le hadOmp fuel (getSingleLine r).1 started acc q label name endl
          (getSingleLine r).2 (Nat.le_trans h1 hg.lc) (Nat.le_trans h2 hg.lc)
        exact ⟨hg.trans ih.1, ih.2.1, ih.2.2⟩
      · have hc : AllAt r.linecount (freeStep started line r.linecount q label name).h.comments :=
          freeStep_comments _ _ _ _ _ _
        generalize freeStep started line r.linecount q label name = stp at hc ⊢
        have ha : Le r { r with fifo := r.fifo ++ stp.h.comments } :=
          Le.append r _ (hc.spanOK h1 (Nat.le_refl _))
        have hlc : ({ r with fifo := r.fifo ++ stp.h.comments } : Rd).linecount = r.linecount := rfl
        generalize ({ r with fifo := r.fifo ++ stp.h.comments } : Rd) = r1 at ha hlc ⊢
        split
        · have hg := getSingleLine_le r1
          have ih := freeLoop_le hadOmp fuel (getSingleLine r1).1 true
            (acc ++ stp.piece) stp.h.q stp.label stp.name r.linecount (getSingleLine r1).2
            (by have := hg.lc; omega) (by have := hg.lc; omega)
          exact ⟨(ha.trans hg).trans ih.1, by have := ih.2.1; omega, ih.2.2⟩
        · refine ⟨ha, ?_, ?_⟩
          · simp only []; split <;> omega
          · simp only []; split <;> omega

/-- result of an operation that returns an item: counters/invariants and the item's span -/
structure Post (r : Rd) (p : Res Item × Rd) : Prop where
  le : Le r p.2
  item : FifoOK r → ∀ x, p.1 = .ok x → SpanOK p.2.linecount x

theorem mkLine_span {t : Str} {l : Option Nat} {n : Option Str} {s e : Nat} {x : Item}
    (h : mkLine t l n s e = .ok x) : x.first = s ∧ x.last = e := by
  unfold mkLine at h
  simp only [] at h
  split at h
  · cases h
  · cases h; exact ⟨rfl, rfl⟩

theorem mkCpp_span {t : Str} {s e : Nat} {x : Item}
    (h : mkCpp t s e = .ok x) : x.first = s ∧ x.last = e := by
  unfold mkCpp at h
  simp only [] at h
  split at h
  · cases h
  · cases h; exact ⟨rfl, rfl⟩

theorem mkSynErr_span {t : Str} {s e : Nat} {x : Item}
    (h : mkSynErr t s e = .ok x) : x.first = s ∧ x.last = e := by
  unfold mkSynErr at h
  simp only [] at h
  split at h
  · cases h
  · cases h; exact ⟨rfl, rfl⟩

theorem Le.setFree (r : Rd) : Le r { r with isFree := true } := ⟨Nat.le_refl _, id, id⟩

theorem Le.dropFifo (r : Rd) (x : Item) (rest : List Item) (h : r.fifo = x :: rest) :
    Le r { r with fifo := rest } :=
  ⟨Nat.le_refl _, id, fun hf y hy => hf y (by rw [h]; exact List.mem_cons_of_mem _ hy)⟩

theorem cppLoop_post : ∀ (fuel : Nat) (line acc : Str) (s : Nat) (r : Rd), 1 ≤ s → s ≤ r.linecount →
    Le r (cppLoop fuel line acc s r).2 ∧
    ∀ x, (cppLoop fuel line acc s r).1 = .ok x → SpanOK (cppLoop fuel line acc s r).2.linecount x
  | 0, _, _, _, r, _, _ => by
    simp only [cppLoop]; exact ⟨Le.refl r, fun x h => by cases h⟩
  | fuel + 1, line, acc, s, r, h1, h2 => by
    unfold cppLoop
    simp only []
    split
    · have hg := getSingleLine_le r
      cases hq : getSingleLine r with
      | mk o r' =>
        rw [hq] at hg
        cases o with
        | none => exact ⟨hg, fun x h => by cases h⟩
        | some l2 =>
          simp only []
          have ih := cppLoop_post fuel l2 (acc ++ (rstrip line).dropLast) s r' h1
            (Nat.le_trans h2 hg.lc)
          exact ⟨hg.trans ih.1, ih.2⟩
    · refine ⟨Le.refl r, fun x h => ?_⟩
      obtain ⟨a, b⟩ := mkCpp_span h
      exact ⟨by omega, by omega, by simp only []; omega⟩

theorem fixLoop_le : ∀ (fuel : Nat) (nl : Option Str) (acc : Str) (qc : Option Char) (endl : Nat) (r : Rd),
    1 ≤ r.linecount → endl ≤ r.linecount →
    Le r (fixLoop fuel nl acc qc endl r).2.2 ∧ endl ≤ (fixLoop fuel nl acc qc endl r).2.1 ∧
    (fixLoop fuel nl acc qc endl r).2.1 ≤ (fixLoop fuel nl acc qc endl r).2.2.linecount
  | 0, _, _, _, _, r, _, h2 => by
    simp only [fixLoop]; exact ⟨Le.refl r, Nat.le_refl _, h2⟩
  | fuel + 1, nl, acc, qc, endl, r, h1, h2 => by
    unfold fixLoop
    split
    · have hg := getSingleLine_le r
      cases hq : getSingleLine r with
      | mk o r1 =>
        rw [hq] at hg
        cases o with
        | none => exact ⟨hg, Nat.le_refl _, Nat.le_trans h2 hg.lc⟩
        | some line2 =>
          simp only []
          have hr1 : 1 ≤ r1.linecount := Nat.le_trans h1 hg.lc
          have hgl : r.linecount ≤ r1.linecount := hg.lc
          split
          · have ha : Le r1 { r1 with fifo := r1.fifo ++ [Item.comment line2 r1.linecount r1.linecount false] } :=
              Le.append r1 _ (fun x hx => by
                simp only [List.mem_singleton] at hx; subst hx
                exact ⟨hr1, Nat.le_refl _, Nat.le_refl _⟩)
            have hlc : ({ r1 with fifo := r1.fifo ++ [Item.comment line2 r1.linecount r1.linecount false] } : Rd).linecount
              = r1.linecount := rfl
            generalize ({ r1 with fifo := r1.fifo ++ [Item.comment line2 r1.linecount r1.linecount false] } : Rd) = r2
              at ha hlc ⊢
            have hn := getNextLine_le r2
            have ih := fixLoop_le fuel (getNextLine r2).1 acc qc endl (getNextLine r2).2
              (by have := hn.lc; omega) (by have := hn.lc; omega)
            exact ⟨((hg.trans ha).trans hn).trans ih.1, ih.2.1, ih.2.2⟩
          · have hc : AllAt r1.linecount (handleInlineComment (line2.drop 6) r1.linecount qc).comments :=
              hic_comments _ _ _
            generalize handleInlineComment (line2.drop 6) r1.linecount qc = h at hc ⊢
            have ha : Le r1 { r1 with fifo := r1.fifo ++ h.comments } :=
              Le.append r1 _ (hc.spanOK hr1 (Nat.le_refl _))
            have hlc : ({ r1 with fifo := r1.fifo ++ h.comments } : Rd).linecount = r1.linecount := rfl
            generalize ({ r1 with fifo := r1.fifo ++ h.comments } : Rd) = r2 at ha hlc ⊢
            have hn := getNextLine_le r2
            have ih := fixLoop_le fuel (getNextLine r2).1 (acc ++ h.line) h.q r1.linecount (getNextLine r2).2
              (by have := hn.lc; omega) (by have := hn.lc; omega)
            exact ⟨((hg.trans ha).trans hn).trans ih.1, by have := ih.2.1; omega, ih.2.2⟩
    · exact ⟨Le.refl r, Nat.le_refl _, h2⟩

theorem freeItem_post (r : Rd) (line : Str) (hadOmp : Bool) (s : Nat) (h1 : 1 ≤ s)
    (hs : s = r.linecount) : Post r (freeItem r line hadOmp s) := by
  unfold freeItem
  have hl := freeLoop_le hadOmp (r.src.length + r.filo.length + 2) (some line) false [] none none none
    r.linecount r (by omega) (Nat.le_refl _)
  generalize freeLoop hadOmp (r.src.length + r.filo.length + 2) (some line) false [] none none none
    r.linecount r = o at hl
  obtain ⟨hle, he1, he2⟩ := hl
  simp only []
  split
  · exact ⟨hle, fun _ x hx => by
      simp only [Res.ok.injEq] at hx; subst hx
      exact ⟨h1, by simp only [Item.first, Item.last]; omega, he2⟩⟩
  · split
    · exact ⟨hle, fun _ x hx => by cases hx⟩
    · split
      · exact ⟨hle, fun _ x hx => by split at hx <;> cases hx⟩
      · split
        · rename_i it rest hf
          refine ⟨hle.trans (Le.dropFifo o.r it rest hf), fun hfo x hx => ?_⟩
          simp only [Res.ok.injEq] at hx; subst hx
          exact hle.fifo hfo it (by rw [hf]; exact List.mem_cons_self)
        · exact ⟨hle, fun _ x hx => by
            simp only [Res.ok.injEq] at hx; subst hx
            exact ⟨h1, by simp only [Item.first, Item.last]; omega, he2⟩⟩

theorem fixedItem_post (r : Rd) (line : Str) (s : Nat) (h1 : 1 ≤ s) (hs : s = r.linecount) :
    Post r (fixedItem r line s) := by
  unfold fixedItem
  cases fixedLabel line with
  | none => exact ⟨Le.refl r, fun _ x hx => by cases hx⟩
  | some label =>
    simp only []
    generalize fixedName line = nl
    by_cases c1 : strip (nl.2.drop 6) = []
    · simp only [c1, if_true]
      by_cases c2 : nl.1.isSome = true
      · simp only [c2, if_true]
        exact ⟨Le.refl r, fun _ x hx => by split at hx <;> cases hx⟩
      · simp only [c2]
        by_cases c3 : (label.isSome && warnRaises r) = true
        · simp only [c3, if_true]
          exact ⟨Le.refl r, fun _ x hx => by cases hx⟩
        · simp only [c3]
          exact ⟨Le.refl r, fun _ x hx => by
            simp only [Bool.false_eq_true, if_false, Res.ok.injEq] at hx; subst hx
            exact ⟨h1, by simp only [Item.first, Item.last]; omega, Nat.le_refl _⟩⟩
    · simp only [c1, if_false]
      have hc := hic_comments (nl.2.drop 6) s none
      generalize handleInlineComment (nl.2.drop 6) s none = h at hc ⊢
      have ha : Le r { r with fifo := r.fifo ++ h.comments } :=
        Le.append r _ (hc.spanOK h1 (by omega))
      have hlc : ({ r with fifo := r.fifo ++ h.comments } : Rd).linecount = r.linecount := rfl
      generalize ({ r with fifo := r.fifo ++ h.comments } : Rd) = r1 at ha hlc ⊢
      have hn := getNextLine_le r1
      have hf := fixLoop_le (r.src.length + r.filo.length + 2) (getNextLine r1).1 h.line h.q r.linecount
        (getNextLine r1).2 (by have := hn.lc; omega) (by have := hn.lc; omega)
      generalize fixLoop (r.src.length + r.filo.length + 2) (getNextLine r1).1 h.line h.q r.linecount
        (getNextLine r1).2 = out at hf ⊢
      refine ⟨(ha.trans hn).trans hf.1, fun _ x hx => ?_⟩
      obtain ⟨a, b⟩ := mkLine_span hx
      exact ⟨by omega, by omega, by simp only []; omega⟩

theorem getSourceItem_post (r : Rd) : Post r (getSourceItem r) := by
  unfold getSourceItem
  have hg := getSingleLine_le r
  have hsome := getSingleLine_some r
  cases hq : getSingleLine r with
  | mk o r1 =>
    rw [hq] at hg hsome
    cases o with
    | none => exact ⟨hg, fun _ x hx => by cases hx⟩
    | some line0 =>
      have h1 : 1 ≤ r1.linecount := by have := hsome line0 rfl; simp only [] at this; omega
      simp only [] at hg ⊢
      by_cases c0 : (line0 != [] && startsWith (lstrip line0) ['#']) = true
      · simp only [c0, if_true]
        have hc := cppLoop_post (r1.src.length + r1.filo.length + 2) line0 [] r1.linecount r1 h1 (Nat.le_refl _)
        generalize cppLoop (r1.src.length + r1.filo.length + 2) line0 [] r1.linecount r1 = p at hc ⊢
        exact ⟨hg.trans hc.1, fun _ x hx => hc.2 x hx⟩
      · simp only [c0]
        generalize (if (r1.isFree && r1.omp) = true then replaceSentinelFree line0 else (line0, false)) = om
        by_cases c1 : (!r1.isFree) = true
        · simp only [c1, if_true]
          by_cases c2 : isFixCommentS om.1 = true
          · simp only [c2, if_true]
            exact ⟨hg, fun _ x hx => by
              cases hx
              exact ⟨h1, Nat.le_refl _, Nat.le_refl _⟩⟩
          · simp only [c2, Bool.false_eq_true, if_false]
            cases colCheck om.1 with
            | comment =>
              simp only []
              exact ⟨hg, fun _ x hx => by
                cases hx
                exact ⟨h1, Nat.le_refl _, Nat.le_refl _⟩⟩
            | synerr =>
              simp only []
              refine ⟨hg.trans (Le.setFree r1), fun _ x hx => ?_⟩
              obtain ⟨a, b⟩ := mkSynErr_span hx
              exact ⟨by omega, by omega, by simp only []; omega⟩
            | switch =>
              simp only []
              have hp := freeItem_post { r1 with isFree := true } om.1 om.2 r1.linecount h1 rfl
              generalize freeItem { r1 with isFree := true } om.1 om.2 r1.linecount = p at hp ⊢
              exact ⟨(hg.trans (Le.setFree r1)).trans hp.le,
                fun hf x hx => hp.item ((hg.trans (Le.setFree r1)).fifo hf) x hx⟩
            | fine =>
              simp only []
              have hp := fixedItem_post r1 om.1 r1.linecount h1 rfl
              generalize fixedItem r1 om.1 r1.linecount = p at hp ⊢
              exact ⟨hg.trans hp.le, fun hf x hx => hp.item (hg.fifo hf) x hx⟩
        · simp only [c1, Bool.false_eq_true, if_false]
          have hp := freeItem_post r1 om.1 om.2 r1.linecount h1 rfl
          generalize freeItem r1 om.1 om.2 r1.linecount = p at hp ⊢
          exact ⟨hg.trans hp.le, fun hf x hx => hp.item (hg.fifo hf) x hx⟩

theorem Post.chain {r r1 : Rd} {q : Res Item × Rd} (h : Le r r1) (hq : Post r1 q) : Post r q :=
  ⟨h.trans hq.le, fun hf x hx => hq.item (h.fifo hf) x hx⟩

theorem popOrRead_post (r : Rd) : Post r (popOrRead r) := by
  unfold popOrRead
  cases hf : r.fifo with
  | nil => exact getSourceItem_post r
  | cons x f =>
    refine ⟨Le.dropFifo r x f hf, fun hfo y hy => ?_⟩
    cases hy
    exact hfo x (by rw [hf]; exact List.mem_cons_self)

theorem nextRaw_post : ∀ (fuel : Nat) (r : Rd), Post r (nextRaw fuel r)
  | 0, r => ⟨Le.refl r, fun _ x hx => by cases hx⟩
  | fuel + 1, r => by
    unfold nextRaw
    have hp := popOrRead_post r
    generalize popOrRead r = p at hp ⊢
    simp only []
    cases h1 : p.1 with
    | ok it =>
      simp only []
      split
      · exact Post.chain hp.le (nextRaw_post fuel p.2)
      · exact hp
    | stop => exact hp
    | err => exact hp
    | exit => exact hp
    | unsup => exact hp

theorem lineView_span {it : Item} {t : Str} {l : Option Nat} {n : Option Str} {s e : Nat}
    (h : it.lineView = some (t, l, n, s, e)) : it.first = s ∧ it.last = e := by
  cases it <;> simp [Item.lineView] at h <;> (obtain ⟨_, _, _, rfl, rfl⟩ := h; exact ⟨rfl, rfl⟩)

theorem splitRest_span (m : SMap) (s e : Nat) : ∀ (ps : List Str) (out : List Item),
    splitRest m s e ps = some out → ∀ y ∈ out, y.first = s ∧ y.last = e
  | [], out, h => by
    simp only [splitRest, Option.some.injEq] at h; subst h
    intro y hy; cases hy
  | p :: ps, out, h => by
    unfold splitRest at h
    simp only [] at h
    split at h
    · exact splitRest_span m s e ps out h
    · split at h
      · rename_i it rest hm hr
        simp only [Option.some.injEq] at h; subst h
        intro y hy
        rcases List.mem_cons.mp hy with rfl | hy
        · exact mkLine_span hm
        · exact splitRest_span m s e ps rest hr y hy
      · cases h

theorem splitFirst_span (m : SMap) (f : Str) (l : Option Nat) (n : Option Str) (s e : Nat)
    (h : List Item) (hh : splitFirst m f l n s e = some h) : ∀ y ∈ h, y.first = s ∧ y.last = e := by
  unfold splitFirst at hh
  split at hh
  · split at hh
    · rename_i x hm
      simp only [Option.some.injEq] at hh; subst hh
      intro y hy
      simp only [List.mem_singleton] at hy; subst hy
      exact mkLine_span hm
    · cases hh
  · simp only [Option.some.injEq] at hh; subst hh
    intro y hy; cases hy

theorem splitSemicolon_post (it : Item) (r : Rd) (hs : SpanOK r.linecount it) (q : Res Item × Rd)
    (hq : splitSemicolon it r = some q) :
    Le r q.2 ∧ ∀ x, q.1 = .ok x → SpanOK q.2.linecount x := by
  unfold splitSemicolon at hq
  cases hv : it.lineView with
  | none =>
    rw [hv] at hq
    simp only [Option.some.injEq] at hq; subst hq
    exact ⟨Le.refl r, fun x hx => by cases hx; exact hs⟩
  | some v =>
    obtain ⟨text, l, n, s, e⟩ := v
    obtain ⟨hf, hl⟩ := lineView_span hv
    rw [hv] at hq
    simp only [] at hq
    split at hq
    · simp only [Option.some.injEq] at hq; subst hq
      exact ⟨Le.refl r, fun x hx => by cases hx; exact hs⟩
    · split at hq
      · simp only [Option.some.injEq] at hq; subst hq
        exact ⟨Le.refl r, fun x hx => by cases hx⟩
      · split at hq
        · rename_i h others hm hr
          split at hq
          · cases hq
          · rename_i x xs hxs
            simp only [Option.some.injEq] at hq; subst hq
            have hall : ∀ y ∈ x :: xs, y.first = s ∧ y.last = e := by
              intro y hy
              rw [← hxs] at hy
              rcases List.mem_append.mp hy with h1 | h1
              · exact splitFirst_span _ _ _ _ _ _ h hm y h1
              · exact splitRest_span _ s e _ others hr y h1
            have hspan : ∀ y : Item, y.first = s ∧ y.last = e → SpanOK r.linecount y := fun y hy => by
              obtain ⟨a, b⟩ := hy
              exact ⟨by rw [a, ← hf]; exact hs.1, by rw [a, b, ← hf, ← hl]; exact hs.2.1,
                by rw [b, ← hl]; exact hs.2.2⟩
            refine ⟨⟨Nat.le_refl _, id, fun hfo y hy => ?_⟩, fun x' hx => ?_⟩
            · rcases List.mem_append.mp hy with h1 | h1
              · exact hspan y (hall y (List.mem_cons_of_mem _ h1))
              · exact hfo y h1
            · cases hx
              exact hspan _ (hall _ List.mem_cons_self)
        · simp only [Option.some.injEq] at hq; subst hq
          exact ⟨Le.refl r, fun x hx => by cases hx⟩

theorem splitSemicolon_state (it : Item) (r : Rd) (q : Res Item × Rd)
    (hq : splitSemicolon it r = some q) : ∃ f, q.2 = { r with fifo := f } := by
  unfold splitSemicolon at hq
  cases hv : it.lineView with
  | none =>
    rw [hv] at hq
    simp only [Option.some.injEq] at hq; subst hq
    exact ⟨r.fifo, rfl⟩
  | some v =>
    obtain ⟨text, l, n, s, e⟩ := v
    rw [hv] at hq
    simp only [] at hq
    split at hq
    · simp only [Option.some.injEq] at hq; subst hq; exact ⟨r.fifo, rfl⟩
    · split at hq
      · simp only [Option.some.injEq] at hq; subst hq; exact ⟨r.fifo, rfl⟩
      · split at hq
        · split at hq
          · cases hq
          · simp only [Option.some.injEq] at hq; subst hq; exact ⟨_, rfl⟩
        · simp only [Option.some.injEq] at hq; subst hq; exact ⟨r.fifo, rfl⟩

theorem next1Loop_post : ∀ (fuel : Nat) (r : Rd), Post r (next1Loop fuel r)
  | 0, r => ⟨Le.refl r, fun _ x hx => by cases hx⟩
  | fuel + 1, r => by
    unfold next1Loop
    have hp := nextRaw_post (nextRawFuel r) r
    generalize nextRaw (nextRawFuel r) r = p at hp ⊢
    simp only []
    cases h1 : p.1 with
    | ok it =>
      simp only []
      cases hq : splitSemicolon it p.2 with
      | none =>
        simp only []
        exact Post.chain hp.le (next1Loop_post fuel p.2)
      | some q =>
        simp only []
        obtain ⟨f, hst⟩ := splitSemicolon_state it p.2 q hq
        refine ⟨⟨?_, ?_, ?_⟩, fun hfo x hx => ?_⟩
        · rw [hst]; exact hp.le.lc
        · intro h; rw [hst]; exact hp.le.inv h
        · intro hfo
          exact (splitSemicolon_post it p.2 (hp.item hfo it h1) q hq).1.fifo (hp.le.fifo hfo)
        · exact (splitSemicolon_post it p.2 (hp.item hfo it h1) q hq).2 x hx
    | stop => exact hp
    | err => exact hp
    | exit => exact hp
    | unsup => exact hp

theorem next1_post (r : Rd) : Post r (next1 r) := next1Loop_post _ r

/-! ### the chain of include readers -/

def AllOK (st : List Rd) : Prop := ∀ r ∈ st, Inv r ∧ FifoOK r

structure ChainPost (st : List Rd) (p : Res Item × List Rd) : Prop where
  lc : linecount st ≤ linecount p.2
  ok : AllOK st → AllOK p.2
  inv : (∀ r ∈ st, Inv r) → ∀ r ∈ p.2, Inv r
  item : AllOK st → ∀ x, p.1 = .ok x → ∃ r ∈ p.2, SpanOK r.linecount x

theorem errToStop_ok {x : Item} {q : Res Item} (h : errToStop q = .ok x) : q = .ok x := by
  cases q <;> simp [errToStop] at h ⊢; exact h

theorem mk'_ok (src : List Str) (a b c d : Bool) (dirs : List Str) :
    Inv (Rd.mk' src a b c d dirs) ∧ FifoOK (Rd.mk' src a b c d dirs) :=
  ⟨rfl, fun x hx => by cases hx⟩

theorem resolveInclude_ok {fs : Fs} {r nr : Rd} {text : Str}
    (h : resolveInclude fs r text = .reader nr) : Inv nr ∧ FifoOK nr := by
  unfold resolveInclude at h
  simp only [] at h
  split at h
  · split at h
    · cases h
    · cases h; exact mk'_ok _ _ _ _ _ _
  · cases h

theorem nextMain_post (newNext : List Rd → Res Item × List Rd) (fs : Fs)
    (hn : ∀ st, ChainPost st (newNext st)) (r : Rd) : ChainPost [r] (nextMain newNext fs r) := by
  unfold nextMain
  have hp := next1_post r
  generalize next1 r = p at hp ⊢
  have hok : AllOK [r] → Inv p.2 ∧ FifoOK p.2 := fun h =>
    ⟨hp.le.inv (h r List.mem_cons_self).1, hp.le.fifo (h r List.mem_cons_self).2⟩
  have base : ∀ res : Res Item, (∀ x, res = .ok x → p.1 = .ok x) → ChainPost [r] (res, [p.2]) :=
    fun res hres => ⟨hp.le.lc, fun h y hy => by
        simp only [List.mem_singleton] at hy; subst hy; exact hok h,
      fun h y hy => by
        simp only [List.mem_singleton] at hy; subst hy; exact hp.le.inv (h r List.mem_cons_self),
      fun h x hx => ⟨p.2, List.mem_cons_self, hp.item (h r List.mem_cons_self).2 x (hres x hx)⟩⟩
  simp only []
  cases h1 : p.1 with
  | ok it =>
    simp only []
    cases hv : it.lineView with
    | none => exact base _ (fun x hx => by rw [h1]; exact hx)
    | some v =>
      obtain ⟨text, l, n, s, e⟩ := v
      simp only []
      split
      · cases hr : resolveInclude fs p.2 text with
        | missing => exact base _ (fun x hx => by rw [h1]; exact hx)
        | unsup => exact base _ (fun x hx => by cases hx)
        | reader nr =>
          simp only []
          have hq := hn [nr]
          refine ⟨hp.le.lc, fun h y hy => ?_, fun h y hy => ?_, fun h x hx => ?_⟩
          · rcases List.mem_cons.mp hy with rfl | hy
            · exact hok h
            · exact hq.ok (fun z hz => by
                simp only [List.mem_singleton] at hz; subst hz; exact resolveInclude_ok hr) y hy
          · rcases List.mem_cons.mp hy with rfl | hy
            · exact hp.le.inv (h r List.mem_cons_self)
            · exact hq.inv (fun z hz => by
                simp only [List.mem_singleton] at hz; subst hz; exact (resolveInclude_ok hr).1) y hy
          · obtain ⟨r', hr', hs⟩ := hq.item (fun z hz => by
                simp only [List.mem_singleton] at hz; subst hz; exact resolveInclude_ok hr) x
                (errToStop_ok hx)
            exact ⟨r', List.mem_cons_of_mem _ hr', hs⟩
      · exact base _ (fun x hx => by rw [h1]; exact hx)
  | stop => exact base _ (fun x hx => by cases hx)
  | err => exact base _ (fun x hx => by cases hx)
  | exit => exact base _ (fun x hx => by cases hx)
  | unsup => exact base _ (fun x hx => by cases hx)

theorem nextChain_post (newNext : List Rd → Res Item × List Rd) (fs : Fs)
    (hn : ∀ st, ChainPost st (newNext st)) : ∀ st : List Rd, ChainPost st (nextChain newNext fs st)
  | [] => ⟨Nat.le_refl _, fun h => h, fun h => h, fun _ x hx => by cases hx⟩
  | [r] => by simp only [nextChain]; exact nextMain_post newNext fs hn r
  | r :: r2 :: rest => by
    have ih := nextChain_post newNext fs hn (r2 :: rest)
    have hm := nextMain_post newNext fs hn r
    have hmain : ChainPost (r :: r2 :: rest) (nextMain newNext fs r) :=
      ⟨hm.lc, fun h => hm.ok (fun y hy => by
          simp only [List.mem_singleton] at hy; subst hy; exact h _ List.mem_cons_self),
        fun h => hm.inv (fun y hy => by
          simp only [List.mem_singleton] at hy; subst hy; exact h _ List.mem_cons_self),
        fun h => hm.item (fun y hy => by
          simp only [List.mem_singleton] at hy; subst hy; exact h _ List.mem_cons_self)⟩
    have hkeep : ∀ res : Res Item, (∀ x, res = .ok x → (nextChain newNext fs (r2 :: rest)).1 = .ok x) →
        ChainPost (r :: r2 :: rest) (res, r :: (nextChain newNext fs (r2 :: rest)).2) :=
      fun res hres => ⟨Nat.le_refl _, fun h y hy => by
          rcases List.mem_cons.mp hy with rfl | hy
          · exact h _ List.mem_cons_self
          · exact ih.ok (fun z hz => h z (List.mem_cons_of_mem _ hz)) y hy,
        fun h y hy => by
          rcases List.mem_cons.mp hy with rfl | hy
          · exact h _ List.mem_cons_self
          · exact ih.inv (fun z hz => h z (List.mem_cons_of_mem _ hz)) y hy,
        fun h x hx => by
          obtain ⟨r', hr', hs⟩ := ih.item (fun z hz => h z (List.mem_cons_of_mem _ hz)) x (hres x hx)
          exact ⟨r', List.mem_cons_of_mem _ hr', hs⟩⟩
    unfold nextChain
    simp only []
    cases h1 : (nextChain newNext fs (r2 :: rest)).1 with
    | ok x => exact hkeep _ (fun y hy => by rw [h1]; exact hy)
    | stop => exact hmain
    | err => exact hmain
    | exit => exact hkeep _ (fun y hy => by cases hy)
    | unsup => exact hkeep _ (fun y hy => by cases hy)

theorem next_post (fs : Fs) : ∀ (d : Nat) (st : List Rd), ChainPost st (next d fs st)
  | 0, st => ⟨Nat.le_refl _, fun h => h, fun h => h, fun _ x hx => by cases hx⟩
  | d + 1, st => nextChain_post (next d fs) fs (next_post fs d) st

theorem putItem_linecount (x : Item) : ∀ st : List Rd, linecount (putItem x st) = linecount st
  | [] => rfl
  | [_] => rfl
  | _ :: _ :: _ => rfl

theorem putItem_inv (x : Item) : ∀ st : List Rd, (∀ r ∈ st, Inv r) → ∀ r ∈ putItem x st, Inv r
  | [], _ => fun r hr => by cases hr
  | [r0], h => fun r hr => by
    simp only [putItem, List.mem_singleton] at hr; subst hr
    exact h r0 List.mem_cons_self
  | r0 :: r2 :: rest, h => fun r hr => by
    simp only [putItem] at hr
    rcases List.mem_cons.mp hr with rfl | hr
    · exact h _ List.mem_cons_self
    · exact putItem_inv x (r2 :: rest) (fun z hz => h z (List.mem_cons_of_mem _ hz)) r hr

end Fp.Reader
