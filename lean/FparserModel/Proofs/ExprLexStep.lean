import FparserModel.Proofs.ExprLexTok
import FparserModel.Proofs.ExprLexStr

/-! the string-level split functions and match steps on a checked segmentation -/
namespace Fp.ExprLex
open Fp Fp.Expr

theorem wordsNE_left : ∀ (L : List Seg) (X : List Seg), wordsNE (L ++ X) → wordsNE L
  | [], _, _ => trivial
  | .gap _ :: rest, X, h => wordsNE_left rest X h
  | .word _ _ :: rest, X, h => ⟨h.1, wordsNE_left rest X h.2⟩

theorem wordsNE_right : ∀ (L : List Seg) (X : List Seg), wordsNE (L ++ X) → wordsNE X
  | [], _, h => h
  | .gap _ :: rest, X, h => wordsNE_right rest X h
  | .word _ _ :: rest, X, h => wordsNE_right rest X h.2

/-- `Pattern.rsplit` (before `.strip()`) on a checked line, in terms of the segments -/
theorem rsplitRaw_segs (q : Pat) (sg : List Seg) (hck : checkSegs none sg = true)
    (hcl : cleanFor q sg) :
    rsplitRaw q (flat sg) =
      match splitLastSeg q sg with
      | none => none
      | some (L, _, m, R) => if glK q id false L then none else some (flat L, m, flat R) := by
  have hw := wordsNE_of_check sg none hck
  unfold rsplitRaw rsplitPieces splitAll
  simp only [Bool.false_eq_true, ↓reduceIte]
  rw [scan_segs q sg none [] hck hcl]
  cases hs : splitLastSeg q sg with
  | none => simp [pieces_noQ q sg [] hs]
  | some x =>
    obtain ⟨L, k, m, R⟩ := x
    obtain ⟨hsg, hk, hR, hp⟩ := pieces_split q sg [] L k m R hs
    have hA := pieces_ne_nil q L []
    obtain ⟨hlen, htake, hdrop, hlast, hmid⟩ := pieces_index (piecesOf q L []) m (flat R) hA
    have hwL : wordsNE L := wordsNE_left L _ (hsg ▸ hw)
    have hm : m ≠ [] := by
      have h1 : wordsNE (Seg.word k m :: R) := wordsNE_right L _ (hsg ▸ hw)
      exact h1.1
    have hj := pieces_join q L []
    simp only [List.reverse_nil, List.nil_append] at hj
    rw [hp, htake, hdrop, hlast, hmid, hj]
    have h3 : ¬ ((piecesOf q L [] ++ [m, flat R]).length < 3) := by
      have := List.length_pos_iff.mpr hA; omega
    simp only [h3, ↓reduceIte, List.any_append, List.any_cons, List.any_nil,
      Bool.or_false, beq_nil_false hm, pieces_innerEmpty q L [] hwL]

end Fp.ExprLex

namespace Fp.ExprLex
open Fp Fp.Expr

theorem pieces_noQF (q : Pat) : ∀ (sg : List Seg) (cur : Str), splitFirstSeg q sg = none →
    piecesOf q sg cur = [cur.reverse ++ flat sg]
  | [], cur, _ => by simp [piecesOf, flat_nil]
  | .gap s :: rest, cur, h => by
    have hr : splitFirstSeg q rest = none := by
      cases hr : splitFirstSeg q rest with
      | none => rfl
      | some x => obtain ⟨L, k, m, R⟩ := x; simp [splitFirstSeg, hr] at h
    rw [piecesOf, pieces_noQF q rest _ hr, flat_cons]; simp [Seg.text]
  | .word k s :: rest, cur, h => by
    have hk : inCls k q = false := by
      cases hk : inCls k q with
      | false => rfl
      | true => simp [splitFirstSeg, hk] at h
    have hr : splitFirstSeg q rest = none := by
      cases hr : splitFirstSeg q rest with
      | none => rfl
      | some x => obtain ⟨L, k, m, R⟩ := x; simp [splitFirstSeg, hr, hk] at h
    rw [piecesOf]; simp only [hk, Bool.false_eq_true, ↓reduceIte]
    rw [pieces_noQF q rest _ hr, flat_cons]; simp [Seg.text]

theorem pieces_splitF (q : Pat) : ∀ (sg : List Seg) (cur : Str) (L : List Seg) (k : TK) (m : Str) (R : List Seg),
    splitFirstSeg q sg = some (L, k, m, R) →
    sg = L ++ .word k m :: R ∧ inCls k q = true ∧
    piecesOf q sg cur = (cur.reverse ++ flat L) :: m :: piecesOf q R []
  | [], _, _, _, _, _, h => by simp [splitFirstSeg] at h
  | .gap s :: rest, cur, L, k, m, R, h => by
    cases hr : splitFirstSeg q rest with
    | none => simp [splitFirstSeg, hr] at h
    | some y =>
      obtain ⟨L', k', m', R'⟩ := y
      simp only [splitFirstSeg, hr, Option.some.injEq, Prod.mk.injEq] at h
      obtain ⟨rfl, rfl, rfl, rfl⟩ := h
      obtain ⟨h1, h2, h3⟩ := pieces_splitF q rest (s.reverse ++ cur) L' k' m' R' hr
      refine ⟨by rw [h1]; simp, h2, ?_⟩
      rw [piecesOf, h3, flat_cons]; simp [Seg.text]
  | .word k0 s :: rest, cur, L, k, m, R, h => by
    by_cases hk : inCls k0 q = true
    · simp only [splitFirstSeg, hk, ↓reduceIte, Option.some.injEq, Prod.mk.injEq] at h
      obtain ⟨rfl, rfl, rfl, rfl⟩ := h
      refine ⟨by simp, hk, ?_⟩
      simp [piecesOf, hk, flat_nil]
    · have hk' : inCls k0 q = false := by simpa using hk
      cases hr : splitFirstSeg q rest with
      | none => simp [splitFirstSeg, hr, hk'] at h
      | some y =>
        obtain ⟨L', k', m', R'⟩ := y
        simp only [splitFirstSeg, hr, hk', Bool.false_eq_true, ↓reduceIte, Option.some.injEq,
          Prod.mk.injEq] at h
        obtain ⟨rfl, rfl, rfl, rfl⟩ := h
        obtain ⟨h1, h2, h3⟩ := pieces_splitF q rest (s.reverse ++ cur) L' k' m' R' hr
        refine ⟨by rw [h1]; simp, h2, ?_⟩
        simp only [piecesOf, hk', Bool.false_eq_true, ↓reduceIte]
        rw [h3, flat_cons]; simp [Seg.text]

/-- `Pattern.lsplit` (before `.strip()`) on a checked line, in terms of the segments -/
theorem lsplitRaw_segs (q : Pat) (sg : List Seg) (hck : checkSegs none sg = true)
    (hcl : cleanFor q sg) :
    lsplitRaw q (flat sg) =
      (splitFirstSeg q sg).map fun x => (flat x.1, x.2.2.1, flat x.2.2.2) := by
  unfold lsplitRaw splitAll
  rw [scan_segs q sg none [] hck hcl]
  cases hs : splitFirstSeg q sg with
  | none => simp [pieces_noQF q sg [] hs]
  | some x =>
    obtain ⟨L, k, m, R⟩ := x
    obtain ⟨_, _, hp⟩ := pieces_splitF q sg [] L k m R hs
    rw [hp]
    have hne := pieces_ne_nil q R []
    have hj := pieces_join q R []
    simp only [List.reverse_nil, List.nil_append] at hj
    have h3 : ¬ ((flat L :: m :: piecesOf q R []).length < 3) := by
      have := List.length_pos_iff.mpr hne
      simp only [List.length_cons]; omega
    simp only [List.reverse_nil, List.nil_append, h3, ↓reduceIte, List.headD_cons,
      List.drop_succ_cons, List.drop_zero, hj, Option.map_some]

end Fp.ExprLex

namespace Fp.ExprLex
open Fp Fp.Expr

/-- what `checkSegs` guarantees about the words, context-free part -/
def wordsNB : List Seg → Prop
  | [] => True
  | .gap _ :: rest => wordsNB rest
  | .word k s :: rest =>
    (s ≠ [] ∧ startsBlank s = false ∧ endsBlank s = false ∧ (∃ n, tokAt s = some (k, n)) ∧
      (∀ w, k = .dotted w → nonDefinedMatch (upper (strip s)) = (dotClass w != .other))) ∧ wordsNB rest

theorem wordsNB_of_check : ∀ (sg : List Seg) (prev : Option Char), checkSegs prev sg = true → wordsNB sg
  | [], _, _ => trivial
  | .gap _ :: rest, prev, h => by
    simp only [checkSegs, Bool.and_eq_true] at h
    exact wordsNB_of_check rest _ h.2
  | .word _ s :: rest, prev, h => by
    simp only [checkSegs, Bool.and_eq_true] at h
    obtain ⟨h1, _, _, h4, h5, h6, h7⟩ := segOK_word h.1
    exact ⟨⟨h1, h6, h7, h5, h4⟩, wordsNB_of_check rest _ h.2⟩

theorem wordsNB_left : ∀ (L X : List Seg), wordsNB (L ++ X) → wordsNB L
  | [], _, _ => trivial
  | .gap _ :: rest, X, h => wordsNB_left rest X h
  | .word _ _ :: rest, X, h => ⟨h.1, wordsNB_left rest X h.2⟩

theorem wordsNB_right : ∀ (L X : List Seg), wordsNB (L ++ X) → wordsNB X
  | [], _, h => h
  | .gap _ :: rest, X, h => wordsNB_right rest X h
  | .word _ _ :: rest, X, h => wordsNB_right rest X h.2

theorem toksOf_nil_iff : ∀ (L : List Seg) (g : Bool), wordsNB L →
    (toksOf g L = [] ↔ allBlank (flat L) = true)
  | [], g, _ => by simp [toksOf, flat_nil, allBlank_nil]
  | .gap s :: rest, g, h => by
    rw [flat_cons, Seg.text, allBlank_append, toksOf]
    by_cases hb : strip s = []
    · simp only [hb, ↓reduceIte, (strip_nil_iff s).mp hb, Bool.true_and]
      exact toksOf_nil_iff rest _ h
    · have : allBlank s = false := by
        cases hh : allBlank s with
        | false => rfl
        | true => exact absurd ((strip_nil_iff s).mpr hh) hb
      simp [hb, this]
  | .word k s :: rest, g, h => by
    rw [flat_cons, Seg.text, allBlank_append, toksOf, not_allBlank_of_startsNB h.1.1 h.1.2.1]
    simp

theorem glueAfter_eq : ∀ (L : List Seg) (g : Bool), wordsNB L →
    glueAfter g L = ((if flat L = [] then g else true) && !endsBlank (flat L))
  | [], g, _ => by simp [glueAfter, flat_nil, endsBlank_nil]
  | .gap s :: rest, g, h => by
    rw [glueAfter, flat_cons, Seg.text]
    by_cases hb : strip s = []
    · simp only [hb, ↓reduceIte]
      rw [glueAfter_eq rest _ h]
      by_cases hr : flat rest = []
      · rw [hr]; simp only [List.append_nil, ↓reduceIte, endsBlank_nil, Bool.not_false, Bool.and_true]
        cases s with
        | nil => simp [endsBlank_nil]
        | cons c t =>
          have := endsBlank_of_allBlank (s := c :: t) (by simp) ((strip_nil_iff _).mp hb)
          simp [this]
      · have : s ++ flat rest ≠ [] := by simp [hr]
        simp only [hr, this, ↓reduceIte, Bool.true_and, endsBlank_append hr]
    · have hs : s ≠ [] := by intro h0; rw [h0] at hb; exact hb rfl
      simp only [hb, ↓reduceIte]
      rw [glueAfter_eq rest _ h]
      have : s ++ flat rest ≠ [] := by simp [hs]
      by_cases hr : flat rest = []
      · rw [hr]; simp [hs, endsBlank_nil]
      · simp only [hr, this, ↓reduceIte, Bool.true_and, endsBlank_append hr]
  | .word k s :: rest, g, h => by
    rw [glueAfter, flat_cons, Seg.text, glueAfter_eq rest _ h.2]
    have : s ++ flat rest ≠ [] := by simp [h.1.1]
    by_cases hr : flat rest = []
    · rw [hr]; simp [h.1.1, endsBlank_nil, h.1.2.2.1]
    · simp only [hr, this, ↓reduceIte, Bool.true_and, endsBlank_append hr]

/-- the segment-level description of one binary match step -/
def segStep (q : Pat) (right excl g0 : Bool) (sg : List Seg) : Option (List Seg × TK × Str × List Seg) :=
  match (if right then (if glK q (fun _ => false) false sg then none else splitLastSeg q sg)
         else splitFirstSeg q sg) with
  | none => none
  | some x =>
    if toksOf g0 x.1 = [] ∨ toksOf true x.2.2.2 = [] then none
    else if excl = true ∧ (tokOf x.2.1 (glueAfter g0 x.1)).excluded = true then none
    else some x

/-- the string results of a segment-level step -/
def strSplit (g0 : Bool) : List Seg × TK × Str × List Seg → Str × T × Str × Bool
  | (L, k, _, R) => (rstrip (strip (flat L)), tokOf k (glueAfter g0 L), strip (flat R), !startsBlank (flat R))

theorem splitFirst_sound (q : Pat) (sg L R : List Seg) (k : TK) (m : Str)
    (h : splitFirstSeg q sg = some (L, k, m, R)) : sg = L ++ .word k m :: R ∧ inCls k q = true := by
  obtain ⟨h1, h2, _⟩ := pieces_splitF q sg [] L k m R h
  exact ⟨h1, h2⟩

theorem inCls_defined_dotted (k : TK) (h : inCls k .defined = true) : ∃ w, k = .dotted w := by
  cases k <;> simp [inCls] at h ⊢

/-- the part of `binStepI` after the split -/
def binTail (excl g0 : Bool) (rl m rr : Str) : Option (Str × T × Str × Bool) :=
  let lhs := rstrip (strip rl)
  let rhs := lstrip (strip rr)
  let oper := upper (strip m)
  if lhs = [] ∨ rhs = [] then none
  else if excl && nonDefinedMatch oper then none
  else match opTok m ((if rl = [] then g0 else true) && !endsBlank rl) with
    | some o => some (lhs, o, rhs, !startsBlank rr)
    | none => none

theorem binStepI_eq (q : Pat) (right excl g0 : Bool) (line : Str) :
    binStepI q right excl g0 line =
      match (if right then rsplitRaw q line else lsplitRaw q line) with
      | none => none
      | some (rl, m, rr) => binTail excl g0 rl m rr := by
  unfold binStepI binTail
  cases (if right then rsplitRaw q line else lsplitRaw q line) with
  | none => rfl
  | some x => obtain ⟨rl, m, rr⟩ := x; rfl

/-- **string side** of the step: `binStepI` on a checked line is the segment step -/
theorem binStepI_segs (q : Pat) (right excl g0 : Bool) (hexcl : excl = true → q = .defined)
    (sg : List Seg) (hck : checkSegs none sg = true) (hcl : cleanFor q sg) :
    binStepI q right excl g0 (flat sg) = (segStep q right excl g0 sg).map (strSplit g0) := by
  have hw := wordsNB_of_check sg none hck
  -- common tail: given the split (L,k,m,R)
  have tail : ∀ (L R : List Seg) (k : TK) (m : Str), sg = L ++ .word k m :: R → inCls k q = true →
      binTail excl g0 (flat L) m (flat R) =
      (if toksOf g0 L = [] ∨ toksOf true R = [] then none
       else if excl = true ∧ (tokOf k (glueAfter g0 L)).excluded = true then none
       else some (strSplit g0 (L, k, m, R))) := by
    intro L R k m hsg hk
    have hwL : wordsNB L := wordsNB_left L _ (hsg ▸ hw)
    have hwX : wordsNB (Seg.word k m :: R) := wordsNB_right L _ (hsg ▸ hw)
    obtain ⟨⟨hm, _, _, ⟨n, htok⟩, hdot⟩, hwR⟩ := hwX
    have e1 : (rstrip (strip (flat L)) = [] ∨ lstrip (strip (flat R)) = []) ↔
        (toksOf g0 L = [] ∨ toksOf true R = []) := by
      rw [rstrip_strip_nil_iff, lstrip_strip, strip_nil_iff, strip_nil_iff,
        toksOf_nil_iff L g0 hwL, toksOf_nil_iff R true hwR]
    have e2 : excl = true → nonDefinedMatch (upper (strip m)) = (tokOf k (glueAfter g0 L)).excluded := by
      intro he
      have := hexcl he
      subst this
      obtain ⟨w, rfl⟩ := inCls_defined_dotted k hk
      rw [hdot w rfl, excluded_tokOf]
    unfold binTail
    simp only [e1]
    split
    · rfl
    · have e3 : ((excl && nonDefinedMatch (upper (strip m))) = true) ↔
          (excl = true ∧ (tokOf k (glueAfter g0 L)).excluded = true) := by
        cases excl with
        | false => simp
        | true => simp [e2 rfl]
      simp only [e3]
      split
      · rfl
      · simp only [opTok, htok, strSplit, lstrip_strip, glueAfter_eq L g0 hwL]
  rw [binStepI_eq]
  unfold segStep
  cases right with
  | true =>
    simp only [↓reduceIte]
    rw [rsplitRaw_segs q sg hck hcl]
    cases hs : splitLastSeg q sg with
    | none => simp
    | some x =>
      obtain ⟨L, k, m, R⟩ := x
      obtain ⟨hsg, hk, hR, _⟩ := pieces_split q sg [] L k m R hs
      have hgl : glK q (fun _ => false) false sg = glK q id false L := by
        rw [hsg]; exact glK_split q k m R hk hR L false
      simp only [hgl]
      by_cases hg : glK q id false L = true
      · simp [hg]
      · have := tail L R k m hsg hk
        simp only [hg, Bool.false_eq_true, ↓reduceIte] at this ⊢
        rw [this]
        by_cases hA : toksOf g0 L = [] ∨ toksOf true R = []
        · simp [hA]
        · by_cases hB : excl = true ∧ (tokOf k (glueAfter g0 L)).excluded = true
          · simp [hA, hB]
          · simp [hA, hB]
  | false =>
    simp only [Bool.false_eq_true, ↓reduceIte]
    rw [lsplitRaw_segs q sg hck hcl]
    cases hs : splitFirstSeg q sg with
    | none => simp
    | some x =>
      obtain ⟨L, k, m, R⟩ := x
      obtain ⟨hsg, hk⟩ := splitFirst_sound q sg L R k m hs
      have := tail L R k m hsg hk
      simp only [Option.map_some] at this ⊢
      rw [this]
      by_cases hA : toksOf g0 L = [] ∨ toksOf true R = []
      · simp [hA]
      · by_cases hB : excl = true ∧ (tokOf k (glueAfter g0 L)).excluded = true
        · simp [hA, hB]
        · simp [hA, hB]

end Fp.ExprLex

namespace Fp.ExprLex
open Fp Fp.Expr

/-- the part of the token-level `matchStep` (binary rows) before the constructor calls -/
def splitStepT (cls : OpCls) (right excl : Bool) (ts : List T) : Option (List T × T × List T) :=
  match (if right then (if gluedPair cls.test ts 0 then none else splitLast cls.test ts 0)
         else splitFirst cls.test ts 0) with
  | none => none
  | some x =>
    if x.1 = [] ∨ x.2.2 = [] then none
    else if excl = true ∧ x.2.1.excluded = true then none
    else some x

/-- **token side** of the step: the token-level split of the lexed tokens is the segment step -/
theorem splitStepT_segs (cls : OpCls) (q : Pat) (hq : patOf cls = some q) (right excl g0 : Bool)
    (sg : List Seg) :
    splitStepT cls right excl (toksOf g0 sg) = (segStep q right excl g0 sg).map (tokSplit g0) := by
  unfold splitStepT segStep
  rw [gluedPair_eq cls q hq sg g0, splitLast_toks cls q hq sg g0, splitFirst_toks cls q hq sg g0]
  cases right with
  | true =>
    simp only [↓reduceIte]
    by_cases hg : glK q (fun _ => false) false sg = true
    · simp [hg]
    · simp only [hg, Bool.false_eq_true, ↓reduceIte]
      cases splitLastSeg q sg with
      | none => rfl
      | some x =>
        obtain ⟨L, k, m, R⟩ := x
        simp only [Option.map_some, tokSplit]
        by_cases hA : toksOf g0 L = [] ∨ toksOf true R = []
        · simp [hA]
        · by_cases hB : excl = true ∧ (tokOf k (glueAfter g0 L)).excluded = true
          · simp [hA, hB]
          · simp [hA, hB, tokSplit]
  | false =>
    simp only [Bool.false_eq_true, ↓reduceIte]
    cases splitFirstSeg q sg with
    | none => rfl
    | some x =>
      obtain ⟨L, k, m, R⟩ := x
      simp only [Option.map_some, tokSplit]
      by_cases hA : toksOf g0 L = [] ∨ toksOf true R = []
      · simp [hA]
      · by_cases hB : excl = true ∧ (tokOf k (glueAfter g0 L)).excluded = true
        · simp [hA, hB]
        · simp [hA, hB, tokSplit]

/-- `matchStep` of a `binL` row through `splitStepT` -/
theorem matchStep_binL (rec : Lv → List T → Option Ex) (row : Row) (lhs rhs : Lv)
    (hk : row.kind = .binL) (hl : row.lhs = some lhs) (hr : row.rhs = some rhs) (ts : List T) :
    matchStep rec row ts =
      match splitStepT row.cls true row.excl ts with
      | some (l, o, r) =>
        (match rec rhs r with
         | some R => (match rec lhs l with
           | some L => some (.bin o L R)
           | none => none)
         | none => none)
      | none => none := by
  unfold matchStep splitStepT
  simp only [hk, hl, hr, ↓reduceIte]
  by_cases hg : gluedPair row.cls.test ts 0 = true
  · simp [hg]
  · simp only [hg, Bool.false_eq_true, ↓reduceIte]
    cases splitLast row.cls.test ts 0 with
    | none => rfl
    | some x =>
      obtain ⟨l, o, r⟩ := x
      simp only
      by_cases hA : l = [] ∨ r = []
      · simp [hA]
      · by_cases hB : row.excl = true ∧ o.excluded = true
        · simp [hA, hB]
        · simp [hA, hB]
          cases rec rhs r with
          | none => rfl
          | some R => cases rec lhs l <;> rfl

/-- `matchStep` of a `binR` row through `splitStepT` -/
theorem matchStep_binR (rec : Lv → List T → Option Ex) (row : Row) (lhs rhs : Lv)
    (hk : row.kind = .binR) (hl : row.lhs = some lhs) (hr : row.rhs = some rhs) (ts : List T) :
    matchStep rec row ts =
      match splitStepT row.cls false row.excl ts with
      | some (l, o, r) =>
        (match rec lhs l with
         | some L => (match rec rhs r with
           | some R => some (.bin o L R)
           | none => none)
         | none => none)
      | none => none := by
  unfold matchStep splitStepT
  simp only [hk, hl, hr, Bool.false_eq_true, ↓reduceIte]
  cases splitFirst row.cls.test ts 0 with
  | none => rfl
  | some x =>
    obtain ⟨l, o, r⟩ := x
    simp only
    by_cases hA : l = [] ∨ r = []
    · simp [hA]
    · by_cases hB : row.excl = true ∧ o.excluded = true
      · simp [hA, hB]
      · simp [hA, hB]
        cases rec lhs l with
        | none => rfl
        | some L => cases rec rhs r <;> rfl

end Fp.ExprLex

namespace Fp.ExprLex
open Fp Fp.Expr

/-! ### the unary step -/

/-- the line begins (after empty gaps) with a word of pattern `q` -/
def unSeg (q : Pat) : List Seg → Option (TK × Str × List Seg)
  | [] => none
  | .gap s :: rest => if s = [] then unSeg q rest else none
  | .word k m :: rest => if inCls k q then some (k, m, rest) else none

def unSegStep (q : Pat) (sg : List Seg) : Option (TK × Str × List Seg) :=
  match unSeg q sg with
  | some (k, m, R) => if toksOf true R = [] then none else some (k, m, R)
  | none => none

theorem matchAt_nil (q : Pat) (prev : Option Char) : matchAt q prev [] = none := by
  cases h : matchAt q prev [] with
  | none => rfl
  | some n => have := matchAt_pos_le q prev [] n h; simp at this; omega

theorem unStepI_segs (q : Pat) (g0 : Bool) : ∀ (sg : List Seg), checkSegs none sg = true →
    cleanFor q sg →
    unStepI q g0 (flat sg) =
      (unSegStep q sg).map fun x => (tokOf x.1 g0, lstrip (flat x.2.2), !startsBlank (flat x.2.2))
  | [], _, _ => by simp [unStepI, flat_nil, matchAt_nil, unSegStep, unSeg]
  | .gap s :: rest, h, hc => by
    simp only [checkSegs, Bool.and_eq_true, Seg.text] at h
    cases s with
    | nil =>
      have := unStepI_segs q g0 rest (by simpa [lastOr] using h.2) (cleanFor_tail hc)
      simpa [flat_cons, Seg.text, unSegStep, unSeg] using this
    | cons c t =>
      have hno := (segOK_gap h.1).1 q
      simp only [noHit, Bool.and_eq_true, Option.isNone_iff_eq_none] at hno
      have h1 : matchAt q none (c :: (t ++ flat rest)) = none := by simpa using hno.1
      simp [unStepI, flat_cons, Seg.text, h1, unSegStep, unSeg]
  | .word k m :: rest, h, hc => by
    simp only [checkSegs, Bool.and_eq_true, Seg.text] at h
    obtain ⟨hne, hin1, hin0, _, ⟨n, htok⟩, hsb, _⟩ := segOK_word h.1
    have hwR := wordsNB_of_check rest _ h.2
    by_cases hk : inCls k q = true
    · have hm := hin1 q hk
      have hnil : (lstrip (flat rest) = []) ↔ (toksOf true rest = []) := by
        rw [lstrip_nil_iff, toksOf_nil_iff rest true hwR]
      simp only [unStepI, flat_cons, Seg.text, hm, List.drop_left, List.take_left, opTok, htok,
        unSegStep, unSeg, hk, ↓reduceIte, hnil]
      by_cases hr : toksOf true rest = []
      · simp [hr]
      · simp [hr]
    · have hk' : inCls k q = false := by simpa using hk
      have hno := hin0 q hk' (hc k m (List.mem_cons_self ..))
      cases m with
      | nil => exact absurd rfl hne
      | cons c t =>
        simp only [noHit, Bool.and_eq_true, Option.isNone_iff_eq_none] at hno
        have h1 : matchAt q none (c :: (t ++ flat rest)) = none := by simpa using hno.1
        simp [unStepI, flat_cons, Seg.text, h1, unSegStep, unSeg, hk']

theorem strip_ne_of_startsNB {s : Str} (hne : s ≠ []) (h : startsBlank s = false) : strip s ≠ [] := by
  intro h0
  have := (strip_nil_iff s).mp h0
  rw [not_allBlank_of_startsNB hne h] at this
  cases this

/-- token side of the unary step -/
theorem matchStep_unary_segs (rec : Lv → List T → Option Ex) (row : Row) (q : Pat) (rhs : Lv)
    (hk : row.kind = .unary) (hq : patOf row.cls = some q) (hr : row.rhs = some rhs) (g0 : Bool) :
    ∀ (sg : List Seg), startsBlank (flat sg) = false →
    matchStep rec row (toksOf g0 sg) =
      match unSegStep q sg with
      | some (k, _, R) => (match rec rhs (toksOf true R) with
        | some e => some (.un (tokOf k g0) e)
        | none => none)
      | none => none
  | [], _ => by simp [matchStep, hk, hr, toksOf, unSegStep, unSeg]
  | .gap s :: rest, hs => by
    cases s with
    | nil =>
      have := matchStep_unary_segs rec row q rhs hk hq hr g0 rest (by simpa [flat_cons, Seg.text] using hs)
      simpa [toksOf, strip, lstrip, rstrip, unSegStep, unSeg] using this
    | cons c t =>
      have hsb : startsBlank (c :: t) = false := by
        rw [flat_cons, Seg.text, startsBlank_append (by simp)] at hs; exact hs
      have hne := strip_ne_of_startsNB (s := c :: t) (by simp) hsb
      simp [matchStep, hk, hr, toksOf, hne, test_atom, unSegStep, unSeg]
  | .word k m :: rest, _ => by
    simp only [matchStep, hk, hr, toksOf, test_tokOf row.cls q hq, unSegStep, unSeg]
    by_cases hin : inCls k q = true
    · by_cases hR : toksOf true rest = []
      · simp [hin, hR]
      · simp only [hin, hR, ne_eq, not_false_eq_true, and_self, ↓reduceIte]
        cases rec rhs (toksOf true rest) <;> rfl
    · simp [hin]

end Fp.ExprLex
