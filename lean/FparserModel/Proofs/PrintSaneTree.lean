import FparserModel.Proofs.PrintSaneMin
import FparserModel.Proofs.PrintBlock

/-!
# PrintSane, part 2: from `MOK` (block matcher) to `Tree.sane` (printer)

`SaneCorr tbl T R` is the correspondence between a block class table and a printer table that
`sane` needs: every node class of `R` has a guaranteed content length ≥ 1, and ≥ 2 when its printer
appends `content[-1]` unconditionally (WHERE / IF / CASE constructs).
-/
namespace Fp.Block

mutual
/-- (class, content length) of every node of a tree, pre-order -/
def Tree.nodeLens : Tree → List (Cls × Nat)
  | .leaf .. => []
  | .node c ks => (c, ks.length) :: nodeLensL ks
def nodeLensL : List Tree → List (Cls × Nat)
  | [] => []
  | t :: ts => t.nodeLens ++ nodeLensL ts
end

/-- `c` is a `Program` class of the table -/
def isProgramCls (tbl : Table) (c : Cls) : Bool :=
  match tbl.kind c with
  | .program .. => true
  | _ => false

mutual
theorem MOK_nodeLens {R : Cls → Prop} {tbl : Table} (t : Tree) (h : MOK R tbl t) :
    ∀ p ∈ t.nodeLens, R p.1 ∧ ∃ n, nodeMin tbl p.1 = some n ∧ n ≤ p.2 := by
  cases t with
  | leaf c i info => intro p hp; simp [Tree.nodeLens] at hp
  | node c ks =>
    intro p hp
    simp only [Tree.nodeLens, List.mem_cons] at hp
    rcases hp with rfl | hp
    · exact ⟨h.1.1, h.1.2⟩
    · exact MOKL_nodeLens ks h.2 p hp
theorem MOKL_nodeLens {R : Cls → Prop} {tbl : Table} (ts : List Tree) (h : MOKL R tbl ts) :
    ∀ p ∈ nodeLensL ts, R p.1 ∧ ∃ n, nodeMin tbl p.1 = some n ∧ n ≤ p.2 := by
  cases ts with
  | nil => intro p hp; simp [nodeLensL] at hp
  | cons t ts =>
    intro p hp
    simp only [nodeLensL, List.mem_append] at hp
    rcases hp with hp | hp
    · exact MOK_nodeLens t h.1 p hp
    · exact MOKL_nodeLens ts h.2 p hp
end

theorem closed_true (tbl : Table) : Closed (fun _ => True) tbl := fun _ _ _ _ => trivial

/-- `run` on any class, any table, any oracle: every node has the guaranteed content length -/
theorem run_MOK (env : Env) (R : Cls → Prop) (hcl : Closed R env.tbl) (fuel : Nat) (c : Cls)
    (hc : R c) (st st' : St) (t : Tree) (h : run env fuel c st = (.tree t, st')) :
    MOK R env.tbl t := by
  unfold run fresh at h
  simp only [Prod.mk.injEq] at h
  exact eval_M env R hcl fuel c [] st hc t h.1

theorem run_program_MOK (env : Env) (R : Cls → Prop) (hcl : Closed R env.tbl) (fuel : Nat)
    (c unit main0 : Cls) (subs : List Cls) (hk : env.tbl.kind c = .program unit main0 subs)
    (hcal : ∀ d ∈ callees env.tbl c, R d) (st st' : St) (t : Tree)
    (h : run env fuel c st = (.tree t, st')) :
    MOK R env.tbl t ∨ ∃ ks, t = .node c ks ∧ MOKL R env.tbl ks := by
  unfold run fresh at h
  simp only [Prod.mk.injEq] at h
  exact eval_program_M env R hcl fuel c unit main0 subs hk hcal [] st t h.1

/-! ## the set "not a Program class" -/

def NotProgram (tbl : Table) : Cls → Prop := fun c => isProgramCls tbl c = false

/-- decidable form of "no class calls a `Program` class", classes `0 … n-1` -/
def noProgramCallee (tbl : Table) (n : Nat) : Bool :=
  (List.range n).all fun c => (callees tbl c).all fun d => !isProgramCls tbl d

theorem callees_of_leaf {tbl : Table} {c : Cls} (h : tbl.kind c = .leaf) : callees tbl c = [] := by
  simp [callees, h]

theorem noProgramCallee_spec {tbl : Table} {n : Nat} (h : noProgramCallee tbl n = true)
    (hleaf : ∀ c, n ≤ c → tbl.kind c = .leaf) :
    ∀ c, ∀ d ∈ callees tbl c, NotProgram tbl d := by
  intro c d hd
  by_cases hc : c < n
  · simp only [noProgramCallee, List.all_eq_true, List.mem_range, Bool.not_eq_true'] at h
    exact h c hc d hd
  · rw [callees_of_leaf (hleaf c (Nat.le_of_not_lt hc))] at hd; cases hd

theorem closed_notProgram {tbl : Table} (h : ∀ c, ∀ d ∈ callees tbl c, NotProgram tbl d) :
    Closed (NotProgram tbl) tbl := fun c _ d hd => h c d hd

end Fp.Block

namespace Fp.Print
open Fp

/-- the correspondence between the block class table and the printer table that `sane` needs -/
structure SaneCorr (tbl : Block.Table) (T : Tbl) (R : Block.Cls → Prop) : Prop where
  /-- node classes of `R` never have an empty content -/
  nonempty : ∀ c n, R c → Block.nodeMin tbl c = some n → 1 ≤ n
  /-- classes printed by `Where_Construct/If_Construct/Case_Construct.tofortran` have an opener and an END -/
  two : ∀ c n, R c → Block.nodeMin tbl c = some n → (T.printer c).endsAlways = true → 2 ≤ n

theorem ofBlockL_length (L : Block.Cls → Block.Item → Leaf) (ts : List Block.Tree) :
    (ofBlockL L ts).length = ts.length := by
  induction ts with
  | nil => simp [ofBlockL]
  | cons t ts ih => simp [ofBlockL, ih]

theorem sane_block_of (T : Tbl) (c : Cls) (content : List Tree) (h1 : 1 ≤ content.length)
    (h2 : (T.printer c).endsAlways = true → 2 ≤ content.length) (hs : saneL T content = true) :
    (Tree.block c content).sane T = true := by
  simp only [Tree.sane, Bool.and_eq_true, Bool.not_eq_true', hs, and_true]
  constructor
  · cases content with
    | nil => simp at h1
    | cons a r => rfl
  · cases he : (T.printer c).endsAlways with
    | false => rfl
    | true =>
      have := h2 he
      simp only [Bool.true_and, beq_eq_false_iff_ne, ne_eq]
      omega

mutual
theorem sane_of_MOK {tbl : Block.Table} {T : Tbl} {R : Block.Cls → Prop} (hc : SaneCorr tbl T R)
    (L : Block.Cls → Block.Item → Leaf) (t : Block.Tree) (h : Block.MOK R tbl t) :
    (ofBlock L t).sane T = true := by
  cases t with
  | leaf c i info => simp [ofBlock, Tree.sane]
  | node c ks =>
    obtain ⟨⟨hR, n, hn, hle⟩, hks⟩ := h
    simp only [ofBlock]
    apply sane_block_of
    · rw [ofBlockL_length]; exact Nat.le_trans (hc.nonempty c n hR hn) hle
    · intro he; rw [ofBlockL_length]; exact Nat.le_trans (hc.two c n hR hn he) hle
    · exact saneL_of_MOKL hc L ks hks
theorem saneL_of_MOKL {tbl : Block.Table} {T : Tbl} {R : Block.Cls → Prop} (hc : SaneCorr tbl T R)
    (L : Block.Cls → Block.Item → Leaf) (ts : List Block.Tree) (h : Block.MOKL R tbl ts) :
    saneL T (ofBlockL L ts) = true := by
  cases ts with
  | nil => simp [ofBlockL, saneL]
  | cons t ts =>
    simp only [ofBlockL, saneL, Bool.and_eq_true]
    exact ⟨sane_of_MOK hc L t h.1, saneL_of_MOKL hc L ts h.2⟩
end

/-- a `Program` root: sane unless its content is empty -/
theorem sane_of_program {tbl : Block.Table} {T : Tbl} {R : Block.Cls → Prop} (hc : SaneCorr tbl T R)
    (L : Block.Cls → Block.Item → Leaf) (c : Block.Cls) (hp : (T.printer c).endsAlways = false)
    (t : Block.Tree)
    (h : Block.MOK R tbl t ∨ ∃ ks, t = .node c ks ∧ Block.MOKL R tbl ks)
    (hne : t ≠ .node c []) : (ofBlock L t).sane T = true := by
  rcases h with h | ⟨ks, rfl, hks⟩
  · exact sane_of_MOK hc L t h
  · simp only [ofBlock]
    apply sane_block_of
    · rw [ofBlockL_length]
      cases ks with
      | nil => exact absurd rfl hne
      | cons a r => simp
    · intro he; rw [hp] at he; cases he
    · exact saneL_of_MOKL hc L ks hks

/-- decidable form of `SaneCorr` for `R` = "not a Program class", classes `0 … n-1`; for the
    `Program` classes: they print through a printer that tests `len(content) > 1` -/
def saneCorrOK (tbl : Block.Table) (T : Tbl) (n : Nat) : Bool :=
  (List.range n).all fun c =>
    match Block.nodeMin tbl c with
    | some k =>
      if Block.isProgramCls tbl c then !(T.printer c).endsAlways
      else decide (1 ≤ k) && (!(T.printer c).endsAlways || decide (2 ≤ k))
    | none => true

theorem nodeMin_of_leaf {tbl : Block.Table} {c : Block.Cls} (h : tbl.kind c = .leaf) :
    Block.nodeMin tbl c = none := by
  simp [Block.nodeMin, h]

theorem saneCorr_of_check {tbl : Block.Table} {T : Tbl} {n : Nat} (h : saneCorrOK tbl T n = true)
    (hleaf : ∀ c, n ≤ c → tbl.kind c = .leaf) : SaneCorr tbl T (Block.NotProgram tbl) := by
  have key : ∀ c k, Block.NotProgram tbl c → Block.nodeMin tbl c = some k →
      1 ≤ k ∧ ((T.printer c).endsAlways = true → 2 ≤ k) := by
    intro c k hR hk
    by_cases hc : c < n
    · simp only [saneCorrOK, List.all_eq_true, List.mem_range] at h
      have := h c hc
      rw [hk] at this
      unfold Block.NotProgram at hR
      simp only [hR, Bool.false_eq_true, if_false, Bool.and_eq_true, decide_eq_true_eq,
        Bool.or_eq_true, Bool.not_eq_true'] at this
      refine ⟨this.1, fun he => ?_⟩
      rcases this.2 with h2 | h2
      · rw [he] at h2; cases h2
      · exact h2
    · rw [nodeMin_of_leaf (hleaf c (Nat.le_of_not_lt hc))] at hk; cases hk
  exact ⟨fun c k hR hk => (key c k hR hk).1, fun c k hR hk => (key c k hR hk).2⟩

theorem program_printer_of_check {tbl : Block.Table} {T : Tbl} {n : Nat}
    (h : saneCorrOK tbl T n = true) {c unit main0 : Block.Cls} {subs : List Block.Cls}
    (hk : tbl.kind c = .program unit main0 subs) (hc : c < n) :
    (T.printer c).endsAlways = false := by
  simp only [saneCorrOK, List.all_eq_true, List.mem_range] at h
  have := h c hc
  simpa [Block.nodeMin, Block.isProgramCls, hk] using this

/-- a printer table read through a renumbering of the classes -/
def Tbl.comap (T : Tbl) (f : Nat → Cls) : Tbl :=
  { printer := fun c => T.printer (f c)
    isEnd := fun c => T.isEnd (f c)
    isElsewhere := fun c => T.isElsewhere (f c)
    isElse := fun c => T.isElse (f c)
    isCase := fun c => T.isCase (f c)
    isLabelDo := fun b c => T.isLabelDo (f b) (f c) }

end Fp.Print
