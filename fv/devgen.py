"""development aid: run the generator against the real parser and report rejections"""
import sys, collections, time
from fv import real, gen

def first_bad_stmt(p, std):
    # find which statement makes it fail by trying each unit separately
    return None

def main():
    n = int(sys.argv[1]) if len(sys.argv) > 1 else 200
    std = sys.argv[2] if len(sys.argv) > 2 else "f2008"
    s0 = int(sys.argv[3]) if len(sys.argv) > 3 else 0
    bad = collections.Counter()
    hits = collections.Counter()
    t0 = time.time()
    nb = 0
    for seed in range(s0, s0 + n):
        p = gen.gen_program(seed, std=std)
        hits.update(p.hits)
        src = p.text()
        o = real.try_parse(src, std=std)
        if o.kind != "tree":
            nb += 1
            msg = str(o.exc).split("\n")
            key = (o.kind, msg[1][:90] if len(msg) > 1 else msg[0][:90])
            bad[key] += 1
            if nb <= int(sys.argv[4]) if len(sys.argv) > 4 else 0:
                print("---- seed", seed, o); print(src)
            continue
        # round trip
        s1 = str(o.tree)
        o2 = real.try_parse(s1, std=std)
        if o2.kind != "tree":
            bad[("reparse", str(o2.exc).split("\n")[1][:90] if "\n" in str(o2.exc) else str(o2.exc)[:90])] += 1
            continue
        if str(o2.tree) != s1:
            bad[("unstable", "")] += 1
    print("programs", n, "bad", nb, "time %.1f" % (time.time() - t0))
    for k, v in bad.most_common(60):
        print(v, k)
    print(len(hits), "features hit")

main()
