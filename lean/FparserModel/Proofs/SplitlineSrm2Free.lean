import FparserModel.Proofs.SplitlineSrm2Base
/-!
`Free s` : the four characters `F2PY` do not occur consecutively in `s`.
Every placeholder contains `F2PY` (at offset 0 or 1), so in a text whose plain parts are `Free`
a placeholder can only be found where one was put.
-/
namespace Fp.Splitline
open Fp

def hasPatAt : Str → Bool
  | 'F' :: '2' :: 'P' :: 'Y' :: _ => true
  | _ => false

def freeB : Str → Bool
  | [] => true
  | c :: cs => !hasPatAt (c :: cs) && freeB cs

/-- `F2PY` is not a substring -/
def Free (s : Str) : Prop := freeB s = true

instance (s : Str) : Decidable (Free s) := inferInstanceAs (Decidable (freeB s = true))

theorem Free_nil : Free [] := rfl

theorem Free_cons {c : Char} {s : Str} : Free (c :: s) ↔ hasPatAt (c :: s) = false ∧ Free s := by
  simp [Free, freeB]

theorem Free_tail {c : Char} {s : Str} (h : Free (c :: s)) : Free s := (Free_cons.mp h).2

theorem hasPatAt_append (s b : Str) (h : hasPatAt s = true) : hasPatAt (s ++ b) = true := by
  rcases s with _ | ⟨a, _ | ⟨b', _ | ⟨c, _ | ⟨d, s⟩⟩⟩⟩ <;> simp_all [hasPatAt]
  all_goals (split at h <;> simp_all)

theorem hasPatAt_iff (s : Str) : hasPatAt s = true ↔ ∃ t, s = 'F' :: '2' :: 'P' :: 'Y' :: t := by
  constructor
  · intro h
    unfold hasPatAt at h
    split at h
    · exact ⟨_, rfl⟩
    · cases h
  · rintro ⟨t, rfl⟩; rfl

theorem Free_append_right : ∀ (a b : Str), Free (a ++ b) → Free b
  | [], _, h => h
  | _ :: a, b, h => Free_append_right a b (Free_tail h)

theorem Free_append_left : ∀ (a b : Str), Free (a ++ b) → Free a
  | [], _, _ => Free_nil
  | c :: a, b, h => by
    have h' : Free (c :: (a ++ b)) := h
    obtain ⟨h1, h2⟩ := Free_cons.mp h'
    refine Free_cons.mpr ⟨?_, Free_append_left a b h2⟩
    cases hh : hasPatAt (c :: a) with
    | false => rfl
    | true =>
      have := hasPatAt_append (c :: a) b hh
      rw [List.cons_append] at this
      rw [this] at h1; cases h1

theorem Free_infix {a s b : Str} (h : Free (a ++ (s ++ b))) : Free s :=
  Free_append_left s b (Free_append_right a _ h)

/-- a character that is not `F` can be put in front -/
theorem Free_cons_of_ne {c : Char} {s : Str} (hc : c ≠ 'F') (h : Free s) : Free (c :: s) := by
  refine Free_cons.mpr ⟨?_, h⟩
  cases hh : hasPatAt (c :: s) with
  | false => rfl
  | true =>
    obtain ⟨t, ht⟩ := (hasPatAt_iff _).mp hh
    simp at ht; exact absurd ht.1 hc

/-- gluing two `Free` texts when the second does not start with `2`, `P` or `Y` -/
theorem Free_append_of_head : ∀ (a b : Str), Free a → Free b →
    (∀ c, b.head? = some c → c ≠ '2' ∧ c ≠ 'P' ∧ c ≠ 'Y') → Free (a ++ b)
  | [], _, _, hb, _ => hb
  | c :: a, b, ha, hb, hh => by
    obtain ⟨h1, h2⟩ := Free_cons.mp ha
    show Free (c :: (a ++ b))
    refine Free_cons.mpr ⟨?_, Free_append_of_head a b h2 hb hh⟩
    cases hp : hasPatAt (c :: (a ++ b)) with
    | false => rfl
    | true =>
      exfalso
      obtain ⟨t, ht⟩ := (hasPatAt_iff _).mp hp
      rcases a with _ | ⟨a1, _ | ⟨a2, _ | ⟨a3, a⟩⟩⟩
      · cases b with
        | nil => simp at ht
        | cons x b => simp at ht; have := hh x rfl; simp_all
      · cases b with
        | nil => simp at ht
        | cons x b => simp at ht; have := hh x rfl; simp_all
      · cases b with
        | nil => simp at ht
        | cons x b => simp at ht; have := hh x rfl; simp_all
      · simp at ht
        obtain ⟨rfl, rfl, rfl, rfl, _⟩ := ht
        simp [hasPatAt] at h1

theorem NoFchar_Free : ∀ (s : Str), (∀ c ∈ s, c ≠ 'F') → Free s
  | [], _ => Free_nil
  | c :: s, h => Free_cons_of_ne (h c (by simp)) (NoFchar_Free s (fun x hx => h x (by simp [hx])))

/-! ## where a placeholder can start -/

theorem IsKey_head5 (k : Str) (hk : IsKey k) :
    (∃ t, k = 'F' :: '2' :: 'P' :: 'Y' :: '_' :: t) ∨
    (∃ t, k = '_' :: 'F' :: '2' :: 'P' :: 'Y' :: '_' :: t) := by
  obtain ⟨n, h | h | h⟩ := hk
  · right; subst h; exact ⟨_, rfl⟩
  · left; subst h; exact ⟨_, rfl⟩
  · left; subst h; exact ⟨_, rfl⟩

theorem matchNumbered_some {p : Str} {cl : Bool} {s : Str} {r : Str × Str}
    (h : matchNumbered p cl s = some r) : ∃ t, s = p ++ t := by
  unfold matchNumbered at h
  split at h
  · cases h
  · rename_i r' hr
    exact ⟨r', stripPrefix?_eq_some hr⟩

theorem matchKey_some_head {s : Str} {r : Str × Str} (h : matchKey s = some r) :
    (∃ t, s = 'F' :: '2' :: 'P' :: 'Y' :: '_' :: t) ∨
    (∃ t, s = '_' :: 'F' :: '2' :: 'P' :: 'Y' :: '_' :: 'S' :: t) := by
  unfold matchKey at h
  split at h
  · rename_i r' hr
    obtain ⟨t, ht⟩ := matchNumbered_some hr
    right; exact ⟨_, by rw [ht]; rfl⟩
  · split at h
    · rename_i r' hr
      obtain ⟨t, ht⟩ := matchNumbered_some hr
      left; exact ⟨_, by rw [ht]; rfl⟩
    · obtain ⟨t, ht⟩ := matchNumbered_some h
      left; exact ⟨_, by rw [ht]; rfl⟩

/-- what may follow a run of plain text: nothing, or a genuine key -/
def KeyNext (Z : Str) : Prop := Z = [] ∨ ∃ k R, IsKey k ∧ Z = k ++ R

theorem KeyNext_head {Z : Str} (h : KeyNext Z) :
    ∀ c, Z.head? = some c → c = 'F' ∨ c = '_' := by
  intro c hc
  rcases h with rfl | ⟨k, R, hk, rfl⟩
  · simp at hc
  · rcases IsKey_head k hk with ⟨t, rfl⟩ | ⟨t, rfl⟩ <;> simp at hc <;> simp [← hc]

/-- **no placeholder match starts inside `Free` plain text** (followed by nothing or a key) -/
theorem matchKey_free (c : Char) (L Z : Str) (hf : Free (c :: L)) (hz : KeyNext Z) :
    matchKey (c :: (L ++ Z)) = none := by
  cases hm : matchKey (c :: (L ++ Z)) with
  | none => rfl
  | some r =>
    exfalso
    have hzh := KeyNext_head hz
    rcases matchKey_some_head hm with ⟨t, ht⟩ | ⟨t, ht⟩
    · simp only [List.cons.injEq] at ht
      obtain ⟨rfl, ht⟩ := ht
      rcases L with _ | ⟨a1, _ | ⟨a2, _ | ⟨a3, L⟩⟩⟩
      · cases Z with
        | nil => simp at ht
        | cons x Z => simp at ht; have := hzh x rfl; rcases this with h | h <;> simp_all
      · cases Z with
        | nil => simp at ht
        | cons x Z => simp at ht; have := hzh x rfl; rcases this with h | h <;> simp_all
      · cases Z with
        | nil => simp at ht
        | cons x Z => simp at ht; have := hzh x rfl; rcases this with h | h <;> simp_all
      · simp at ht
        obtain ⟨rfl, rfl, rfl, _⟩ := ht
        have := (Free_cons.mp hf).1
        simp [hasPatAt] at this
    · simp only [List.cons.injEq] at ht
      obtain ⟨rfl, ht⟩ := ht
      rcases L with _ | ⟨a0, _ | ⟨a1, _ | ⟨a2, _ | ⟨a3, L⟩⟩⟩⟩
      · -- `_` directly in front of a key
        rcases hz with rfl | ⟨k, R, hk, rfl⟩
        · simp at ht
        · have := matchKey_us_key k hk R
          simp only [List.nil_append] at hm
          rw [this] at hm; cases hm
      · cases Z with
        | nil => simp at ht
        | cons x Z => simp at ht; have := hzh x rfl; rcases this with h | h <;> simp_all
      · cases Z with
        | nil => simp at ht
        | cons x Z => simp at ht; have := hzh x rfl; rcases this with h | h <;> simp_all
      · cases Z with
        | nil => simp at ht
        | cons x Z => simp at ht; have := hzh x rfl; rcases this with h | h <;> simp_all
      · simp at ht
        obtain ⟨rfl, rfl, rfl, rfl, _⟩ := ht
        have := (Free_cons.mp (Free_tail hf)).1
        simp [hasPatAt] at this

/-- **the key cannot be found inside non-empty `Free` text placed in front of it** -/
theorem stripPrefix?_key_free (k : Str) (hk : IsKey k) (X R : Str) (hX : Free X) (hne : X ≠ []) :
    stripPrefix? k (X ++ (k ++ R)) = none := by
  cases hm : stripPrefix? k (X ++ (k ++ R)) with
  | none => rfl
  | some r =>
    exfalso
    have he := stripPrefix?_eq_some hm
    rcases IsKey_head5 k hk with ⟨t, rfl⟩ | ⟨t, rfl⟩
    · rcases X with _ | ⟨a0, _ | ⟨a1, _ | ⟨a2, _ | ⟨a3, X⟩⟩⟩⟩
      · exact hne rfl
      · simp at he
      · simp at he
      · simp at he
      · simp at he
        obtain ⟨rfl, rfl, rfl, rfl, _⟩ := he
        have := (Free_cons.mp hX).1
        simp [hasPatAt] at this
    · rcases X with _ | ⟨a0, _ | ⟨a1, _ | ⟨a2, _ | ⟨a3, _ | ⟨a4, X⟩⟩⟩⟩⟩
      · exact hne rfl
      · simp at he
      · simp at he
      · simp at he
      · simp at he
      · simp at he
        obtain ⟨rfl, rfl, rfl, rfl, rfl, _⟩ := he
        have := (Free_cons.mp (Free_tail hX)).1
        simp [hasPatAt] at this

end Fp.Splitline
