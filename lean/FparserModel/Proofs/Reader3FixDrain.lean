import FparserModel.Proofs.Reader3FixList
import FparserModel.Proofs.Reader3FixOmp2

/-!
# Reader3FixDrain — a whole fixed-form source drained (C05/C11/C12), flag-on corollary (C15)
-/
namespace Fp.Reader
open Fp

theorem adv_append (r : Rd) (a b mid rest : List Str) :
    adv (adv r a mid) b rest = adv r (a ++ b) rest := by
  simp only [adv, List.length_append, List.map_append, List.reverse_append, List.append_assoc,
    Rd.mk.injEq, true_and, and_true]
  omega

theorem afterStmt_adv (r1 : Rd) (a b mid : List Str) (f : List Item) :
    afterStmt (adv r1 a mid) b [] f = afterStmt r1 (a ++ b) [] f := by
  simp only [afterStmt, adv, List.length_append, List.map_append, List.reverse_append, List.append_assoc,
    Rd.mk.injEq, true_and, and_true]
  omega

theorem endFix_eq : ∀ (ss : List FStmt) (s : FStmt) (r1 : Rd),
    endFix r1 s ss = afterStmt r1 (s.follow ++ stmtSrc ss) [] []
  | [], s, r1 => by simp [endFix, stmtSrc]
  | s2 :: ss, s, r1 => by
    simp only [endFix]
    rw [endFix_eq ss s2, afterStmt_adv]
    simp [stmtSrc, List.append_assoc]

theorem srcComments_noinc (ic : Bool) (ls : List Str) (n : Nat) : ∀ x ∈ srcComments ic n ls, NoInc x := by
  intro x hx
  have := srcComments_isComment ic ls n x hx
  cases x <;> simp [Item.isComment] at this
  exact NoInc.comment _ _ _ _

theorem stmtItems_noinc (ic : Bool) : ∀ (ss : List FStmt) (n : Nat), (∀ t ∈ ss, t.ok) →
    ∀ x ∈ stmtItems ic n ss, NoInc x
  | [], _, _, x, hx => by cases hx
  | s :: ss, n, hok, x, hx => by
    simp only [stmtItems, List.mem_cons, List.mem_append] at hx
    rcases hx with rfl | hx | hx
    · intro text l nm st e hv
      simp only [FStmt.item, Item.lineView, Option.some.injEq, Prod.mk.injEq] at hv
      rw [← hv.1]; exact (hok s List.mem_cons_self).noinc
    · exact srcComments_noinc ic _ _ x hx
    · exact stmtItems_noinc ic ss _ (fun t ht => hok t (List.mem_cons_of_mem _ ht)) x hx

/-- the items of a fixed-form source `pre ++ stmtSrc sts` read from line `lc + 1` -/
def fixedItems (ic : Bool) (lc : Nat) (pre : List Str) (sts : List FStmt) : List Item :=
  srcComments ic lc pre ++ stmtItems ic (lc + pre.length + 1) sts

/-- the reader at the end of the source `all` -/
def finalFix (r : Rd) (all : List Str) : Rd :=
  { r with src := [], closed := true, linecount := r.linecount + all.length,
           linesRev := (all.map cook).reverse ++ r.linesRev }

theorem steps_fixed (pre : List Str) (s : FStmt) (ss : List FStmt) (r : Rd)
    (hp : FixedPlain r) (hfifo : r.fifo = [])
    (hpre : ∀ c ∈ pre, isFixCommentS (cook c) = true ∧ startsWith (lstrip (cook c)) ['#'] = false)
    (hok : ∀ t ∈ s :: ss, t.ok) (hsrc : r.src = pre ++ stmtSrc (s :: ss)) :
    ∃ rm, Steps r (fixedItems r.ignoreComments r.linecount pre (s :: ss)) rm ∧
      next1 rm = (.stop, finalFix r (pre ++ stmtSrc (s :: ss))) := by
  have hnc : isFixCommentS (cook s.first) = false := by
    have := (hok s List.mem_cons_self).init
    simp only [isFollow, Bool.or_eq_false_iff] at this; exact this.2
  have hfin : endFix (adv r (pre ++ [s.first]) (s.follow ++ stmtSrc ss)) s ss =
      finalFix r (pre ++ stmtSrc (s :: ss)) := by
    rw [endFix_eq, afterStmt_adv]
    obtain ⟨src, closed, filo, fifo, lc, linesRev, isFree, ic, omp, dirs⟩ := r
    simp only [] at hfifo
    subst hfifo
    simp [afterStmt, finalFix, stmtSrc, List.append_assoc]
  have hclosed : After (finalFix r (pre ++ stmtSrc (s :: ss))) 1 (.stop, finalFix r (pre ++ stmtSrc (s :: ss))) :=
    After_closed _ hfifo hp.filo rfl
  have hend : Runs (endFix (adv r (pre ++ [s.first]) (s.follow ++ stmtSrc ss)) s ss) []
      (.stop, finalFix r (pre ++ stmtSrc (s :: ss))) := by
    rw [hfin]
    exact ⟨_, 1, Steps.nil _, hclosed, by simp [nextRawFuel]⟩
  have hruns : Runs r (fixedItems r.ignoreComments r.linecount pre (s :: ss))
      (.stop, finalFix r (pre ++ stmtSrc (s :: ss))) := by
    cases hic : r.ignoreComments with
    | true =>
      have hg := getSingleLine_skip_pre pre r s.first (s.follow ++ stmtSrc ss) hp hic
        (fun c hc => (hpre c hc).1) hnc (by simpa [stmtSrc] using hsrc)
      have := runs_stmts ss s r _ _ hok hfifo hg (hp.adv _ _) rfl hend
      simpa [fixedItems, srcComments_true, adv_ic, adv_lc, hic, Nat.add_assoc] using this
    | false =>
      have hg := getSingleLine_fixed_keep (adv r pre (stmtSrc (s :: ss))) s.first (s.follow ++ stmtSrc ss)
        (hp.adv _ _) rfl (by rw [hnc, Bool.and_false])
      rw [adv_append] at hg
      have h1 := runs_stmts ss s (adv r pre (stmtSrc (s :: ss))) _ _ hok hfifo hg (hp.adv _ _) rfl hend
      have := runs_pre pre r (stmtSrc (s :: ss)) _ _ hp hfifo hic hpre hsrc h1
      simpa [fixedItems, adv_ic, adv_lc, hic, Nat.add_assoc] using this
  obtain ⟨rm, k, hsteps, ha, hk⟩ := hruns
  refine ⟨rm, hsteps, ?_⟩
  have hraw := ha (nextRawFuel rm) hk
  rw [next1_of_nextRaw_other rm (fun it => by rw [hraw]; simp)]
  exact hraw

theorem fixedItems_noinc (ic : Bool) (lc : Nat) (pre : List Str) (sts : List FStmt) (hok : ∀ t ∈ sts, t.ok) :
    ∀ x ∈ fixedItems ic lc pre sts, NoInc x := by
  intro x hx
  simp only [fixedItems, List.mem_append] at hx
  rcases hx with hx | hx
  · exact srcComments_noinc ic _ _ x hx
  · exact stmtItems_noinc ic sts _ hok x hx

/-- C05/C11/C12: a fixed-form source (leading comment lines, then statements with their follow
    lines) is drained to exactly `fixedItems` -/
theorem drains_fixed (d : Nat) (fs : Fs) (pre : List Str) (s : FStmt) (ss : List FStmt) (r : Rd)
    (hp : FixedPlain r) (hfifo : r.fifo = [])
    (hpre : ∀ c ∈ pre, isFixCommentS (cook c) = true ∧ startsWith (lstrip (cook c)) ['#'] = false)
    (hok : ∀ t ∈ s :: ss, t.ok) (hsrc : r.src = pre ++ stmtSrc (s :: ss)) :
    Drains (d + 1) fs [r] (evItems (fixedItems r.ignoreComments r.linecount pre (s :: ss)))
      [finalFix r (pre ++ stmtSrc (s :: ss))] := by
  obtain ⟨rm, hsteps, hstop⟩ := steps_fixed pre s ss r hp hfifo hpre hok hsrc
  exact drains_of_steps d fs _ hsteps (fixedItems_noinc _ _ _ _ hok) hstop
    (by simp [exhausted, finalFix, hp.filo, hfifo])

theorem SrcSim.nil_right {a : List Str} (h : SrcSim a []) : a = [] := by cases h; rfl

/-- C15 at source level: a fixed-form reader with the flag ON whose source `r.src` blanks
    (`SrcSim`) to the statement layout `pre ++ stmtSrc (s :: ss)` is drained to the same items;
    only the flag differs in the final state. -/
theorem drains_fixed_omp (d : Nat) (fs : Fs) (pre : List Str) (s : FStmt) (ss : List FStmt) (r : Rd)
    (h1 : r.filo = []) (h2 : r.closed = false) (h3 : r.isFree = false) (h4 : r.omp = true)
    (hfifo : r.fifo = [])
    (hpre : ∀ c ∈ pre, isFixCommentS (cook c) = true ∧ startsWith (lstrip (cook c)) ['#'] = false)
    (hok : ∀ t ∈ s :: ss, t.ok) (hsim : SrcSim r.src (pre ++ stmtSrc (s :: ss))) :
    Drains (d + 1) fs [r] (evItems (fixedItems r.ignoreComments r.linecount pre (s :: ss)))
      [{ finalFix (flagOff (pre ++ stmtSrc (s :: ss)) r) (pre ++ stmtSrc (s :: ss)) with omp := true }] := by
  have hS : OmpSim r (flagOff (pre ++ stmtSrc (s :: ss)) r) := ⟨_, hsim, rfl, h4, h3⟩
  obtain ⟨rm', hsteps', hstop'⟩ := steps_fixed pre s ss (flagOff (pre ++ stmtSrc (s :: ss)) r)
    ⟨h1, h2, h3, rfl⟩ hfifo hpre hok rfl
  have hfree : rm'.isFree = false := by
    cases hb : rm'.isFree with
    | false => rfl
    | true =>
      have := (next1_keep rm' hb).free
      rw [hstop', hb] at this
      simp [finalFix, h3] at this
  obtain ⟨rm, hsteps, hsm⟩ := Steps_sim _ r _ rm' hS hsteps' hfree
  have hn := next1_sim rm rm' hsm (by rw [hstop']; exact h3)
  rw [hstop'] at hn
  simp only [] at hn
  obtain ⟨hn1, s', hs', he', ho', hf'⟩ := hn
  have hsrc' : s' = [] := by
    have := congrArg Rd.src he'
    simpa [finalFix] using this.symm
  subst hsrc'
  have hstop : next1 rm = (.stop, { finalFix (flagOff (pre ++ stmtSrc (s :: ss)) r) (pre ++ stmtSrc (s :: ss)) with omp := true }) := by
    apply Prod.ext
    · exact hn1.symm
    · rw [he']
      have := hs'.nil_right
      cases hq : (next1 rm).2 with
      | mk src closed filo fifo lc linesRev isFree ic omp dirs =>
        rw [hq] at this ho'
        simp only [] at this ho'
        subst this ho'
        rfl
  exact drains_of_steps d fs _ hsteps (fixedItems_noinc _ _ _ _ hok) hstop
    (by simp [exhausted, finalFix, h1, hfifo])

end Fp.Reader
