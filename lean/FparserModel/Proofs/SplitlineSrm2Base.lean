import FparserModel.Props.SplitlineSrm
/-!
Foundations for the round-trip results on `string_replace_map`:
decimal numerals (`natStr` is injective, digits only), the placeholder keys and the scanner
`matchKey`, association-list lemmas (`Map.get?` / `Map.set`), `stripPrefix?` / `replaceFirst`.
-/
namespace Fp.Splitline
open Fp

/-! ## decimal numerals -/

/-- value of a digit string -/
def dval (s : Str) : Nat := s.foldl (fun a c => a * 10 + (c.toNat - 48)) 0

theorem dval_snoc (s : Str) (c : Char) : dval (s ++ [c]) = dval s * 10 + (c.toNat - 48) := by
  simp [dval, List.foldl_append]

theorem digitChar_spec (r : Nat) (h : r < 10) :
    isDigit (Char.ofNat (48 + r)) = true ∧ (Char.ofNat (48 + r)).toNat - 48 = r ∧
    Char.ofNat (48 + r) ≠ '_' ∧ isWord (Char.ofNat (48 + r)) = true ∧
    Char.ofNat (48 + r) ≠ 'F' := by
  have : r = 0 ∨ r = 1 ∨ r = 2 ∨ r = 3 ∨ r = 4 ∨ r = 5 ∨ r = 6 ∨ r = 7 ∨ r = 8 ∨ r = 9 := by omega
  rcases this with rfl | rfl | rfl | rfl | rfl | rfl | rfl | rfl | rfl | rfl <;> decide

theorem natDigitsAux_spec (fuel n : Nat) (acc : Str) (h : n < fuel) :
    ∃ ds, natDigitsAux fuel n acc = ds ++ acc ∧ ds ≠ [] ∧ (∀ c ∈ ds, isDigit c = true) ∧
      dval ds = n := by
  induction fuel generalizing n acc with
  | zero => omega
  | succ f ih =>
    have hr : n % 10 < 10 := Nat.mod_lt _ (by omega)
    obtain ⟨hd, hv, _⟩ := digitChar_spec (n % 10) hr
    unfold natDigitsAux
    simp only
    by_cases h10 : n < 10
    · simp only [h10, if_true]
      refine ⟨[Char.ofNat (48 + n % 10)], by simp, by simp, by simpa using hd, ?_⟩
      simp [dval, hv]; omega
    · simp only [h10, if_false]
      obtain ⟨ds, h1, h2, h3, h4⟩ := ih (n / 10) (Char.ofNat (48 + n % 10) :: acc) (by omega)
      refine ⟨ds ++ [Char.ofNat (48 + n % 10)], by simp [h1], by simp, ?_, ?_⟩
      · intro c hc
        rcases List.mem_append.mp hc with hc | hc
        · exact h3 c hc
        · simp at hc; subst hc; exact hd
      · rw [dval_snoc, h4, hv]; omega

theorem natStr_spec (n : Nat) :
    natStr n ≠ [] ∧ (∀ c ∈ natStr n, isDigit c = true) ∧ dval (natStr n) = n := by
  obtain ⟨ds, h1, h2, h3, h4⟩ := natDigitsAux_spec (n + 1) n [] (by omega)
  unfold natStr
  rw [h1]; simp [h2, h4]; exact h3

theorem natStr_inj {a b : Nat} (h : natStr a = natStr b) : a = b := by
  have := (natStr_spec a).2.2
  rw [h, (natStr_spec b).2.2] at this
  exact this.symm

theorem isDigit_props (c : Char) (h : isDigit c = true) :
    c ≠ '_' ∧ c ≠ 'F' ∧ isWord c = true ∧ isSpace c = false ∧ isQuote c = false := by
  have h' : c.isDigit = true := h
  simp only [Char.isDigit, Bool.and_eq_true, decide_eq_true_eq] at h'
  have hv : 48 ≤ c.val.toNat ∧ c.val.toNat ≤ 57 := by
    constructor
    · have := h'.1; exact UInt32.le_iff_toNat_le.mp this
    · have := h'.2; exact UInt32.le_iff_toNat_le.mp this
  have hne : ∀ d : Char, (d.val.toNat < 48 ∨ 57 < d.val.toNat) → c ≠ d := by
    intro d hd hcd; subst hcd; omega
  refine ⟨hne _ (by decide), hne _ (by decide), ?_, ?_, ?_⟩
  · have hd : c.isDigit = true := h
    simp [isWord, Char.isAlphanum, hd]
  · simp only [isSpace, Bool.or_eq_false_iff, beq_eq_false_iff_ne, ne_eq]
    refine ⟨⟨⟨⟨⟨⟨⟨⟨⟨?_, ?_⟩, ?_⟩, ?_⟩, ?_⟩, ?_⟩, ?_⟩, ?_⟩, ?_⟩, ?_⟩ <;> exact hne _ (by decide)
  · simp only [isQuote, Bool.or_eq_false_iff, beq_eq_false_iff_ne, ne_eq]
    exact ⟨hne _ (by decide), hne _ (by decide)⟩

/-! ## `stripPrefix?`, `replaceFirst` -/

theorem stripPrefix?_append (p r : Str) : stripPrefix? p (p ++ r) = some r := by
  induction p with
  | nil => cases r <;> rfl
  | cons a p ih => simp [stripPrefix?, ih]

theorem stripPrefix?_eq_some {p s r : Str} (h : stripPrefix? p s = some r) : s = p ++ r := by
  induction p generalizing s with
  | nil => cases s <;> simp_all [stripPrefix?]
  | cons a p ih =>
    cases s with
    | nil => simp [stripPrefix?] at h
    | cons c cs =>
      simp only [stripPrefix?] at h
      by_cases hac : a = c
      · subst hac; simp at h; rw [ih h]; rfl
      · simp [hac] at h

theorem replaceFirst_here (k v r : Str) (hk : k ≠ []) : replaceFirst k v (k ++ r) = v ++ r := by
  cases k with
  | nil => exact absurd rfl hk
  | cons a k =>
    show replaceFirst (a :: k) v (a :: (k ++ r)) = v ++ r
    unfold replaceFirst
    have := stripPrefix?_append (a :: k) r
    simp only [List.cons_append] at this
    rw [this]

theorem replaceFirst_skip (k v : Str) (c : Char) (s : Str) (h : stripPrefix? k (c :: s) = none) :
    replaceFirst k v (c :: s) = c :: replaceFirst k v s := by
  conv => lhs; unfold replaceFirst
  rw [h]

/-! ## association lists -/

theorem Map.get?_set_self (m : Map) (k v : Str) : (Map.set m k v).get? k = some v := by
  induction m with
  | nil => simp [Map.set, Map.get?]
  | cons e m ih =>
    obtain ⟨k', v'⟩ := e
    unfold Map.set
    by_cases h : k' = k
    · subst h; simp [Map.get?]
    · simp [h, Map.get?, ih]

theorem Map.get?_set_ne (m : Map) (k v k' : Str) (h : k ≠ k') :
    (Map.set m k v).get? k' = m.get? k' := by
  induction m with
  | nil => simp [Map.set, Map.get?, h]
  | cons e m ih =>
    obtain ⟨k1, v1⟩ := e
    unfold Map.set
    by_cases h1 : k1 = k
    · subst h1; simp [Map.get?, h]
    · simp only [beq_iff_eq, h1, if_false]
      by_cases h2 : k1 = k'
      · subst h2; simp [Map.get?]
      · simp [Map.get?, h2, ih]

/-! ## the placeholder keys -/

/-- `k` is one of the three placeholder spellings -/
def IsKey (k : Str) : Prop := ∃ n, k = strKey n ∨ k = realKey n ∨ k = exprKey n

theorem takeWhile_digits (ds rest : Str) (h : ∀ c ∈ ds, isDigit c = true)
    (hr : ∀ c, rest.head? = some c → isDigit c = false) :
    (ds ++ rest).takeWhile isDigit = ds ∧ (ds ++ rest).dropWhile isDigit = rest := by
  induction ds with
  | nil =>
    cases rest with
    | nil => simp
    | cons c r => simp [hr c rfl]
  | cons d ds ih =>
    have hd := h d (by simp)
    have := ih (fun c hc => h c (by simp [hc]))
    simp [List.takeWhile_cons, List.dropWhile_cons, hd, this]

theorem matchNumbered_closed (p : Str) (n : Nat) (rest : Str) :
    matchNumbered p true (p ++ natStr n ++ ['_'] ++ rest) = some (p ++ natStr n ++ ['_'], rest) := by
  unfold matchNumbered
  have : p ++ natStr n ++ ['_'] ++ rest = p ++ (natStr n ++ '_' :: rest) := by simp
  rw [this, stripPrefix?_append]
  obtain ⟨hne, hd, _⟩ := natStr_spec n
  obtain ⟨h1, h2⟩ := takeWhile_digits (natStr n) ('_' :: rest) hd (by simp; decide)
  simp only [h1, h2]
  cases hn : natStr n with
  | nil => exact absurd hn hne
  | cons a b => simp

theorem matchNumbered_open (p : Str) (n : Nat) (rest : Str)
    (hr : ∀ c, rest.head? = some c → isDigit c = false) :
    matchNumbered p false (p ++ natStr n ++ rest) = some (p ++ natStr n, rest) := by
  unfold matchNumbered
  have : p ++ natStr n ++ rest = p ++ (natStr n ++ rest) := by simp
  rw [this, stripPrefix?_append]
  obtain ⟨hne, hd, _⟩ := natStr_spec n
  obtain ⟨h1, h2⟩ := takeWhile_digits (natStr n) rest hd hr
  simp only [h1, h2]
  cases hn : natStr n with
  | nil => exact absurd hn hne
  | cons a b => simp

theorem matchKey_strKey (n : Nat) (rest : Str) :
    matchKey (strKey n ++ rest) = some (strKey n, rest) := by
  unfold matchKey strKey
  rw [matchNumbered_closed]

theorem stripPrefix?_head_ne (a : Char) (p : Str) (c : Char) (s : Str) (h : a ≠ c) :
    stripPrefix? (a :: p) (c :: s) = none := by
  simp [stripPrefix?, h]

theorem matchNumbered_head_ne (a : Char) (p : Str) (cl : Bool) (c : Char) (s : Str) (h : a ≠ c) :
    matchNumbered (a :: p) cl (c :: s) = none := by
  unfold matchNumbered
  rw [stripPrefix?_head_ne a p c s h]

theorem matchKey_realKey (n : Nat) (rest : Str) :
    matchKey (realKey n ++ rest) = some (realKey n, rest) := by
  unfold matchKey
  have h1 : matchNumbered strPrefix true (realKey n ++ rest) = none := by
    unfold realKey realPrefix strPrefix
    exact matchNumbered_head_ne _ _ _ _ _ (by decide)
  rw [h1]
  unfold realKey
  rw [matchNumbered_closed]

theorem matchKey_exprKey (n : Nat) (rest : Str)
    (hr : ∀ c, rest.head? = some c → isDigit c = false) :
    matchKey (exprKey n ++ rest) = some (exprKey n, rest) := by
  unfold matchKey
  have h1 : matchNumbered strPrefix true (exprKey n ++ rest) = none := by
    unfold exprKey exprPrefix strPrefix
    exact matchNumbered_head_ne _ _ _ _ _ (by decide)
  have h2 : matchNumbered realPrefix true (exprKey n ++ rest) = none := by
    unfold exprKey exprPrefix realPrefix matchNumbered
    simp [stripPrefix?]
  rw [h1, h2]
  unfold exprKey
  rw [matchNumbered_open _ _ _ hr]

/-- no placeholder starts at a character that is neither `F` nor `_` -/
theorem matchKey_other (c : Char) (s : Str) (h1 : c ≠ 'F') (h2 : c ≠ '_') :
    matchKey (c :: s) = none := by
  unfold matchKey
  rw [show strPrefix = '_' :: strPrefix.tail from rfl, show realPrefix = 'F' :: realPrefix.tail from rfl,
    show exprPrefix = 'F' :: exprPrefix.tail from rfl,
    matchNumbered_head_ne _ _ _ _ _ (Ne.symm h2), matchNumbered_head_ne _ _ _ _ _ (Ne.symm h1),
    matchNumbered_head_ne _ _ _ _ _ (Ne.symm h1)]

/-- nor at a `_` that is not followed by `F` -/
theorem matchKey_us (s : Str) (h : ∀ c, s.head? = some c → c ≠ 'F') :
    matchKey ('_' :: s) = none := by
  unfold matchKey
  have h1 : matchNumbered strPrefix true ('_' :: s) = none := by
    unfold matchNumbered strPrefix
    cases s with
    | nil => simp [stripPrefix?]
    | cons a s =>
      have := h a rfl
      simp [stripPrefix?, Ne.symm this]
  rw [h1, show realPrefix = 'F' :: realPrefix.tail from rfl,
    show exprPrefix = 'F' :: exprPrefix.tail from rfl,
    matchNumbered_head_ne _ _ _ _ _ (by decide), matchNumbered_head_ne _ _ _ _ _ (by decide)]

/-- a `_` in front of a genuine key does not make a (longer) key -/
theorem matchKey_us_key (k : Str) (hk : IsKey k) (rest : Str) :
    matchKey ('_' :: (k ++ rest)) = none := by
  obtain ⟨n, h | h | h⟩ := hk
  · subst h
    apply matchKey_us
    intro c hc
    simp [strKey, strPrefix] at hc; subst hc; decide
  · subst h
    unfold matchKey
    have h1 : matchNumbered strPrefix true ('_' :: (realKey n ++ rest)) = none := by
      unfold realKey realPrefix strPrefix matchNumbered
      simp [stripPrefix?]
    rw [h1, show realPrefix = 'F' :: realPrefix.tail from rfl,
      show exprPrefix = 'F' :: exprPrefix.tail from rfl,
      matchNumbered_head_ne _ _ _ _ _ (by decide), matchNumbered_head_ne _ _ _ _ _ (by decide)]
  · subst h
    unfold matchKey
    have h1 : matchNumbered strPrefix true ('_' :: (exprKey n ++ rest)) = none := by
      unfold exprKey exprPrefix strPrefix matchNumbered
      simp [stripPrefix?]
    rw [h1, show realPrefix = 'F' :: realPrefix.tail from rfl,
      show exprPrefix = 'F' :: exprPrefix.tail from rfl,
      matchNumbered_head_ne _ _ _ _ _ (by decide), matchNumbered_head_ne _ _ _ _ _ (by decide)]

/-- shape of the head of a key: `F…` or `_F…` -/
theorem IsKey_head (k : Str) (hk : IsKey k) :
    (∃ t, k = 'F' :: t) ∨ (∃ t, k = '_' :: 'F' :: t) := by
  obtain ⟨n, h | h | h⟩ := hk
  · right; subst h; exact ⟨_, rfl⟩
  · left; subst h; exact ⟨_, rfl⟩
  · left; subst h; exact ⟨_, rfl⟩

theorem strKey_inj {a b : Nat} (h : strKey a = strKey b) : a = b := by
  unfold strKey at h
  simp at h
  exact natStr_inj h

theorem realKey_inj {a b : Nat} (h : realKey a = realKey b) : a = b := by
  unfold realKey at h
  simp at h
  exact natStr_inj h

theorem exprKey_inj {a b : Nat} (h : exprKey a = exprKey b) : a = b := by
  unfold exprKey at h
  simp at h
  exact natStr_inj h

theorem strKey_head (n : Nat) : (strKey n).head? = some '_' := rfl
theorem realKey_head (n : Nat) : (realKey n).head? = some 'F' := rfl
theorem exprKey_head (n : Nat) : (exprKey n).head? = some 'F' := rfl

end Fp.Splitline
