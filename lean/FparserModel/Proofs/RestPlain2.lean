import FparserModel.Proofs.RestPlain
import FparserModel.Proofs.IoStmtLayoutCombi
import FparserModel.Proofs.CombiTok
/-!
Token theorems of further Rest classes that do not go through `string_replace_map`:
Type_Param_Decl, Enumerator, Stmt_Function_Stmt, Where_Construct_Stmt, Declaration_Type_Spec, Rename,
Include_Stmt, Deferred_Shape_Spec, Defined_Op, Stop_Code, the `isinstance` filters, Intrinsic_Type_Spec.
-/
namespace Fp.Rest
open Fp Fp.Splitline Fp.IoStmt
open Fp.Combi (noBlank)

variable {Node : Type}

theorem net_sp : net " ".toList = 0 := by decide
theorem net_eqs : net "=".toList = 0 := by decide

/-! ## Type_Param_Decl / Enumerator -/

theorem typeParamDecl_tostr_match_tokens (o : Oracle Node) (ho : OracleTok o) (s : Str)
    (items : List (Item Node)) (hm : (planTypeParamDecl s).bind (runSlots o) = .ok items) :
    ∃ t, tostrBinary o items = .ok t ∧ toks t = toks s ∧
      ((∀ i ∈ items, net (i.text o) = 0) → net t = 0) := by
  obtain ⟨slots, hp, hr⟩ := Res.bind_eq_ok hm
  unfold planTypeParamDecl at hp
  cases hc : Combi.cutFirst '=' s with
  | none => rw [hc] at hp; cases hp
  | some p =>
    obtain ⟨l, r⟩ := p
    rw [hc] at hp
    dsimp only at hp
    split at hp
    · cases hp
    cases hp
    obtain ⟨i, j, k, rfl, hi, hj, hk⟩ := run3 hr
    have hi' := child_toks ho hi
    have hk' := child_toks ho hk
    have := runSlot_str_ok hj; subst this
    obtain ⟨hs, _⟩ := Combi.cutFirst_spec s l r hc
    refine ⟨_, rfl, ?_, ?_⟩
    · conv => rhs; rw [hs, consE]
      simp only [toks_append, hi', hk', toks_rstrip, toks_lstrip, toks_sp, net_str_text,
        List.nil_append, List.append_assoc]
    · intro hb
      have h1 := hb i (by simp)
      have h3 := hb k (by simp)
      simp only [net_append, h1, h3, net_str_text, net_sp, net_eqs]; rfl

theorem enumerator_tostr_match_tokens (o : Oracle Node) (ho : OracleTok o) (s : Str)
    (items : List (Item Node)) (hm : (planEnumerator s).bind (runSlots o) = .ok items) :
    ∃ t, tostrBinary o items = .ok t ∧ toks t = toks s ∧
      ((∀ i ∈ items, net (i.text o) = 0) → net t = 0) := by
  obtain ⟨slots, hp, hr⟩ := Res.bind_eq_ok hm
  unfold planEnumerator at hp
  cases hc : Combi.cutFirst '=' s with
  | none => rw [hc] at hp; cases hp
  | some p =>
    obtain ⟨l, r⟩ := p
    rw [hc] at hp
    dsimp only at hp
    cases hp
    obtain ⟨i, j, k, rfl, hi, hj, hk⟩ := run3 hr
    have hi' := child_toks ho hi
    have hk' := child_toks ho hk
    have := runSlot_str_ok hj; subst this
    obtain ⟨hs, _⟩ := Combi.cutFirst_spec s l r hc
    refine ⟨_, rfl, ?_, ?_⟩
    · conv => rhs; rw [hs, consE]
      simp only [toks_append, hi', hk', toks_rstrip, toks_lstrip, toks_sp, net_str_text,
        List.nil_append, List.append_assoc]
    · intro hb
      have h1 := hb i (by simp)
      have h3 := hb k (by simp)
      simp only [net_append, h1, h3, net_str_text, net_sp, net_eqs]; rfl

/-! ## Stmt_Function_Stmt -/

theorem net_lp : net "(".toList = 1 := by decide
theorem net_rp : net ")".toList = -1 := by decide

/-- `f(args) = e` is printed `f (args) = e`, `f() = e` is printed `f () = e` -/
theorem stmtFunction_tostr_match_tokens (o : Oracle Node) (ho : OracleTok o) (s : Str)
    (items : List (Item Node)) (hm : (planStmtFunction s).bind (runSlots o) = .ok items) :
    ∃ t, tostrStmtFunction o items = .ok t ∧ toks t = toks s ∧
      ((∀ i ∈ items, net (i.text o) = 0) → net t = 0) := by
  obtain ⟨slots, hp, hr⟩ := Res.bind_eq_ok hm
  unfold planStmtFunction at hp
  cases hc : Combi.cutFirst '=' s with
  | none => rw [hc] at hp; cases hp
  | some p =>
    obtain ⟨l, r⟩ := p
    rw [hc] at hp
    dsimp only at hp
    split at hp
    · cases hp
    split at hp
    · cases hp
    rename_i hline
    have hends : endsC ')' (rstrip l) = true := by
      simp only [Bool.or_eq_true, Bool.not_eq_true', not_or] at hline
      simpa using hline.2
    obtain ⟨hs, _⟩ := Combi.cutFirst_spec s l r hc
    cases hd : Combi.cutFirst '(' (rstrip l) with
    | none => rw [hd] at hp; cases hp
    | some q =>
      obtain ⟨a, b⟩ := q
      rw [hd] at hp
      dsimp only at hp
      split at hp
      · cases hp
      obtain ⟨hl, _⟩ := Combi.cutFirst_spec _ a b hd
      have hb : endsC ')' b = true := by
        rw [hl] at hends
        exact endsC_append_cons hends (by decide)
      obtain ⟨p, hpb⟩ := endsC_snoc hb
      have hdl : b.dropLast = p := by rw [hpb, List.dropLast_concat]
      have e1 : toks s = toks a ++ toks "(".toList ++ toks p ++ toks ")".toList ++ toks "=".toList ++ toks r := by
        conv => lhs; rw [hs, consE, toks_append, ← toks_rstrip l, hl, hpb, consL]
        simp only [toks_append, List.append_assoc]
        rfl
      rw [hdl] at hp
      have k1 : toks " (".toList = toks "(".toList := by decide
      have k2 : toks ") = ".toList = toks ")".toList ++ toks "=".toList := by decide
      have k3 : toks " () = ".toList = toks "(".toList ++ toks ")".toList ++ toks "=".toList := by decide
      split at hp
      · cases hp
        obtain ⟨i, j, k, rfl, hi, hj, hk⟩ := run3 hr
        have hi' := child_toks ho hi
        have hj' := child_toks ho hj
        have hk' := child_toks ho hk
        obtain ⟨n, rfl, _⟩ := runSlot_child_ok hj
        refine ⟨_, rfl, ?_, ?_⟩
        · rw [e1]
          simp only [toks_append, hi', hj', hk', toks_rstrip, toks_lstrip, toks_strip, k1, k2,
            List.append_assoc]
        · intro hb
          have h1 := hb i (by simp)
          have h2 := hb (.node n) (by simp)
          have h3 := hb k (by simp)
          have n1 : net " (".toList = 1 := by decide
          have n2 : net ") = ".toList = -1 := by decide
          simp only [net_append, h1, h2, h3, n1, n2]; rfl
      · rename_i hargs
        have hargs' : (strip p).isEmpty = true := by simpa using hargs
        have hp0 : toks p = [] := by rw [← toks_strip]; exact toks_isEmpty' hargs'
        cases hp
        obtain ⟨i, j, k, rfl, hi, hj, hk⟩ := run3 hr
        have hi' := child_toks ho hi
        have hk' := child_toks ho hk
        have := runSlot_none_ok hj; subst this
        refine ⟨_, rfl, ?_, ?_⟩
        · rw [e1, hp0]
          simp only [toks_append, hi', hk', toks_rstrip, toks_lstrip, k3, List.append_nil,
            List.append_assoc]
        · intro hb
          have h1 := hb i (by simp)
          have h3 := hb k (by simp)
          have n1 : net " () = ".toList = 0 := by decide
          simp only [net_append, h1, h3, n1]; rfl

/-! ## Where_Construct_Stmt -/

theorem whereConstruct_tostr_match_tokens (o : Oracle Node) (ho : OracleTok o) (s : Str)
    (items : List (Item Node)) (hm : (planWhereConstruct s).bind (runSlots o) = .ok items) :
    ∃ t, tostrWhereConstruct o items = .ok t ∧ toks t = toks s ∧
      ((∀ i ∈ items, net (i.text o) = 0) → net t = 0) := by
  obtain ⟨slots, hp, hr⟩ := Res.bind_eq_ok hm
  unfold planWhereConstruct at hp
  split at hp
  · cases hp
  rename_i hkw
  have hkw' : kwIs "WHERE".toList s = true := by simpa using hkw
  have e1 : toks s = toks "WHERE".toList ++ toks (lstrip (s.drop 5)) := by
    rw [toks_of_kwIs hkw', toks_lstrip]; rfl
  dsimp only at hp
  split at hp
  · cases hp
  split at hp
  · cases hp
  rename_i hpar
  have hpar' : startsC '(' (lstrip (s.drop 5)) = true ∧ endsC ')' (lstrip (s.drop 5)) = true := by
    simpa using hpar
  split at hp
  · cases hp
  cases hp
  obtain ⟨i, rfl, hi⟩ := run1 hr
  have hi' := child_toks ho hi
  have k : toks "WHERE (".toList = toks "WHERE".toList ++ toks "(".toList := by decide
  refine ⟨_, rfl, ?_, ?_⟩
  · rw [e1, toks_paren_inner hpar'.1 hpar'.2]
    simp only [toks_append, hi', k, List.append_assoc]
  · intro hb
    have h1 := hb i (by simp)
    have n1 : net "WHERE (".toList = 1 := by decide
    simp only [net_append, h1, n1, net_rp]; rfl

/-! ## Declaration_Type_Spec -/

theorem endsC_suffix {c : Char} {x s : Str} (hne : x ≠ []) (hsuf : x <:+ s) (h : endsC c s = true) :
    endsC c x = true := by
  obtain ⟨pre, rfl⟩ := hsuf
  cases hx : x.getLast? with
  | none => exact absurd (List.getLast?_eq_none_iff.mp hx) hne
  | some d =>
    simp only [endsC, List.getLast?_append, hx, Option.some_or] at h ⊢
    exact h

theorem declTypeSpec_tostr_match_tokens (o : Oracle Node) (ho : OracleTok o) (s : Str)
    (items : List (Item Node)) (hm : (planDeclTypeSpec s).bind (runSlots o) = .ok items) :
    ∃ t, tostrDeclTypeSpec o items = .ok t ∧ toks t = toks s ∧
      ((∀ i ∈ items, net (i.text o) = 0) → net t = 0) := by
  obtain ⟨slots, hp, hr⟩ := Res.bind_eq_ok hm
  unfold planDeclTypeSpec at hp
  split at hp
  · cases hp
  split at hp
  · cases hp
  rename_i hends
  have hends' : endsC ')' s = true := by simpa using hends
  have ends_drop : ∀ n, startsC '(' (lstrip (s.drop n)) = true → endsC ')' (lstrip (s.drop n)) = true := by
    intro n hst
    have hne : lstrip (s.drop n) ≠ [] := by
      intro e; rw [e] at hst; simp [startsC] at hst
    have hsuf : lstrip (s.drop n) <:+ s :=
      (List.dropWhile_suffix _).trans (List.drop_suffix _ _)
    exact endsC_suffix hne hsuf hends'
  split at hp
  · rename_i hkw
    have e1 : toks s = toks "TYPE".toList ++ toks (lstrip (s.drop 4)) := by
      rw [toks_of_kwIs hkw, toks_lstrip]; rfl
    dsimp only at hp
    split at hp
    · cases hp
    rename_i hst
    have hst' : startsC '(' (lstrip (s.drop 4)) = true := by simpa using hst
    cases hp
    obtain ⟨i, j, rfl, hi, hj⟩ := run2 hr
    have := runSlot_str_ok hi; subst this
    have hj' := child_toks ho hj
    refine ⟨_, rfl, ?_, ?_⟩
    · rw [e1, toks_paren_inner hst' (ends_drop 4 hst')]
      simp only [toks_append, hj', net_str_text, List.append_assoc]
    · intro hb
      have h2 := hb j (by simp)
      have n1 : net "TYPE".toList = 0 := by decide
      simp only [net_append, h2, net_str_text, n1, net_lp, net_rp]; rfl
  · split at hp
    · rename_i hkw
      have e1 : toks s = toks "CLASS".toList ++ toks (lstrip (s.drop 5)) := by
        rw [toks_of_kwIs hkw, toks_lstrip]; rfl
      dsimp only at hp
      split at hp
      · cases hp
      rename_i hst
      have hst' : startsC '(' (lstrip (s.drop 5)) = true := by simpa using hst
      have n1 : net "CLASS".toList = 0 := by decide
      split at hp
      · rename_i hx
        have hx' : strip (inner (lstrip (s.drop 5))) = ['*'] := by simpa using hx
        cases hp
        obtain ⟨i, j, rfl, hi, hj⟩ := run2 hr
        have := runSlot_str_ok hi; subst this
        have := runSlot_str_ok hj; subst this
        refine ⟨_, rfl, ?_, ?_⟩
        · rw [e1, toks_paren_inner hst' (ends_drop 5 hst'), hx']
          simp only [toks_append, net_str_text, List.append_assoc]; rfl
        · intro _; simp only [net_str_text]; decide
      · cases hp
        obtain ⟨i, j, rfl, hi, hj⟩ := run2 hr
        have := runSlot_str_ok hi; subst this
        have hj' := child_toks ho hj
        refine ⟨_, rfl, ?_, ?_⟩
        · rw [e1, toks_paren_inner hst' (ends_drop 5 hst')]
          simp only [toks_append, hj', net_str_text, List.append_assoc]
        · intro hb
          have h2 := hb j (by simp)
          simp only [net_append, h2, net_str_text, n1, net_lp, net_rp]; rfl
    · cases hp

/-! ## Deferred_Shape_Spec -/

theorem deferredShape_tostr_match_tokens (o : Oracle Node) (s : Str)
    (items : List (Item Node)) (hm : (planDeferredShape s).bind (runSlots o) = .ok items) :
    ∃ t, tostrSeparator o items = .ok t ∧ toks t = toks s ∧ net t = 0 := by
  obtain ⟨slots, hp, hr⟩ := Res.bind_eq_ok hm
  unfold planDeferredShape at hp
  split at hp
  · rename_i hs
    have hs' : s = [':'] := by simpa using hs
    subst hs'
    cases hp
    obtain ⟨i, j, rfl, hi, hj⟩ := run2 hr
    have := runSlot_none_ok hi; subst this
    have := runSlot_none_ok hj; subst this
    exact ⟨":".toList, rfl, by decide, by decide⟩
  · cases hp

/-! ## Rename -/

theorem net_operator : net "OPERATOR".toList = 0 := by decide

/-- `a => b` and `OPERATOR(.x.) => OPERATOR(.y.)` are printed with the tokens of the input -/
theorem rename_tostr_match_tokens (o : Oracle Node) (ho : OracleTok o) (s : Str)
    (items : List (Item Node)) (hm : (planRename s).bind (runSlots o) = .ok items) :
    ∃ t, tostrRename o items = .ok t ∧ toks t = toks s ∧
      ((∀ i ∈ items, net (i.text o) = 0) → net t = 0) := by
  obtain ⟨slots, hp, hr⟩ := Res.bind_eq_ok hm
  unfold planRename at hp
  cases hc : cutSub2 '=' '>' s with
  | none => rw [hc] at hp; cases hp
  | some p =>
    obtain ⟨p0, p1⟩ := p
    rw [hc] at hp
    dsimp only at hp
    split at hp
    · cases hp
    have hs := cutSub2_spec s p0 p1 hc
    have e3 : ∀ X : Str, '=' :: '>' :: X = "=>".toList ++ X := fun _ => rfl
    have e1 : toks s = toks p0 ++ toks "=>".toList ++ toks p1 := by
      conv => lhs; rw [hs, e3]
      simp only [toks_append, List.append_assoc]
    have k : toks " => ".toList = toks "=>".toList := by decide
    -- the plain form
    have plain : ∀ slots', Res.ok [Slot.none, .child R.Local_Name (rstrip p0), .child R.Use_Name (lstrip p1)]
          = Res.ok slots' → runSlots o slots' = .ok items →
        ∃ t, tostrRename o items = .ok t ∧ toks t = toks s ∧
          ((∀ i ∈ items, net (i.text o) = 0) → net t = 0) := by
      intro slots' hp hr
      cases hp
      obtain ⟨i, j, l, rfl, hi, hj, hl⟩ := run3 hr
      have := runSlot_none_ok hi; subst this
      have hj' := child_toks ho hj
      have hl' := child_toks ho hl
      refine ⟨_, rfl, ?_, ?_⟩
      · rw [e1]
        simp only [toks_append, hj', hl', toks_rstrip, toks_lstrip, k, List.append_assoc]
      · intro hb
        have h2 := hb j (by simp)
        have h3 := hb l (by simp)
        have n1 : net " => ".toList = 0 := by decide
        simp only [net_append, h2, h3, n1]; rfl
    split at hp
    · rename_i hkw
      have hkw' : kwIs "OPERATOR".toList (rstrip p0) = true ∧ kwIs "OPERATOR".toList (lstrip p1) = true := by
        simpa using hkw
      split at hp
      · rename_i hcond
        simp only [Bool.and_eq_true, Bool.not_eq_true'] at hcond
        obtain ⟨⟨⟨_, _⟩, hst1⟩, hen1⟩ := hcond
        split at hp
        · cases hp
        rename_i hrop
        have hrop' : startsC '(' (lstrip ((lstrip p1).drop 8)) = true ∧
            endsC ')' (lstrip ((lstrip p1).drop 8)) = true := by
          simpa using hrop
        split at hp
        · cases hp
        cases hp
        obtain ⟨i, j, l, rfl, hi, hj, hl⟩ := run3 hr
        have := runSlot_str_ok hi; subst this
        have hj' := child_toks ho hj
        have hl' := child_toks ho hl
        have a1 : toks p0 = toks "OPERATOR".toList ++ toks (lstrip ((rstrip p0).drop 8)) := by
          rw [← toks_rstrip p0, toks_of_kwIs hkw'.1, toks_lstrip]; rfl
        have a2 : toks p1 = toks "OPERATOR".toList ++ toks (lstrip ((lstrip p1).drop 8)) := by
          rw [← toks_lstrip p1, toks_of_kwIs hkw'.2, toks_lstrip]; rfl
        have k2 : toks ") => ".toList = toks ")".toList ++ toks "=>".toList := by decide
        refine ⟨_, rfl, ?_, ?_⟩
        · rw [e1, a1, a2, toks_paren_inner hst1 hen1, toks_paren_inner hrop'.1 hrop'.2]
          simp only [toks_append, hj', hl', net_str_text, k2, List.append_assoc]
        · intro hb
          have h2 := hb j (by simp)
          have h3 := hb l (by simp)
          have n1 : net ") => ".toList = -1 := by decide
          simp only [net_append, h2, h3, net_str_text, n1, net_lp, net_rp, net_operator]; rfl
      · exact plain _ hp hr
    · exact plain _ hp hr

/-! ## Include_Stmt -/

/-- `s[0] == q and s[-1] == q` for a text of at least two characters -/
theorem quote_shape {q : Char} {s : Str} (h1 : startsC q s = true) (h2 : endsC q s = true)
    (hl : 2 ≤ s.length) : s = q :: inner s ++ [q] := by
  cases s with
  | nil => simp at hl
  | cons c t =>
    have hc : c = q := by simpa [startsC] using h1
    subst hc
    cases t with
    | nil => simp at hl
    | cons x t =>
      have h3 : (x :: t).getLast? = some c := by simpa [endsC, List.getLast?_cons_cons] using h2
      obtain ⟨ys, hy⟩ := List.getLast?_eq_some_iff.mp h3
      simp only [inner, List.drop_succ_cons, List.drop_zero]
      rw [hy, List.dropLast_concat]; rfl

/-- exact relation: `INCLUDE 'f'` / `INCLUDE "f"` is printed `INCLUDE 'f'`: the quote character is
    normalised to `'` (the file name itself is handed to the child unchanged) -/
theorem include_tostr_match_tokens (o : Oracle Node) (ho : OracleTok o) (s : Str)
    (items : List (Item Node)) (hm : (planInclude s).bind (runSlots o) = .ok items) :
    ∃ t, tostrInclude o items = .ok t ∧
      (∃ q f, (q = '\'' ∨ q = '"') ∧
        toks s = toks "INCLUDE".toList ++ toks [q] ++ toks f ++ toks [q] ∧
        toks t = toks "INCLUDE".toList ++ toks "'".toList ++ toks f ++ toks "'".toList) ∧
      ((∀ i ∈ items, net (i.text o) = 0) → net t = 0) := by
  obtain ⟨slots, hp, hr⟩ := Res.bind_eq_ok hm
  unfold planInclude at hp
  split at hp
  · cases hp
  dsimp only at hp
  split at hp
  · cases hp
  rename_i hkw
  have hkw' : kwIs "INCLUDE".toList (strip s) = true := by simpa using hkw
  split at hp
  · cases hp
  rename_i hlen
  split at hp
  · cases hp
  rename_i hq
  cases hp
  obtain ⟨i, rfl, hi⟩ := run1 hr
  have hi' := child_toks ho hi
  have e1 : toks s = toks "INCLUDE".toList ++ toks (strip ((strip s).drop 7)) := by
    rw [← toks_strip s, toks_of_kwIs hkw', toks_strip]; rfl
  have hlen' : 2 ≤ (strip ((strip s).drop 7)).length := by omega
  have k : toks "INCLUDE '".toList = toks "INCLUDE".toList ++ toks "'".toList := by decide
  have hq' : (startsC '\'' (strip ((strip s).drop 7)) = true ∧ endsC '\'' (strip ((strip s).drop 7)) = true) ∨
      (startsC '"' (strip ((strip s).drop 7)) = true ∧ endsC '"' (strip ((strip s).drop 7)) = true) := by
    simp only [Bool.not_eq_true', Bool.not_eq_false] at hq
    simpa only [Bool.or_eq_true, Bool.and_eq_true] using hq
  have key : ∀ q : Char, startsC q (strip ((strip s).drop 7)) = true →
      endsC q (strip ((strip s).drop 7)) = true →
      toks s = toks "INCLUDE".toList ++ toks [q] ++ toks (inner (strip ((strip s).drop 7))) ++ toks [q] := by
    intro q h1 h2
    have sh := quote_shape h1 h2 hlen'
    have c1 : ∀ X : Str, q :: X = [q] ++ X := fun _ => rfl
    rw [e1]
    conv => lhs; rw [sh, c1]
    simp only [toks_append, List.append_assoc]
  refine ⟨_, rfl, ?_, ?_⟩
  · rcases hq' with ⟨h1, h2⟩ | ⟨h1, h2⟩
    · refine ⟨'\'', inner (strip ((strip s).drop 7)), .inl rfl, key _ h1 h2, ?_⟩
      simp only [toks_append, hi', k, List.append_assoc]
    · refine ⟨'"', inner (strip ((strip s).drop 7)), .inr rfl, key _ h1 h2, ?_⟩
      simp only [toks_append, hi', k, List.append_assoc]
  · intro hb
    have h1 := hb i (by simp)
    have n1 : net "INCLUDE '".toList = 0 := by decide
    have n2 : net "'".toList = 0 := by decide
    simp only [net_append, h1, n1, n2]; rfl

/-- witness: `include "a.h"` is printed `INCLUDE 'a.h'` — other tokens than the input -/
theorem include_normalises_quote :
    (planInclude "include \"a.h\"".toList).bind (runSlots echoOracle) = .ok [.node "a.h".toList] ∧
    tostrInclude echoOracle [.node "a.h".toList] = .ok "INCLUDE 'a.h'".toList ∧
    toks "INCLUDE 'a.h'".toList ≠ toks "include \"a.h\"".toList := by decide

/-! ## Defined_Op -/

theorem net_upperLetters : ∀ w : Str, w.all isUpperLetter = true → net w = 0
  | [], _ => rfl
  | c :: w, h => by
    simp only [List.all_cons, Bool.and_eq_true] at h
    have h1 : (c == '(') = false := by
      simp only [beq_eq_false_iff_ne, ne_eq]; intro e; subst e; exact absurd h.1 (by decide)
    have h2 : (c == ')') = false := by
      simp only [beq_eq_false_iff_ne, ne_eq]; intro e; subst e; exact absurd h.1 (by decide)
    simp only [net, h1, h2, net_upperLetters w h.2]; rfl

/-- the text is stripped and upper-cased; it holds no parenthesis -/
theorem definedOp_tostr_match_tokens (o : Oracle Node) (s : Str)
    (items : List (Item Node)) (hm : (planDefinedOp s).bind (runSlots o) = .ok items) :
    ∃ t, tostrString o items = .ok t ∧ toks t = toks s ∧ t = upper (strip s) ∧ net t = 0 := by
  obtain ⟨slots, hp, hr⟩ := Res.bind_eq_ok hm
  unfold planDefinedOp at hp
  cases hd : definedOp s with
  | none => rw [hd] at hp; cases hp
  | some u =>
    rw [hd] at hp
    cases hp
    obtain ⟨i, rfl, hi⟩ := run1 hr
    have := runSlot_str_ok hi; subst this
    unfold definedOp at hd
    dsimp only at hd
    split at hd
    · cases hd
    split at hd
    · rename_i rest hu
      split at hd
      · rename_i hdot
        split at hd
        · rename_i hw
          simp only [Bool.and_eq_true, Bool.not_eq_true'] at hw
          cases hd
          refine ⟨_, rfl, ?_, rfl, ?_⟩
          · simp only [net_str_text]; rw [toks_upper, toks_strip]
          · simp only [net_str_text]
            rw [hu]
            obtain ⟨p, hp⟩ := endsC_snoc hdot
            have hdl : rest.dropLast = p := by rw [hp, List.dropLast_concat]
            rw [hdl] at hw
            rw [hp]
            have c1 : ∀ X : Str, '.' :: X = ".".toList ++ X := fun _ => rfl
            rw [c1, net_append, net_append, net_upperLetters p hw.1.2]; rfl
        · cases hd
      · cases hd
    · cases hd

/-! ## the `isinstance` filters and Stop_Code: the returned object IS the child's object -/

theorem exprKind_pass (k : Kinds Node) (excl : List String) (o : Oracle Node) (s : Str) (n : Node)
    (hm : matchExprKind k excl o s = .ok (.pass n)) :
    o.call R.Expr s = .ok n ∧ excl.any (k.isInst n) = false := by
  unfold matchExprKind at hm
  split at hm
  · rename_i m hc
    split at hm
    · cases hm
    · rename_i hx
      cases hm
      exact ⟨hc, by simpa using hx⟩
  · cases hm
  · cases hm

/-- never a tuple -/
theorem exprKind_not_tuple (k : Kinds Node) (excl : List String) (o : Oracle Node) (s : Str)
    (items : List (Item Node)) : matchExprKind k excl o s ≠ .ok (.tuple items) := by
  intro hm
  unfold matchExprKind at hm
  split at hm
  · split at hm <;> cases hm
  · cases hm
  · cases hm

theorem exprKind_tostr_match_tokens (k : Kinds Node) (excl : List String) (o : Oracle Node)
    (ho : OracleTok o) (s : Str) (n : Node) (hm : matchExprKind k excl o s = .ok (.pass n)) :
    toks (o.str n) = toks s :=
  ho _ _ _ (exprKind_pass k excl o s n hm).1

theorem stopCode_pass (o : Oracle Node) (s : Str) (n : Node)
    (hm : matchStopCode o s = .ok (.pass n)) :
    o.call R.Level_3_Expr s = .ok n ∧ isLabelStr s = false := by
  unfold matchStopCode at hm
  split at hm
  · cases hm
  rename_i hl
  split at hm
  · cases hm
  obtain ⟨m, h1, h2⟩ := Res.map_eq_ok hm
  cases h2
  exact ⟨h1, by simpa using hl⟩

theorem stopCode_tuple (o : Oracle Node) (s : Str) (items : List (Item Node))
    (hm : matchStopCode o s = .ok (.tuple items)) :
    items = [.str s] ∧ isLabelStr s = true := by
  unfold matchStopCode at hm
  split at hm
  · rename_i hl
    cases hm
    exact ⟨rfl, hl⟩
  split at hm
  · cases hm
  obtain ⟨m, h1, h2⟩ := Res.map_eq_ok hm
  cases h2

theorem net_digits : ∀ w : Str, w.all isDigit = true → net w = 0
  | [], _ => rfl
  | c :: w, h => by
    simp only [List.all_cons, Bool.and_eq_true] at h
    have h1 : (c == '(') = false := by
      simp only [beq_eq_false_iff_ne, ne_eq]; intro e; subst e; exact absurd h.1 (by decide)
    have h2 : (c == ')') = false := by
      simp only [beq_eq_false_iff_ne, ne_eq]; intro e; subst e; exact absurd h.1 (by decide)
    simp only [net, h1, h2, net_digits w h.2]; rfl

/-- a label-shaped stop code is kept as it is; anything else is the Level_3_Expr object itself -/
theorem stopCode_tostr_match_tokens (o : Oracle Node) (ho : OracleTok o) (s : Str) (r : Out Node)
    (hm : matchStopCode o s = .ok r) :
    (∃ items, r = .tuple items ∧ tostrString o items = .ok s ∧ net s = 0) ∨
    (∃ n, r = .pass n ∧ o.call R.Level_3_Expr s = .ok n ∧ toks (o.str n) = toks s) := by
  cases r with
  | tuple items =>
    obtain ⟨rfl, hl⟩ := stopCode_tuple o s items hm
    refine .inl ⟨_, rfl, rfl, ?_⟩
    simp only [isLabelStr, Bool.and_eq_true] at hl
    exact net_digits s hl.2
  | pass n =>
    obtain ⟨h1, _⟩ := stopCode_pass o s n hm
    exact .inr ⟨n, rfl, h1, ho _ _ _ h1⟩

/-! ## Intrinsic_Type_Spec -/

/-- `\ADOUBLE\s*<w>\Z` (re.I): the tokens are those of `DOUBLE` and `<w>` -/
theorem toks_of_isDouble {w s : Str} (h : isDouble w s = true) :
    toks s = toks "DOUBLE".toList ++ toks w := by
  unfold isDouble at h
  simp only [Bool.and_eq_true, beq_iff_eq] at h
  obtain ⟨h1, h2⟩ := h
  have e := Combi.isPrefix_spec _ _ h1
  rw [← toks_upper s, e, toks_append]
  have : "DOUBLE".toList.length = 6 := rfl
  rw [this, ← toks_lstrip (List.drop 6 (upper s)), h2]

/-- what the token theorem needs of a row of the keyword table -/
def RowOK : WordRow → Prop
  | .kw k _ => net k.toList = 0
  | .dbl w v => toks v.toList = toks "DOUBLE".toList ++ toks w.toList ∧ net v.toList = 0

instance (r : WordRow) : Decidable (RowOK r) := by
  cases r <;> unfold RowOK <;> exact inferInstance

/-- the `try … except NoMatchError` loop over `WORDClsBase.match` rows and `DOUBLE <w>` patterns -/
theorem wordRows_tostr_match_tokens (o : Oracle Node) (ho : OracleTok o) (rows : List WordRow)
    (hrows : ∀ r ∈ rows, RowOK r) (s : Str) (items : List (Item Node))
    (hm : wordRows o rows s = .ok items) :
    ∃ t, combiStr o specWordPlain items = .ok t ∧ toks t = toks s ∧
      ((∀ i ∈ items, net (i.text o) = 0) → net t = 0) := by
  induction rows with
  | nil => simp only [wordRows] at hm; cases hm
  | cons r rest ih =>
    have hrest : ∀ r' ∈ rest, RowOK r' := fun r' h => hrows r' (List.mem_cons_of_mem _ h)
    have hr : RowOK r := hrows r (List.mem_cons_self ..)
    cases r with
    | kw k c =>
      simp only [wordRows] at hm
      cases hsp : Combi.wordSplit1 k.toList c false false s with
      | none => rw [hsp] at hm; exact ih hrest hm
      | some slots =>
        rw [hsp] at hm
        dsimp only at hm
        cases hrun : runSlots o (slots.map ofCombiSlot) with
        | ok its =>
          rw [hrun] at hm
          cases hm
          have hm' : (combiPlan (.word [k.toList] false c false false false) s).bind (runSlots o)
              = .ok items := by
            show (ofCombi (Combi.wordSplit1 k.toList c false false s)).bind (runSlots o) = _
            rw [hsp]; exact hrun
          obtain ⟨t, h1, h2, h3⟩ := word_tostr_match_tokens o ho k.toList c false s items hr hm'
          exact ⟨t, h1, h2, fun hb => h3 (bal_of_all hb)⟩
        | noMatch => rw [hrun] at hm; exact ih hrest hm
        | raises e => rw [hrun] at hm; cases hm
    | dbl w v =>
      simp only [wordRows] at hm
      split at hm
      · rename_i hd
        cases hm
        refine ⟨v.toList, rfl, ?_, fun _ => hr.2⟩
        rw [hr.1, toks_of_isDouble hd]
      · exact ih hrest hm

theorem intrinsicTypeRows_ok : ∀ r ∈ intrinsicTypeRows, RowOK r := by decide

/-- **Intrinsic_Type_Spec**: `INTEGER [kind]` … `CHARACTER [sel]`, `DOUBLE COMPLEX`,
    `DOUBLE PRECISION`, `BYTE` are printed with the tokens of the input -/
theorem intrinsicTypeSpec_tostr_match_tokens (o : Oracle Node) (ho : OracleTok o) (s : Str)
    (items : List (Item Node)) (hm : matchIntrinsicTypeSpec o s = .ok items) :
    ∃ t, combiStr o specWordPlain items = .ok t ∧ toks t = toks s ∧
      ((∀ i ∈ items, net (i.text o) = 0) → net t = 0) :=
  wordRows_tostr_match_tokens o ho intrinsicTypeRows intrinsicTypeRows_ok s items hm

#print axioms typeParamDecl_tostr_match_tokens
#print axioms enumerator_tostr_match_tokens
#print axioms stmtFunction_tostr_match_tokens
#print axioms whereConstruct_tostr_match_tokens
#print axioms declTypeSpec_tostr_match_tokens
#print axioms rename_tostr_match_tokens
#print axioms include_tostr_match_tokens
#print axioms include_normalises_quote
#print axioms deferredShape_tostr_match_tokens
#print axioms definedOp_tostr_match_tokens
#print axioms exprKind_pass
#print axioms exprKind_tostr_match_tokens
#print axioms stopCode_tostr_match_tokens
#print axioms wordRows_tostr_match_tokens
#print axioms intrinsicTypeSpec_tostr_match_tokens

end Fp.Rest
