import FparserModel.Proofs.DeclMore
import FparserModel.Proofs.DeclCommon
import FparserModel.Proofs.DeclData2
import FparserModel.Proofs.DeclPlain
import FparserModel.Proofs.DeclChar
import FparserModel.Props.SplitlineSrm2
/-!
# The hand-written declaration classes: `tostr (match s)` keeps the tokens of `s`, is matched
# again and is stable, and never absorbs an unbalanced parenthesis  — serves C01, C02, C08

`matchX`/`tostrX` (`FparserModel/Decl.lean`) mirror `X.match` / `X.tostr` of the specification-part
leaf classes of `fparser/two/Fortran2003.py`, whose `match` is ad-hoc string slicing and whose
`tostr` is written separately.  Children (`o : Leaves A`) are opaque; all theorems are for every
oracle, every text and every node.

* `toks s` = `s` with all white space deleted (blank-insensitive tokenisation; equality of `toks`
  means: same non-blank characters in the same order — nothing dropped, nothing invented, order kept).
* `Faithful o` : every child prints what it was handed, up to blanks.  `Stable o` : every child is
  matched again from its own printed text and prints the same.
* `SrmOK t` : the two DECIDABLE hypotheses under which `string_replace_map` followed by `repmap`
  is the identity up to blanks on the text `t` (`srm_roundtrip_partial`): `t` does not contain
  `F2PY`, and no exponent constant found in it ends in `_`/`F`/`F2`/`F2P`.  Without them the
  tokeniser itself corrupts the text (`srm_roundtrip_fails_*` in `Props/SplitlineSrm2.lean`), so
  the `*_tokens` theorems of the classes that go through it are `_partial` in exactly this sense.

Naming: (a) `X_tostr_match_tokens[_partial]`, (b) `X_match_tostr_fixpoint[_flat]`,
(c) `X_match_rejects_unbalanced`.
-/
namespace Fp.Decl
open Fp Fp.Splitline Fp.Combi

variable {A : Type}

/-- the decidable hypotheses of the tokeniser round trip on the text `t` -/
def SrmOK (t : Str) : Prop := Free t ∧ FoundsEndOK (expConsts (phase1Text discipline t false))

instance (t : Str) : Decidable (SrmOK t) := inferInstanceAs (Decidable (_ ∧ _))

/-- under `SrmOK` the tokenised text is a well-formed piece whose expansion is the text -/
theorem view_of_ok (t : Str) (h : SrmOK t) : ∀ r, tokenise t = some r → View t r := by
  intro r hr
  obtain ⟨r', h1, h2⟩ := srm_view t h.1 h.2
  rw [hr] at h1
  cases h1
  exact h2

/-! ## the classes that do not go through the tokeniser: FULL statements (all strings, no side
    hypothesis but the children's) -/

/-- **(a) Letter_Spec**: `a - h` ↦ `A - H`: the letters upper-cased, nothing else -/
theorem letterSpec_tostr_match_tokens (s : Str) (n : LetterSpec) (h : matchLetterSpec s = some n) :
    toks (tostrLetterSpec n) = upper (toks s) := letterSpec_tokens s n h
/-- **(b) Letter_Spec**: the printed range (`A - H`, with blanks around the `-`) is matched again
    to the SAME node — this is where halves that are not stripped would break -/
theorem letterSpec_match_tostr_fixpoint (s : Str) (n : LetterSpec) (h : matchLetterSpec s = some n) :
    matchLetterSpec (tostrLetterSpec n) = some n := letterSpec_fixpoint s n h
example : matchLetterSpec " a -  h".toList = some ("A".toList, some "H".toList) := by decide

/-- **(a) Kind_Selector**: `*n` kept; `( [KIND =] e )` printed with `KIND =` inserted/upper-cased -/
theorem kindSelector_tostr_match_tokens (o : Leaves A) (hf : Faithful o) (s : Str) (n : KindSel A)
    (h : matchKindSelector o s = some n) :
    (∃ x, toks s = '*' :: x ∧ toks (tostrKindSelector o n) = '*' :: x) ∨
    (∃ k x, (k = [] ∨ upper k = "KIND=".toList) ∧ toks s = '(' :: (k ++ x ++ [')']) ∧
      toks (tostrKindSelector o n) = "(KIND=".toList ++ x ++ [')']) :=
  kindSelector_tokens o hf s n h
/-- **(b) Kind_Selector** -/
theorem kindSelector_match_tostr_fixpoint (o : Leaves A) (hs : Stable o) (s : Str) (n : KindSel A)
    (h : matchKindSelector o s = some n) (hok : KindSelRenderOK o n) :
    ∃ n', matchKindSelector o (tostrKindSelector o n) = some n' ∧
      tostrKindSelector o n' = tostrKindSelector o n := kindSelector_fixpoint o hs s n h hok
example : matchKindSelector echo " ( Kind = f(1, 2) ) ".toList = some (.paren "f(1, 2)".toList) ∧
    KindSelRenderOK echo (.paren "f(1, 2)".toList) := ⟨by decide, by decide, by decide⟩

/-- **(a) Length_Selector, partial**: `( [LEN =] v )` printed with `LEN =`; in the `*len[,]` form
    the optional trailing comma is DROPPED (`lengthSelector_drops_comma`) -/
theorem lengthSelector_tostr_match_tokens_partial (o : Leaves A) (hf : Faithful o) (s : Str)
    (n : LenSel A) (h : matchLengthSelector o s = some n) :
    (∃ x, (toks s = '*' :: x ∨ toks s = '*' :: x ++ [',']) ∧ toks (tostrLengthSelector o n) = '*' :: x) ∨
    (∃ k x, (k = [] ∨ upper k = "LEN=".toList) ∧ toks s = '(' :: (k ++ x ++ [')']) ∧
      toks (tostrLengthSelector o n) = "(LEN=".toList ++ x ++ [')']) :=
  lengthSelector_tokens o hf s n h
/-- **(b) Length_Selector** -/
theorem lengthSelector_match_tostr_fixpoint (o : Leaves A) (hs : Stable o) (s : Str) (n : LenSel A)
    (h : matchLengthSelector o s = some n) (hok : LenSelRenderOK o n) :
    ∃ n', matchLengthSelector o (tostrLengthSelector o n) = some n' ∧
      tostrLengthSelector o n' = tostrLengthSelector o n := lengthSelector_fixpoint o hs s n h hok
example : matchLengthSelector echo "* (n+1)".toList = some (.star "(n+1)".toList) ∧
    LenSelRenderOK echo (.star "(n+1)".toList) := ⟨by decide, by decide, by decide⟩

/-- **(a) Implicit_Stmt**: keyword upper-cased (and `NONE`), the spec list kept -/
theorem implicitStmt_tostr_match_tokens (o : Leaves A) (hf : Faithful o) (s : Str) (n : Implicit A)
    (h : matchImplicitStmt o s = some n) :
    ∃ k x, upper k = "IMPLICIT".toList ∧ toks s = k ++ x ∧
      toks (tostrImplicitStmt o n) = "IMPLICIT".toList ++ (match n with | .none' => upper x | .specs _ => x) :=
  implicitStmt_tokens o hf s n h
/-- **(b) Implicit_Stmt** -/
theorem implicitStmt_match_tostr_fixpoint (o : Leaves A) (hs : Stable o) (s : Str) (n : Implicit A)
    (h : matchImplicitStmt o s = some n) (hok : ImplicitRenderOK o n) :
    ∃ n', matchImplicitStmt o (tostrImplicitStmt o n) = some n' ∧
      tostrImplicitStmt o n' = tostrImplicitStmt o n := implicitStmt_fixpoint o hs s n h hok
example : matchImplicitStmt echo "implicit  integer (a-h)".toList = some (.specs "integer (a-h)".toList) ∧
    ImplicitRenderOK echo (.specs "integer (a-h)".toList) := ⟨by decide, by decide, by decide⟩

/-- **(a) Implicit_Spec**: `type-spec ( letter-spec-list )`, cut at the LAST `(` -/
theorem implicitSpec_tostr_match_tokens (o : Leaves A) (hf : Faithful o) (s : Str)
    (n : ImplicitSpec A) (h : matchImplicitSpec o s = some n) :
    toks (tostrImplicitSpec o n) = toks s := implicitSpec_tokens o hf s n h
/-- **(b) Implicit_Spec** -/
theorem implicitSpec_match_tostr_fixpoint (o : Leaves A) (hs : Stable o) (s : Str)
    (n : ImplicitSpec A) (h : matchImplicitSpec o s = some n) (hok : ImplicitSpecRenderOK o n) :
    ∃ n', matchImplicitSpec o (tostrImplicitSpec o n) = some n' ∧
      tostrImplicitSpec o n' = tostrImplicitSpec o n := implicitSpec_fixpoint o hs s n h hok
example : matchImplicitSpec echo "character(len=2) ( a - h, o )".toList
      = some ⟨"character(len=2)".toList, "a - h, o".toList⟩ ∧
    ImplicitSpecRenderOK echo ⟨"character(len=2)".toList, "a - h, o".toList⟩ :=
  ⟨by decide, by decide, by decide, by decide, by decide, by decide, by decide⟩

/-- **(a) Intent_Stmt**: `INTENT ( spec ) [::] names`: keyword upper-cased, `::` inserted; the spec is
    everything up to the LAST `)` (`rfind`) -/
theorem intentStmt_tostr_match_tokens (o : Leaves A) (hf : Faithful o) (s : Str) (n : IntentStmt A)
    (h : matchIntentStmt o s = some n) :
    ∃ k a b, upper k = "INTENT".toList ∧
      (toks s = k ++ '(' :: a ++ ')' :: b ∨ toks s = k ++ '(' :: a ++ ")::".toList ++ b) ∧
      toks (tostrIntentStmt o n) = "INTENT(".toList ++ a ++ ")::".toList ++ b :=
  intentStmt_tokens o hf s n h
/-- **(b) Intent_Stmt** -/
theorem intentStmt_match_tostr_fixpoint (o : Leaves A) (hs : Stable o) (s : Str) (n : IntentStmt A)
    (h : matchIntentStmt o s = some n) (hok : IntentRenderOK o n) :
    ∃ n', matchIntentStmt o (tostrIntentStmt o n) = some n' ∧
      tostrIntentStmt o n' = tostrIntentStmt o n := intentStmt_fixpoint o hs s n h hok
example : matchIntentStmt echo "Intent ( in out ) a, b".toList = some ⟨"in out".toList, "a, b".toList⟩ ∧
    IntentRenderOK echo ⟨"in out".toList, "a, b".toList⟩ :=
  ⟨by decide, by decide, by decide, by decide, by decide, by decide, by decide⟩

/-- **(a) Initialization / Component_Initialization**: `= expr` / `=> null()` -/
theorem initialization_tostr_match_tokens (o : Leaves A) (hf : Faithful o) (s : Str) (n : Init A)
    (h : matchInitialization o s = some n) :
    toks (tostrInitialization o n) = toks s := initialization_tokens o hf s n h
/-- **(b) Initialization** -/
theorem initialization_match_tostr_fixpoint (o : Leaves A) (hs : Stable o) (s : Str) (n : Init A)
    (h : matchInitialization o s = some n) (hok : InitRenderOK o n) :
    ∃ n', matchInitialization o (tostrInitialization o n) = some n' ∧
      tostrInitialization o n' = tostrInitialization o n := initialization_fixpoint o hs s n h hok
example : matchInitialization echo "=>  null()".toList = some (.ptr "null()".toList) ∧
    InitRenderOK echo (.ptr "null()".toList) := ⟨by decide, by show lstrip _ = _; decide⟩

/-- **(a) Namelist_Stmt, partial**: the groups `/name/ list` are kept in order (`NlRel x ps`: `x` is
    `/ name / list [,]` repeated); the optional comma between groups is canonicalised to one comma —
    and a comma after the LAST list is accepted and dropped as well (`namelist_drops_trailing_comma`) -/
theorem namelistStmt_tostr_match_tokens_partial (o : Leaves A) (hf : Faithful o) (s : Str)
    (items : List (A × A)) (h : matchNamelistStmt o s = some items) :
    ∃ k x ps, upper k = "NAMELIST".toList ∧ toks s = k ++ x ∧ NlRel x ps ∧
      toks (tostrNamelistStmt o items) = "NAMELIST".toList ++ nlCanon ps :=
  namelistStmt_tokens o hf s items h
example : matchNamelistStmt echo "namelist /a/ x, y /b/ z".toList
    = some [("a".toList, "x, y".toList), ("b".toList, "z".toList)] := by decide

/-! ## Type_Declaration_Stmt / Data_Component_Def_Stmt -/

/-- **(a)** the printed statement is the statement with `::` inserted when it was absent; the
    type-spec, the attribute list and the entity list — the text before and after `::` — are kept,
    in order.  (FULL statement `toks (tostr n) = canon (toks s)` holds for all `s` with `SrmOK s`;
    it fails without: the tokeniser is not injective on texts containing its own placeholders.) -/
theorem typeDecl_tostr_match_tokens_partial (o : Leaves A) (hf : Faithful o) (tsC alC elC : Cls)
    (s : Str) (n : TypeDecl A) (h : matchTypeDeclBase o tsC alC elC s = some n) (hok : SrmOK s) :
    ∃ a b, (toks s = a ++ b ∨ toks s = a ++ "::".toList ++ b) ∧
      toks (tostrTypeDecl o n) = a ++ "::".toList ++ b :=
  typeDecl_tokens_view o hf tsC alC elC s n h (view_of_ok s hok)

example : matchTypeDeclarationStmt echo "real(kind=8), dimension(2, 3), intent(in out) :: a, b(2) = (/ 1.0e0, 2.0 /)".toList
      = some ⟨"real(kind=8)".toList, some "dimension(2, 3), intent(in out)".toList,
              "a, b(2) = (/ 1.0e0, 2.0 /)".toList⟩ ∧
    SrmOK "real(kind=8), dimension(2, 3), intent(in out) :: a, b(2) = (/ 1.0e0, 2.0 /)".toList := by
  decide +kernel
/-- `::` is inserted -/
example : (matchTypeDeclarationStmt echo "double  precision x, y(3)".toList).map (tostrTypeDecl echo)
    = some "double  precision :: x, y(3)".toList := by decide +kernel

/-- **(c)** an unbalanced statement hands an unbalanced text to a child class (`echo`: the node
    fields ARE the texts handed over); it is never the shape layer that absorbs a parenthesis -/
theorem typeDecl_match_rejects_unbalanced (tsC alC elC : Cls) (s : Str) (n : TypeDecl Str)
    (h : matchTypeDeclBase echo tsC alC elC s = some n) (hok : SrmOK s)
    (hu : parenExcess s ≠ 0) :
    parenExcess n.typeSpec ≠ 0 ∨ parenExcess n.entityDecls ≠ 0 ∨
      ∃ a, n.attrSpecs = some a ∧ parenExcess a ≠ 0 :=
  typeDecl_unbalanced_view tsC alC elC s n h (view_of_ok s hok) hu

example : matchTypeDeclarationStmt echo "integer :: a(2".toList
      = some ⟨"integer".toList, none, "a(2".toList⟩ ∧ parenExcess "integer :: a(2".toList ≠ 0 := by
  decide +kernel

/-! ## Data_Implied_Do -/

/-- **(a)** `( objects , var = e1 , e2 [ , e3 ] )`: everything is kept, including the step -/
theorem dataImpliedDo_tostr_match_tokens_partial (o : Leaves A) (hf : Faithful o) (s : Str)
    (n : ImpliedDo A) (h : matchDataImpliedDo o s = some n) (hok : SrmOK (strip (interior s))) :
    toks (tostrDataImpliedDo o n) = toks s :=
  dataImpliedDo_tokens_view o hf s n h (view_of_ok _ hok)

example : matchDataImpliedDo echo "((a(i,j), i = 1, f(2,3)), j = 1, 10, 2)".toList
      = some ⟨"(a(i,j), i = 1, f(2,3))".toList, "j".toList, "1".toList, "10".toList, some "2".toList⟩ ∧
    SrmOK (strip (interior "((a(i,j), i = 1, f(2,3)), j = 1, 10, 2)".toList)) := by decide +kernel

/-- **(c)** -/
theorem dataImpliedDo_match_rejects_unbalanced (s : Str) (n : ImpliedDo Str)
    (h : matchDataImpliedDo echo s = some n) (hok : SrmOK (strip (interior s)))
    (hu : parenExcess s ≠ 0) :
    parenExcess n.objects ≠ 0 ∨ parenExcess n.var ≠ 0 ∨ parenExcess n.e1 ≠ 0 ∨
      parenExcess n.e2 ≠ 0 ∨ ∃ a, n.e3 = some a ∧ parenExcess a ≠ 0 :=
  dataImpliedDo_unbalanced_view s n h (view_of_ok _ hok) hu

example : (matchDataImpliedDo echo "(a(i), i = 1, n))".toList).map (fun n => n.e2) = some "n)".toList ∧
    parenExcess "(a(i), i = 1, n))".toList ≠ 0 := by decide +kernel

/-! ## Data_Stmt_Value -/

/-- **(b)** on flat lines (nothing for the tokeniser to replace) -/
theorem dataStmtValue_match_tostr_fixpoint_flat (o : Leaves A) (hs : Stable o) (s : Str)
    (n : DataValue A) (h : matchDataStmtValue o s = some n)
    (hr1 : '*' ∉ o.render n.repeat') (hr2 : rstrip (o.render n.repeat') = o.render n.repeat')
    (hr3 : o.render n.repeat' ≠ [])
    (hc1 : lstrip (o.render n.constant) = o.render n.constant) (hc2 : o.render n.constant ≠ [])
    (hflat : Flat (tostrDataStmtValue o n)) :
    ∃ n', matchDataStmtValue o (tostrDataStmtValue o n) = some n' ∧
      tostrDataStmtValue o n' = tostrDataStmtValue o n :=
  dataStmtValue_fixpoint_flat o hs s n h hr1 hr2 hr3 hc1 hc2 hflat

example : matchDataStmtValue echo "3*0".toList = some ⟨"3".toList, "0".toList⟩ ∧
    Flat (tostrDataStmtValue echo ⟨"3".toList, "0".toList⟩) := by decide +kernel

/-! ## Entity_Decl / Component_Decl -/

/-- the decidable hypotheses for an entity: the (at most two) texts the match tokenises are
    `SrmOK`, the tokenised text still starts with the `(` / `*` the code has just seen in the
    un-tokenised one (`headKept`: the code slices `line[1:i]` trusting it), and the entity contains
    no `F2PY` (one branch applies `repmap` to UN-tokenised text) -/
def EntityOK (s : Str) : Prop :=
  (∀ t ∈ entityTokenised s, SrmOK t ∧ headKept t = true) ∧ Free s

instance (s : Str) : Decidable (EntityOK s) := inferInstanceAs (Decidable (_ ∧ _))

/-- **(a)** `name [ ( array-spec ) ] [ * char-length ] [ initialisation ]`: everything is kept, in
    order — the array-spec taken from the positions of the MAPPED text, the `*char-length`, the
    `= expr` / `=> null()` -/
theorem entityDecl_tostr_match_tokens_partial (o : Leaves A) (hf : Faithful o)
    (nameC arrC initC : Cls) (s : Str) (n : EntityDecl A)
    (h : matchEntityLike o nameC arrC initC s = some n) (hok : EntityOK s) :
    toks (tostrEntityDecl o n) = toks s :=
  entityDecl_tokens_view o hf nameC arrC initC s n h
    (fun t ht => view_of_ok t (hok.1 t ht).1) (fun t ht => headKept_spec (hok.1 t ht).2) hok.2

set_option maxRecDepth 20000 in
example : matchEntityDecl echo "x(2, f('a)b')) * (len('u=v')) = g(1, 'c=d')".toList
      = some ⟨"x".toList, some "2, f('a)b')".toList, some "(len('u=v'))".toList,
              some "= g(1, 'c=d')".toList⟩ ∧
    EntityOK "x(2, f('a)b')) * (len('u=v')) = g(1, 'c=d')".toList := by decide +kernel

/-- **(c)** -/
theorem entityDecl_match_rejects_unbalanced (nameC arrC initC : Cls) (s : Str) (n : EntityDecl Str)
    (h : matchEntityLike echo nameC arrC initC s = some n) (hok : EntityOK s)
    (hu : parenExcess s ≠ 0) :
    parenExcess n.name ≠ 0 ∨ (∃ a, n.arraySpec = some a ∧ parenExcess a ≠ 0) ∨
      (∃ a, n.charLength = some a ∧ parenExcess a ≠ 0) ∨ (∃ a, n.init = some a ∧ parenExcess a ≠ 0) := by
  have e := parenExcess_of_toks_eq
    (entityDecl_tostr_match_tokens_partial echo echo_faithful nameC arrC initC s n h hok)
  rw [← e] at hu
  obtain ⟨nm, ar, cl, ini⟩ := n
  have k4 : parenExcess [')'] = -1 := by decide
  have k5 : parenExcess ([] : Str) = 0 := by decide
  have k6 : ∀ x : Str, parenExcess ('*' :: x) = parenExcess x := fun x => by
    rw [parenExcess_cons]; simp [show parenExcess ['*'] = 0 by decide]
  have k7 : ∀ x : Str, parenExcess (' ' :: x) = parenExcess x := fun x => by
    rw [parenExcess_cons]; simp [show parenExcess [' '] = 0 by decide]
  cases ar <;> cases cl <;> cases ini <;>
    simp only [tostrEntityDecl, echo, id, parenExcess_append, parenExcess_open, k4, k5, k6, k7] at hu <;>
    simp <;> omega

example : matchEntityDecl echo "a(2".toList = none ∧
    matchEntityDecl echo "a(2) = f(1".toList
      = some ⟨"a".toList, some "2".toList, none, some "= f(1".toList⟩ := by decide +kernel

/-! ## Data_Stmt_Value / Data_Stmt_Set / Data_Stmt -/

/-- **(a)** `repeat * constant` -/
theorem dataStmtValue_tostr_match_tokens_partial (o : Leaves A) (hf : Faithful o) (s : Str)
    (n : DataValue A) (h : matchDataStmtValue o s = some n) (hok : SrmOK s) :
    toks (tostrDataStmtValue o n) = toks s :=
  dataStmtValue_tokens_view o hf s n h (view_of_ok s hok)

/-- **(a)** `objects / values /`.  Two more hypotheses: the code tests `string.endswith("/")` on the
    ORIGINAL text but slices `line[i+1:-1]` on the TOKENISED one (`hend`, decidable), and the value
    list child rejects the empty text (`hne`; true of the real `Data_Stmt_Value_List`) — without it
    the single-slash text `a /` matches with BOTH roles played by the same `/`
    (`dataStmtSet_single_slash`). -/
theorem dataStmtSet_tostr_match_tokens_partial (o : Leaves A) (hf : Faithful o) (s : Str)
    (n : DataSet A) (h : matchDataStmtSet o s = some n) (hok : SrmOK s)
    (hend : ∀ r, tokenise s = some r → ew r.text '/' = true)
    (hne : o.leaf .dataStmtValueList [] = none) :
    toks (tostrDataStmtSet o n) = toks s :=
  dataStmtSet_tokens_view o hf s n h (view_of_ok s hok) hend hne

/-- **(a)** `DATA set [ [,] set ]…`: the sets are kept in order; the optional commas between them
    are canonicalised to one comma each (`DataRel x sets`: `x` is the concatenation of the sets,
    each but the first optionally preceded by a comma); keyword upper-cased -/
theorem dataStmt_tostr_match_tokens_partial (o : Leaves A) (hf : Faithful o) (s : Str) (n : List A)
    (h : matchDataStmt o s = some n) (hok : SrmOK (lstrip (s.drop 4))) :
    ∃ k x, upper k = "DATA".toList ∧ toks s = k ++ x ∧
      ∃ sets : List Str, toks (tostrDataStmt o n) = "DATA".toList ++ joinStr [','] sets ∧
        DataRel x sets :=
  dataStmt_tokens_view o hf s n h (view_of_ok _ hok)

set_option maxRecDepth 20000 in
example : matchDataStmt echo "data a, b / 1, 2*'x/y' / c /3/ , (d(i), i=1,4,2) / 2*0 /".toList
      = some ["a, b / 1, 2*'x/y' /".toList, "c /3/".toList, "(d(i), i=1,4,2) / 2*0 /".toList] ∧
    SrmOK (lstrip ("data a, b / 1, 2*'x/y' / c /3/ , (d(i), i=1,4,2) / 2*0 /".toList.drop 4)) := by
  decide +kernel

/-! ## Dimension_Stmt / Equivalence_Set -/

/-- **(a)** `DIMENSION [::] name(spec) [, name(spec)]…`: `::` inserted, keyword upper-cased -/
theorem dimensionStmt_tostr_match_tokens_partial (o : Leaves A) (hf : Faithful o) (s : Str)
    (n : List (A × A)) (h : matchDimensionStmt o s = some n) (hok : SrmOK (lstrip (s.drop 9))) :
    ∃ k x, upper k = "DIMENSION".toList ∧
      (toks s = k ++ x ∨ toks s = k ++ "::".toList ++ x) ∧
      toks (tostrDimensionStmt o n) = "DIMENSION::".toList ++ x :=
  dimensionStmt_tokens_view o hf s n h (view_of_ok _ hok)

/-- **(a)** `( object , object-list )` -/
theorem equivalenceSet_tostr_match_tokens_partial (o : Leaves A) (hf : Faithful o) (s : Str)
    (n : EquivSet A) (h : matchEquivalenceSet o s = some n) (hok : SrmOK (strip (interior s))) :
    toks (tostrEquivalenceSet o n) = toks s :=
  equivalenceSet_tokens_view o hf s n h (view_of_ok _ hok)

set_option maxRecDepth 20000 in
example : matchEquivalenceSet echo "( a(1,2), b , c(f(3)) )".toList
      = some ⟨"a(1,2)".toList, ["b".toList, "c(f(3))".toList]⟩ ∧
    SrmOK (strip (interior "( a(1,2), b , c(f(3)) )".toList)) := by decide +kernel

/-! ## Char_Selector (as repaired in /repo 68391df) -/

/-- **(a)** `CharSelCanon written printed`: `(KIND=k)` ↦ `(KIND=k)`; `(LEN=v,KIND=k)`, `(KIND=k,LEN=v)`
    (printed in the other order), `(v,[KIND=]k)` ↦ `(LEN=v,KIND=k)`; keywords upper-cased / inserted,
    the two values kept.  Before 68391df three of the four branches handed the TOKENISED text to the
    children (`CHARACTER(KIND=f(1+2))` was regenerated with `F2PY_EXPR_TUPLE_1` inside); the former
    failing inputs are the regression witnesses `charSelector_maps_back_*` below. -/
theorem charSelector_tostr_match_tokens_partial (o : Leaves A) (hf : Faithful o) (s : Str)
    (n : CharSel A) (h : matchCharSelector o s = some n) (hok : SrmOK (strip (interior s))) :
    CharSelCanon (toks s) (toks (tostrCharSelector o n)) :=
  charSelector_tokens_view o hf s n h (view_of_ok _ hok)

set_option maxRecDepth 20000 in
example : matchCharSelector echo "( kind = k(1+2) , Len = len('a,b') )".toList
      = some ⟨some "len('a,b')".toList, "k(1+2)".toList⟩ ∧
    SrmOK (strip (interior "( kind = k(1+2) , Len = len('a,b') )".toList)) := by decide +kernel

set_option maxRecDepth 20000 in
/-- regression witnesses for the repaired defect: the three branches now print their text -/
theorem charSelector_maps_back_kind :
    (matchCharSelector echo "(kind=f(1+2))".toList).map (tostrCharSelector echo)
      = some "(KIND = f(1+2))".toList := by decide +kernel
set_option maxRecDepth 20000 in
theorem charSelector_maps_back_positional :
    (matchCharSelector echo "(n+1, kind=f(1+2))".toList).map (tostrCharSelector echo)
      = some "(LEN = n+1, KIND = f(1+2))".toList := by decide +kernel
set_option maxRecDepth 20000 in
theorem charSelector_maps_back_kind_len :
    (matchCharSelector echo "(kind=k(1+2), len=n+1)".toList).map (tostrCharSelector echo)
      = some "(LEN = n+1, KIND = k(1+2))".toList := by decide +kernel
set_option maxRecDepth 20000 in
theorem charSelector_maps_back_len_kind :
    (matchCharSelector echo "(len=n+1, kind=k(1+2))".toList).map (tostrCharSelector echo)
      = some "(LEN = n+1, KIND = k(1+2))".toList := by decide +kernel

/-! ## Common_Stmt -/

/-- **(a), partial**.  FULL statement `toks (tostr n) = canon (toks s)` is FALSE for COMMON in two
    standard-conforming ways (`common_blank_gets_slashes`, `common_optional_comma_dropped`) and in one
    defective way (`common_name_placeholder_leak`).  What holds: modulo the separators `,` and `/`
    (`content` = the non-blank characters other than `,` `/`, in order) the printed statement is
    `COMMON` followed by everything after the keyword — no object, no block name, no dimension is
    lost or invented, order kept — provided the block names handed to `Common_Block_Name` contain
    no placeholder (`NamesPlain`, decidable; the code never maps them back). -/
theorem commonStmt_tostr_match_tokens_partial (o : Leaves A) (hf : Faithful o) (s : Str)
    (n : List (Option A × A)) (h : matchCommonStmt o s = some n)
    (hok : SrmOK (lstrip (s.drop 6)))
    (hn : ∀ ps, commonTexts s = some ps → NamesPlain ps) :
    content (tostrCommonStmt o n) = "COMMON".toList ++ content (s.drop 6) :=
  commonStmt_content_view o hf s n h (view_of_ok _ hok) hn

set_option maxRecDepth 20000 in
example : matchCommonStmt echo "common /x/ a(2,3), b , /y/ c // d(f(1,2))".toList
      = some [(some "x".toList, "a(2,3), b".toList), (some "y".toList, "c".toList),
              (none, "d(f(1,2))".toList)] ∧
    SrmOK (lstrip ("common /x/ a(2,3), b , /y/ c // d(f(1,2))".toList.drop 6)) ∧
    (∀ ps, commonTexts "common /x/ a(2,3), b , /y/ c // d(f(1,2))".toList = some ps → NamesPlain ps) := by
  refine ⟨by decide +kernel, by decide +kernel, ?_⟩
  intro ps h
  have : commonTexts "common /x/ a(2,3), b , /y/ c // d(f(1,2))".toList
      = some [(some "x".toList, "a(2,3), b".toList), (some "y".toList, "c".toList),
              (none, "d(f(1,2))".toList)] := by decide +kernel
  rw [this] at h
  cases h
  decide +kernel

/-! ## where the real code loses or invents something (each replayed on /repo) -/

set_option maxRecDepth 20000

/-- canonicalisation: a blank COMMON written without slashes is printed `COMMON // …` -/
theorem common_blank_gets_slashes :
    (matchCommonStmt echo "COMMON a, b".toList).map (tostrCommonStmt echo)
      = some "COMMON // a, b".toList := by decide +kernel
/-- canonicalisation: the optional comma before a further `/name/` is not printed -/
theorem common_optional_comma_dropped :
    (matchCommonStmt echo "common /x/ a, /y/ b(2,3)".toList).map (tostrCommonStmt echo)
      = some "COMMON /x/ a /y/ b(2,3)".toList := by decide +kernel
/-- **DEFECT (C02)**: the block name is cut from the TOKENISED line and never mapped back: an
    exponent constant in that position becomes its placeholder, which is a valid `Name`.
    Real: `COMMON /1.0e5/ x` is ACCEPTED and regenerated as `COMMON /F2PY_REAL_CONSTANT_1_/ x`
    (`NamesPlain` is necessary). -/
theorem common_name_placeholder_leak :
    (matchCommonStmt echo "common /1.0e5/ x".toList).map (tostrCommonStmt echo)
      = some "COMMON /F2PY_REAL_CONSTANT_1_/ x".toList ∧
    ¬ (∀ ps, commonTexts "common /1.0e5/ x".toList = some ps → NamesPlain ps) := by
  refine ⟨by decide +kernel, ?_⟩
  intro h
  have e : commonTexts "common /1.0e5/ x".toList
      = some [(some "F2PY_REAL_CONSTANT_1_".toList, "x".toList)] := by decide +kernel
  have := h _ e _ (List.mem_singleton.mpr rfl) _ rfl
  revert this
  decide +kernel
/-- **DEFECT (C08-like, text silently dropped)**: a trailing comma after the LAST group-object
    list of a NAMELIST is accepted and dropped (`NAMELIST /a/ x,` is not Fortran) -/
theorem namelist_drops_trailing_comma :
    (matchNamelistStmt echo "namelist /a/ x,".toList).map (tostrNamelistStmt echo)
      = some "NAMELIST /a/ x".toList := by decide +kernel
/-- the `*char-length,` form of the length selector drops the comma (obsolescent but standard) -/
theorem lengthSelector_drops_comma :
    (matchLengthSelector echo "*8,".toList).map (tostrLengthSelector echo) = some "*8".toList := by
  decide +kernel

end Fp.Decl

open Fp.Decl in
#print axioms view_of_ok
open Fp.Decl in
#print axioms letterSpec_tostr_match_tokens
open Fp.Decl in
#print axioms letterSpec_match_tostr_fixpoint
open Fp.Decl in
#print axioms kindSelector_tostr_match_tokens
open Fp.Decl in
#print axioms kindSelector_match_tostr_fixpoint
open Fp.Decl in
#print axioms lengthSelector_tostr_match_tokens_partial
open Fp.Decl in
#print axioms lengthSelector_match_tostr_fixpoint
open Fp.Decl in
#print axioms implicitStmt_tostr_match_tokens
open Fp.Decl in
#print axioms implicitStmt_match_tostr_fixpoint
open Fp.Decl in
#print axioms implicitSpec_tostr_match_tokens
open Fp.Decl in
#print axioms implicitSpec_match_tostr_fixpoint
open Fp.Decl in
#print axioms intentStmt_tostr_match_tokens
open Fp.Decl in
#print axioms intentStmt_match_tostr_fixpoint
open Fp.Decl in
#print axioms initialization_tostr_match_tokens
open Fp.Decl in
#print axioms initialization_match_tostr_fixpoint
open Fp.Decl in
#print axioms namelistStmt_tostr_match_tokens_partial
open Fp.Decl in
#print axioms typeDecl_tostr_match_tokens_partial
open Fp.Decl in
#print axioms typeDecl_match_rejects_unbalanced
open Fp.Decl in
#print axioms dataImpliedDo_tostr_match_tokens_partial
open Fp.Decl in
#print axioms dataImpliedDo_match_rejects_unbalanced
open Fp.Decl in
#print axioms dataStmtValue_match_tostr_fixpoint_flat
open Fp.Decl in
#print axioms entityDecl_tostr_match_tokens_partial
open Fp.Decl in
#print axioms entityDecl_match_rejects_unbalanced
open Fp.Decl in
#print axioms dataStmtValue_tostr_match_tokens_partial
open Fp.Decl in
#print axioms dataStmtSet_tostr_match_tokens_partial
open Fp.Decl in
#print axioms dataStmt_tostr_match_tokens_partial
open Fp.Decl in
#print axioms dimensionStmt_tostr_match_tokens_partial
open Fp.Decl in
#print axioms equivalenceSet_tostr_match_tokens_partial
open Fp.Decl in
#print axioms commonStmt_tostr_match_tokens_partial
open Fp.Decl in
#print axioms common_name_placeholder_leak
open Fp.Decl in
#print axioms charSelector_tostr_match_tokens_partial
open Fp.Decl in
#print axioms charSelector_maps_back_kind
open Fp.Decl in
#print axioms namelist_drops_trailing_comma
