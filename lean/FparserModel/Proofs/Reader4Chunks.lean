import FparserModel.Proofs.Reader4Layout
import FparserModel.Proofs.ReaderDrain
import FparserModel.Proofs.Reader3IncChunks

/-!
# Reader4Chunks — statements with character literals as chunks; squeezed cores

`qcontChunk` (continued statement with literals / trailing comments) and `qstmtChunk` (one-line
statement with literals / trailing comment) satisfy the `Chunk.ok` contract of
`ReaderStmts.lean`, so `drains_chunks` applies to lists of them. `sqCore` is an item without
its span and with its statement text squeezed; `Realizes` says a chunk delivers a given
statement up to layout.
-/
namespace Fp.Reader
open Fp
open Fp.Splitline (QState qstep qrun qinit qfinal quoteStateAfter)

theorem qcmtItems_isComment (n : Nat) (q : Option Char) (c : QLine) :
    ∀ x ∈ qcmtItems n q c, x.isComment = true := by
  intro x hx
  cases c with
  | cont lead body post cmt more =>
    cases cmt with
    | none => cases hx
    | some t => simp only [qcmtItems, List.mem_singleton] at hx; subst hx; rfl
  | comment t => cases hx
  | blank => cases hx

theorem qcmtItems_length (n : Nat) (q : Option Char) (c : QLine) : (qcmtItems n q c).length ≤ 1 := by
  cases c with
  | cont lead body post cmt more => cases cmt <;> simp [qcmtItems]
  | comment t => simp [qcmtItems]
  | blank => simp [qcmtItems]

theorem joinCommentsQ_isComment : ∀ (cs : List QLine) (n : Nat) (q : Option Char),
    ∀ x ∈ joinCommentsQ n q cs, x.isComment = true
  | [], _, _, x, hx => by cases hx
  | .comment t :: cs, n, q, x, hx => by
    simp only [joinCommentsQ, List.mem_cons] at hx
    rcases hx with rfl | hx
    · rfl
    · exact joinCommentsQ_isComment cs (n + 1) q x hx
  | .blank :: cs, n, q, x, hx => joinCommentsQ_isComment cs (n + 1) q x hx
  | .cont a b c d e :: cs, n, q, x, hx => by
    simp only [joinCommentsQ, List.mem_append] at hx
    rcases hx with hx | hx
    · exact qcmtItems_isComment _ _ _ x hx
    · exact joinCommentsQ_isComment cs (n + 1) _ x hx

theorem joinCommentsQ_length : ∀ (cs : List QLine) (n : Nat) (q : Option Char),
    (joinCommentsQ n q cs).length ≤ cs.length
  | [], _, _ => Nat.le_refl _
  | .comment t :: cs, n, q => by
    simp only [joinCommentsQ, List.length_cons]; have := joinCommentsQ_length cs (n + 1) q; omega
  | .blank :: cs, n, q => by
    simp only [joinCommentsQ, List.length_cons]; have := joinCommentsQ_length cs (n + 1) q; omega
  | .cont a b c d e :: cs, n, q => by
    simp only [joinCommentsQ, List.length_append, List.length_cons]
    have := joinCommentsQ_length cs (n + 1) ((QLine.cont a b c d e).next q)
    have := qcmtItems_length n q (.cont a b c d e)
    omega

/-! ### continued statement with character literals -/

def qcontChunk (l1 l2 : Str) (ls : List Str) (b1 post1 : Str) (cmt1 : Option Str)
    (lab : Option Nat) (nam : Option Str) (c : QLine) (cs : List QLine) : Chunk :=
  ⟨l1 :: l2 :: ls,
   fun lc => .line (strip (b1 ++ joinBodies (c :: cs))) lab nam (lc + 1) (lc + 2 + cs.length),
   fun lc => qcmtItems (lc + 1) none (firstLine b1 post1 cmt1) ++
             joinCommentsQ (lc + 2) (quoteStateAfter none b1) (c :: cs)⟩

theorem qcontChunk_ok (l1 l2 : Str) (ls : List Str) (t1 b1 post1 : Str) (cmt1 : Option Str)
    (lab : Option Nat) (nam : Option Str) (c : QLine) (cs : List QLine)
    (hcpp : startsWith (lstrip (cook l1)) ['#'] = false)
    (hlab : extractLabel (cook l1) = (lab, t1))
    (hnam : extractName t1 = (nam, (firstLine b1 post1 cmt1).text))
    (hb1 : FirstOk b1 post1 cmt1) (hc2 : cook l2 = c.text) (hck : CookedQ ls cs)
    (hw : WFq (quoteStateAfter none b1) (c :: cs))
    (hne : strip (b1 ++ joinBodies (c :: cs)) ≠ [])
    (hsemi : (stringReplaceMap (strip (b1 ++ joinBodies (c :: cs))) true).1.contains ';' = false) :
    (qcontChunk l1 l2 ls b1 post1 cmt1 lab nam c cs).ok false where
  nonempty := by simp [qcontChunk]
  comments := fun lc x hx => by
    simp only [qcontChunk, List.mem_append] at hx
    rcases hx with hx | hx
    · exact qcmtItems_isComment _ _ _ x hx
    · exact joinCommentsQ_isComment _ _ _ x hx
  few := fun lc => by
    have := joinCommentsQ_length (c :: cs) (lc + 2) (quoteStateAfter none b1)
    have := qcmtItems_length (lc + 1) none (firstLine b1 post1 cmt1)
    have := hck.length
    simp only [qcontChunk, List.length_cons, List.length_append] at *
    omega
  nosemi := fun _ text _ _ _ _ hv => by
    simp only [qcontChunk, Item.lineView, Option.some.injEq, Prod.mk.injEq] at hv
    rw [← hv.1]; exact hsemi
  first := fun _ => rfl
  last := fun _ => by
    have := hck.length
    simp only [qcontChunk, Item.last, List.length_cons]; omega
  read := fun r rest h0 hfifo h1 h2 h3 hsrc => by
    rw [getSourceItem_joinQ r l1 l2 ls rest t1 b1 post1 cmt1 lab nam c cs hfifo h1 h2 h3 h0
      (by simpa [qcontChunk] using hsrc) hcpp hlab hnam hb1 hc2 hck hw hne, afterChunk_eq]
    have := hck.length
    simp only [qcontChunk, List.length_cons, Prod.mk.injEq, Rd.mk.injEq, true_and, and_true]
    omega

/-! ### one-line statement with character literals and a trailing comment -/

/-- the conditions on a one-line statement `[label] [name:] b1 [! cmt]` -/
def SingleOk (b1 : Str) (cmt : Option Str) : Prop :=
  bangFree .outside b1 = true ∧ lastAmpOk b1 ∧ (cmt.isSome = true → quoteStateAfter none b1 = none)

def singleLine (b1 : Str) (cmt : Option Str) : QLine := .cont none b1 [] cmt false

theorem freeStep_singleQ (line t1 b1 : Str) (cmt : Option Str) (lab : Option Nat)
    (nam : Option Str) (n : Nat)
    (hlab : extractLabel line = (lab, t1)) (hnam : extractName t1 = (nam, (singleLine b1 cmt).text))
    (hf : SingleOk b1 cmt) :
    freeStep false line n none none none =
      ⟨lab, nam, ⟨qcode none b1 [] false, quoteStateAfter none b1, cmt.isSome,
         qcmtItems n none (singleLine b1 cmt)⟩, b1, false⟩ := by
  obtain ⟨f1, f2, f3⟩ := hf
  rw [freeStep_first', hlab]
  simp only [hnam]
  unfold singleLine
  rw [hic_qcont' none b1 [] cmt false n none (fun _ h => by cases h) (fun _ h => by cases h)
    (fun h => by cases h) f1 f3]
  have hE : ampEnd (qcode none b1 [] false) = (b1, false) := by
    simp only [qcode, leadTxt, List.nil_append, tailTxt, Bool.false_eq_true, if_false, List.append_nil]
    exact ampEnd_last _ f2
  simp only [hE]

def qstmtChunk (l b1 : Str) (cmt : Option Str) (lab : Option Nat) (nam : Option Str) : Chunk :=
  ⟨[l], fun lc => .line (strip b1) lab nam (lc + 1) (lc + 1),
   fun lc => qcmtItems (lc + 1) none (singleLine b1 cmt)⟩

theorem qstmtChunk_ok (o : Bool) (l t1 b1 : Str) (cmt : Option Str) (lab : Option Nat)
    (nam : Option Str)
    (hcpp : startsWith (lstrip (cook l)) ['#'] = false)
    (hom : o = true → (replaceSentinelFree (cook l)).2 = false)
    (hlab : extractLabel (cook l) = (lab, t1))
    (hnam : extractName t1 = (nam, (singleLine b1 cmt).text))
    (hb : SingleOk b1 cmt) (hne : strip b1 ≠ [])
    (hsemi : (stringReplaceMap (strip b1) true).1.contains ';' = false) :
    (qstmtChunk l b1 cmt lab nam).ok o where
  nonempty := by simp [qstmtChunk]
  comments := fun lc x hx => qcmtItems_isComment _ _ _ x hx
  few := fun lc => by
    have := qcmtItems_length (lc + 1) none (singleLine b1 cmt)
    simp only [qstmtChunk, List.length_cons, List.length_nil]; omega
  nosemi := fun _ text _ _ _ _ hv => by
    simp only [qstmtChunk, Item.lineView, Option.some.injEq, Prod.mk.injEq] at hv
    rw [← hv.1]; exact hsemi
  first := fun _ => rfl
  last := fun _ => by simp [qstmtChunk, Item.last]
  read := fun r rest h0 hfifo h1 h2 h3 hsrc => by
    rw [getSourceItem_plain_free r l rest h1 h2 h3 hsrc hcpp (fun h => hom (h0 ▸ h))]
    have hst := freeStep_singleQ (cook l) t1 b1 cmt lab nam (r.linecount + 1) hlab hnam hb
    rw [freeItem_single _ _ false _ (fun h => by cases h) (by rw [hst])]
    rw [hst, afterChunk_eq]
    unfold singleOut
    simp only [hne, bne_iff_ne, ne_eq, not_false_eq_true, if_true, hfifo, List.nil_append,
      qstmtChunk, List.length_cons, List.length_nil, List.map_cons, List.map_nil, List.reverse_cons,
      List.reverse_nil, List.singleton_append]

/-! ### squeezed cores -/

/-- an item without its span and with its statement text squeezed -/
def sqCore : Item → Core
  | .line t l n _ _ => .line (squeeze t) l n
  | x => x.core

/-- the statement `(T, label, name)` up to layout -/
def stmtCore (s : Str × Option Nat × Option Str) : Core := .line (squeeze s.1) s.2.1 s.2.2

/-- the chunk delivers the statement `s`, up to blanks outside character literals -/
def Realizes (s : Str × Option Nat × Option Str) (c : Chunk) : Prop :=
  ∀ lc, ∃ t a b, c.item lc = .line t s.2.1 s.2.2 a b ∧ squeeze t = squeeze s.1

/-- chunk by chunk, `cs` is a layout of the statement list `stmts` -/
inductive LayoutOf : List (Str × Option Nat × Option Str) → List Chunk → Prop where
  | nil : LayoutOf [] []
  | cons {s : Str × Option Nat × Option Str} {c : Chunk} {stmts : List (Str × Option Nat × Option Str)}
      {cs : List Chunk} : Realizes s c → LayoutOf stmts cs → LayoutOf (s :: stmts) (c :: cs)

theorem chunkItems_realizes : ∀ (stmts : List (Str × Option Nat × Option Str)) (cs : List Chunk)
    (lc : Nat) (o : Bool), LayoutOf stmts cs → (∀ c ∈ cs, c.ok o) →
    (chunkItems true lc cs).map sqCore = stmts.map stmtCore
  | _, _, _, _, .nil, _ => rfl
  | s :: stmts, c :: cs, lc, o, .cons h hr, hok => by
    obtain ⟨t, a, b, hi, hs⟩ := h lc
    have hc := (hok c List.mem_cons_self).comments lc
    have hf : (c.comments lc).filter (keep true) = [] := by
      rw [List.filter_eq_nil_iff]
      intro x hx
      simp [keep, hc x hx]
    simp only [chunkItems, List.filter_cons, hi, keep, Item.isComment, Bool.false_and, Bool.not_false,
      if_true, hf, List.cons_append, List.nil_append, List.map_cons, sqCore, stmtCore, hs]
    congr 1
    exact chunkItems_realizes stmts cs _ o hr (fun d hd => hok d (List.mem_cons_of_mem _ hd))

theorem chunkItems_filter_true (ic : Bool) (lc : Nat) (cs : List Chunk) :
    (chunkItems ic lc cs).filter (fun x => !x.isComment) = chunkItems true lc cs := by
  cases ic with
  | false => exact (chunkItems_ignore lc cs).symm
  | true =>
    rw [chunkItems_ignore, List.filter_filter]
    simp

theorem qstmt_realizes (l b1 : Str) (cmt : Option Str) (lab : Option Nat) (nam : Option Str)
    (hbal : quoteStateAfter none b1 = none) :
    Realizes (b1, lab, nam) (qstmtChunk l b1 cmt lab nam) :=
  fun lc => ⟨_, _, _, rfl, squeeze_strip b1 hbal⟩

theorem qcont_realizes (T : Str) (l1 l2 : Str) (ls : List Str) (b1 post1 : Str) (cmt1 : Option Str)
    (lab : Option Nat) (nam : Option Str) (c : QLine) (cs : List QLine)
    (hbal : quoteStateAfter none (b1 ++ joinBodies (c :: cs)) = none)
    (hsq : squeeze (b1 ++ joinBodies (c :: cs)) = squeeze T) :
    Realizes (T, lab, nam) (qcontChunk l1 l2 ls b1 post1 cmt1 lab nam c cs) :=
  fun lc => ⟨_, _, _, rfl, (squeeze_strip _ hbal).trans hsq⟩

end Fp.Reader
