"""Shared machinery of the checks: Lean build + audit (the proof obligations), evidence,
known findings, replay files, VIOLATION lines."""
import fcntl
import hashlib
import json
import os
import re
import subprocess
import sys
import time

VERIF = os.path.dirname(os.path.dirname(os.path.abspath(__file__)))
LEAN = os.path.join(VERIF, "lean")
EVID = os.path.join(VERIF, "evidence")
if os.environ.get("FV_REPO") and os.path.realpath(os.environ["FV_REPO"]) != os.path.realpath("/repo"):
    # a development run against a scratch copy of the repository (tools/seeded.py): its evidence
    # and replay files must never replace the ones that describe /repo itself
    EVID = os.path.join("/tmp", "fv_scratch_evidence")
REPLAYS = os.path.join(VERIF, "replays")
KNOWN = os.path.join(VERIF, "known_findings.json")
PY = "/venv/bin/python"

ALLOWED_AXIOMS = {"propext", "Classical.choice", "Quot.sound"}
FORBIDDEN = re.compile(r"\b(sorry|admit|native_decide|bv_decide|implemented_by|unsafe)\b|^\s*axiom\s|maxHeartbeats\s+0\b",
                       re.M)


def seed():
    try:
        return int(os.environ.get("VERIF_SEED", "0"))
    except ValueError:
        return 0


class Lock:
    def __init__(self, path):
        self.path = path

    def __enter__(self):
        self.f = open(self.path, "w")
        fcntl.flock(self.f, fcntl.LOCK_EX)
        return self

    def __exit__(self, *a):
        fcntl.flock(self.f, fcntl.LOCK_UN)
        self.f.close()


def write_if_changed(path, content):
    try:
        with open(path) as f:
            if f.read() == content:
                return False
    except FileNotFoundError:
        pass
    os.makedirs(os.path.dirname(path), exist_ok=True)
    tmp = path + ".tmp%d" % os.getpid()
    with open(tmp, "w") as f:
        f.write(content)
    os.replace(tmp, path)
    return True


# ----------------------------------------------------------------------------------
# Lean: translator, build, audit
# ----------------------------------------------------------------------------------

def strip_lean_comments(src):
    """remove /- … -/ (nested) and -- … comments, keep strings as they are (good enough
    for the forbidden-word audit)"""
    out = []
    i, n, depth = 0, len(src), 0
    while i < n:
        if src.startswith("/-", i):
            depth += 1
            i += 2
        elif depth and src.startswith("-/", i):
            depth -= 1
            i += 2
        elif depth:
            i += 1
        elif src.startswith("--", i):
            j = src.find("\n", i)
            i = n if j < 0 else j
        else:
            out.append(src[i])
            i += 1
    return "".join(out)


def lean_files():
    out = []
    for root, dirs, files in os.walk(LEAN):
        dirs[:] = [d for d in dirs if d not in (".lake",)]
        for f in files:
            if f.endswith(".lean"):
                out.append(os.path.join(root, f))
    return sorted(out)


def audit_sources():
    """grep-level audit: forbidden constructs outside comments.  returns list of hits"""
    hits = []
    for p in lean_files():
        with open(p) as f:
            code = strip_lean_comments(f.read())
        for m in FORBIDDEN.finditer(code):
            line = code.count("\n", 0, m.start()) + 1
            hits.append("%s:%d: %s" % (os.path.relpath(p, LEAN), line, m.group(0).strip()))
    return hits


# theorems that also carry properties the slice author did not list
SERVES_EXTRA = {
    "Fp.Block.frontier_eq_consumed": ["C01"],
    "Fp.Block.block_closed": ["C01"],
    "Fp.Block.items_once_in_order": ["C01", "C10"],
    "Fp.Block.comments_once_in_order": ["C01"],
    "Fp.Reader.join_continuation": ["C01"],
    "Fp.Reader.get_put_inverse": ["C01", "C11", "C14"],
    "Fp.Reader.read_comments_once": ["C01"],
    "Fp.Splitline.splitquote_join": ["C01"],
    "Fp.Expr.parse_sound": ["C01"],
    "Fp.Tree.parents_consistent": ["C18"],
    "Fp.Expr.parse_fuel_enough": ["C20"],
    "Fp.Reader.drain_unique": ["C06"],
}


def root_imports():
    with open(os.path.join(LEAN, "FparserModel.lean")) as f:
        return set(re.findall(r"^import\s+([\w.]+)", f.read(), re.M))


def theorem_index(include_open=False):
    """theorems/<Model>.json -> list of dict(name, file, statement, serves, strength, note).
    Only theorems whose module is imported by the library root are obligations; entries
    that are not Lean constants (open obligations written down by a slice) are kept apart."""
    out = []
    d = os.path.join(LEAN, "theorems")
    if not os.path.isdir(d):
        return out
    roots = root_imports()
    for f in sorted(os.listdir(d)):
        if f.endswith(".json"):
            with open(os.path.join(d, f)) as fh:
                for t in json.load(fh):
                    t["model"] = f[:-5]
                    t["serves"] = sorted(set(t.get("serves", [])) | set(SERVES_EXTRA.get(t.get("name", ""), [])))
                    mod = t.get("file", "")
                    mod = (mod[:-5] if mod.endswith(".lean") else mod).replace("/", ".")
                    t["module"] = mod
                    is_const = re.fullmatch(r"[\w.']+", t.get("name", "")) is not None
                    is_open = (not is_const) or t.get("strength") == "open"
                    if is_open:
                        if include_open:
                            t["open"] = True
                            out.append(t)
                        continue
                    if mod in roots:
                        out.append(t)
    return out


def run_extractors():
    """The translator: regenerate lean/FparserModel/Generated/*.lean from /repo's current
    working tree.  Each extractor module fv/extract_*.py exposes generate(outdir).
    Returns (ok, messages)."""
    import importlib
    import pkgutil
    import fv
    msgs = []
    ok = True
    outdir = os.path.join(LEAN, "FparserModel", "Generated")
    os.makedirs(outdir, exist_ok=True)
    # extract_rest reads what the other translators wrote (inventory of pinned methods): last
    for m in sorted((x.name for x in pkgutil.iter_modules(fv.__path__) if x.name.startswith("extract_")),
                    key=lambda n: ({"extract_rest": 1, "extract_print": 2}.get(n, 0), n)):
        try:
            mod = importlib.import_module("fv." + m)
            mod.generate(outdir)
            msgs.append("extract %s ok" % m)
        except Exception as e:  # noqa: BLE001
            ok = False
            msgs.append("extract %s FAILED: %s: %s" % (m, type(e).__name__, e))
    return ok, msgs


def run_extractors_subprocess():
    """run the translator in a fresh interpreter (it calls ParserFactory.create, which
    mutates global state of the imported fparser)"""
    r = subprocess.run([PY, "-c", "import sys,json; sys.path.insert(0,%r); from fv import common; ok,m=common.run_extractors(); print(json.dumps([ok,m]))" % VERIF],
                       cwd=VERIF, capture_output=True, text=True, timeout=600)
    if r.returncode != 0:
        return False, ["translator crashed: " + (r.stderr or r.stdout)[-2000:]]
    try:
        ok, msgs = json.loads(r.stdout.strip().splitlines()[-1])
    except Exception:  # noqa: BLE001
        return False, ["translator output unreadable: " + r.stdout[-500:]]
    return ok, msgs


def lake_build(targets=None, timeout=3000):
    cmd = ["lake", "build"] + (targets or [])
    t0 = time.time()
    r = subprocess.run(cmd, cwd=LEAN, capture_output=True, text=True, timeout=timeout)
    return r.returncode == 0, (r.stdout + r.stderr), time.time() - t0


_AX_RE = re.compile(r"'(\S+?)' depends on axioms: \[([^\]]*)\]")       # names may end in primes
_NOAX_RE = re.compile(r"'(\S+?)' does not depend on any axioms")


def write_audit_file():
    """Audit.lean: `#print axioms` for every theorem named in theorems/*.json"""
    idx = theorem_index()
    write_if_changed(os.path.join(LEAN, "Audit.lean"), _audit_text(idx))
    return idx


def _old_write_audit_file():
    idx = theorem_index()
    mods = sorted({t["module"] for t in idx})
    lines = []
    for m in mods:
        lines.append("import " + m)
    lines.append("/-! generated by fv/common.py: axiom audit of every registered theorem -/")
    for t in idx:
        lines.append("#print axioms " + t["name"])
    content = "\n".join(lines) + "\n"
    write_if_changed(os.path.join(LEAN, "Audit.lean"), content)
    return idx


def run_audit():
    """elaborate Audit.lean; returns dict name -> list of axioms, and error text"""
    r = subprocess.run(["lake", "env", "lean", "Audit.lean"], cwd=LEAN, capture_output=True, text=True,
                       timeout=1800)
    out = r.stdout + r.stderr
    ax = {}
    for m in _AX_RE.finditer(out.replace("\n  ", " ").replace("\n", " ")):
        ax[m.group(1)] = [a.strip() for a in m.group(2).split(",") if a.strip()]
    for m in _NOAX_RE.finditer(out):
        ax[m.group(1)] = []
    return ax, (out if r.returncode != 0 else "")


_proof_cache = {}


def _audit_text(ths):
    mods = sorted({t["module"] for t in ths})
    lines = ["import " + m for m in mods]
    lines.append("/-! generated by fv/common.py: axiom audit -/")
    lines += ["#print axioms " + t["name"] for t in ths]
    return "\n".join(lines) + "\n"


def run_audit_on(ths, fname):
    path = os.path.join(LEAN, fname)
    write_if_changed(path, _audit_text(ths))
    r = subprocess.run(["lake", "env", "lean", fname], cwd=LEAN, capture_output=True, text=True, timeout=1800)
    out = r.stdout + r.stderr
    ax = {}
    flat = out.replace("\n  ", " ").replace("\n", " ")
    for m in _AX_RE.finditer(flat):
        ax[m.group(1)] = [a.strip() for a in m.group(2).split(",") if a.strip()]
    for m in _NOAX_RE.finditer(out):
        ax[m.group(1)] = []
    return ax, (out if r.returncode != 0 else "")


def proof_state(prop=None, tie_modules=(), force=False):
    """Translator + build + audit under a file lock.  Whole library first; when that fails,
    the modules carrying `prop`'s theorems (and its tie modules) are built and audited on
    their own, so that a break in an unrelated slice does not implicate this property.
    Returns dict: ok (for this property), stage_failed, log, theorems (all, with .checked)."""
    key = prop or "*"
    if key in _proof_cache and not force:
        return _proof_cache[key]
    st = {"ok": True, "stage_failed": None, "log": "", "theorems": [], "wall_s": 0.0, "broken": []}
    t0 = time.time()
    with Lock(os.path.join(LEAN, ".verif.lock")):
        ok, msgs = run_extractors_subprocess()
        st["extract"] = msgs
        if not ok:
            st.update(ok=False, stage_failed="extract", log="\n".join(msgs))
            st["broken"].append("translator failed: " + "; ".join(m for m in msgs if "FAILED" in m))
        idx = theorem_index()
        mine = [t for t in idx if prop is None or prop in t.get("serves", [])]
        hits = audit_sources()
        if hits:
            st.update(ok=False, stage_failed=st["stage_failed"] or "audit-grep", log=st["log"] + "\n" + "\n".join(hits))
            st["broken"].append("forbidden construct in Lean sources: " + "; ".join(hits[:5]))
        okb, log, _ = lake_build()
        ax = {}
        if okb:
            ax, err = run_audit_on(idx, "Audit.lean")
            if err:
                st["log"] += "\n" + err[-3000:]
        else:
            st["build_log"] = log
            st["log"] += "\n" + log[-5000:]
            mods = sorted({t["module"] for t in mine} | set(tie_modules))
            okm, logm, _ = lake_build(mods) if mods else (True, "", 0)
            if okm:
                ax, err = run_audit_on(mine, "Audit_%s.lean" % key.replace("*", "all"))
                st["log"] += "\n(whole-library build failed in an unrelated module; this property's modules build)"
            else:
                st.update(ok=False, stage_failed=st["stage_failed"] or "build")
                st["broken"].append("modules no longer build: %s" % sorted(failing_modules(logm) or failing_modules(log) or ["?"]))
                st["log"] += "\n" + logm[-4000:]
        ths = []
        for t in idx:
            a = ax.get(t["name"])
            t = dict(t)
            t["axioms"] = a
            t["checked"] = a is not None and set(a) <= ALLOWED_AXIOMS
            ths.append(t)
        st["theorems"] = ths
        bad = [t["name"] for t in ths if not t["checked"] and (prop is None or prop in t.get("serves", []))]
        if bad:
            st.update(ok=False, stage_failed=st["stage_failed"] or "audit-axioms")
            st["broken"].append("theorems not checked: %s" % bad[:10])
        if os.environ.get("VERIF_TIER") == "thorough" and prop is not None and st["ok"]:
            # independent re-check of the compiled modules that carry this property's theorems
            mods = sorted({t["module"] for t in mine} | set(m for m in tie_modules if m.startswith("FparserModel.")))
            t1 = time.time()
            try:
                r = subprocess.run(["lake", "env", "leanchecker"] + mods, cwd=LEAN, capture_output=True, text=True, timeout=3000)
                st["leanchecker"] = {"modules": len(mods), "exit": r.returncode, "seconds": round(time.time() - t1, 1)}
                if r.returncode != 0:
                    st.update(ok=False, stage_failed="leanchecker")
                    st["broken"].append("leanchecker rejects: %s" % (r.stdout + r.stderr)[-600:])
            except subprocess.TimeoutExpired:
                st["leanchecker"] = {"modules": len(mods), "exit": "timeout"}
    st["wall_s"] = time.time() - t0
    _proof_cache[key] = st
    return st


def failing_modules(build_log):
    """names of Lean modules that failed to build, from lake's output"""
    mods = set()
    for m in re.finditer(r"^✖ \[\d+/\d+\] Building ([\w.]+)", build_log or "", re.M):
        mods.add(m.group(1))
    for m in re.finditer(r"^error: ([\w/]+)\.lean:\d+", build_log or "", re.M):
        mods.add(m.group(1).replace("/", "."))
    return mods


# ----------------------------------------------------------------------------------
# known findings
# ----------------------------------------------------------------------------------

def load_known():
    try:
        with open(KNOWN) as f:
            return json.load(f)
    except FileNotFoundError:
        return {"findings": [], "fixed": []}


def case_hash(obj):
    return hashlib.sha256(json.dumps(obj, sort_keys=True, default=str).encode()).hexdigest()[:12]


class Report:
    """Collects what one check run did; writes evidence; prints VIOLATION / KNOWN-FINDING
    lines; decides the exit code."""

    def __init__(self, prop, tier, level="proof"):
        self.prop = prop
        self.tier = tier
        self.level = level
        self.t0 = time.time()
        self.seed = seed()
        self.evaluations = 0
        self.distinct = set()
        self.samples = []
        self.violations = []
        self.known_seen = {}
        self.coverage = {}
        self.assumptions = []
        self.known = load_known()
        self.obligations = []
        self.rule = ""
        self.notes = []

    # -- counting --
    def case(self, key, nontrivial=True, sample=None):
        self.evaluations += 1
        if nontrivial:
            self.distinct.add(case_hash(key) if not isinstance(key, str) else key)
        if sample is not None and len(self.samples) < 6:
            self.samples.append(sample)

    def count(self, key, n=1):
        d = self.coverage.setdefault("distribution", {})
        d[key] = d.get(key, 0) + n

    # -- findings --
    def match_known(self, signature):
        for f in self.known.get("findings", []):
            if f["property"] == self.prop and f["key"] == signature:
                return f
        return None

    def violation(self, signature, what, replay, no_input=False):
        """signature: stable identifier of the failure (matched against known findings);
        replay: JSON-serialisable dict written to replays/."""
        k = self.match_known(signature)
        if k is not None:
            if k["id"] not in self.known_seen:
                self.known_seen[k["id"]] = what
            return False
        os.makedirs(REPLAYS, exist_ok=True)
        replay = dict(replay)
        replay.update(property=self.prop, signature=signature, what=what, seed=self.seed, tier=self.tier)
        h = case_hash(replay)
        path = os.path.join(REPLAYS, "%s-%s.json" % (self.prop, h))
        with open(path, "w") as f:
            json.dump(replay, f, indent=1, default=str)
        if len(self.violations) < 25:
            self.violations.append((signature, what, path, no_input))
        return True

    # -- proof obligations --
    def use_theorems(self, st, serves=None):
        """register the theorems serving this property from a proof_state"""
        serves = serves or self.prop
        ths = [t for t in st["theorems"] if serves in t.get("serves", [])]
        self.obligations = ths
        return ths

    def finish(self, extra_cov=None):
        wall = time.time() - self.t0
        for fid, what in self.known_seen.items():
            print("KNOWN-FINDING: property=%s %s: %s" % (self.prop, fid, what))
        for sig, what, path, no_input in self.violations:
            print("VIOLATION property=%s replay=%s%s" % (self.prop, path, " no-failing-input-found" if no_input else ""))
            print("  # %s: %s" % (sig, what[:300]))
        cov = dict(self.coverage)
        n_ob = len(self.obligations)
        n_ok = sum(1 for t in self.obligations if t.get("checked"))
        cov.update({
            "obligations": max(n_ob, 1),
            "discharged": n_ok if n_ob else 0,
            "checker_cmd": "cd lean && lake build && lake env lean Audit.lean   (via ./check %s %s)" % (self.prop, self.tier),
            "trusted_base": ["Lean 4.33.0 kernel", "axioms ⊆ {propext, Classical.choice, Quot.sound} (audited by #print axioms)",
                             "translator fv/extract_*.py", "co-simulation harness fv/cosim_*.py + compiled driver fpmodel",
                             "leaf rule classes are an oracle parameter (not modelled)"],
            "theorems": [{"name": t["name"], "strength": t.get("strength"), "axioms": t.get("axioms"),
                          "checked": t.get("checked")} for t in self.obligations],
            "evaluations": max(self.evaluations, 0),
            "distinct_nontrivial": len(self.distinct),
            "rule": self.rule,
            "samples": self.samples or ["(no cases)"],
            "known_findings_seen": sorted(self.known_seen),
        })
        dist = cov.get("distribution", {})
        cov["traces_validated_against_impl"] = int(sum(v for k, v in dist.items() if "cosim" in k)) + int(cov.get("cosim_cases", 0))
        if extra_cov:
            cov.update(extra_cov)
        ev = {"property_id": self.prop, "tier": self.tier if self.tier in ("quick", "thorough") else "quick",
              "seed": self.seed, "level": self.level, "coverage": cov,
              "assumptions": self.assumptions, "wall_s": round(wall, 2), "violations": len(self.violations)}
        os.makedirs(EVID, exist_ok=True)
        with open(os.path.join(EVID, "%s.json" % self.prop), "w") as f:
            json.dump(ev, f, indent=1, default=str)
        print("%s %s: %d evaluations, %d distinct non-trivial, %d/%d obligations, %d violation(s), %d known finding(s), %.1fs"
              % (self.prop, self.tier, self.evaluations, len(self.distinct), n_ok, n_ob, len(self.violations),
                 len(self.known_seen), wall))
        sys.stdout.flush()
        return 1 if self.violations else 0
