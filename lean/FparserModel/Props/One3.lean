import FparserModel.One3
import FparserModel.Generated.One3Tables
import FparserModel.Proofs.One3Total
import FparserModel.Proofs.One3Transport
import FparserModel.Proofs.One3Split
import FparserModel.Proofs.One3Generated
/-!
# Props/One3 — the statement classes of fparser1 (C19)

All theorems are for every string / item, every table `T` and every context unless the generated
table `T0 = Gen.tables` is named.  Witnesses (`decide +kernel` over `T0`) are replayed on the real
code by the ZOO of `fv/cosim_one3.py`.
-/
namespace Fp.One3
open Fp Fp.Splitline

def T0 : Tables := Gen.tables

/-- printed text of the line `s` offered to class `c` -/
def printed (c : ClassId) (s : String) (ctx : Ctx := {}) : Option Str :=
  match process T0 ctx c s.toList with
  | .ok n _ => (match tofortran ctx n with | .ok t => some t | .error _ => none)
  | _ => none

/-- the exception raised when the line `s` is offered to class `c` -/
def raisedBy (c : ClassId) (s : String) (ctx : Ctx := {}) : Option Exc :=
  match process T0 ctx c s.toList with
  | .raised e => some e
  | _ => none

/-- `isvalid = False` or no match -/
def rejected (c : ClassId) (s : String) (ctx : Ctx := {}) : Bool :=
  match process T0 ctx c s.toList with
  | .invalid _ | .nomatch => true
  | _ => false

/-! ## (c) process_total

FULL natural statement (FALSE): `process T ctx c s = .raised e → e = .parseError`.
What holds, for ALL strings, tables and contexts: the exceptions of class `c` lie in `allowed c`
(`Proofs/One3Total.lean`), plus `FortranReaderError` for a blank line.  The sets are exact for the
members witnessed below. -/

/-- **process_total** (`cls(parent, item)`) -/
theorem process_total (T : Tables) (ctx : Ctx) (c : ClassId) (it : Item) (e : Exc)
    (h : processItem T ctx c it = .error e) : e ∈ allowed c :=
  (processItem_raises T ctx c it).out e h

/-- **process_total'** (`match` + `cls(parent, item)` on a raw line) -/
theorem process_total' (T : Tables) (ctx : Ctx) (c : ClassId) (s : Str) (e : Exc)
    (h : process T ctx c s = .raised e) : e = .readerError ∨ e ∈ allowed c := by
  unfold process at h
  cases hm : mkItem s ctx.label with
  | error e' =>
    rw [hm] at h; simp only at h
    have he : e' = e := Outcome.raised.inj h
    subst he
    exact .inl (by simpa using (mkItem_raises s ctx.label).out e' hm)
  | ok it =>
    rw [hm] at h; simp only at h
    cases hg : getLine it with
    | error e' =>
      rw [hg] at h; simp only at h
      have he : e' = e := Outcome.raised.inj h
      subst he
      have : e' = Exc.keyError := by simpa using (getLine_raises it).out e' hg
      subst this
      right; cases c <;> decide
    | ok r =>
      rw [hg] at h; simp only at h
      split at h
      · cases h
      · cases hp : processItem T ctx c it with
        | error e' =>
          rw [hp] at h; simp only at h
          have he : e' = e := Outcome.raised.inj h
          subst he
          exact .inr (process_total T ctx c it e' hp)
        | ok ret =>
          rw [hp] at h; simp only at h
          split at h <;> cases h

/-- non-vacuity, and the documented `ParseError` is reachable -/
example : raisedBy .Allocate "allocate(1x :: a)" = some .parseError := by decide +kernel
example : raisedBy .TypeIs "type is ()integer)" = some .parseError := by decide +kernel

/-! ### the undocumented exceptions: one witness per (class, exception) -/
set_option maxRecDepth 100000
theorem flush_assertion_witness : raisedBy .Flush "flush (a" = some .assertion := by decide +kernel
theorem rewind_assertion_witness : raisedBy .Rewind "rewind (5" = some .assertion := by decide +kernel
theorem write_assertion_witness : raisedBy .Write "write (6" = some .assertion := by decide +kernel
theorem cgoto_value_witness : raisedBy .ComputedGoto "goto (10" = some .valueError := by decide +kernel
theorem inquire_value_witness : raisedBy .Inquire "inquire (unit = 5" = some .valueError := by decide +kernel
theorem save_assertion_witness : raisedBy .Save "save /blk" = some .assertion := by decide +kernel
theorem namelist_assertion_witness : raisedBy .Namelist "namelist a" = some .assertion := by decide +kernel
theorem common_assertion_witness : raisedBy .Common "common /b/ c, d /" = some .assertion := by decide +kernel
theorem entry_assertion_witness : raisedBy .Entry "entry foo(a) junk" = some .assertion := by decide +kernel
theorem bind_assertion_witness : raisedBy .Bind "bind(c) /a" = some .assertion := by decide +kernel
theorem forall_assertion_witness : raisedBy .Forall "forall (i=1:n, m1, m2) a(i) = 0" = some .assertion := by
  decide +kernel
theorem forall_reader_witness : raisedBy .Forall "forall (i=) a(i) = 0" = some .readerError := by decide +kernel
theorem allocate_reader_witness : raisedBy .Allocate "allocate()" = some .readerError := by decide +kernel
theorem allocate_attribute_witness : raisedBy .Allocate "allocate(pure real :: a)" = some .attributeError := by
  decide +kernel
theorem specific_assertion_witness : raisedBy .SpecificBinding "procedure, 1x :: p" = some .assertion := by
  decide +kernel
theorem specific_value_witness : raisedBy .SpecificBinding "procedure(a :: p" = some .valueError := by decide +kernel
theorem equivalence_assertion_witness : raisedBy .Equivalence "equivalence (a, b), c)" = some .assertion := by
  decide +kernel
theorem integer_index_witness : raisedBy .Integer "integer(kind) a" = some .indexError := by decide +kernel
theorem character_assertion_witness : raisedBy .Character "character() s" = some .assertion := by decide +kernel
/-- a parameterised derived type: valid Fortran 2003 -/
theorem type_assertion_witness : raisedBy .Type "type(foo(3)) :: x" = some .assertion := by decide +kernel
/-- DEFECT: `IMPLICIT REAL(8) (A-H)` — the FIRST `(` is taken for the letter list -/
theorem implicit_assertion_witness : raisedBy .Implicit "implicit real(8) (a-h, o-z)" = some .assertion := by
  decide +kernel
theorem implicit_value_witness : raisedBy .Implicit "implicit real (a-b-c)" = some .valueError := by decide +kernel
/-- DEFECT: an unlabelled FORMAT: the warning's `%` raises TypeError -/
theorem format_type_witness : raisedBy .Format "format (1x, i3)" = some .typeError := by decide +kernel
example : printed .Format "format (1x, i3)" { label := some 10 } = some "10 FORMAT (1x, i3)".toList := by
  decide +kernel

/-! ## (d) apply_map_restores -/

/-- **apply_map_restores**: the mapped line `r.text` of `item.get_line()` is a token text `ts`
    (plain chunks and placeholders), well-formed over the map `r.map`; for EVERY way of cutting it
    between tokens, `apply_map` of the piece is the expansion of the piece — the corresponding piece
    of the restored line `valJoin ts`, which is the line itself up to the blanks just inside
    replaced parentheses and the case folding outside literals.  (Chunks may be cut anywhere:
    `WF_split_chunk`.)  Hypotheses: those of `srm_roundtrip_partial` (the line does not contain
    `F2PY`; no exponent constant ends in `_`, `F`, `F2`, `F2P`). -/
theorem apply_map_restores (l : Str) (lower : Bool)
    (hF : Free (foldOutsideLiterals lower l))
    (hE : FoundsOK (expConsts (phase1Text discipline l lower))) :
    ∃ r ts, stringReplaceMap l lower = some r ∧ r.text = rawJoin ts ∧
      squeeze (valJoin ts) = squeeze (foldOutsideLiterals lower l) ∧
      ∀ a p b, ts = a ++ p ++ b →
        applyMap r.map (rawJoin p) = valJoin p ∧
        applyMap r.map r.text = valJoin a ++ valJoin p ++ valJoin b := by
  obtain ⟨r, ts, h1, h2, h3, h4⟩ := srm_toks l lower hF hE
  refine ⟨r, ts, h1, h2, h4, ?_⟩
  intro a p b hts
  subst hts
  have := piece_restores a p b h3
  rw [h2]
  exact this

/-- the generic part, for any map and token text (no hypothesis on the line) -/
theorem apply_map_piece {m : Map} (a p b : List Tok) (hw : WF m (a ++ p ++ b)) :
    applyMap m (rawJoin p) = valJoin p := (piece_restores a p b hw).1

/-- non-vacuity: a map with `F2PY_EXPR_TUPLE_1` and `F2PY_EXPR_TUPLE_10`; the piece holding
    `…_10` is restored to ITS value (not to the value of `…_1` followed by `0`) -/
example :
    applyMap [(exprKey 1, "i+1".toList), (exprKey 10, "j*2".toList)]
      ("b(".toList ++ exprKey 10 ++ ")".toList) = "b(j*2)".toList := by decide +kernel
example : (printed .Assignment
    "y = a(1-i) + a(2-i) + a(3-i) + a(4-i) + a(5-i) + a(6-i) + a(7-i) + a(8-i) + a(9-i) + a(10-i) + a(11-i)")
    = some "y = a(1-i) + a(2-i) + a(3-i) + a(4-i) + a(5-i) + a(6-i) + a(7-i) + a(8-i) + a(9-i) + a(10-i) + a(11-i)".toList := by
  decide +kernel

/-! ## the comma split loses nothing -/

/-- **split_comma_pieces** (`Proofs/One3Split.lean`) -/
theorem split_comma_pieces (it : Item) (r : SrmResult) (line : Str) (parts : List Str)
    (h : splitComma it r line = .ok parts) :
    (strip line = [] ∧ parts = []) ∨
    ∃ ni r2, copyItem it r (strip line) true = .ok ni ∧ getLine ni = .ok r2 ∧
      join [','] (splitOnChar r2.text ',') = r2.text ∧
      parts = ((splitOnChar r2.text ',').map fun s => strip (am r2 s)).filter (fun s => !s.isEmpty) :=
  splitComma_unfold it r line parts h

example : (match splitComma { line := "x".toList } { text := [], map := [] } "a, 'b,c' , f(1,2)".toList with
    | .ok l => some l | .error _ => none)
    = some ["a".toList, "'b,c'".toList, "f(1,2)".toList] := by decide +kernel

/-! ## (a)/(b) for the keyword-only statements (FULL) -/

def isBare (c : ClassId) : Bool := c == .Continue || c == .Contains || c == .Sequence

theorem srm_continue : stringReplaceMap (upper (str ClassId.Continue.name)) true
    = some ⟨"continue".toList, []⟩ := by decide +kernel
theorem srm_contains : stringReplaceMap (upper (str ClassId.Contains.name)) true
    = some ⟨"contains".toList, []⟩ := by decide +kernel
theorem srm_sequence : stringReplaceMap (upper (str ClassId.Sequence.name)) true
    = some ⟨"sequence".toList, []⟩ := by decide +kernel

/-- **bare_tokens_fixpoint**: CONTINUE / CONTAINS / SEQUENCE: whatever text was accepted, the node
    is the bare keyword, it prints as the upper-case keyword, and the printed text is processed to
    the same node (for the generated table, the printed text also matches the class regex). -/
theorem bare_tokens_fixpoint (T : Tables) (ctx : Ctx) (c : ClassId) (hc : isBare c = true)
    (it : Item) (ret : Ret) (h : processItem T ctx c it = .ok ret) :
    ret.node = some (.bare c) ∧ body ctx (.bare c) = .ok (upper (str c.name)) ∧
    ∃ ret', processItem T ctx c { line := upper (str c.name), label := it.label } = .ok ret' ∧
      ret'.node = some (.bare c) := by
  have hcc : c = .Continue ∨ c = .Contains ∨ c = .Sequence := by
    cases c <;> simp [isBare] at hc <;> simp
  have hnode : ret.node = some (.bare c) := by
    rcases hcc with rfl | rfl | rfl <;>
    · simp only [processItem, bind, Except.bind] at h
      cases hg : getLine it with
      | error e => rw [hg] at h; cases h
      | ok r => rw [hg] at h; cases h; rfl
  refine ⟨hnode, ?_, ?_⟩
  · rcases hcc with rfl | rfl | rfl <;> rfl
  · rcases hcc with rfl | rfl | rfl
    · exact ⟨_, by simp only [processItem, getLine, srm_continue, bind, Except.bind, valid]; rfl, rfl⟩
    · exact ⟨_, by simp only [processItem, getLine, srm_contains, bind, Except.bind, valid]; rfl, rfl⟩
    · exact ⟨_, by simp only [processItem, getLine, srm_sequence, bind, Except.bind, valid]; rfl, rfl⟩

example : printed .Continue "CoNtInUe" { label := some 20 } = some "20 CONTINUE".toList := by decide +kernel
example : T0.matches .Continue "continue".toList = true ∧ T0.matches .Contains "contains".toList = true ∧
    T0.matches .Sequence "sequence".toList = true := by decide +kernel

/-! ## (a) tofortran_process_tokens — what fails, exactly

FULL natural statement (FALSE for the classes below):
`process T0 ctx c s = .ok n _ → toks (tofortran n) = canon (toks s)` with `canon` = keyword case,
inserted `::`, blanks.  The canonicalisations that are NOT of that kind: -/

/-- DEFECT (specs_split_comma): the first `=` of a POSITIONAL spec is taken for `keyword=`: the text
    before it is UPPER-CASED, including character literals — a FORMAT STRING is changed -/
theorem write_format_string_changed_witness :
    printed .Write "write (*, '(\"x=\", i3)') n" = some "WRITE (*, '(\"X = \", i3)') n".toList := by
  decide +kernel
/-- the same defect splits a relational operator: `==` becomes `= =` (not Fortran) -/
theorem allocate_relational_split_witness :
    printed .Allocate "allocate(c(merge(3,4,i==1)))" = some "ALLOCATE (C(MERGE(3,4,I = =1)))".toList := by
  decide +kernel
/-- COMMON, every item list: no block is dropped by the printer, a named block prints `/ name /`,
    and a blank block that is not the first one prints its `//` (repo fix 7d52ea8; before it the
    objects of the blank block silently joined the preceding block) -/
theorem common_blocks_printed (first : Bool) (items : List (Str × List Str)) :
    (commonBits first items).length = items.length := by
  induction items generalizing first with
  | nil => rfl
  | cons x rest ih => obtain ⟨n, l⟩ := x; simp [commonBits, ih]

theorem common_blank_block_keeps_slashes (l : List Str) (rest : List (Str × List Str)) :
    commonBits false (([], l) :: rest) = (str "// " ++ join commaSp l) :: commonBits false rest := rfl

theorem common_named_block_keeps_name (first : Bool) (n : Str) (hn : n ≠ []) (l : List Str)
    (rest : List (Str × List Str)) :
    commonBits first ((n, l) :: rest)
      = (str "/ " ++ n ++ str " / " ++ join commaSp l) :: commonBits false rest := by
  cases n with
  | nil => exact absurd rfl hn
  | cons c cs => rfl

/-- regression witness for repo fix 7d52ea8: the blank common block keeps its `//`; the `,`
    between the sets is optional in Fortran and is not printed -/
theorem common_blank_name_kept :
    printed .Common "common /c/ d, // e" = some "COMMON / c / d // e".toList ∧
    printed .Common "COMMON / c / d // e" = some "COMMON / c / d // e".toList ∧
    printed .Common "common // a, b /c/ d" = some "COMMON a, b / c / d".toList := by decide +kernel
/-- `procedure a` in an interface body is printed as `MODULE PROCEDURE a` (keyword invented) -/
theorem procedure_becomes_module_procedure_witness :
    printed .ModuleProcedure "procedure a" = some "MODULE PROCEDURE a".toList := by decide +kernel
/-- `entry f ()` loses its empty parentheses; BIND/RESULT are re-ordered -/
theorem entry_reordered_witness :
    printed .Entry "entry f () bind(c) result(r)" = some "ENTRY f RESULT (r) BIND (C)".toList := by
  decide +kernel
/-- `REWIND 5` / `FLUSH 6` gain parentheses (harmless) -/
example : printed .Rewind "rewind 5" = some "REWIND (5)".toList := by decide +kernel
/-- a USE rename-list whose first local name begins with `only` stays a rename list (repo fix f348337) -/
theorem use_only_prefix_is_rename :
    printed .Use "use m, only_x => y" = some "USE m, only_x => y".toList ∧
    printed .Use "use m, only : only_x" = some "USE m, ONLY: only_x".toList := by decide +kernel
/-- a labelled one-line WHERE / FORALL no longer repeats its label (repo fix 9e37739), and the
    WHERE body is restored, not printed as placeholders (repo fix 45ddbdc) -/
theorem where_label_once :
    printed .Where "where (a > 0) b(i+1) = c(i+2)" { label := some 13 }
      = some "13 WHERE ( a > 0 ) b(i+1) = c(i+2)".toList := by decide +kernel
/-- PUBLIC / PRIVATE attributes are printed -/
example : printed .Integer "integer, public :: a" = some "INTEGER, public :: a".toList := by decide +kernel

/-! ## (b) process_tofortran_fixpoint — what fails, exactly

FULL natural statement (FALSE):
`process T0 ctx c s = .ok n _ → ∃ n', process T0 ctx c (body n) = .ok n' _ ∧ body n' = body n`. -/

/-- DEFECT: an entity whose name begins with `function`: the `::` is not printed, and the printed
    declaration is read as a `<type> function` header (`isvalid = False`, the item is rewritten) -/
theorem typedecl_function_name_witness :
    printed .Integer "integer :: function_value" = some "INTEGER function_value".toList ∧
    rejected .Integer "INTEGER function_value" = true := by decide +kernel
/-- DEFECT: IMPLICIT with a character length: the printed `CHARACTER(LEN=10) ( c )` raises -/
theorem implicit_selector_not_reparsable_witness :
    printed .Implicit "implicit character*10 (c)" = some "IMPLICIT CHARACTER(LEN=10) ( c )".toList ∧
    raisedBy .Implicit "IMPLICIT CHARACTER(LEN=10) ( c )" = some .assertion := by decide +kernel
/-- the statement that types the enclosing FUNCTION `f` (repo fix dbd6721): alone it is ignored;
    with other entities it stays and declares them (before, `g` was silently dropped) -/
theorem function_typedecl_keeps_others :
    printed .Integer "integer f, g" { parentName := "f".toList, parentIsFunction := true, depth := 1 }
      = some "  INTEGER g".toList ∧
    printed .Integer "integer f" { parentName := "f".toList, parentIsFunction := true, depth := 1 }
      = some "  INTEGER f".toList := by decide +kernel
/-- ordinary statements are fixpoints after one round -/
example : printed .Use "USE, INTRINSIC :: iso_c_binding, ONLY: c_int, a => b"
    = some "USE, INTRINSIC :: iso_c_binding, ONLY: c_int, a => b".toList := by decide +kernel
example : printed .Call "CALL foo(a(1), b(2), 'x, y', c(3)%d(4))"
    = some "CALL foo(a(1), b(2), 'x, y', c(3)%d(4))".toList := by decide +kernel

/-! ## analyze -/

/-- **analyze_text_unchanged**: `analyze()` assigns to none of the attributes read by `tofortran`
    (pinned by the `*.analyze` fingerprints); the co-simulation compares the text printed AFTER the
    real `analyze()` with this model text. -/
theorem analyze_text_unchanged (ctx : Ctx) (n : Node) : tofortran ctx (analyze n) = tofortran ctx n := rfl

end Fp.One3

open Fp.One3 in
#print axioms process_total
open Fp.One3 in
#print axioms process_total'
open Fp.One3 in
#print axioms apply_map_restores
open Fp.One3 in
#print axioms apply_map_piece
open Fp.One3 in
#print axioms split_comma_pieces
open Fp.One3 in
#print axioms bare_tokens_fixpoint
open Fp.One3 in
#print axioms analyze_text_unchanged
open Fp.One3 in
#print axioms common_blocks_printed
open Fp.One3 in
#print axioms common_blank_name_kept
open Fp.One3 in
#print axioms function_typedecl_keeps_others
open Fp.One3 in
#print axioms write_format_string_changed_witness
open Fp.One3 in
#print axioms typedecl_function_name_witness
open Fp.One3 in
#print axioms implicit_assertion_witness
