import FparserModel.Proofs.Reader3FixStmt
import FparserModel.Proofs.ReaderDrain

/-!
# Reader3FixList — a LIST of fixed-form statements read by repeated `_next` (C05/C11/C12)

A fixed-form source is: leading comment lines, then statements; each statement is its initial
line plus all *follow* lines up to the next initial line (continuation lines and comment/blank
lines, also those after the last continuation line). Between two statements the reader is in the
"peeked" state: the next initial line sits in `filo_line`. The induction therefore runs over
states `r0` characterised by `get_single_line r0 = (initial line, r1)` with `r1` plain.
-/
namespace Fp.Reader
open Fp

structure FStmt where
  first : Str
  follow : List Str

/-- the statement field of the initial line: columns 7… after the construct name -/
def FStmt.body (s : FStmt) : Str := (fixedName (cook s.first)).2.drop 6
def FStmt.text (s : FStmt) : Str := strip (s.body ++ srcPieces s.follow)
def FStmt.label (s : FStmt) : Option Nat := (fixedLabel (cook s.first)).getD none
def FStmt.name (s : FStmt) : Option Str := (fixedName (cook s.first)).1
/-- the item; `n` = physical line number of the initial line -/
def FStmt.item (s : FStmt) (n : Nat) : Item := .line s.text s.label s.name n (srcEnd n n s.follow)
def FStmt.comments (s : FStmt) (ic : Bool) (n : Nat) : List Item := srcComments ic n s.follow

structure FStmt.ok (s : FStmt) : Prop where
  cpp : startsWith (lstrip (cook s.first)) ['#'] = false
  init : isFollow (cook s.first) = false
  col : colCheck (cook s.first) = .fine
  lab : (fixedLabel (cook s.first)).isSome = true
  clean : fixClean s.body = true
  ne : strip s.body ≠ []
  follow : ∀ l ∈ s.follow, followOk l = true
  nosemi : (stringReplaceMap s.text true).1.contains ';' = false
  noinc : includeRe s.text = none

theorem getSingleLine_fifo' {r r1 : Rd} {o : Option Str} (h : getSingleLine r = (o, r1)) :
    r1.fifo = r.fifo := by
  have := getSingleLine_fifo r; rw [h] at this; exact this

/-- one statement at `_next` level -/
theorem next1_stmt (s : FStmt) (hok : s.ok) (r0 r1 : Rd) (rest : List Str)
    (hfifo : r0.fifo = []) (hg : getSingleLine r0 = (some (cook s.first), r1)) (hp : FixedPlain r1)
    (hsrc : r1.src = s.follow ++ rest) (hnx : stopsAt rest = true) :
    next1 r0 = (.ok (s.item r1.linecount),
      afterStmt r1 s.follow rest (s.comments r1.ignoreComments r1.linecount)) := by
  have hf1 : r1.fifo = [] := (getSingleLine_fifo' hg).trans hfifo
  have hnc : isFixCommentS (cook s.first) = false := by
    have := hok.init; simp only [isFollow, Bool.or_eq_false_iff] at this; exact this.2
  have hlab : fixedLabel (cook s.first) = some s.label := by
    have := hok.lab
    unfold FStmt.label
    cases h : fixedLabel (cook s.first) with
    | none => rw [h] at this; cases this
    | some v => rfl
  have hgs := getSourceItem_fixed_src r0 r1 (cook s.first) (fixedName (cook s.first)).2 s.label s.name
    s.follow rest hg hp hsrc hok.cpp hnc hok.col hlab rfl hok.clean hok.ne hok.follow hnx
  rw [hf1, List.nil_append] at hgs
  refine next1_of_getSourceItem r0 _ _ hfifo hgs (by simp [Item.isComment, FStmt.item]) ?_
  intro text l nm st e hv
  simp only [FStmt.item, Item.lineView, Option.some.injEq, Prod.mk.injEq] at hv
  rw [← hv.1]; exact hok.nosemi

/-! ### the list -/

def stmtSrc : List FStmt → List Str
  | [] => []
  | s :: ss => s.first :: (s.follow ++ stmtSrc ss)

/-- what repeated `_next` delivers; `n` = line number of the first initial line -/
def stmtItems (ic : Bool) : Nat → List FStmt → List Item
  | _, [] => []
  | n, s :: ss => s.item n :: (s.comments ic n ++ stmtItems ic (n + s.follow.length + 1) ss)

def endFix (r1 : Rd) : FStmt → List FStmt → Rd
  | s, [] => afterStmt r1 s.follow [] []
  | s, s2 :: ss => endFix (adv r1 (s.follow ++ [s2.first]) (s2.follow ++ stmtSrc ss)) s2 ss

theorem srcComments_true : ∀ (ls : List Str) (n : Nat), srcComments true n ls = []
  | [], _ => rfl
  | l :: ls, n => by simp [srcComments, srcComments_true ls]

theorem srcComments_isComment (ic : Bool) : ∀ (ls : List Str) (n : Nat), ∀ x ∈ srcComments ic n ls,
    x.isComment = true
  | [], _, x, hx => by cases hx
  | l :: ls, n, x, hx => by
    simp only [srcComments, List.mem_append] at hx
    rcases hx with hx | hx
    · split at hx
      · simp only [List.mem_singleton] at hx; subst hx; rfl
      · cases hx
    · exact srcComments_isComment ic ls (n + 1) x hx

theorem srcComments_filter (ic : Bool) (ls : List Str) (n : Nat) :
    (srcComments ic n ls).filter (keep ic) = srcComments ic n ls := by
  cases ic with
  | true => simp [srcComments_true]
  | false =>
    apply List.filter_eq_self.mpr
    intro x _
    simp [keep]

theorem stopsAt_stmtSrc (ss : List FStmt) (h : ∀ t ∈ ss, t.ok) : stopsAt (stmtSrc ss) = true := by
  cases ss with
  | nil => rfl
  | cons s2 ss' => simp [stmtSrc, stopsAt, (h s2 List.mem_cons_self).init]

theorem After_closed (r : Rd) (hfifo : r.fifo = []) (h1 : r.filo = []) (h2 : r.closed = true) :
    After r 1 (.stop, r) := by
  intro n hn
  obtain ⟨m, rfl⟩ : ∃ m, n = m + 1 := ⟨n - 1, by omega⟩
  unfold nextRaw popOrRead getSourceItem getSingleLine
  simp [hfifo, h1, h2]

theorem getSingleLine_peeked (r1 : Rd) (hp : FixedPlain r1) (hf : r1.fifo = []) (ls : List Str) (nx : Str)
    (rest' : List Str) :
    getSingleLine { afterStmt r1 ls (nx :: rest') [] with fifo := [] } =
      (some (cook nx), adv r1 (ls ++ [nx]) rest') := by
  obtain ⟨h1, h2, h3, h4⟩ := hp
  obtain ⟨src, closed, filo, fifo, lc, linesRev, isFree, ic, omp, dirs⟩ := r1
  simp only [] at h1 h2 h3 h4 hf
  subst h1 h2 h3 h4 hf
  unfold getSingleLine
  simp only [afterStmt, adv, List.length_append, List.length_cons, List.length_nil, List.map_append,
    List.map_cons, List.map_nil, List.reverse_append, List.reverse_cons, List.reverse_nil,
    List.nil_append, List.singleton_append, List.cons_append, Prod.mk.injEq, Rd.mk.injEq, true_and,
    and_true]
  omega

theorem runs_stmts : ∀ (ss : List FStmt) (s : FStmt) (r0 r1 : Rd) (p : Res Item × Rd),
    (∀ t ∈ s :: ss, t.ok) → r0.fifo = [] → getSingleLine r0 = (some (cook s.first), r1) →
    FixedPlain r1 → r1.src = s.follow ++ stmtSrc ss → Runs (endFix r1 s ss) [] p →
    Runs r0 (stmtItems r1.ignoreComments r1.linecount (s :: ss)) p
  | [], s, r0, r1, p, hok, hfifo, hg, hp, hsrc, hr => by
    have hn := next1_stmt s (hok s List.mem_cons_self) r0 r1 [] hfifo hg hp hsrc rfl
    have hf := Runs.fifo r1.ignoreComments (s.comments r1.ignoreComments r1.linecount)
      (afterStmt r1 s.follow [] (s.comments r1.ignoreComments r1.linecount)) [] p rfl rfl
      (srcComments_isComment _ _ _) hr
    have := Runs.deliver hn hf
    simpa [stmtItems, FStmt.comments, srcComments_filter] using this
  | s2 :: ss, s, r0, r1, p, hok, hfifo, hg, hp, hsrc, hr => by
    have hf1 : r1.fifo = [] := (getSingleLine_fifo' hg).trans hfifo
    have hok' : ∀ t ∈ s2 :: ss, t.ok := fun t ht => hok t (List.mem_cons_of_mem _ ht)
    have hn := next1_stmt s (hok s List.mem_cons_self) r0 r1 (stmtSrc (s2 :: ss)) hfifo hg hp hsrc
      (stopsAt_stmtSrc _ hok')
    have ih := runs_stmts ss s2
      { afterStmt r1 s.follow (stmtSrc (s2 :: ss)) [] with fifo := [] }
      (adv r1 (s.follow ++ [s2.first]) (s2.follow ++ stmtSrc ss)) p hok' rfl
      (getSingleLine_peeked r1 hp hf1 s.follow s2.first _) (hp.adv _ _) rfl hr
    have hf := Runs.fifo r1.ignoreComments (s.comments r1.ignoreComments r1.linecount)
      (afterStmt r1 s.follow (stmtSrc (s2 :: ss)) (s.comments r1.ignoreComments r1.linecount)) _ p rfl rfl
      (srcComments_isComment _ _ _) ih
    have := Runs.deliver hn hf
    simp only [adv_ic, adv_lc, List.length_append, List.length_cons, List.length_nil, Nat.zero_add,
      FStmt.comments, srcComments_filter] at this
    simpa only [stmtItems, FStmt.comments, Nat.add_assoc] using this

/-! ### leading comment lines -/

theorem getSingleLine_skip_pre : ∀ (pre : List Str) (r : Rd) (l : Str) (rest : List Str), FixedPlain r →
    r.ignoreComments = true → (∀ c ∈ pre, isFixCommentS (cook c) = true) →
    isFixCommentS (cook l) = false → r.src = pre ++ l :: rest →
    getSingleLine r = (some (cook l), adv r (pre ++ [l]) rest)
  | [], r, l, rest, hp, _, _, hl, hs => by
    rw [getSingleLine_fixed_keep r l rest hp (by simpa using hs) (by rw [hl, Bool.and_false])]
    rfl
  | c :: pre, r, l, rest, hp, hic, hc, hl, hs => by
    rw [getSingleLine_fixed_skip r c (pre ++ l :: rest) hp (by simpa using hs)
      (by rw [hic, hc c List.mem_cons_self]; rfl)]
    rw [getSingleLine_skip_pre pre (adv r [c] (pre ++ l :: rest)) l rest (hp.adv _ _) hic
      (fun x hx => hc x (List.mem_cons_of_mem _ hx)) hl rfl]
    rw [adv_adv]; rfl

/-- a leading comment line when comments are kept: one Comment item, the whole line -/
theorem next1_pre_comment (r : Rd) (c : Str) (rest : List Str) (hp : FixedPlain r) (hfifo : r.fifo = [])
    (hic : r.ignoreComments = false) (hc : isFixCommentS (cook c) = true)
    (hcpp : startsWith (lstrip (cook c)) ['#'] = false) (hs : r.src = c :: rest) :
    next1 r = (.ok (.comment (cook c) (r.linecount + 1) (r.linecount + 1) false), adv r [c] rest) := by
  have hg := getSingleLine_fixed_keep r c rest hp hs (by rw [hic]; rfl)
  have := getSourceItem_fixed_comment r _ (cook c) hg hp.fixed hcpp hc
  exact next1_of_getSourceItem r _ _ hfifo this (by simp [Item.isComment, adv, hic]) (NoSemi.comment _ _ _ _)

/-- comment lines are never preprocessor lines -/
theorem fixComment_not_cpp (line : Str) (h : isFixCommentS line = true) (hne : line ≠ []) :
    startsWith (lstrip line) ['#'] = false := by
  unfold isFixCommentS at h
  cases line with
  | nil => exact absurd rfl hne
  | cons c cs =>
    simp only [] at h
    by_cases hc : (c == '*' || c == 'c' || c == 'C' || c == '!') = true
    · have hsp : isSpace c = false := by
        simp only [Bool.or_eq_true, beq_iff_eq] at hc
        rcases hc with ((rfl | rfl) | rfl) | rfl <;> decide
      have hl : lstrip (c :: cs) = c :: cs := by simp [lstrip, List.dropWhile_cons, hsp]
      rw [hl]
      simp only [Bool.or_eq_true, beq_iff_eq] at hc
      rcases hc with ((rfl | rfl) | rfl) | rfl <;> simp [startsWith]
    · simp only [hc, Bool.false_eq_true, if_false] at h
      cases hf : find (c :: cs) '!' with
      | none => rw [hf] at h; cases h
      | some i =>
        rw [hf] at h
        simp only [] at h
        split at h
        · rename_i hl
          -- the first `!` is preceded by blanks only
          have hsplit : c :: cs = (c :: cs).take i ++ (c :: cs).drop i := (List.take_append_drop i _).symm
          have hi : i < (c :: cs).length := by
            unfold find at hf
            exact (List.findIdx?_eq_some_iff_getElem.mp hf).1
          have hget : (c :: cs)[i] = '!' := by
            unfold find at hf
            have := (List.findIdx?_eq_some_iff_getElem.mp hf).2.1
            simpa using this
          have hdrop : (c :: cs).drop i = '!' :: (c :: cs).drop (i + 1) := by
            rw [List.drop_eq_getElem_cons hi, hget]
          have hws : AllSpace ((c :: cs).take i) := fun x hx => by
            have hall := dropWhile_nil_all isSpace _ (by unfold lstrip at hl; exact hl)
            exact hall x hx
          rw [hsplit, hdrop, lstrip_ws_cons _ _ '!' hws (by decide)]
          simp [startsWith]
        · cases h

theorem runs_pre : ∀ (pre : List Str) (r : Rd) (rest : List Str) (xs : List Item) (p : Res Item × Rd),
    FixedPlain r → r.fifo = [] → r.ignoreComments = false →
    (∀ c ∈ pre, isFixCommentS (cook c) = true ∧ startsWith (lstrip (cook c)) ['#'] = false) →
    r.src = pre ++ rest → Runs (adv r pre rest) xs p → Runs r (srcComments false r.linecount pre ++ xs) p
  | [], r, rest, xs, p, _, _, _, _, hs, hr => by
    rw [adv_nil r rest (by simpa using hs)] at hr
    simpa [srcComments] using hr
  | c :: pre, r, rest, xs, p, hp, hfifo, hic, hc, hs, hr => by
    obtain ⟨hc1, hc2⟩ := hc c List.mem_cons_self
    have hn := next1_pre_comment r c (pre ++ rest) hp hfifo hic hc1 hc2 (by simpa using hs)
    have ih := runs_pre pre (adv r [c] (pre ++ rest)) rest xs p (hp.adv _ _) hfifo hic
      (fun x hx => hc x (List.mem_cons_of_mem _ hx)) rfl (by rw [adv_adv]; exact hr)
    have := Runs.deliver hn ih
    simpa [srcComments, hc1, adv_lc] using this

end Fp.Reader
