"""Layout engines: render a generated program (fv.gen.Prog) as free-form or fixed-form
source under explicit, seeded layout decisions, recording by construction where every
statement, comment, directive and include line ends up."""
import random
import re
from fv.gen import St, Blk, is_literal, join_natural, is_kw

COMMENT_TEXTS = ["! plain comment", "!", "! it's quoted \"x\"", "! with & ampersand", "!! double bang",
                 "! semi; colon", "!   indented text  x", "! 'open quote", "! trailing &", "!x=1",
                 "! call foo(a, b)", "!$omp parallel do", "!dir$ ivdep", "!$acc loop", "! end if"]


class Laid:
    def __init__(self):
        self.lines = []
        self.spans = {}        # uid -> (first, last) 1-based physical lines
        self.comments = []     # (lineno, text, inline) in source order
        self.order = []        # uids in source order (first line)
        self.decisions = {}    # counters of layout decisions taken
        self.extras = []       # (lineno, kind, text) for cpp / include / sentinel lines

    def text(self):
        return "\n".join(self.lines) + "\n"

    def hit(self, k):
        self.decisions[k] = self.decisions.get(k, 0) + 1


def flat_with_depth(prog):
    out = []

    def rec(x, d):
        if isinstance(x, St):
            out.append((x, d))
            return
        if x.open is not None:
            out.append((x.open, d))
        for y in x.body:
            if isinstance(y, St) and y.role == "mid":
                out.append((y, d))
            else:
                rec(y, d + 1)
        if x.close is not None:
            out.append((x.close, d))

    for u in prog.units:
        rec(u, 0)
    for i, (s, _) in enumerate(out):
        s.uid = i
    return out


def recase(tok, mode, rng):
    if is_literal(tok) or mode == "keep":
        return tok
    if mode == "upper":
        return tok.upper()
    if mode == "lower":
        return tok.lower()
    return "".join(c.upper() if rng.random() < 0.5 else c.lower() for c in tok)


def _needs_blank(a, b):
    return (a[-1].isalnum() or a[-1] in "_'\".") and (b[0].isalnum() or b[0] in "_'\".")


class FreeOpts:
    """probabilities of each layout decision"""

    def __init__(self, p_cont=0.25, p_lead_amp=0.5, p_lit_cut=0.3, p_between=0.3, p_trailing=0.15,
                 p_comment=0.15, p_blank=0.08, p_semi=0.0, case="keep", indent="tree",
                 p_extra_blank=0.1, comments=True, max_cuts=3, kw_stress=False, kw_protect=()):
        self.__dict__.update(locals())
        del self.__dict__["self"]


def stmt_text(st, rng, opts, laid=None):
    """-> (text, head_len, bounds, lit_ranges): the statement text under the case and
    blank decisions; bounds = [(index where a token starts, tight?)] for every token after
    the first body token; lit_ranges = interiors of character literals."""
    toks = [recase(t, opts.case, rng) for t in st.toks]
    head = ""
    if st.label:
        head += st.label + " "
    name_sep = None
    if st.cname:
        name_sep = rng.choice([": ", ": ", ": ", " : ", " : ", ":"])
        head += recase(st.cname, opts.case, rng) + name_sep
    text = head
    bounds = []
    if st.cname:
        # a cut directly behind the construct name: `name: &` / `name:&`
        bounds.append((len(text), name_sep == ":"))
    lit_ranges = []
    acc = []
    for k, t in enumerate(toks):
        before = join_natural(acc) if acc else ""
        acc.append(t)
        after = join_natural(acc)
        sep = after[len(before): len(after) - len(t)]
        tight = sep == ""
        kwkw = k > 0 and is_kw(toks[k - 1]) and is_kw(t)
        if k > 0 and kwkw and (not opts.kw_stress or (toks[k - 1].upper(), t.upper()) in opts.kw_protect):
            # adjacent keywords ("END IF", "DOUBLE PRECISION"): the main stream keeps
            # exactly one blank and never cuts here (fparser's compound-keyword patterns
            # are exercised separately, pair by pair, by the keyword-pair stream)
            text += sep
        elif k > 0:
            if not tight and rng.random() < opts.p_extra_blank:
                sep = sep + " " * rng.randint(1, 2)
                if laid is not None:
                    laid.hit("extra-blank")
            text += sep
            bounds.append((len(text), tight))
        text += t
        if is_literal(t) and len(t) >= 5:
            qs = [i for i, c in enumerate(t) if c in "'\""]
            q = qs[0]
            start = len(text) - len(t) + q + 1
            end = len(text) - 1
            if end - start >= 2:
                lit_ranges.append((start, end, t[q]))
    return text, len(head), bounds, lit_ranges


def stmt_pieces(st, rng, opts, laid):
    """-> list of (line_text, kind, lead) for one statement; kind of the cut that ENDS the
    line ('tok' | 'lit' | 'end'); lead = how the line begins (None for the first line,
    'amp' leading '&', 'col1' must start in column 1 (literal continued without '&'),
    'free' any indentation).  Cuts only at token boundaries or inside a character
    literal; at a tight token boundary (no blank in the canonical text) the cut is
    `x&` / `&y`, which introduces no blank."""
    text, head_len, bounds, lit_ranges = stmt_text(st, rng, opts, laid)
    cuts = {}
    if rng.random() < opts.p_cont and (bounds or lit_ranges):
        for _ in range(rng.randint(1, opts.max_cuts)):
            if lit_ranges and rng.random() < opts.p_lit_cut:
                a, b, qc = rng.choice(lit_ranges)
                pos = rng.randint(a + 1, b - 1)
                if text[pos - 1] == qc or text[pos] == qc:
                    continue   # never between the two characters of a doubled quote
                cuts[pos] = ("lit", False)
            elif bounds:
                pos, tight = rng.choice(bounds)
                cuts[pos] = ("tok", tight)
    lines = []
    last = 0
    lead = None
    for pos in sorted(cuts):
        kind, tight = cuts[pos]
        seg = text[last:pos]
        if kind == "tok":
            amp = tight or rng.random() < opts.p_lead_amp
            if tight:
                line = seg + "&"
                laid.hit("cut-tight-amp")
            else:
                line = seg.rstrip() + " &"
                laid.hit("cut-token" + ("-amp" if amp else "-noamp"))
            lines.append((line, "tok", lead))
            lead = "amp" if amp else "free"
        else:
            amp = rng.random() < (opts.p_lead_amp + 1) / 2
            # without a leading '&' the continuation of a literal must not itself begin with
            # (blanks and) '&' or '!': that text would be taken for the marker / a comment
            if text[pos:].lstrip()[:1] in ("&", "!"):
                amp = True
            lines.append((seg + "&", "lit", lead))
            lead = "amp" if amp else "col1"
            laid.hit("cut-literal" + ("-amp" if amp else "-noamp"))
        last = pos
    lines.append((text[last:], "end", lead))
    return lines


class _StmtRng:
    """one independent random stream per statement, keyed by (layout seed, uid0), so that
    deleting other statements (shrinking) leaves a statement's layout unchanged"""

    def __init__(self, seed):
        self.seed = seed
        self.cur = random.Random(seed)

    def select(self, st):
        self.cur = random.Random((self.seed * 1000003 + (st.uid0 if st.uid0 is not None else 0)) & 0xFFFFFFFFFFFF)

    def __getattr__(self, name):
        return getattr(self.cur, name)


_NO_SEMI_CONS = ("nonblockdo", "labeldo", "program", "module", "submodule", "subroutine", "function", "blockdata",
                 "type", "interface", "enum")


def _joinable_after_semicolon(st):
    """statements that may follow a `;`: simple statements (also labelled ones) and the
    statements of block constructs (opener with or without construct name and label, ELSE,
    END); not program-unit / type / interface statements and not label-DO machinery"""
    if st.cons is None:
        return st.role == "simple"
    return st.cons not in _NO_SEMI_CONS and st.role in ("open", "mid", "close")


def render_free(prog, rng, opts=None, comment_texts=None):
    """-> Laid.  `rng` may be an int (layout seed: per-statement streams, stable under
    shrinking) or a random.Random."""
    opts = opts or FreeOpts()
    if isinstance(rng, int):
        rng = _StmtRng(rng)
    laid = Laid()
    ctexts = comment_texts or COMMENT_TEXTS
    flat = flat_with_depth(prog)
    n = len(flat)
    i = 0
    ccount = [0]

    def new_comment():
        ccount[0] += 1
        t = rng.choice(ctexts)
        if t.startswith("!$") or t.startswith("!dir$"):
            return t
        return t + (" #%d" % rng.randint(0, 9999) if t != "!" else "")

    def emit_between(pad):
        while opts.comments and rng.random() < opts.p_comment:
            c = new_comment()
            laid.lines.append(pad + c)
            laid.comments.append((len(laid.lines), c, False))
            laid.hit("comment-line")
        while rng.random() < opts.p_blank:
            laid.lines.append(rng.choice(["", "", "   "]))
            laid.hit("blank-line")

    while i < n:
        st, depth = flat[i]
        if isinstance(rng, _StmtRng):
            rng.select(st)
        if opts.indent == "tree":
            pad = "  " * depth
        elif opts.indent == "none":
            pad = ""
        else:
            pad = " " * rng.choice([0, 1, 2, 4, 7])
        emit_between(pad)
        pieces = stmt_pieces(st, rng, opts, laid)
        first = len(laid.lines) + 1
        for j, (body, kind, lead) in enumerate(pieces):
            if j > 0 and rng.random() < opts.p_between:
                # blank or comment lines between continuation lines
                if opts.comments and rng.random() < 0.6:
                    c = new_comment()
                    laid.lines.append(pad + "  " + c)
                    laid.comments.append((len(laid.lines), c, False))
                    laid.hit("comment-in-continuation")
                else:
                    laid.lines.append(rng.choice(["", "", "    "]))
                    laid.hit("blank-in-continuation")
            if lead is None:
                line = pad + body
            elif lead == "col1":
                line = body
            elif lead == "amp":
                line = (pad + "   " if rng.random() < 0.7 else "") + "&" + body
            else:
                line = pad + "    " + body.lstrip()
            # trailing comment (not after a cut inside a literal)
            if opts.comments and kind != "lit" and rng.random() < opts.p_trailing:
                c = new_comment()
                if c.startswith("!$") or c.startswith("!dir$"):
                    c = "! inline " + c[1:]
                line = line + " " + c
                laid.comments.append((len(laid.lines) + 1, c, True))
                laid.hit("trailing-comment")
            laid.lines.append(line)
        last = len(laid.lines)
        laid.spans[st.uid] = (first, last)
        laid.order.append(st.uid)
        # ';' join with following simple statements; a trailing comment of the line stays at
        # its end (it then belongs to the whole line: delivered after the last statement)
        while (opts.p_semi and i + 1 < n and len(pieces) == 1 and rng.random() < opts.p_semi
               and flat[i][0].role == "simple" and flat[i][0].cons is None and _joinable_after_semicolon(flat[i + 1][0])):
            nxt = flat[i + 1][0]
            t2 = nxt.text() if opts.case == "keep" else join_natural([recase(t, opts.case, rng) for t in nxt.toks])
            cur = laid.lines[-1]
            tail = ""
            if laid.comments and laid.comments[-1][0] == len(laid.lines) and laid.comments[-1][2]:
                c = laid.comments[-1][1]
                if cur.endswith(" " + c):
                    cur, tail = cur[: len(cur) - len(c) - 1], " " + c
            elif "!" in cur.split("'")[0].split('"')[0]:
                break
            laid.lines[-1] = cur + rng.choice(["; ", ";", " ; "]) + t2 + tail
            laid.spans[nxt.uid] = (last, last)
            laid.order.append(nxt.uid)
            laid.hit("semicolon-join" + ("-with-comment" if tail else ""))
            i += 1
        i += 1
    emit_between("")
    return laid


# ----------------------------------------------------------------------------------
# fixed form
# ----------------------------------------------------------------------------------

class FixedOpts:
    def __init__(self, wrap=72, cont_chars="&1+*$x", comment_chars="Cc*!", p_comment=0.15,
                 p_between=0.25, p_blank=0.05, comments=True, min_wrap=40, label_right=False):
        self.__dict__.update(locals())
        del self.__dict__["self"]


def render_fixed(prog, rng, opts=None):
    """Fixed source form: label in cols 1-5, continuation mark col 6, text cols 7..wrap.
    A statement longer than the line is wrapped at `wrap` exactly (even inside tokens and
    character literals, as fixed form allows)."""
    opts = opts or FixedOpts()
    laid = Laid()
    flat = flat_with_depth(prog)
    ccount = [0]

    def comment_line():
        ccount[0] += 1
        ch = rng.choice(opts.comment_chars)
        body = rng.choice([" plain", "", " it's", " call x(1)", "$omp hmm" if ch != "!" else " bang", " &"])
        return ch + body + " #%d" % ccount[0]

    for st, depth in flat:
        while opts.comments and rng.random() < opts.p_comment:
            c = comment_line()
            laid.lines.append(c)
            laid.comments.append((len(laid.lines), c, False))
            laid.hit("comment-line-" + c[0])
        if rng.random() < opts.p_blank:
            laid.lines.append(rng.choice(["", "", "   ", "        "]))
            laid.hit("blank-line")
        body = ""
        if st.cname:
            body += st.cname + ": "
        # the fixed-form reader extracts the construct name from the initial line only: keep
        # `name: first-token` together on it (the opposite is the known finding F-C05-3)
        min_first = min(depth, 6) + len(body) + len(st.toks[0]) if st.cname else 1
        body += join_natural(st.toks)
        body = " " * min(depth, 6) + body
        lab = st.label or ""
        if lab:
            lab = lab.rjust(5) if opts.label_right or rng.random() < 0.3 else (" " * rng.randint(0, 5 - len(lab)) + lab).ljust(5)
        width = opts.wrap - 6
        chunks = []
        # random wrap: either only when needed, or early at a random column
        rest = body
        while True:
            w = width
            if len(rest) > 10 and rng.random() < 0.2:
                w = rng.randint(8, min(width, len(rest) - 1))
                laid.hit("early-wrap")
            if not chunks and w < min_first:
                w = min_first
            if len(rest) <= w:
                chunks.append(rest)
                break
            # do not leave a chunk that is empty or only blanks at either side
            cut = w
            # physical lines are right-stripped by the reader, so a chunk must not end in a
            # blank (the blank moves to the start of the next chunk instead)
            while cut > 1 and (rest[cut - 1] in " &" or rest[:cut].strip() == "" or rest[cut:].strip() == "") \
                    and (chunks or cut > min_first):
                cut -= 1
            if not chunks:
                # an initial line of the shape `word :` is taken for a construct name with
                # nothing after it (known finding F-C05-3): never produce it
                while cut < len(rest) and re.match(r"^\s*\w+\s*:\s*$", rest[:cut]):
                    cut += 1
            if rest[:cut].strip() == "":
                cut = w
                while cut < len(rest) and rest[cut - 1] == " ":
                    cut += 1
            chunks.append(rest[:cut])
            rest = rest[cut:]
            laid.hit("wrap")
        first = len(laid.lines) + 1
        for j, ch in enumerate(chunks):
            if j == 0:
                if rng.random() < 0.08 and len(chunks) == 1:
                    # TAB-indented initial line (TAB, or label then TAB): the tab reaches past column 6
                    laid.lines.append((lab if lab else "") + "\t" + ch.lstrip())
                    laid.hit("tab-indented")
                else:
                    laid.lines.append((lab.ljust(5) if lab else "     ") + " " + ch)
            else:
                if rng.random() < opts.p_between and opts.comments:
                    c = comment_line()
                    laid.lines.append(c)
                    laid.comments.append((len(laid.lines), c, False))
                    laid.hit("comment-in-continuation")
                elif rng.random() < 0.08:
                    # an empty or whitespace-only line between continuation lines is a comment line
                    laid.lines.append(rng.choice(["", "    ", "          "]))
                    laid.hit("blank-in-continuation")
                mark = rng.choice(opts.cont_chars)
                laid.lines.append("     " + mark + ch)
                laid.hit("cont-" + mark)
        laid.spans[st.uid] = (first, len(laid.lines))
        laid.order.append(st.uid)
    return laid
