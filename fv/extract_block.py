"""Translator for model M-D (block matcher): reads the REAL fparser class objects and writes

    lean/FparserModel/Generated/Blocks2003.lean / Blocks2008.lean   (Fp.Block.Table values)
    lean/FparserModel/Generated/blocks_f2003.json / blocks_f2008.json  (twin for the harness)

For every class reachable from `Program` at reader level: its kind (leaf / alt / block /
special wrappers); for alt classes the real `Base.subclasses[name]` order; for every
`BlockBase` subclass the exact arguments its `match` passes to `BlockBase.match`, obtained
by CALLING the class's `match` with `BlockBase.match` monkeypatched to record them.  The
hand-mirrored functions (`Base.__new__`, `BlockBase.match`, `Program.match`, ...) are
fingerprinted (AST hash) so that a change of their shape is reported.

Output is deterministic and files are rewritten only on change.
"""
import ast
import hashlib
import inspect
import json
import os
import sys
import textwrap

from fv import repo

VERIF = os.path.dirname(os.path.dirname(os.path.abspath(__file__)))
GEN_DIR = os.path.join(VERIF, "lean", "FparserModel", "Generated")

STD_TAG = {"f2003": "2003", "f2008": "2008"}
CPP_KEY = "match_cpp_directive"
MAIN0_SCOPE = "fparser2:main_program"


class ExtractionError(Exception):
    """the shape of the code changed so that the table cannot be extracted"""


# ----------------------------------------------------------------------------------------
def _fingerprint(fn):
    """AST hash of a function without docstrings (robust to comments/formatting)."""
    fn = getattr(fn, "__func__", fn)
    fn = getattr(fn, "__wrapped__", fn)
    src = textwrap.dedent(inspect.getsource(fn))
    tree = ast.parse(src)
    for node in ast.walk(tree):
        if isinstance(node, (ast.FunctionDef, ast.ClassDef, ast.Module)):
            body = node.body
            if body and isinstance(body[0], ast.Expr) and isinstance(
                    getattr(body[0], "value", None), ast.Constant) and isinstance(
                        body[0].value.value, str):
                node.body = body[1:] or [ast.Pass()]
    return hashlib.sha256(ast.dump(tree).encode()).hexdigest()[:16]


# fingerprints of the functions the Lean model mirrors by hand (pinned tree @24cf251).
MIRRORED = {
    "Base.__new__": "",
    "Base.restore_reader": "",
    "BlockBase.match": "",
    "BlockBase.restore_reader": "",
    "Program.__new__": "",
    "Program.match": "",
    "Main_Program0.match": "",
    "Component_Part.match": "",
    "Outer_Shared_Do_Construct.match": "",
    "Inner_Shared_Do_Construct.match": "",
    "Comment.__new__": "",
    "Directive.__new__": "",
    "match_comment_or_include": "",
    "add_comments_includes_directives": "",
    "match_cpp_directive": "",
    "Line.parse_line": "",
    "SymbolTables.clear": "",
    "SymbolTables.enter_scope": "",
    "SymbolTables.exit_scope": "",
    "SymbolTables.remove": "",
    "SymbolTable.del_child": "",
    "FortranReaderBase.error": "",
}
_FP_FILE = os.path.join(os.path.dirname(os.path.abspath(__file__)), "block_fingerprints.json")


def _mirrored_functions():
    from fparser.two import utils, Fortran2003, C99Preprocessor, symbol_table
    from fparser.common import readfortran
    f3 = Fortran2003
    return {
        "Base.__new__": utils.Base.__dict__["__new__"],
        "Base.restore_reader": utils.Base.restore_reader,
        "BlockBase.match": utils.BlockBase.__dict__["match"],
        "BlockBase.restore_reader": utils.BlockBase.restore_reader,
        "Program.__new__": f3.Program.__dict__["__new__"],
        "Program.match": f3.Program.__dict__["match"],
        "Main_Program0.match": f3.Main_Program0.__dict__["match"],
        "Component_Part.match": f3.Component_Part.__dict__["match"],
        "Outer_Shared_Do_Construct.match": f3.Outer_Shared_Do_Construct.__dict__["match"],
        "Inner_Shared_Do_Construct.match": f3.Inner_Shared_Do_Construct.__dict__["match"],
        "Comment.__new__": f3.Comment.__dict__["__new__"],
        "Directive.__new__": f3.Directive.__dict__["__new__"],
        "match_comment_or_include": f3.match_comment_or_include,
        "add_comments_includes_directives": f3.add_comments_includes_directives,
        "match_cpp_directive": C99Preprocessor.match_cpp_directive,
        "Line.parse_line": readfortran.Line.parse_line,
        "SymbolTables.clear": symbol_table.SymbolTables.clear,
        "SymbolTables.enter_scope": symbol_table.SymbolTables.enter_scope,
        "SymbolTables.exit_scope": symbol_table.SymbolTables.exit_scope,
        "SymbolTables.remove": symbol_table.SymbolTables.remove,
        "SymbolTables.rollback": getattr(symbol_table.SymbolTables, "rollback", None),
        "SymbolTable.del_child": symbol_table.SymbolTable.del_child,
        "FortranReaderBase.error": readfortran.FortranReaderBase.error,
    }


def current_fingerprints():
    repo.activate()
    out = {}
    for k, fn in sorted(_mirrored_functions().items()):
        if fn is None:
            out[k] = "absent"
            continue
        if isinstance(fn, (staticmethod, classmethod)):
            fn = fn.__func__
        out[k] = _fingerprint(fn)
    return out


def check_fingerprints():
    """-> list of names of hand-mirrored functions whose AST differs from the recorded one
    (empty list: the mirror is of the code that is there)."""
    cur = current_fingerprints()
    if not os.path.exists(_FP_FILE):
        return sorted(cur)
    with open(_FP_FILE) as fh:
        ref = json.load(fh)
    return sorted(k for k in cur if ref.get(k) != cur[k])


# ----------------------------------------------------------------------------------------
class _Sentinel:
    pass


class _Probe(Exception):
    pass


def _record_block_args(cls, raise_probe=False):
    """Call `cls.match(reader)` with `BlockBase.match` replaced by a recorder.
    -> (list of recorded (args, kwargs), list of symbol-table calls, return value is sentinel?)"""
    from fparser.two import utils
    from fparser.two.symbol_table import SYMBOL_TABLES
    calls = []
    trace = []
    sentinel = _Sentinel()
    orig = utils.BlockBase.__dict__["match"]

    def recorder(*args, **kwargs):
        calls.append((args, kwargs))
        trace.append(("match",))
        if raise_probe:
            raise _Probe()
        return sentinel

    saved = {}
    for nm in ("enter_scope", "exit_scope", "remove"):
        saved[nm] = SYMBOL_TABLES.__dict__.get(nm, None)

        def mk(nm):
            def rec(*a, **k):
                trace.append((nm,) + tuple(x for x in a if isinstance(x, str)))
            return rec
        setattr(SYMBOL_TABLES, nm, mk(nm))
    utils.BlockBase.match = staticmethod(recorder)
    reader = object()
    try:
        try:
            res = cls.match(reader)
        except Exception as err:  # the class does more than delegate
            res = err
    finally:
        utils.BlockBase.match = orig
        for nm, val in saved.items():
            if val is None:
                delattr(SYMBOL_TABLES, nm)
            else:
                setattr(SYMBOL_TABLES, nm, val)
    return calls, trace, res is sentinel, reader


_SIG = ["startcls", "subclasses", "endcls", "reader", "match_labels", "match_names",
        "match_name_classes", "enable_do_label_construct_hook", "enable_if_construct_hook",
        "enable_where_construct_hook", "strict_order", "strict_match_names"]
_DEFAULTS = {"match_labels": False, "match_names": False, "match_name_classes": (),
             "enable_do_label_construct_hook": False, "enable_if_construct_hook": False,
             "enable_where_construct_hook": False, "strict_order": False,
             "strict_match_names": False}


def _bind(args, kwargs):
    from fparser.two import utils
    sig = inspect.signature(utils.BlockBase.__dict__["match"].__func__)
    if list(sig.parameters) != _SIG:
        raise ExtractionError("BlockBase.match signature changed: %s" % list(sig.parameters))
    for k, v in _DEFAULTS.items():
        if sig.parameters[k].default != v:
            raise ExtractionError("BlockBase.match default of %s changed" % k)
    b = sig.bind(*args, **kwargs)
    b.apply_defaults()
    return dict(b.arguments)


def _list_literal_classes(fn, varname="cls"):
    """classes of the list literal iterated by `for cls in [A, B, C]:` in fn"""
    fn = getattr(fn, "__func__", fn)
    tree = ast.parse(textwrap.dedent(inspect.getsource(fn)))
    for node in ast.walk(tree):
        if isinstance(node, ast.For) and isinstance(node.iter, ast.List):
            return [fn.__globals__[e.id] for e in node.iter.elts]
    raise ExtractionError("no `for cls in [..]` in %s" % fn.__qualname__)


def _called_class(fn, exclude=()):
    """the single class called as `X(reader)` in fn (Component_Part)"""
    fn = getattr(fn, "__func__", fn)
    tree = ast.parse(textwrap.dedent(inspect.getsource(fn)))
    found = []
    for node in ast.walk(tree):
        if isinstance(node, ast.Call) and isinstance(node.func, ast.Name) and len(node.args) == 1 \
                and isinstance(node.args[0], ast.Name) and node.args[0].id == "reader":
            obj = fn.__globals__.get(node.func.id)
            if inspect.isclass(obj):
                found.append(obj)
    if len(found) != 1:
        raise ExtractionError("expected one class call in %s, got %s" % (fn.__qualname__, found))
    return found[0]


def _quirks():
    """which variant of the repaired/unrepaired behaviours the working tree implements"""
    from fparser.two import utils, Fortran2003
    q = {}
    # Main_Program0.match: does an exception from BlockBase.match still leave the scope?
    _calls, trace, _is, _rd = _record_block_args(Fortran2003.Main_Program0, raise_probe=True)
    if trace == [("enter_scope", MAIN0_SCOPE), ("match",)]:
        q["main0Finally"] = False
    elif trace == [("enter_scope", MAIN0_SCOPE), ("match",), ("exit_scope",),
                   ("remove", MAIN0_SCOPE)]:
        q["main0Finally"] = True
    else:
        raise ExtractionError("Main_Program0.match exception path changed shape: %s" % (trace,))
    fn = utils.BlockBase.__dict__["match"].__func__
    tree = ast.parse(textwrap.dedent(inspect.getsource(fn)))
    handlers = []
    for node in ast.walk(tree):
        if isinstance(node, ast.ExceptHandler) and any(
                isinstance(c, ast.Call) and getattr(c.func, "attr", "") == "exit_scope"
                for c in ast.walk(node)):
            t = node.type
            names = [e.id for e in t.elts] if isinstance(t, ast.Tuple) else [t.id]
            handlers.append(sorted(names))
    if handlers == [["FortranSyntaxError"]]:
        q["catchInternalSyntax"] = False
    elif handlers == [["FortranSyntaxError", "InternalSyntaxError"]]:
        q["catchInternalSyntax"] = True
    else:
        raise ExtractionError("BlockBase.match clean-up handlers changed: %s" % handlers)
    # the trailing name check: the innermost `if` comparing the lower-cased names
    final_if = None
    for node in ast.walk(tree):
        if isinstance(node, ast.If) and isinstance(node.test, ast.Compare) and \
                "get_name" in ast.dump(node.test) and "lower" in ast.dump(node.test):
            final_if = node
    if final_if is None:
        raise ExtractionError("BlockBase.match: trailing name check not found")
    body = ast.Module(body=final_if.body, type_ignores=[])
    calls = [getattr(c.func, "attr", "") for c in ast.walk(body) if isinstance(c, ast.Call)]
    raises = [r for r in ast.walk(body) if isinstance(r, ast.Raise)]
    if "error" in calls and not raises:
        q["nameMismatchSyntax"] = False
        q["nameMismatchRemoves"] = False
    elif raises and "error" not in calls and "FortranSyntaxError" in ast.dump(raises[0]):
        q["nameMismatchSyntax"] = True
        q["nameMismatchRemoves"] = "remove" in calls
    else:
        raise ExtractionError("BlockBase.match: trailing name check changed shape")
    # the trailing name check: is `start_stmt.get_name() is None` handled?
    none_ifs = [n for n in ast.walk(ast.Module(body=[final_if] if False else tree.body, type_ignores=[]))
                if isinstance(n, ast.If) and isinstance(n.test, ast.Compare)
                and len(n.test.ops) == 1 and isinstance(n.test.ops[0], ast.Is)
                and "start_stmt" in ast.dump(n.test.left) and "get_name" in ast.dump(n.test.left)
                and isinstance(n.test.comparators[0], ast.Constant)
                and n.test.comparators[0].value is None]
    if not none_ifs:
        q["startNameNoneSyntax"] = False
    elif len(none_ifs) == 1:
        body2 = ast.Module(body=none_ifs[0].body, type_ignores=[])
        calls2 = [getattr(c.func, "attr", "") for c in ast.walk(body2) if isinstance(c, ast.Call)]
        raises2 = [r for r in ast.walk(body2) if isinstance(r, ast.Raise)]
        if len(raises2) == 1 and "FortranSyntaxError" in ast.dump(raises2[0]) and "remove" in calls2:
            q["startNameNoneSyntax"] = True
        else:
            raise ExtractionError("BlockBase.match: unnamed-start branch has an unmodelled shape")
    else:
        raise ExtractionError("BlockBase.match: several `start_stmt.get_name() is None` tests")
    # Program.match: is the NoMatchError of a program unit handled inside the loop?
    ptree = ast.parse(textwrap.dedent(inspect.getsource(
        Fortran2003.Program.__dict__["match"].__func__)))
    outer = [n for n in ast.walk(ptree) if isinstance(n, ast.Try)
             and any(isinstance(x, ast.While) for x in n.body)]
    if len(outer) != 1:
        raise ExtractionError("Program.match: no single try around the while loop")

    def hnames(tr):
        out = []
        for hd in tr.handlers:
            t = hd.type
            out += [e.id for e in t.elts] if isinstance(t, ast.Tuple) else [t.id]
        return sorted(out)
    loop = [x for x in outer[0].body if isinstance(x, ast.While)][0]
    inner = [n for n in ast.walk(loop) if isinstance(n, ast.Try)]
    if hnames(outer[0]) == ["NoMatchError", "StopIteration"] and not inner:
        q["programContinues"] = False
    elif hnames(outer[0]) == ["StopIteration"] and len(inner) == 1 and \
            hnames(inner[0]) == ["NoMatchError"]:
        hb = ast.Module(body=inner[0].handlers[0].body, type_ignores=[])
        calls3 = [getattr(c.func, "attr", "") for c in ast.walk(hb) if isinstance(c, ast.Call)]
        rets = [r for r in ast.walk(hb) if isinstance(r, ast.Return)]
        if "match" in calls3 and "extend" in calls3 and len(rets) == 1:
            q["programContinues"] = True
        else:
            raise ExtractionError("Program.match: NoMatchError handler has an unmodelled shape")
    else:
        raise ExtractionError("Program.match: unmodelled exception structure")
    # Program.__new__: snapshot/rollback of the symbol tables on failure
    ntree = ast.parse(textwrap.dedent(inspect.getsource(
        getattr(Fortran2003.Program.__dict__["__new__"], "__wrapped__",
                Fortran2003.Program.__dict__["__new__"]))))
    ncalls = [getattr(c.func, "attr", "") for c in ast.walk(ntree) if isinstance(c, ast.Call)]
    handlers_n = [hd for hd in ast.walk(ntree) if isinstance(hd, ast.ExceptHandler)]
    if "rollback" not in ncalls and "snapshot" not in ncalls:
        q["programRollback"] = False
    elif ncalls.count("snapshot") == 1 and handlers_n and all(
            any(isinstance(c, ast.Call) and getattr(c.func, "attr", "") == "rollback"
                for c in ast.walk(hd)) for hd in handlers_n) and any(
            getattr(hd.type, "id", "") == "BaseException" for hd in handlers_n):
        from fparser.two.symbol_table import SymbolTables
        rb = ast.dump(ast.parse(textwrap.dedent(inspect.getsource(SymbolTables.rollback))))
        if "_current_scope" not in rb or "_symbol_tables" not in rb:
            raise ExtractionError("SymbolTables.rollback has an unmodelled shape")
        q["programRollback"] = True
    else:
        raise ExtractionError("Program.__new__: snapshot/rollback used in an unmodelled way")
    # match_labels: END DO with a different label -> restore + return None?
    lab_ifs = [n for n in ast.walk(tree) if isinstance(n, ast.If) and isinstance(n.test, ast.Compare)
               and isinstance(n.test.left, ast.Name) and n.test.left.id == "start_label"
               and len(n.test.ops) == 1 and isinstance(n.test.ops[0], ast.NotEq)]
    if len(lab_ifs) != 1:
        raise ExtractionError("BlockBase.match: `if start_label != end_label` not found")
    lb = lab_ifs[0].body
    if len(lb) == 1 and isinstance(lb[0], ast.Continue):
        q["endDoLabelMismatchFails"] = False
    elif len(lb) == 2 and isinstance(lb[0], ast.If) and isinstance(lb[1], ast.Continue) \
            and "End_Do_Stmt" in ast.dump(lb[0].test) and "isinstance" in ast.dump(lb[0].test) \
            and any(isinstance(x, ast.Return) for x in lb[0].body) \
            and "restore_reader" in ast.dump(ast.Module(body=lb[0].body, type_ignores=[])):
        q["endDoLabelMismatchFails"] = True
    else:
        raise ExtractionError("BlockBase.match: label-mismatch branch has an unmodelled shape")
    # the name tests at the end statement of a match_labels block (labelled DO + END DO)
    assigns = [n for n in ast.walk(tree) if isinstance(n, ast.Assign)
               and any(isinstance(t, ast.Name) and t.id == "end_do_names" for t in n.targets)]
    uses = [n for n in ast.walk(tree) if isinstance(n, ast.Name) and n.id == "end_do_names"
            and isinstance(n.ctx, ast.Load)]
    if not assigns and not uses:
        q["labelDoEndNames"] = False
    elif len(assigns) == 1 and len(uses) == 2:
        d = ast.dump(assigns[0].value)
        ok = all(k in d for k in ("match_labels", "match_names", "get_end_name", "get_start_name"))
        if not ok:
            raise ExtractionError("BlockBase.match: end_do_names has an unmodelled definition")
        q["labelDoEndNames"] = True
    else:
        raise ExtractionError("BlockBase.match: end_do_names used in an unmodelled way")
    # the same-label DO hook: does it skip leading comments first?
    hook_ifs = [n for n in ast.walk(tree) if isinstance(n, ast.If)
                and isinstance(n.test, ast.Name) and n.test.id == "enable_do_label_construct_hook"]
    if len(hook_ifs) != 1:
        raise ExtractionError("BlockBase.match: DO-label hook not found")
    hbody = ast.Module(body=hook_ifs[0].body, type_ignores=[])
    hcalls = [getattr(c.func, "attr", getattr(c.func, "id", "")) for c in ast.walk(hbody)
              if isinstance(c, ast.Call)]
    if "add_comments_includes_directives" not in hcalls:
        q["hookSkipsComments"] = False
    elif hcalls.count("add_comments_includes_directives") == 1 and "extend" in hcalls \
            and hcalls.count("restore_reader") == 2:
        q["hookSkipsComments"] = True
    else:
        raise ExtractionError("BlockBase.match: DO-label hook has an unmodelled shape: %s" % hcalls)
    # Outer/Inner_Shared_Do_Construct.match: restore on failure or not
    shapes = []
    for cls in (Fortran2003.Outer_Shared_Do_Construct, Fortran2003.Inner_Shared_Do_Construct):
        t2 = ast.parse(textwrap.dedent(inspect.getsource(cls.__dict__["match"].__func__)))
        restores = any(isinstance(c, ast.Call) and getattr(c.func, "attr", "") == "restore_reader"
                       for c in ast.walk(t2))
        catches = any(isinstance(hd, ast.ExceptHandler) and "NoMatchError" in ast.dump(hd.type)
                      for hd in ast.walk(t2) if isinstance(hd, ast.ExceptHandler))
        shapes.append((restores, catches))
    if shapes == [(False, False)] * 2:
        q["seqRestores"] = False
    elif shapes == [(True, True)] * 2:
        q["seqRestores"] = True
    else:
        raise ExtractionError("shared-DO match methods have an unmodelled shape: %s" % shapes)
    return q


# ----------------------------------------------------------------------------------------
def extract(std):
    """-> dict describing the reader-level class table of standard `std`"""
    repo.activate()
    from fparser.two.parser import ParserFactory
    from fparser.two import utils, Fortran2003, C99Preprocessor
    from fparser.two.utils import Base, BlockBase, ScopingRegionMixin
    ParserFactory().create(std=std)
    di = utils.di
    f3 = Fortran2003

    cpp_classes = [getattr(C99Preprocessor, n) for n in C99Preprocessor.CPP_CLASS_NAMES]
    specials = {
        "comment": f3.Comment, "directive": f3.Directive, "includeStmt": f3.Include_Stmt,
        "endDo": di.End_Do, "endDoStmt": di.End_Do_Stmt, "continueStmt": di.Continue_Stmt,
        "elseIf": di.Else_If_Stmt, "else_": di.Else_Stmt, "endIf": di.End_If_Stmt,
        "maskedElsewhere": di.Masked_Elsewhere_Stmt, "elsewhere": di.Elsewhere_Stmt,
        "endWhere": di.End_Where_Stmt,
    }
    if di.Comment is not f3.Comment or di.Directive is not f3.Directive or \
            di.Include_Stmt is not f3.Include_Stmt:
        raise ExtractionError("DynamicImport comment classes differ from Fortran2003's")
    label_do = [di.Label_Do_Stmt, di.Label_Do_Stmt_2008]

    info = {}      # class -> description dict (kind, neighbours as class objects)
    order = []

    def subs_of(cls):
        return list(Base.subclasses.get(cls.__name__, []))

    def describe(cls):
        d = {"subs": subs_of(cls)}
        own_new = "__new__" in cls.__dict__
        match = getattr(cls, "match", None)
        if cls is f3.Program:
            unit = _called_class(cls.__dict__["match"])
            calls, _trace, _is, _r = [], None, None, None
            d.update(kind="program", unit=unit, main0=f3.Main_Program0)
            if not own_new:
                raise ExtractionError("Program lost its __new__")
        elif cls is f3.Comment:
            d.update(kind="comment")
        elif cls is f3.Directive:
            d.update(kind="directive")
        elif own_new:
            raise ExtractionError("unexpected custom __new__ in %s" % cls.__name__)
        elif match is None:
            d.update(kind="alt")
        elif not issubclass(cls, BlockBase):
            d.update(kind="leaf")
        else:
            calls, trace, is_sentinel, reader = _record_block_args(cls)
            if cls is f3.Main_Program0:
                if len(calls) != 1 or not is_sentinel or trace != [
                        ("enter_scope", MAIN0_SCOPE), ("match",), ("exit_scope",)]:
                    # (a truthy result: exit, no remove — in both variants)
                    raise ExtractionError("Main_Program0.match changed shape: %s" % (trace,))
                d.update(kind="main0", cfg=_bind(*calls[0]), scope=MAIN0_SCOPE)
            elif len(calls) == 1 and is_sentinel and trace == [("match",)]:
                a = _bind(*calls[0])
                if a["reader"] is not reader:
                    raise ExtractionError("%s.match does not pass its reader" % cls.__name__)
                d.update(kind="block", cfg=a)
            elif cls.__name__ in ("Outer_Shared_Do_Construct", "Inner_Shared_Do_Construct"):
                d.update(kind="seqNR", cs=_list_literal_classes(cls.__dict__["match"]))
            elif cls.__name__ == "Component_Part":
                d.update(kind="many", item=_called_class(cls.__dict__["match"]))
            else:
                raise ExtractionError("cannot classify %s.match (calls=%d)" % (
                    cls.__name__, len(calls)))
        return d

    def neighbours(d):
        out = list(d["subs"])
        k = d["kind"]
        if k in ("block", "main0"):
            a = d["cfg"]
            if a["startcls"] is not None:
                out.append(a["startcls"])
            out += list(a["subclasses"])
            if a["endcls"] is not None:
                out.append(a["endcls"])
                out += list(a["endcls"].subclasses[a["endcls"].__name__])
            mnc = a["match_name_classes"]
            out += list(mnc) if isinstance(mnc, (tuple, list)) else [mnc]
        elif k == "program":
            out += [d["unit"], d["main0"]]
        elif k == "seqNR":
            out += d["cs"]
        elif k == "many":
            out.append(d["item"])
        return out

    work = [f3.Program] + list(specials.values()) + cpp_classes + label_do
    while work:
        cls = work.pop(0)
        if cls in info:
            continue
        info[cls] = describe(cls)
        order.append(cls)
        for n in neighbours(info[cls]):
            if n not in info:
                work.append(n)

    # keys and ids
    byname = {}
    for cls in order:
        byname.setdefault(cls.__name__, []).append(cls)

    def key(cls):
        if len(byname[cls.__name__]) == 1:
            return cls.__name__
        return "%s@%s" % (cls.__name__, cls.__module__.split(".")[-1])
    keys = sorted([key(c) for c in order] + [CPP_KEY])
    ids = {k: i for i, k in enumerate(keys)}
    cid = {cls: ids[key(cls)] for cls in order}

    def cl(x):
        return [cid[c] for c in x]

    accessor_names = ["get_start_label", "get_end_label", "get_start_name", "get_end_name",
                      "get_name"]
    classes = [None] * len(keys)
    for cls in order:
        d = info[cls]
        e = {"id": cid[cls], "key": key(cls), "name": cls.__name__, "module": cls.__module__,
             "kind": d["kind"], "subs": cl(d["subs"]),
             "isa": sorted(cid[b] for b in cls.__mro__ if b in cid),
             "scoping": issubclass(cls, ScopingRegionMixin)}
        if d["kind"] not in ("leaf", "alt"):
            # these classes are instantiated by the model itself: they must carry no
            # attribute the block matcher reads
            bad = [a for a in accessor_names if hasattr(cls, a)]
            if bad or e["scoping"]:
                raise ExtractionError("non-leaf class %s has %s / scoping=%s" % (
                    cls.__name__, bad, e["scoping"]))
        if d["kind"] in ("block", "main0"):
            a = d["cfg"]
            mnc = a["match_name_classes"]
            mnc = list(mnc) if isinstance(mnc, (tuple, list)) else [mnc]
            endall = []
            if a["endcls"] is not None:
                endall = [a["endcls"]] + list(a["endcls"].subclasses[a["endcls"].__name__])
            e["cfg"] = {
                "start": None if a["startcls"] is None else cid[a["startcls"]],
                "subs": cl(a["subclasses"]),
                "end": None if a["endcls"] is None else cid[a["endcls"]],
                "endAll": cl(endall),
                "matchLabels": bool(a["match_labels"]), "matchNames": bool(a["match_names"]),
                "nameClasses": cl(mnc),
                "doHook": bool(a["enable_do_label_construct_hook"]),
                "ifHook": bool(a["enable_if_construct_hook"]),
                "whereHook": bool(a["enable_where_construct_hook"]),
                "strictOrder": bool(a["strict_order"]),
                "strictNames": bool(a["strict_match_names"]),
                "startScoping": (a["startcls"] is not None
                                 and issubclass(a["startcls"], ScopingRegionMixin)),
            }
        if d["kind"] == "main0":
            e["scope"] = d["scope"]
        if d["kind"] == "program":
            e["unit"] = cid[d["unit"]]
            e["main0"] = cid[d["main0"]]
        if d["kind"] == "seqNR":
            e["cs"] = cl(d["cs"])
        if d["kind"] == "many":
            e["item"] = cid[d["item"]]
        classes[cid[cls]] = e
    classes[ids[CPP_KEY]] = {"id": ids[CPP_KEY], "key": CPP_KEY, "name": CPP_KEY,
                             "module": "fparser.two.C99Preprocessor", "kind": "cpp",
                             "cs": cl(cpp_classes), "subs": [], "isa": [], "scoping": False}
    # reader-level leaf classes whose string-level alternatives could grow parent_cls
    leaf_with_subs = sorted(e["key"] for e in classes if e["kind"] == "leaf" and e["subs"])
    return {
        "std": std,
        "classes": classes,
        "program": cid[f3.Program],
        "specials": dict({k: cid[v] for k, v in specials.items()}, cppFn=ids[CPP_KEY]),
        "labelDo": sorted(set(cl(label_do))),
        "main0Scope": MAIN0_SCOPE,
        "leafWithSubs": leaf_with_subs,
        "quirks": _quirks(),
    }


# ----------------------------------------------------------------------------------------
def _lst(xs):
    return "[" + ", ".join(str(x) for x in xs) + "]"


def _opt(x):
    return "none" if x is None else "some %d" % x


def _b(x):
    return "true" if x else "false"


def _cfg(c):
    return ("{ start := %s, subs := %s, end_ := %s, endAll := %s, matchLabels := %s, "
            "matchNames := %s, nameClasses := %s, doHook := %s, ifHook := %s, whereHook := %s, "
            "strictOrder := %s, strictNames := %s }") % (
        _opt(c["start"]), _lst(c["subs"]), _opt(c["end"]), _lst(c["endAll"]),
        _b(c["matchLabels"]), _b(c["matchNames"]), _lst(c["nameClasses"]), _b(c["doHook"]),
        _b(c["ifHook"]), _b(c["whereHook"]), _b(c["strictOrder"]), _b(c["strictNames"]))


def _kind(e):
    k = e["kind"]
    if k == "leaf":
        return ".leaf"
    if k == "alt":
        return ".alt %s" % _lst(e["subs"])
    if k == "block":
        return ".block %s %s" % (_cfg(e["cfg"]), _lst(e["subs"]))
    if k == "many":
        return ".many %d %s" % (e["item"], _lst(e["subs"]))
    if k == "seqNR":
        return ".seqNR %s %s" % (_lst(e["cs"]), _lst(e["subs"]))
    if k == "main0":
        return ".main0 %s mainScope %s" % (_cfg(e["cfg"]), _lst(e["subs"]))
    if k == "program":
        return ".program %d %d %s" % (e["unit"], e["main0"], _lst(e["subs"]))
    if k == "comment":
        return ".comment"
    if k == "directive":
        return ".directive"
    if k == "cpp":
        return ".cpp %s" % _lst(e["cs"])
    raise ExtractionError(k)


def render_lean(t):
    tag = STD_TAG[t["std"]]
    ns = "Fp.Block.Generated.F%s" % tag
    L = []
    L.append("import FparserModel.Block")
    L.append("/-! GENERATED by fv/extract_block.py from the fparser working tree (std=%s). "
             "Do not edit. -/" % t["std"])
    L.append("namespace %s" % ns)
    L.append("open Fp.Block")
    L.append("")
    L.append("/-- interned id of the scope name \"%s\" (fixed by the harness) -/" % t["main0Scope"])
    L.append("def mainScope : Name := 1")
    L.append("")
    L.append("def names : Array String := #[")
    L.append(",\n".join('  "%s"' % e["key"] for e in t["classes"]))
    L.append("]")
    L.append("")
    L.append("/-- the classes that are not plain leaves -/")
    L.append("def nonLeaf : List (Cls × Kind) := [")
    rows = ["  (%d, %s) -- %s" % (e["id"], _kind(e), e["key"])
            for e in t["classes"] if e["kind"] != "leaf"]
    # comma placement before the comment
    rows2 = []
    nl = [e for e in t["classes"] if e["kind"] != "leaf"]
    for i, e in enumerate(nl):
        sep = "," if i + 1 < len(nl) else ""
        rows2.append("  (%d, %s)%s -- %s" % (e["id"], _kind(e), sep, e["key"]))
    L.append("\n".join(rows2))
    L.append("]")
    L.append("")
    L.append("def nonLeafIsa : List (Cls × List Cls) := [")
    L.append(",\n".join("  (%d, %s)" % (e["id"], _lst(e["isa"])) for e in nl))
    L.append("]")
    L.append("")
    L.append("def kinds : Array Kind :=")
    L.append("  nonLeaf.foldl (fun a p => a.setIfInBounds p.1 p.2) (Array.replicate %d Kind.leaf)"
             % len(t["classes"]))
    L.append("def isas : Array (List Cls) :=")
    L.append("  nonLeafIsa.foldl (fun a p => a.setIfInBounds p.1 p.2) (Array.replicate %d [])"
             % len(t["classes"]))
    L.append("")
    sp = t["specials"]
    L.append("def table : Table :=")
    L.append("  { kind := fun c => kinds.getD c .leaf")
    L.append("    isa := fun c => isas.getD c []")
    for k in ["comment", "directive", "includeStmt", "cppFn"]:
        L.append("    %s := %d" % (k, sp[k]))
    L.append("    labelDo := %s" % _lst(t["labelDo"]))
    for k in ["endDo", "endDoStmt", "continueStmt", "elseIf", "else_", "endIf",
              "maskedElsewhere", "elsewhere", "endWhere"]:
        L.append("    %s := %d" % (k, sp[k]))
    q = t["quirks"]
    L.append("    quirks := { %s }" % ", ".join(
        "%s := %s" % (k, _b(q[k])) for k in ["main0Finally", "catchInternalSyntax",
                                             "nameMismatchSyntax", "nameMismatchRemoves",
                                             "seqRestores", "startNameNoneSyntax",
                                             "programContinues", "programRollback",
                                             "hookSkipsComments", "endDoLabelMismatchFails",
                                             "labelDoEndNames"]))
    L.append("  }")
    L.append("")
    L.append("def program : Cls := %d" % t["program"])
    L.append("")
    L.append("end %s" % ns)
    return "\n".join(L) + "\n"


def _write_if_changed(path, text):
    if os.path.exists(path):
        with open(path) as fh:
            if fh.read() == text:
                return False
    os.makedirs(os.path.dirname(path), exist_ok=True)
    tmp = path + ".tmp"
    with open(tmp, "w") as fh:
        fh.write(text)
    os.replace(tmp, path)
    return True


def generate(outdir=None):
    """Write the Lean tables and their JSON twins into `outdir`
    (default lean/FparserModel/Generated).  -> list of files that changed."""
    outdir = outdir or GEN_DIR
    changed = []
    for std in ("f2003", "f2008"):
        t = extract(std)
        tag = STD_TAG[std]
        if _write_if_changed(os.path.join(outdir, "Blocks%s.lean" % tag), render_lean(t)):
            changed.append("Blocks%s.lean" % tag)
        js = json.dumps(t, indent=1, sort_keys=True) + "\n"
        if _write_if_changed(os.path.join(outdir, "blocks_%s.json" % std), js):
            changed.append("blocks_%s.json" % std)
    return changed


_tables = {}


def load_table(std, outdir=None):
    """the JSON twin (regenerated in memory from the live code if the file is missing)"""
    if std not in _tables:
        path = os.path.join(outdir or GEN_DIR, "blocks_%s.json" % std)
        if os.path.exists(path):
            with open(path) as fh:
                _tables[std] = json.load(fh)
        else:
            _tables[std] = extract(std)
    return _tables[std]


def main(argv=None):
    argv = sys.argv[1:] if argv is None else argv
    if argv and argv[0] == "--record-fingerprints":
        with open(_FP_FILE, "w") as fh:
            json.dump(current_fingerprints(), fh, indent=1, sort_keys=True)
            fh.write("\n")
        print("recorded", _FP_FILE)
        return 0
    outdir = argv[0] if argv else None
    changed = generate(outdir)
    print("extract_block: %s" % (", ".join(changed) if changed else "no change"))
    diff = check_fingerprints()
    if diff:
        print("extract_block: hand-mirrored functions changed shape: %s" % ", ".join(diff))
    return 0


if __name__ == "__main__":
    sys.exit(main())
