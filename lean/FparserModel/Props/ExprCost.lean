import FparserModel.Proofs.ExprCost

/-!
# Property C20 — cost of the expression parser (model M-C-cost)

`parseC` (`FparserModel/ExprCost.lean`) is the expression chain `parseF` of
`FparserModel/Expr.lean` instrumented with a counter of `Base.__new__` invocations for the 13
classes of the chain; `parseCalls k ts` is the number of such calls caused by `cls(string)`.

**FINDING F-C20-1.  The polynomial bound requested for C20,

    theorem parse_calls_le : ∃ c p, ∀ ts, parseCalls .expr ts ≤ c * (ts.length + 1) ^ p

is FALSE for the model and for the real code** (`parse_calls_not_polynomial` below is its formal
refutation).  The proved witness is the family of VALID expressions, inside the C03 boundary,

    V 0 = a,      V (d+1) = ( V d ) ** c + .y. b          (7·d + 1 tokens)

which costs exactly `64·2^d − 51` calls in the model (`parse_calls_V_exact`); the real parser,
counting `Base.__new__` for all classes, makes 22, 203, 565, 1289, 2737, … 741217 calls for
d = 0..12, i.e. `T(d+1) = 2·T(d) + 159` (3.5 s at d = 12); restricted to the 13 chain classes it
makes 12, 69, 183, 411, 867, 1779 calls, `T(d+1) = 2·T(d) + 45`, which `chainCalls` reproduces
exactly (`chain_calls_table`).  Reason (`parse_calls_wrap_double`):
`Expr.match` splits at the right-most `.word.` (`.y.`), builds the rhs `b`, then fails on the
lhs `( G ) ** c +` only after the whole chain has been descended down to `Mult_Operand`, which
parses `( G )` *before* it looks at `c +`; after that failure `Level_2_Expr.match` splits at `+`
and parses `( G ) ** c` again.  Nothing is memoised, so each level of nesting doubles the work.
The same happens on invalid input (`parse_calls_invalid_double`).

What IS true for all inputs: the exponential bound `parse_calls_le_exp`; plain nesting
`((…(a)…))` is linear (`parse_calls_paren_nest_linear`).
-/
namespace Fp.Expr

/-! ## the instrumented twin is the parser -/

/-- the counter does not disturb the result -/
theorem parseC_fst_eq (n : Nat) (k : Lv) (ts : List T) : (parseC n k ts).1 = parseF n k ts :=
  parseC_fst n k ts

/-- result and count of the fuel-free twin -/
theorem pc_spec (k : Lv) (ts : List T) : pc k ts = (parse k ts, parseCalls k ts) :=
  Prod.ext (pc_fst k ts) rfl

/-- the built-in fuel is enough for the count too: more fuel changes neither result nor count -/
theorem parseC_fuel_enough (k : Lv) (ts : List T) (n : Nat) (h : need k ts ≤ n) :
    parseC n k ts = (parse k ts, parseCalls k ts) := by
  rw [parseC_stable n (need k ts) k ts h (Nat.le_refl _)]
  exact pc_spec k ts

/-- The fuel-free recursion equation: the count of `cls(string)` is 1, plus the counts of the
nested constructor calls made by `cls.match` (themselves fuel-free), plus — when `match`
fails — the count of the subclass call. -/
theorem parseC_unfold (k : Lv) (ts : List T) :
    pc k ts =
      match matchStepC pc (rowOf k) ts with
      | (some e, c) => (some e, c + 1)
      | (none, c) =>
        match (rowOf k).next with
        | some k' => ((pc k' ts).1, c + 1 + (pc k' ts).2)
        | none => (none, c + 1) := pc_unfold k ts

/-! ## F-C20-1: the cost is exponential on valid input -/

/-- **The recurrence.** For every tree `G` (accepted by the parser or not) written with white
space between all tokens, `( G ) ** c + .y. b` costs more than twice what `G` costs. -/
theorem parse_calls_wrap_double (G : Ex) (hG : opsOK G) (hU : ∀ t ∈ render G, t.glued = false) :
    2 * parseCalls .expr (render G) + 43 ≤ parseCalls .expr (render (wrapV G)) :=
  cost_wrapV G hG hU

/-- … and exactly `2·T(G) + 51` when `G` is accepted -/
theorem parse_calls_wrap_exact (G : Ex) (hG : opsOK G) (hU : ∀ t ∈ render G, t.glued = false)
    (e : Ex) (h : parse .expr (render G) = some e) :
    parse .expr (render (wrapV G)) = some (wrapV e) ∧
    parseCalls .expr (render (wrapV G)) = 2 * parseCalls .expr (render G) + 51 := by
  have hP : pc .expr (render G) = (some e, parseCalls .expr (render G)) := by
    rw [pc_spec, h]
  have := exact_wrapV G hG hU hP
  rw [pc_spec] at this
  exact ⟨congrArg Prod.fst this, congrArg Prod.snd this⟩

/-- **Witness of F-C20-1.** `V d` is a derivation of the standard grammar, inside the C03
boundary, is parsed correctly, has `7d+1` tokens and costs at least `2^d` calls. -/
theorem parse_calls_exponential_witness : ∀ d,
    Derives .expr (V d) ∧ noDottedRightOfDefinedBinary (V d) = true ∧
    glueFree (render (V d)) = true ∧ parse .expr (render (V d)) = some (V d) ∧
    (render (V d)).length = 7 * d + 1 ∧ 2 ^ d ≤ parseCalls .expr (render (V d)) := by
  intro d
  have hd := derives_V d
  have hb := ndr_V d
  have hg := glueFree_of_unglued (unglued_V d)
  exact ⟨hd, hb, hg, complete hd hb hg, length_V d, cost_V d⟩

/-- the exact cost of the family -/
theorem parse_calls_V_exact (d : Nat) : parseCalls .expr (render (V d)) = 64 * 2 ^ d - 51 :=
  congrArg Prod.snd (exact_V d)

/-- the model really computes these numbers (a test of the theorem above, by evaluation) -/
theorem parse_calls_V_table :
    (List.range 8).map (fun d => parseCalls .expr (render (V d)))
      = [13, 77, 205, 461, 973, 1997, 4045, 8141] := by decide +kernel

/-- **Formal refutation of `parse_calls_le`**: no polynomial in the number of tokens bounds
the number of calls. -/
theorem parse_calls_not_polynomial :
    ¬ ∃ c p : Nat, ∀ ts : List T, parseCalls .expr ts ≤ c * (ts.length + 1) ^ p := by
  rintro ⟨c, p, h⟩
  obtain ⟨d, hd⟩ := exp_beats_poly c p
  have h1 := h (render (V d))
  rw [length_V d, (by omega : 7 * d + 1 + 1 = 7 * d + 2)] at h1
  have h2 := cost_V d
  have : parseCalls .expr (render (V d)) = (pc .expr (render (V d))).2 := rfl
  omega

/-! ## the same on invalid input -/

/-- `* b .eqv. a .or. ( G )` costs more than twice what `G` costs, whether `G` parses or not -/
theorem parse_calls_invalid_double (G : Ex) (hG : opsOK G) (hU : ∀ t ∈ render G, t.glued = false) :
    2 * parseCalls .expr (render G) + 24 ≤ parseCalls .expr (wrapBad (render G)) :=
  cost_wrapBad G hG hU

/-- rejected input of `7d+8` tokens costing at least `2^(d+1)` calls before `NoMatchError` -/
theorem parse_calls_invalid_exponential_witness : ∀ d,
    parse .expr (render (BadE (d+1))) = none ∧ (render (BadE (d+1))).length = 7 * d + 8 ∧
    render (BadE (d+1)) = wrapBad (render (BadE d)) ∧
    2 ^ (d+1) ≤ parseCalls .expr (render (BadE (d+1))) := by
  intro d
  refine ⟨?_, ?_, render_BadE d, cost_BadE (d+1)⟩
  · exact parse_mul_first_none .expr false _
  · rw [length_BadE]; omega

theorem parse_calls_invalid_table :
    (List.range 7).map (fun d => parseCalls .expr (render (BadE d)))
      = [13, 94, 232, 508, 1060, 2164, 4372] := by decide +kernel

/-! ## what is true: an exponential upper bound; linear cost of plain nesting -/

/-- **C20, weakened to what holds.** For every class and EVERY token list the number of calls
is finite and at most exponential in the number of tokens (crude: the true growth rate of the
families above is `2^(n/7)`). -/
theorem parse_calls_le_exp (k : Lv) (ts : List T) :
    parseCalls k ts ≤ (k.rank + 1) * 14 ^ ts.length := pc_le k ts

theorem parse_calls_expr_le_exp (ts : List T) : parseCalls .expr ts ≤ 13 * 14 ^ ts.length :=
  pc_le .expr ts

/-- a pair of parentheses costs exactly one descent of the chain (13 calls), for any content -/
theorem parse_calls_paren (G : Ex) (hG : opsOK G) :
    parseCalls .expr (render (.paren G)) = parseCalls .expr (render G) + 13 :=
  congrArg Prod.snd (pc_expr_paren G hG)

/-- the contrast: plain nesting `((…(a)…))` is linear -/
theorem parse_calls_paren_nest_linear (d : Nat) : parseCalls .expr (render (N d)) = 13 * d + 13 :=
  cost_N d

/-! ## the count restricted to the 13 chain classes, as the real class table produces it

The model counts the fall-through Level_1_Expr → Primary as a call; in the real
`Base.subclasses` table the alternatives of `Primary` are spliced into the list of
`Level_1_Expr` (see `parseR` in FparserModel/ExprCost.lean).  `chainCalls` leaves that count out
and reproduces the measured number of `Base.__new__` calls with `cls` among the 13 classes
EXACTLY on all inputs tried (tables below = measurements on the pinned tree). -/

/-- `parseR` is the same parser -/
theorem chain_calls_result (k : Lv) (ts : List T) : (parseR (need k ts) k ts).1 = parse k ts :=
  parseR_fst k ts

/-- the two counts differ by at most a factor two, for every class and token list -/
theorem chain_calls_sandwich (k : Lv) (ts : List T) :
    chainCalls k ts ≤ parseCalls k ts ∧ parseCalls k ts ≤ 2 * chainCalls k ts :=
  ⟨chainCalls_le k ts, parseCalls_le_two_chainCalls k ts⟩

/-- hence F-C20-1 holds for the chain-class count of the real table as well -/
theorem chain_calls_exponential_witness (d : Nat) : 2 ^ d ≤ 2 * chainCalls .expr (render (V d)) :=
  Nat.le_trans (cost_V d) (parseCalls_le_two_chainCalls .expr _)

/-- … and so does the upper bound -/
theorem chain_calls_le_exp (k : Lv) (ts : List T) : chainCalls k ts ≤ (k.rank + 1) * 14 ^ ts.length :=
  Nat.le_trans (chainCalls_le k ts) (pc_le k ts)

/-- the measured numbers of the real parser (chain classes only) -/
theorem chain_calls_table :
    (List.range 6).map (fun d => chainCalls .expr (render (V d))) = [12, 69, 183, 411, 867, 1779] ∧
    (List.range 4).map (fun d => chainCalls .expr (render (N d))) = [12, 24, 36, 48] ∧
    (List.range 5).map (fun d => chainCalls .expr (render (BadE d))) = [12, 86, 212, 464, 968] := by
  decide +kernel

/-! ## non-vacuity -/

/-- `a + b`: accepted; satisfies the hypotheses of the recurrence theorems -/
def gOk : Ex := .bin (.op .plus false) (.atom 1 false false) (.atom 2 false false)
/-- `* a`: rejected; still satisfies the hypotheses of `parse_calls_wrap_double` -/
def gBad : Ex := .un (.op .mul false) (.atom 1 false false)

example : opsOK gOk := ⟨rfl, trivial, trivial⟩
example : ∀ t ∈ render gOk, t.glued = false := by decide
example : parse .expr (render gOk) = some gOk := by decide
example : opsOK gBad := ⟨rfl, trivial⟩
example : ∀ t ∈ render gBad, t.glued = false := by decide
example : parse .expr (render gBad) = none := by decide
/-- the recurrences on the two instances, by evaluation -/
example : parseCalls .expr (render gOk) = 18 ∧ parseCalls .expr (render (wrapV gOk)) = 2 * 18 + 51 ∧
    parseCalls .expr (wrapBad (render gOk)) = 104 := by decide +kernel
example : parseCalls .expr (render gBad) = 13 ∧ parseCalls .expr (render (wrapV gBad)) = 93 ∧
    parseCalls .expr (wrapBad (render gBad)) = 70 := by decide +kernel
example : opsOK (V 2) := derives_opsOK (derives_V 2)
example : parseCalls .expr (render (.paren gBad)) = parseCalls .expr (render gBad) + 13 := by decide
example : need .expr (render gOk) ≤ 100 := by decide
example : parseC 100 .expr (render gOk) = (some gOk, 18) := by decide +kernel
/-- a fuel-0 call counts as one call -/
example : parseC 0 .expr (render gOk) = (none, 1) := rfl

#print axioms parseC_fst_eq
#print axioms pc_spec
#print axioms parseC_fuel_enough
#print axioms parseC_unfold
#print axioms parse_calls_wrap_double
#print axioms parse_calls_wrap_exact
#print axioms parse_calls_exponential_witness
#print axioms parse_calls_V_exact
#print axioms parse_calls_V_table
#print axioms parse_calls_not_polynomial
#print axioms parse_calls_invalid_double
#print axioms parse_calls_invalid_exponential_witness
#print axioms parse_calls_invalid_table
#print axioms parse_calls_le_exp
#print axioms parse_calls_expr_le_exp
#print axioms parse_calls_paren
#print axioms parse_calls_paren_nest_linear
#print axioms chain_calls_result
#print axioms chain_calls_sandwich
#print axioms chain_calls_exponential_witness
#print axioms chain_calls_le_exp
#print axioms chain_calls_table

end Fp.Expr
