"""Locate the fparser working tree under verification and make it importable.

FV_REPO (default /repo) lets the development-time mutation self-test point the whole
harness at a scratch worktree; registered commands never set it."""
import os
import sys

REPO = os.environ.get("FV_REPO", "/repo")
SRC = os.path.join(REPO, "src")


def activate():
    """Put REPO/src first on sys.path and make sure a previously imported fparser
    (from somewhere else) is not silently used."""
    if sys.path[0] != SRC:
        sys.path.insert(0, SRC)
    mod = sys.modules.get("fparser")
    if mod is not None and not os.path.abspath(mod.__file__).startswith(os.path.abspath(SRC)):
        raise RuntimeError("fparser already imported from %s, wanted %s" % (mod.__file__, SRC))
    os.environ["PYTHONPATH"] = SRC + os.pathsep + os.environ.get("PYTHONPATH", "")
    return SRC
