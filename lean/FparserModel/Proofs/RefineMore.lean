import FparserModel.Proofs.RefineSim
import FparserModel.Proofs.RefineBlock
import FparserModel.Proofs.RefineChunks

/-!
# RefineMore — glue lemmas for the end-to-end theorems of `Props/Refine.lean`
-/
namespace Fp.Refine
open Fp Fp.Reader

/-- items of one kind: filtering the abstract items and decoding = filtering the reader items -/
theorem absItems_filter_decode (dir : Item → Bool) (xs0 : List Item) (k : Block.ItemKind) :
    ∀ (ys : List Item) (n : Nat), (∀ j, ys[j]? = xs0[n + j]?) →
    ((absItems dir n ys).filter (fun a => decide (a.kind = k))).map (decode xs0) =
      (ys.filter (fun x => decide (absKind x = k))).map some
  | [], _, _ => rfl
  | y :: ys, n, h => by
    have ih := absItems_filter_decode dir xs0 k ys (n + 1) (fun j => by
      have := h (j + 1)
      simp only [List.getElem?_cons_succ] at this
      rw [this]; congr 1; omega)
    have h0 : xs0[n]? = some y := by
      have := h 0
      simp only [List.getElem?_cons_zero, Nat.add_zero] at this
      exact this.symm
    simp only [absItems, List.filter_cons]
    have hk : (absItem dir n y).kind = absKind y := rfl
    rw [hk]
    by_cases hc : absKind y = k
    · simp only [hc, decide_true, if_true, List.map_cons, ih]
      congr 1
    · simp only [hc, decide_false, Bool.false_eq_true, if_false, ih]

theorem absItems_filter_decode_all (dir : Item → Bool) (xs0 : List Item) (k : Block.ItemKind) :
    ((absItems dir 0 xs0).filter (fun a => decide (a.kind = k))).map (decode xs0) =
      (xs0.filter (fun x => decide (absKind x = k))).map some :=
  absItems_filter_decode dir xs0 k xs0 0 (fun j => by simp)

/-- a walk on the stream keeps "(items held, oldest first) ++ content" -/
theorem absWalk_all : ∀ (w : List Op) (s s' : Block.Stream) (held held' : List Block.Item),
    absWalk w s held = some (s', held') → held.reverse ++ s.all = held'.reverse ++ s'.all
  | [], s, s', held, held', h => by
    simp only [absWalk, Option.some.injEq, Prod.mk.injEq] at h
    obtain ⟨rfl, rfl⟩ := h; rfl
  | .g :: w, s, s', held, held', h => by
    unfold absWalk at h
    cases hg : s.get with
    | mk o s1 =>
      rw [hg] at h
      cases o with
      | none => simp at h
      | some a =>
        simp only [] at h
        have := absWalk_all w s1 s' (a :: held) held' h
        rw [← this, (Block.Stream.get_some hg).1]
        simp
  | .p :: w, s, s', [], held', h => by simp [absWalk] at h
  | .p :: w, s, s', a :: held, held', h => by
    simp only [absWalk] at h
    have := absWalk_all w (s.put a) s' held held' h
    rw [← this]
    simp [Block.Stream.put, Block.Stream.all]

theorem getLast_index {α} (a b : List α) (hb : b ≠ []) :
    (a ++ b)[a.length + b.length - 1]? = b.getLast? := by
  have hl : 1 ≤ b.length := by
    cases b with
    | nil => exact absurd rfl hb
    | cons _ _ => simp
  rw [List.getLast?_eq_getElem?, List.getElem?_append_right (by omega)]
  congr 1; omega

end Fp.Refine
