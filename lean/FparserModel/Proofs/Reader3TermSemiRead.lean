import FparserModel.Proofs.Reader3TermSemiLine
import FparserModel.Proofs.Reader3TermNext

/-!
# Reader3TermSemiRead — `Clean` through `get_source_item` and `_next`; `Clean r → NoSplit r`

A syntactic sufficient condition for (H2): when no pending line and no buffered `Line` item
contains the character `;`, no item of the whole run is ever split.
-/
namespace Fp.Reader
open Fp

theorem mkLine_ns {t : Str} {l : Option Nat} {n : Option Str} {s e : Nat} {x : Item}
    (h : mkLine t l n s e = .ok x) (ht : NS t) : ItemNS x := by
  unfold mkLine at h
  simp only [] at h
  split at h
  · cases h
  · cases h
    intro text l' n' s' e' hv
    simp only [Item.lineView, Option.some.injEq, Prod.mk.injEq] at hv
    rw [← hv.1]; exact ht.strip

theorem mkCpp_ns {t : Str} {s e : Nat} {x : Item} (h : mkCpp t s e = .ok x) (ht : NS t) : ItemNS x := by
  unfold mkCpp at h
  simp only [] at h
  split at h
  · cases h
  · cases h
    intro text l' n' s' e' hv
    simp only [Item.lineView, Option.some.injEq, Prod.mk.injEq] at hv
    rw [← hv.1]; exact ht.strip

theorem mkSynErr_ns {t : Str} {s e : Nat} {x : Item} (h : mkSynErr t s e = .ok x) (ht : NS t) :
    ItemNS x := by
  unfold mkSynErr at h
  simp only [] at h
  split at h
  · cases h
  · cases h
    intro text l' n' s' e' hv
    simp only [Item.lineView, Option.some.injEq, Prod.mk.injEq] at hv
    rw [← hv.1]; exact ht.strip

theorem cppLoop_clean : ∀ (fuel : Nat) (line acc : Str) (s : Nat) (r : Rd), Clean r → NS line → NS acc →
    CPost (cppLoop fuel line acc s r)
  | 0, _, _, _, r, h, _, _ => by simp only [cppLoop]; exact ⟨h, fun _ hx => by cases hx⟩
  | fuel + 1, line, acc, s, r, h, hl, ha => by
    unfold cppLoop
    simp only []
    split
    · have hg := getSingleLine_clean r h
      cases hq : getSingleLine r with
      | mk o r' =>
        rw [hq] at hg
        cases o with
        | none => exact ⟨hg.1, fun _ hx => by cases hx⟩
        | some l2 =>
          exact cppLoop_clean fuel l2 _ s r' hg.1 (hg.2 l2 rfl) (ha.append hl.rstrip.dropLast)
    · exact ⟨h, fun x hx => mkCpp_ns hx (ha.append hl)⟩

theorem freeLoop_clean (hadOmp : Bool) : ∀ (fuel : Nat) (line : Option Str) (started : Bool) (acc : Str)
    (q : Option Char) (label : Option Nat) (name : Option Str) (endl : Nat) (r : Rd),
    Clean r → NS acc → (∀ l, line = some l → NS l) →
    Clean (freeLoop hadOmp fuel line started acc q label name endl r).r ∧
    NS (freeLoop hadOmp fuel line started acc q label name endl r).acc
  | 0, _, _, _, _, _, _, _, r, h, ha, _ => by simp only [freeLoop]; exact ⟨h, ha⟩
  | fuel + 1, none, _, _, _, _, _, _, r, h, ha, _ => by simp only [freeLoop]; exact ⟨h, ha⟩
  | fuel + 1, some line0, started, acc, q, label, name, endl, r, h, ha, hl => by
    have hl0 : NS line0 := hl line0 rfl
    have hline : NS (if hadOmp = true then (replaceSentinelFreeCont line0).1 else line0) := by
      split
      · exact replaceSentinelFreeCont_ns line0 hl0
      · exact hl0
    unfold freeLoop
    simp only []
    generalize (if hadOmp = true then (replaceSentinelFreeCont line0).1 else line0) = line at hline
    split
    · have ha1 := h.append [Item.comment (lstrip line) r.linecount r.linecount false] (fun x hx => by
        simp only [List.mem_singleton] at hx; subst hx; exact ItemNS.comment _ _ _ _)
      generalize ({ r with fifo := r.fifo ++ [Item.comment (lstrip line) r.linecount r.linecount false] } : Rd) = r1
        at ha1 ⊢
      have hg := getSingleLine_clean r1 ha1
      exact freeLoop_clean hadOmp fuel _ started acc q label name endl _ hg.1 ha hg.2
    · split
      · have hg := getSingleLine_clean r h
        exact freeLoop_clean hadOmp fuel _ started acc q label name endl _ hg.1 ha hg.2
      · have hc := freeStep_ns started line r.linecount q label name hline
        generalize freeStep started line r.linecount q label name = stp at hc ⊢
        have ha1 := h.append stp.h.comments hc.2
        generalize ({ r with fifo := r.fifo ++ stp.h.comments } : Rd) = r1 at ha1 ⊢
        split
        · have hg := getSingleLine_clean r1 ha1
          exact freeLoop_clean hadOmp fuel _ true _ stp.h.q stp.label stp.name _ _ hg.1
            (ha.append hc.1) hg.2
        · exact ⟨ha1, ha.append hc.1⟩

theorem freeItem_clean (r : Rd) (line : Str) (hadOmp : Bool) (s : Nat) (h : Clean r) (hl : NS line) :
    CPost (freeItem r line hadOmp s) := by
  unfold freeItem
  have ho := freeLoop_clean hadOmp (r.src.length + r.filo.length + 2) (some line) false [] none none none
    r.linecount r h NS.nil (fun l hx => by simp only [Option.some.injEq] at hx; subst hx; exact hl)
  generalize freeLoop hadOmp (r.src.length + r.filo.length + 2) (some line) false [] none none none
    r.linecount r = o at ho
  simp only []
  split
  · refine ⟨ho.1, fun x hx => ?_⟩
    simp only [Res.ok.injEq] at hx; subst hx
    intro text l' n' s' e' hv
    simp only [Item.lineView, Option.some.injEq, Prod.mk.injEq] at hv
    rw [← hv.1]; exact ho.2.strip
  · split
    · exact ⟨ho.1, fun _ hx => by cases hx⟩
    · split
      · exact ⟨ho.1, fun _ hx => by split at hx <;> cases hx⟩
      · split
        · rename_i it rest hf
          have hd := ho.1.dropFifo it rest hf
          exact ⟨hd.1, fun x hx => by simp only [Res.ok.injEq] at hx; subst hx; exact hd.2⟩
        · exact ⟨ho.1, fun x hx => by
            simp only [Res.ok.injEq] at hx; subst hx; exact ItemNS.comment _ _ _ _⟩

theorem fixLoop_clean : ∀ (fuel : Nat) (nl : Option Str) (acc : Str) (qc : Option Char) (endl : Nat)
    (r : Rd), Clean r → NS acc →
    Clean (fixLoop fuel nl acc qc endl r).2.2 ∧ NS (fixLoop fuel nl acc qc endl r).1
  | 0, _, _, _, _, r, h, ha => by simp only [fixLoop]; exact ⟨h, ha⟩
  | fuel + 1, nl, acc, qc, endl, r, h, ha => by
    unfold fixLoop
    split
    · have hg := getSingleLine_clean r h
      cases hq : getSingleLine r with
      | mk o r1 =>
        rw [hq] at hg
        cases o with
        | none => exact ⟨hg.1, ha⟩
        | some line2 =>
          simp only []
          have hl2 : NS line2 := hg.2 line2 rfl
          split
          · have ha1 := hg.1.append [Item.comment line2 r1.linecount r1.linecount false] (fun x hx => by
              simp only [List.mem_singleton] at hx; subst hx; exact ItemNS.comment _ _ _ _)
            generalize ({ r1 with fifo := r1.fifo ++ [Item.comment line2 r1.linecount r1.linecount false] } : Rd) = r2
              at ha1 ⊢
            exact fixLoop_clean fuel _ acc qc endl _ (getNextLine_clean r2 ha1) ha
          · have hc := hic_ns (line2.drop 6) r1.linecount qc (hl2.drop 6)
            generalize handleInlineComment (line2.drop 6) r1.linecount qc = hh at hc ⊢
            have ha1 := hg.1.append hh.comments hc.2
            generalize ({ r1 with fifo := r1.fifo ++ hh.comments } : Rd) = r2 at ha1 ⊢
            exact fixLoop_clean fuel _ _ hh.q _ _ (getNextLine_clean r2 ha1) (ha.append hc.1)
    · exact ⟨h, ha⟩

theorem fixedItem_clean (r : Rd) (line : Str) (s : Nat) (h : Clean r) (hl : NS line) :
    CPost (fixedItem r line s) := by
  unfold fixedItem
  cases fixedLabel line with
  | none => exact ⟨h, fun _ hx => by cases hx⟩
  | some label =>
    simp only []
    have hnl := fixedName_ns line hl
    generalize fixedName line = nl at hnl
    by_cases c1 : strip (nl.2.drop 6) = []
    · simp only [c1, if_true]
      by_cases c2 : nl.1.isSome = true
      · simp only [c2, if_true]
        exact ⟨h, fun _ hx => by split at hx <;> cases hx⟩
      · simp only [c2]
        by_cases c3 : (label.isSome && warnRaises r) = true
        · simp only [c3, if_true]
          exact ⟨h, fun _ hx => by cases hx⟩
        · simp only [c3]
          exact ⟨h, fun x hx => by
            simp only [Bool.false_eq_true, if_false, Res.ok.injEq] at hx; subst hx
            exact ItemNS.comment _ _ _ _⟩
    · simp only [c1, if_false]
      have hc := hic_ns (nl.2.drop 6) s none (hnl.drop 6)
      generalize handleInlineComment (nl.2.drop 6) s none = hh at hc ⊢
      have ha1 := h.append hh.comments hc.2
      generalize ({ r with fifo := r.fifo ++ hh.comments } : Rd) = r1 at ha1 ⊢
      have hf := fixLoop_clean (r.src.length + r.filo.length + 2) (getNextLine r1).1 hh.line hh.q
        r.linecount (getNextLine r1).2 (getNextLine_clean r1 ha1) hc.1
      generalize fixLoop (r.src.length + r.filo.length + 2) (getNextLine r1).1 hh.line hh.q
        r.linecount (getNextLine r1).2 = out at hf ⊢
      exact ⟨hf.1, fun x hx => mkLine_ns hx hf.2⟩

theorem getSourceItem_clean (r : Rd) (h : Clean r) : CPost (getSourceItem r) := by
  unfold getSourceItem
  have hg := getSingleLine_clean r h
  cases hq : getSingleLine r with
  | mk o r1 =>
    rw [hq] at hg
    cases o with
    | none => exact ⟨hg.1, fun _ hx => by cases hx⟩
    | some line0 =>
      have hl0 : NS line0 := hg.2 line0 rfl
      have h1 : Clean r1 := hg.1
      simp only []
      by_cases c0 : (line0 != [] && startsWith (lstrip line0) ['#']) = true
      · simp only [c0, if_true]
        exact cppLoop_clean _ line0 [] _ r1 h1 hl0 NS.nil
      · simp only [c0]
        have hom : NS (if (r1.isFree && r1.omp) = true then replaceSentinelFree line0 else (line0, false)).1 := by
          split
          · exact replaceSentinelFree_ns line0 hl0
          · exact hl0
        generalize (if (r1.isFree && r1.omp) = true then replaceSentinelFree line0 else (line0, false)) = om
          at hom
        by_cases c1 : (!r1.isFree) = true
        · simp only [c1, if_true]
          by_cases c2 : isFixCommentS om.1 = true
          · simp only [c2, if_true]
            exact ⟨h1, fun x hx => by cases hx; exact ItemNS.comment _ _ _ _⟩
          · simp only [c2, Bool.false_eq_true, if_false]
            cases colCheck om.1 with
            | comment =>
              simp only []
              exact ⟨h1, fun x hx => by cases hx; exact ItemNS.comment _ _ _ _⟩
            | synerr =>
              simp only []
              exact ⟨h1.setFree true, fun x hx => mkSynErr_ns hx (hom.drop 6)⟩
            | switch =>
              simp only []
              exact freeItem_clean _ om.1 om.2 _ (h1.setFree true) hom
            | fine =>
              simp only []
              exact fixedItem_clean r1 om.1 _ h1 hom
        · simp only [c1, Bool.false_eq_true, if_false]
          exact freeItem_clean r1 om.1 om.2 _ h1 hom

theorem popOrRead_clean (r : Rd) (h : Clean r) : CPost (popOrRead r) := by
  unfold popOrRead
  cases hf : r.fifo with
  | nil => exact getSourceItem_clean r h
  | cons x f =>
    have hd := h.dropFifo x f hf
    exact ⟨hd.1, fun y hy => by cases hy; exact hd.2⟩

theorem nextRaw_clean : ∀ (n : Nat) (r : Rd), Clean r → CPost (nextRaw n r)
  | 0, r, h => ⟨h, fun _ hx => by cases hx⟩
  | n + 1, r, h => by
    unfold nextRaw
    have hp := popOrRead_clean r h
    generalize popOrRead r = p at hp ⊢
    simp only []
    cases h1 : p.1 with
    | ok it =>
      simp only []
      split
      · exact nextRaw_clean n p.2 hp.st
      · exact hp
    | stop => exact hp
    | err => exact hp
    | exit => exact hp
    | unsup => exact hp

theorem Clean.head {r : Rd} (h : Clean r) :
    ∀ it r', nextRaw (nextRawFuel r) r = (.ok it, r') → NoSemi it := fun it r' hn => by
  have hp := nextRaw_clean (nextRawFuel r) r h
  rw [hn] at hp
  exact (hp.item it rfl).noSemi

/-- `Clean` is preserved by `_next` -/
theorem Clean.step {r : Rd} (h : Clean r) : Clean (stepRd r) := by
  unfold stepRd
  rw [next1_eq_nextRaw r h.head]
  exact (nextRaw_clean (nextRawFuel r) r h).st

theorem Clean.iter {r : Rd} (h : Clean r) : ∀ k, Clean (iterRd k r)
  | 0 => h
  | k + 1 => by simp only [iterRd]; exact Clean.iter h.step k

/-- no `;` character anywhere pending ⇒ (H2) -/
theorem Clean.noSplit {r : Rd} (h : Clean r) : NoSplit r := fun k => (h.iter k).head

end Fp.Reader
