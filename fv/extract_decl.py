"""Translator for the Decl model (lean/FparserModel/Decl.lean): the hand-written `match` / `tostr`
of the specification-part classes of fparser.two.Fortran2003 (+ `Type_Declaration_StmtBase` and the
generic bases of fparser.two.utils, + `string_replace_map` of fparser.common.splitline).

`Decl.lean` mirrors these methods branch for branch BY HAND.  What can be read mechanically from the
LIVE classes of /repo (never re-typed here) is written to
`FparserModel/Generated/DeclTables.lean` (namespace `Fp.Decl.Gen`):

* `fingerprints`   sha1 (first 16 hex digits) of the NORMALISED source of every mirrored method:
                   `ast.dump(ast.parse(textwrap.dedent(inspect.getsource(fn))))` with the docstrings
                   removed - comment / docstring / blank-line / layout edits do not change it, every
                   edit of the code does;
* `tostrOwners`    for each mirrored class the method its `tostr` resolves to (`Char_Length` ->
                   `BracketBase.tostr`, `Save_Stmt` -> `WORDClsBase.tostr_a`, ...): a class that gains
                   its own `tostr` shows here;
* the constants the matches read: the alternatives of `pattern_tools.attr_spec`, the LIVE list
  `Fortran2003.Component_Attr_Spec.attributes` (read after Fortran2008 has been imported too, so
  that an in-place extension of an aliased list shows), the intent-spec and name patterns with their
  flags, `dollar_ok`, the literal regex of `Type_Declaration_StmtBase.match`.

The kernel obligations over the generated file are in `FparserModel/Proofs/DeclGenerated.lean`
(`pinnedFingerprints` etc.); a change of /repo makes one of them fail with a message naming the table.

    generate(outdir)                       outdir = the lean project dir or its FparserModel/Generated
    python -m fv.extract_decl [outdir]     writes the file, prints its path
    python -m fv.extract_decl --pin        prints the `pinnedFingerprints` / `pinnedTostrOwners` blocks for
                                           Proofs/DeclGenerated.lean (it does not edit any file)
    python -m fv.extract_decl --diff FILE  the entries that differ from the ones pinned in FILE
"""
import ast
import hashlib
import inspect
import os
import re
import sys
import textwrap

from fv import repo

# (module key, class name or None, attribute)  - order = order of the generated list
CLASSES = [
    "Type_Declaration_Stmt", "Data_Component_Def_Stmt", "Entity_Decl", "Component_Decl",
    "Initialization", "Component_Initialization", "Kind_Selector", "Char_Selector", "Length_Selector",
    "Char_Length", "Attr_Spec", "Component_Attr_Spec", "Intent_Spec", "Dimension_Attr_Spec",
    "Intent_Attr_Spec", "Implicit_Stmt", "Implicit_Spec", "Letter_Spec", "Data_Stmt", "Data_Stmt_Set",
    "Data_Implied_Do", "Data_Stmt_Value", "Dimension_Stmt", "Intent_Stmt", "Parameter_Stmt",
    "Named_Constant_Def", "Save_Stmt", "Saved_Entity", "Equivalence_Stmt", "Equivalence_Set",
    "Namelist_Stmt", "Common_Stmt",
]

# classes of Fortran2003 whose own `tostr` is mirrored (the others inherit one of the bases below)
OWN_TOSTR = [
    "Type_Declaration_Stmt", "Entity_Decl", "Component_Decl", "Initialization",
    "Component_Initialization", "Kind_Selector", "Char_Selector", "Length_Selector", "Implicit_Stmt",
    "Letter_Spec", "Data_Stmt", "Data_Stmt_Set", "Data_Implied_Do", "Data_Stmt_Value",
    "Dimension_Stmt", "Intent_Stmt", "Equivalence_Set", "Namelist_Stmt", "Common_Stmt",
]

METHODS = [("utils", "Type_Declaration_StmtBase", "match"), ("utils", "Type_Declaration_StmtBase", "tostr")]
for _c in CLASSES:
    METHODS.append(("Fortran2003", _c, "match"))
    if _c in OWN_TOSTR:
        METHODS.append(("Fortran2003", _c, "tostr"))
    if _c == "Type_Declaration_Stmt":       # the attr-spec-list class its `match` asks for
        METHODS.append(("Fortran2003", _c, "get_attr_spec_list_cls"))
METHODS += [
    ("utils", "CallBase", "tostr"), ("utils", "BracketBase", "tostr"),
    ("utils", "KeywordValueBase", "tostr"), ("utils", "WORDClsBase", "tostr"),
    ("utils", "WORDClsBase", "tostr_a"), ("utils", "SequenceBase", "match"),
    ("utils", "SequenceBase", "tostr"), ("utils", "STRINGBase", "match"), ("utils", "StringBase", "match"),
    ("splitline", None, "string_replace_map"), ("splitline", "StringReplaceDict", "__call__"),
]


def method_name(entry):
    mod, cls, meth = entry
    return ".".join(x for x in (mod, cls, meth) if x)


def load():
    """the live modules of REPO (fv.repo: FV_REPO, default /repo)"""
    repo.activate()
    from fparser.two import Fortran2003, utils, pattern_tools
    from fparser.common import splitline
    # the later standards are imported as well: a class body executed at import that extends a list
    # it shares with the Fortran2003 class (instead of a copy) must show in the tables
    import fparser.two.Fortran2008  # noqa: F401
    return {"Fortran2003": Fortran2003, "utils": utils, "pattern_tools": pattern_tools,
            "splitline": splitline}


# ---------------------------------------------------------------------------------------
# fingerprints
# ---------------------------------------------------------------------------------------
def _unwrap(obj):
    """the plain function behind a staticmethod / classmethod / memoising decorator"""
    seen = 0
    while seen < 8:
        seen += 1
        if isinstance(obj, (staticmethod, classmethod)):
            obj = obj.__func__
            continue
        if hasattr(obj, "__wrapped__"):
            obj = obj.__wrapped__
            continue
        # fparser.common.splitline.memoize does not use functools.wraps: the decorated function
        # is a cell of the wrapper's closure
        clo = getattr(obj, "__closure__", None)
        code = getattr(obj, "__code__", None)
        if clo and code is not None and code.co_name == "wrapper":
            inner = [c.cell_contents for c in clo if inspect.isfunction(c.cell_contents)]
            if len(inner) == 1:
                obj = inner[0]
                continue
        break
    return obj


def _strip_docstrings(tree):
    for node in ast.walk(tree):
        if isinstance(node, (ast.FunctionDef, ast.AsyncFunctionDef, ast.ClassDef, ast.Module)):
            body = node.body
            if (body and isinstance(body[0], ast.Expr) and isinstance(body[0].value, ast.Constant)
                    and isinstance(body[0].value.value, str)):
                del body[0]
                if not body:
                    body.append(ast.Pass())
    return tree


def normalised_source(fn):
    """layout-, comment- and docstring-insensitive text of a function (decorators included)"""
    src = textwrap.dedent(inspect.getsource(fn))
    return ast.dump(_strip_docstrings(ast.parse(src)))


def fetch(mods, entry):
    mod, cls, meth = entry
    owner = mods[mod] if cls is None else getattr(mods[mod], cls, None)
    if owner is None:
        return None
    raw = owner.__dict__.get(meth) if cls is not None else getattr(owner, meth, None)
    if raw is None:
        return None
    return _unwrap(raw)


def fingerprint(mods, entry):
    fn = fetch(mods, entry)
    if fn is None or not inspect.isfunction(fn):
        return "MISSING"
    try:
        text = normalised_source(fn)
    except (OSError, TypeError, SyntaxError) as e:      # no source available
        return "NOSOURCE:" + type(e).__name__
    return hashlib.sha1(text.encode("utf-8")).hexdigest()[:16]


def tostr_owner(mods, cname):
    """`Owner.attr` of the function that `cls.tostr` resolves to (by identity over the MRO)"""
    cls = getattr(mods["Fortran2003"], cname, None)
    if cls is None:
        return "MISSING"
    fn = _unwrap(inspect.getattr_static(cls, "tostr", None))
    if fn is None:
        return "MISSING"
    # the defining class is the LAST class of the MRO that holds this function
    # (`tostr = WORDClsBase.tostr_a` in a class body -> `WORDClsBase.tostr_a`)
    owner = None
    for k in reversed(cls.__mro__):
        for attr in sorted(k.__dict__):
            if _unwrap(k.__dict__[attr]) is fn:
                owner = "%s.%s" % (k.__name__, attr)
                break
        if owner:
            break
    return owner or "?"


# ---------------------------------------------------------------------------------------
# constants
# ---------------------------------------------------------------------------------------
def _flags(p):
    f = getattr(p, "_flags", None)
    if f is None:
        f = 0
    return bool(int(f) & int(re.I))


def alternation_words(pattern):
    """['A', 'B', ...] of a regex source of the exact form `(A|B|...)` of plain words"""
    m = re.fullmatch(r"\(([A-Za-z_]+(?:\|[A-Za-z_]+)*)\)", pattern)
    if not m:
        return ["?UNPARSED", pattern]
    return m.group(1).split("|")


def search_patterns(mods):
    """(patterns, all flags are re.I?) of the `re.search` calls of Type_Declaration_StmtBase.match"""
    fn = fetch(mods, ("utils", "Type_Declaration_StmtBase", "match"))
    pats, icase = [], True
    if fn is None:
        return ["?MISSING"], False
    tree = ast.parse(textwrap.dedent(inspect.getsource(fn)))
    for node in ast.walk(tree):
        if (isinstance(node, ast.Call) and isinstance(node.func, ast.Attribute)
                and node.func.attr == "search" and isinstance(node.func.value, ast.Name)
                and node.func.value.id == "re"):
            a0 = node.args[0] if node.args else None
            if isinstance(a0, ast.Constant) and isinstance(a0.value, str):
                pats.append(a0.value)
            else:
                pats.append("?NONLITERAL:" + ast.dump(a0) if a0 is not None else "?NOARG")
            fl = node.args[2] if len(node.args) > 2 else None
            for kw in node.keywords:
                if kw.arg == "flags":
                    fl = kw.value
            ok = (isinstance(fl, ast.Attribute) and isinstance(fl.value, ast.Name) and fl.value.id == "re"
                  and fl.attr in ("I", "IGNORECASE"))
            icase = icase and ok
    return pats, icase


def collect():
    mods = load()
    F, pt = mods["Fortran2003"], mods["pattern_tools"]
    t = {}
    t["fps"] = [(method_name(e), fingerprint(mods, e)) for e in METHODS]
    t["owners"] = [(c, tostr_owner(mods, c)) for c in CLASSES]
    t["attrSpecWords"] = alternation_words(pt.attr_spec.pattern)
    t["absAttrSpecPattern"] = pt.abs_attr_spec.pattern
    t["attrSpecFlagsIgnoreCase"] = _flags(pt.abs_attr_spec) and _flags(pt.attr_spec)
    attrs = F.Component_Attr_Spec.attributes
    t["componentAttrWords"] = [str(a) for a in attrs] if isinstance(attrs, (list, tuple)) else ["?NOTALIST", repr(attrs)]
    t["intentSpecPattern"] = pt.intent_spec.pattern
    t["absIntentSpecPattern"] = pt.abs_intent_spec.pattern
    t["intentSpecFlagsIgnoreCase"] = _flags(pt.abs_intent_spec) and _flags(pt.intent_spec)
    t["namePattern"] = pt.name.pattern
    t["nameFlagsIgnoreCase"] = _flags(pt.name)
    t["dollarOk"] = bool(pt.dollar_ok)
    pats, icase = search_patterns(mods)
    uniq = sorted(set(pats))
    t["typeDeclSearchCount"] = len(pats)
    t["typeDeclSearchPattern"] = uniq[0] if len(uniq) == 1 else "?MIXED:" + " | ".join(uniq)
    t["typeDeclSearchIgnoreCase"] = bool(pats) and icase
    raw_save = F.Save_Stmt.__dict__.get("tostr")
    t["saveStmtTostrIsTostrA"] = raw_save is not None and raw_save is mods["utils"].WORDClsBase.__dict__.get("tostr_a")
    return t


# ---------------------------------------------------------------------------------------
# rendering
# ---------------------------------------------------------------------------------------
def lean_str(s):
    out = ['"']
    for ch in s:
        if ch == "\\":
            out.append("\\\\")
        elif ch == '"':
            out.append('\\"')
        elif ch == "\n":
            out.append("\\n")
        elif ch == "\t":
            out.append("\\t")
        elif ch == "\r":
            out.append("\\r")
        elif 32 <= ord(ch) < 127:
            out.append(ch)
        else:
            out.append("\\u{%x}" % ord(ch))
    out.append('"')
    return "".join(out)


def lean_bool(b):
    return "true" if b else "false"


def lean_words(ws, indent="  ", width=96):
    lines, cur = [], indent
    for i, w in enumerate(ws):
        piece = lean_str(w) + ("," if i + 1 < len(ws) else "")
        if len(cur) + len(piece) + 1 > width and cur.strip():
            lines.append(cur.rstrip())
            cur = indent
        cur += piece + " "
    if cur.strip():
        lines.append(cur.rstrip())
    return "\n".join(lines)


def lean_pairs(name, pairs):
    L = ["def %s : List (String × String) := [" % name]
    L.append(",\n".join("  (%s, %s)" % (lean_str(a), lean_str(b)) for a, b in pairs))
    L.append("]")
    return L


def render(t):
    L = []
    L.append("import FparserModel.Decl")
    L.append("/-!")
    L.append("GENERATED by fv/extract_decl.py (python -m fv.extract_decl) - do not edit.")
    L.append("Read from the live classes of fparser.two.Fortran2003 / fparser.two.utils /")
    L.append("fparser.two.pattern_tools / fparser.common.splitline of the tree under verification:")
    L.append("fingerprints of the methods that FparserModel/Decl.lean mirrors by hand, and the constants")
    L.append("their `match` methods read.  The kernel obligations over this file are in")
    L.append("FparserModel/Proofs/DeclGenerated.lean.")
    L.append("-/")
    L.append("namespace Fp.Decl.Gen")
    L.append("")
    L.append("/-- the mirrored methods, in the order of `fingerprints` -/")
    L.append("def classMethods : List String := [")
    L.append(lean_words([a for a, _ in t["fps"]]))
    L.append("]")
    L.append("")
    L.append("/-- sha1 (first 16 hex digits) of the normalised source (AST dump without docstrings) -/")
    L += lean_pairs("fingerprints", t["fps"])
    L.append("")
    L.append("/-- the method that `cls.tostr` resolves to, for every mirrored class -/")
    L += lean_pairs("tostrOwners", t["owners"])
    L.append("")
    L.append("/-- `Fortran2003.Save_Stmt.tostr is WORDClsBase.tostr_a` -/")
    L.append("def saveStmtTostrIsTostrA : Bool := %s" % lean_bool(t["saveStmtTostrIsTostrA"]))
    L.append("")
    L.append("/-- the alternatives of `pattern_tools.attr_spec.pattern`, in order -/")
    L.append("def attrSpecWords : List String := [")
    L.append(lean_words(t["attrSpecWords"]))
    L.append("]")
    L.append("/-- `pattern_tools.abs_attr_spec.pattern` (what `Attr_Spec.match` hands to `STRINGBase.match`) -/")
    L.append("def absAttrSpecPattern : String := %s" % lean_str(t["absAttrSpecPattern"]))
    L.append("def attrSpecFlagsIgnoreCase : Bool := %s" % lean_bool(t["attrSpecFlagsIgnoreCase"]))
    L.append("")
    L.append("/-- the live list `Fortran2003.Component_Attr_Spec.attributes` (after `import fparser.two.Fortran2008`) -/")
    L.append("def componentAttrWords : List String := [")
    L.append(lean_words(t["componentAttrWords"]))
    L.append("]")
    L.append("")
    L.append("def intentSpecPattern : String := %s" % lean_str(t["intentSpecPattern"]))
    L.append("def absIntentSpecPattern : String := %s" % lean_str(t["absIntentSpecPattern"]))
    L.append("def intentSpecFlagsIgnoreCase : Bool := %s" % lean_bool(t["intentSpecFlagsIgnoreCase"]))
    L.append("")
    L.append("def namePattern : String := %s" % lean_str(t["namePattern"]))
    L.append("def nameFlagsIgnoreCase : Bool := %s" % lean_bool(t["nameFlagsIgnoreCase"]))
    L.append("def dollarOk : Bool := %s" % lean_bool(t["dollarOk"]))
    L.append("")
    L.append("/-- the literal regex of the `re.search` calls of `Type_Declaration_StmtBase.match` (all the same) -/")
    L.append("def typeDeclSearchPattern : String := %s" % lean_str(t["typeDeclSearchPattern"]))
    L.append("def typeDeclSearchCount : Nat := %d" % t["typeDeclSearchCount"])
    L.append("def typeDeclSearchIgnoreCase : Bool := %s" % lean_bool(t["typeDeclSearchIgnoreCase"]))
    L.append("")
    L.append("end Fp.Decl.Gen")
    return "\n".join(L) + "\n"


def target_dir(outdir=None):
    if outdir is None:
        return os.path.join(os.path.dirname(os.path.dirname(os.path.abspath(__file__))),
                            "lean", "FparserModel", "Generated")
    outdir = os.path.abspath(outdir)
    if os.path.basename(outdir) == "Generated":       # fv.common.run_extractors hands this one over
        return outdir
    return os.path.join(outdir, "FparserModel", "Generated")


def generate(outdir=None):
    """Write DeclTables.lean.  `outdir` = the lean project directory (the file goes to
    <outdir>/FparserModel/Generated) or that Generated directory itself; default: this tree's."""
    d = target_dir(outdir)
    os.makedirs(d, exist_ok=True)
    path = os.path.join(d, "DeclTables.lean")
    text = render(collect())
    old = None
    if os.path.exists(path):
        with open(path, encoding="utf-8") as f:
            old = f.read()
    if old != text:
        with open(path, "w", encoding="utf-8") as f:
            f.write(text)
    return path


def pin_text(t=None):
    t = t or collect()
    L = ["-- python %d.%d, %s" % (sys.version_info[0], sys.version_info[1], repo.SRC)]
    L += lean_pairs("pinnedFingerprints", t["fps"])
    L.append("")
    L += lean_pairs("pinnedTostrOwners", t["owners"])
    return "\n".join(L) + "\n"


_PAIR = re.compile(r'\(\s*"((?:[^"\\]|\\.)*)"\s*,\s*"((?:[^"\\]|\\.)*)"\s*\)')


def diff(path, t=None):
    """the (table, key, pinned, live) entries of `pinnedFingerprints` / `pinnedTostrOwners` in the
    Lean file `path` that differ from the live values"""
    t = t or collect()
    with open(path, encoding="utf-8") as f:
        text = f.read()
    out = []
    for defname, live in (("pinnedFingerprints", t["fps"]), ("pinnedTostrOwners", t["owners"])):
        m = re.search(r"def %s\b[^\[]*\[(.*?)\n\]" % defname, text, re.S)
        pinned = _PAIR.findall(m.group(1)) if m else []
        pd, ld = dict(pinned), dict(live)
        for k in [a for a, _ in pinned] + [a for a, _ in live if a not in pd]:
            if pd.get(k) != ld.get(k):
                out.append((defname, k, pd.get(k), ld.get(k)))
        if not out and [a for a, _ in pinned] != [a for a, _ in live]:
            out.append((defname, "<order>", None, None))
    return out


def main(argv=None):
    argv = list(sys.argv[1:] if argv is None else argv)
    if argv and argv[0] == "--pin":
        sys.stdout.write(pin_text())
        return 0
    if argv and argv[0] == "--diff":
        rows = diff(argv[1])
        for r in rows:
            print("%s  %s: pinned %s, live %s" % r)
        print("%d entries differ" % len(rows))
        return 1 if rows else 0
    print(generate(argv[0] if argv else None))
    return 0


if __name__ == "__main__":
    sys.exit(main())
