import FparserModel.Incl08
/-!
# Incl08Basic — the child-oracle extension `Sim` through `runSlots`, `Item.text`, the printers,
the keyword-table loop and the ordered choice.
-/
namespace Fp.Incl08
open Fp Fp.IoStmt

variable {N N' : Type} {ρ : ClassId → ClassId} {f : N → N'} {o : Oracle N} {o' : Oracle N'}

/-! ## slots -/

theorem runSlot_sim (h : Sim ρ f o o') (sl : Slot) (i : Item N) (hr : runSlot o sl = .ok i) :
    runSlot o' (Slot.ren ρ sl) = .ok (Item.map f i) := by
  cases sl with
  | none => simp [runSlot] at hr; subst hr; rfl
  | str s => simp [runSlot] at hr; subst hr; rfl
  | child c s =>
    simp only [runSlot] at hr
    cases hc : o.call c s with
    | ok n =>
      rw [hc] at hr; simp [Res.map] at hr; subst hr
      simp [Slot.ren, runSlot, h.call c s n hc, Res.map, Item.map]
    | noMatch => rw [hc] at hr; simp [Res.map] at hr
    | raises e => rw [hc] at hr; simp [Res.map] at hr
  | fail => simp [runSlot] at hr
  | raise e => simp [runSlot] at hr

theorem runSlots_sim (h : Sim ρ f o o') : ∀ (ss : List Slot) (items : List (Item N)),
    runSlots o ss = .ok items → runSlots o' (ss.map (Slot.ren ρ)) = .ok (items.map (Item.map f))
  | [], items, hr => by simp [runSlots] at hr; subst hr; rfl
  | s :: ss, items, hr => by
    simp only [runSlots] at hr
    cases h1 : runSlot o s with
    | ok i =>
      rw [h1] at hr
      cases h2 : runSlots o ss with
      | ok is =>
        rw [h2] at hr; simp at hr; subst hr
        simp [runSlots, runSlot_sim h s i h1, runSlots_sim h ss is h2]
      | noMatch => rw [h2] at hr; simp at hr
      | raises e => rw [h2] at hr; simp at hr
    | noMatch => rw [h1] at hr; simp at hr
    | raises e => rw [h1] at hr; simp at hr

theorem Slot.ren_id (sl : Slot) : Slot.ren id sl = sl := by cases sl <;> rfl

theorem map_ren_id (ss : List Slot) : ss.map (Slot.ren id) = ss := by
  induction ss with
  | nil => rfl
  | cons a t ih => simp [Slot.ren_id, ih]

theorem runSlots_sim_id (h : Sim id f o o') (ss : List Slot) (items : List (Item N))
    (hr : runSlots o ss = .ok items) : runSlots o' ss = .ok (items.map (Item.map f)) := by
  have := runSlots_sim h ss items hr
  rwa [map_ren_id] at this

/-- every rule whose `match` is a plan (child calls independent of the answers) followed by
    `runSlots`, and whose model does not depend on the standard -/
theorem plan_sim (h : Sim ρ f o o') (p : Res (List Slot)) (items : List (Item N))
    (hm : p.bind (runSlots o) = .ok items) :
    (p.map (List.map (Slot.ren ρ))).bind (runSlots o') = .ok (items.map (Item.map f)) := by
  cases p with
  | ok ss => simp only [Res.bind, Res.map] at hm ⊢; exact runSlots_sim h ss items hm
  | noMatch => simp [Res.bind] at hm
  | raises e => simp [Res.bind] at hm

theorem plan_sim_id (h : Sim id f o o') (p : Res (List Slot)) (items : List (Item N))
    (hm : p.bind (runSlots o) = .ok items) :
    p.bind (runSlots o') = .ok (items.map (Item.map f)) := by
  cases p with
  | ok ss => simp only [Res.bind] at hm ⊢; exact runSlots_sim_id h ss items hm
  | noMatch => simp [Res.bind] at hm
  | raises e => simp [Res.bind] at hm

theorem runSlots_append_none (ss : List Slot) (items : List (Item N))
    (hr : runSlots o ss = .ok items) : runSlots o (ss ++ [.none]) = .ok (items ++ [.none]) := by
  induction ss generalizing items with
  | nil => simp [runSlots] at hr; subst hr; simp [runSlots, runSlot]
  | cons s ss ih =>
    simp only [runSlots] at hr
    cases h1 : runSlot o s with
    | ok i =>
      rw [h1] at hr
      cases h2 : runSlots o ss with
      | ok is =>
        rw [h2] at hr; simp at hr; subst hr
        simp [runSlots, h1, ih is h2]
      | noMatch => rw [h2] at hr; simp at hr
      | raises e => rw [h2] at hr; simp at hr
    | noMatch => rw [h1] at hr; simp at hr
    | raises e => rw [h1] at hr; simp at hr

/-! ## printed text -/

theorem text_sim (h : Sim ρ f o o') (i : Item N) : (Item.map f i).text o' = i.text o := by
  cases i with
  | none => rfl
  | str s => rfl
  | node n => simp [Item.map, Item.text, h.str]
  | bare n => simp [Item.map, Item.text, h.rhsStr]
  | nodes ns => simp [Item.map, Item.text, List.map_map, Function.comp_def, h.str]

theorem kvStr_sim (h : Sim ρ f o o') (items : List (Item N)) :
    kvStr o' (items.map (Item.map f)) = kvStr o items := by
  match items with
  | [] => rfl
  | [a] => cases a <;> rfl
  | [a, b] =>
    have hb := text_sim h b
    have ha := text_sim h a
    simp only [List.map]
    generalize Item.map f b = b' at hb ⊢
    cases a <;> simp_all [kvStr, Item.map, Item.text]
  | a :: b :: c :: r => cases a <;> simp [kvStr, Item.map]

/-! ## keyword tables -/

theorem kvTable_append (o : Oracle N) (b : Bool) (t t' : List (Str × ClassId)) (s : Str) :
    kvTable o b (t ++ t') s = (match kvTable o b t s with
      | some r => some r
      | none => kvTable o b t' s) := by
  induction t with
  | nil => simp [kvTable]
  | cons r t ih =>
    obtain ⟨k, c⟩ := r
    simp only [List.cons_append, kvTable]
    cases hk : kvOne k c s with
    | none => simpa using ih
    | some sl =>
      simp only []
      cases hr : runSlots o sl with
      | ok items => simp
      | noMatch => cases b <;> simp [ih]
      | raises e => simp

/-- the keyword a row must carry to apply to the text -/
theorem kvOne_key {k : Str} {c : ClassId} {s : Str} {sl : List Slot} (h : kvOne k c s = some sl) :
    ∃ p, Combi.cutFirst '=' s = some p ∧ upper (strip p.1) = k := by
  unfold kvOne Combi.kvSplit at h
  cases hcut : Combi.cutFirst '=' s with
  | none =>
    rw [hcut] at h
    by_cases hc : s.contains '=' <;> simp at h
  | some p =>
    refine ⟨p, rfl, ?_⟩
    apply Classical.byContradiction
    intro hne
    rw [hcut] at h
    by_cases hc : s.contains '=' <;> simp [hne] at h

/-- two rows that both apply to a text carry the same keyword -/
theorem kvOne_excl {k k' : Str} {c c' : ClassId} {s : Str} {sl sl' : List Slot}
    (h : kvOne k c s = some sl) (h' : kvOne k' c' s = some sl') : k = k' := by
  obtain ⟨p, hp, hk⟩ := kvOne_key h
  obtain ⟨p', hp', hk'⟩ := kvOne_key h'
  rw [hp] at hp'; cases hp'; rw [← hk, ← hk']

/-- no row of the table applies to the text -/
def NoRow (t : List (Str × ClassId)) (s : Str) : Prop := ∀ r ∈ t, kvOne r.1 r.2 s = none

theorem kvTable_noRow (o : Oracle N) (b : Bool) (t : List (Str × ClassId)) (s : Str) (h : NoRow t s) :
    kvTable o b t s = none := by
  induction t with
  | nil => rfl
  | cons r t ih =>
    obtain ⟨k, c⟩ := r
    have h1 : kvOne k c s = none := h (k, c) (by simp)
    simp only [kvTable, h1]
    exact ih (fun r hr => h r (by simp [hr]))

/-- an accepted text was accepted by ONE row, and — when the keywords of the table are pairwise
    distinct — no other row applies to it -/
theorem kvTable_ok_row (o : Oracle N) (b : Bool) (t : List (Str × ClassId)) (s : Str)
    (items : List (Item N)) (hd : (t.map (·.1)).Nodup) (h : kvTable o b t s = some (.ok items)) :
    ∃ pre k c post sl, t = pre ++ (k, c) :: post ∧ NoRow pre s ∧ kvOne k c s = some sl
      ∧ runSlots o sl = .ok items := by
  induction t with
  | nil => simp [kvTable] at h
  | cons r t ih =>
    obtain ⟨k, c⟩ := r
    simp only [List.map_cons, List.nodup_cons] at hd
    simp only [kvTable] at h
    cases hk : kvOne k c s with
    | none =>
      rw [hk] at h
      obtain ⟨pre, k2, c2, post, sl, ht, hn, h1, h2⟩ := ih hd.2 h
      refine ⟨(k, c) :: pre, k2, c2, post, sl, by simp [ht], ?_, h1, h2⟩
      intro r hr
      rcases List.mem_cons.1 hr with rfl | hr
      · exact hk
      · exact hn r hr
    | some sl =>
      rw [hk] at h
      simp only [] at h
      cases hr : runSlots o sl with
      | ok its =>
        rw [hr] at h; simp at h; subst h
        exact ⟨[], k, c, t, sl, rfl, (fun r hr => by cases hr), hk, hr⟩
      | noMatch =>
        rw [hr] at h
        cases b with
        | false => simp at h
        | true =>
          simp at h
          obtain ⟨pre, k2, c2, post, sl2, ht, hn, h1, h2⟩ := ih hd.2 h
          have : k = k2 := kvOne_excl hk h1
          exfalso
          apply hd.1
          subst this
          rw [ht]; simp
      | raises e => rw [hr] at h; simp at h

/-- the keyword loop under an extended child oracle: same row, mapped items -/
theorem kvTable_sim (h : Sim id f o o') (b : Bool) (t : List (Str × ClassId)) (s : Str)
    (items : List (Item N)) (hd : (t.map (·.1)).Nodup) (hm : kvTable o b t s = some (.ok items)) :
    kvTable o' b t s = some (.ok (items.map (Item.map f))) := by
  obtain ⟨pre, k, c, post, sl, ht, hn, h1, h2⟩ := kvTable_ok_row o b t s items hd hm
  rw [ht, kvTable_append, kvTable_noRow o' b pre s hn]
  simp only [kvTable, h1, runSlots_sim_id h sl items h2]

/-! ## ordered choice -/

theorem choice_append_ok (o : Oracle N) (a b : List ClassId) (s : Str) (n : N)
    (h : choice o a s = .ok n) : choice o (a ++ b) s = .ok n := by
  induction a with
  | nil => simp [choice] at h
  | cons c cs ih =>
    simp only [List.cons_append, choice] at h ⊢
    cases hc : o.call c s with
    | ok m => rw [hc] at h; simpa using h
    | noMatch => rw [hc] at h; simpa using ih h
    | raises e => rw [hc] at h; simp at h

end Fp.Incl08
