import FparserModel.One

/-!
# Properties of fparser1's block nesting (`nest1`), every depth, no bound

* `fill_input`         — `fill` consumes exactly the lines it returns: content (flattened, in
                          print order) ++ rest = input (a put-back line is part of rest).  No
                          line is dropped, duplicated or reordered by the nesting.
* `nest1_print_stable` — C19 "same block structure", UNCONDITIONAL: if `nest1` accepts `ls`, the
                          statement list printed from the tree is `ls` again, and nesting it
                          again gives the same tree and flag.  Holds with shared DO labels and
                          when END lines are missing at end of input (the real code only warns).
* `fill_fuel` / `nest1_fuel` — `nest1` never fails for lack of fuel.
* `nest1_flatten`      — for every well-ended forest `t` (any depth / width), nesting the
                          flattened statement list gives back exactly `t`.
* `legacy_shared_label_dup_witness` — for the algorithm before the fix (`nest1Legacy`) the
                          statement is FALSE: `do 10 / do 10 / 10 continue` put the terminal
                          statement into both blocks, so the printed source had it twice
                          (and three times after the next round trip).
-/
namespace Fp.One
open Fp

theorem flatten_length (t : Forest) : (flatten t).length = t.size := by
  induction t with
  | nil => rfl
  | leaf l nx ih => simp [flatten, Forest.size, ih]
  | if1 l nx ih => simp [flatten, Forest.size, ih]
  | blk l kids nx ih1 ih2 => simp [flatten, Forest.size, ih1, ih2]

/-- The block content followed by the unread lines (a put-back line included) is the input:
    the nesting neither drops, duplicates nor reorders a line. -/
theorem fill_input (f : Nat) : ∀ (c : Ctx) (ls : List Line) (t : Forest) (rest : List Line)
    (s : Bool), fill f c ls = .ok (t, rest, s) → flatten t ++ rest = ls := by
  induction f with
  | zero => intro c ls t rest s h; simp [fill] at h
  | succ f ih =>
    intro c ls t rest s h
    cases ls with
    | nil =>
      simp [fill] at h
      obtain ⟨rfl, rfl, _⟩ := h
      rfl
    | cons l ls =>
      simp only [fill] at h
      split at h
      · -- shared label: the line is handed back
        simp at h
        obtain ⟨rfl, rfl, _⟩ := h
        simp [flatten]
      · split at h
        · -- valid END
          simp at h
          obtain ⟨rfl, rfl, _⟩ := h
          simp [flatten]
        · split at h
          · -- opener
            split at h
            · split at h
              · simp at h
              · rename_i kids rest1 s1 hk
                split at h
                · simp at h
                  obtain ⟨rfl, rfl, _⟩ := h
                  have := ih _ _ _ _ _ hk
                  simp [flatten, ← this]
                · split at h
                  · simp at h
                  · rename_i nx rest2 s2 hn
                    simp at h
                    obtain ⟨rfl, rfl, _⟩ := h
                    have h1 := ih _ _ _ _ _ hk
                    have h2 := ih _ _ _ _ _ hn
                    simp [flatten, ← h1, ← h2]
            · simp at h
          · -- single-line IF
            split at h
            · split at h
              · simp at h
                obtain ⟨rfl, rfl, _⟩ := h
                simp [flatten]
              · split at h
                · simp at h
                · rename_i nx rest2 s2 hn
                  simp at h
                  obtain ⟨rfl, rfl, _⟩ := h
                  have h2 := ih _ _ _ _ _ hn
                  simp [flatten, ← h2]
            · simp at h
          · -- simple statement
            split at h
            · split at h
              · simp at h
                obtain ⟨rfl, rfl, _⟩ := h
                simp [flatten]
              · split at h
                · simp at h
                · rename_i nx rest2 s2 hn
                  simp at h
                  obtain ⟨rfl, rfl, _⟩ := h
                  have h2 := ih _ _ _ _ _ hn
                  simp [flatten, ← h2]
            · simp at h
          · simp at h

/-! ### the top level only ends at end of input -/

theorem endValid_top {c : Ctx} (h : c.kind = .top) (l : Line) : endValid c l = false := by
  unfold endValid
  cases l.body with
  | cls k nm => cases k <;> simp [endMatch, h, isUnit]
  | _ => rfl

theorem hit_top {c : Ctx} (h : c.kind = .top) (l : Line) : hit c l = false := by
  simp [hit, h]

theorem shared_top {c : Ctx} (h : c.kind = .top) (l : Line) : shared c l = false := by
  simp [shared, hit_top h]

theorem fill_top_rest (f : Nat) : ∀ (c : Ctx) (ls : List Line) (t : Forest) (rest : List Line)
    (s : Bool), c.kind = .top → fill f c ls = .ok (t, rest, s) → rest = [] := by
  induction f with
  | zero => intro c ls t rest s _ h; simp [fill] at h
  | succ f ih =>
    intro c ls t rest s hc h
    cases ls with
    | nil => simp [fill] at h; exact h.2.1
    | cons l ls =>
      simp only [fill, endValid_top hc, hit_top hc, shared_top hc, Bool.false_eq_true, if_false] at h
      split at h
      · split at h
        · split at h
          · simp at h
          · split at h
            · simp at h
            · rename_i hn
              simp at h
              exact ih _ _ _ _ _ hc (h.2.1 ▸ hn)
        · simp at h
      · split at h
        · split at h
          · simp at h
          · rename_i hn
            simp at h
            exact ih _ _ _ _ _ hc (h.2.1 ▸ hn)
        · simp at h
      · split at h
        · split at h
          · simp at h
          · rename_i hn
            simp at h
            exact ih _ _ _ _ _ hc (h.2.1 ▸ hn)
        · simp at h
      · simp at h

/-- `nest1_print_stable` (C19, block structure), unconditional: every accepted source - shared
    DO labels, blocks closed only by end of input included - is reproduced line for line by
    printing the tree, and nests to the same tree (and the same put-back flag) again. -/
theorem nest1_print_stable (ls : List Line) (t : Forest) (s : Bool) (h : nest1 ls = .ok (t, s)) :
    flatten t = ls ∧ nest1 (flatten t) = .ok (t, s) := by
  have hl : flatten t = ls := by
    unfold nest1 at h
    split at h
    · simp at h
    · rename_i t' rest s' hf
      simp at h
      obtain ⟨rfl, rfl⟩ := h
      have hr := fill_top_rest _ _ _ _ _ _ rfl hf
      subst hr
      simpa using fill_input _ _ _ _ _ _ hf
  exact ⟨hl, by rw [hl]; exact h⟩

/-- the fuel of `nest1` is never the reason for an error -/
theorem fill_fuel (f : Nat) : ∀ (c : Ctx) (ls : List Line), ls.length < f →
    fill f c ls ≠ .error .fuel := by
  induction f with
  | zero => intro c ls h; omega
  | succ f ih =>
    intro c ls hlen
    cases ls with
    | nil => simp [fill]
    | cons l ls =>
      have hl : ls.length < f := by simp at hlen; omega
      have hrest : ∀ c' t r s, fill f c' ls = .ok (t, r, s) → r.length < f := by
        intro c' t r s h
        have := congrArg List.length (fill_input _ _ _ _ _ _ h)
        simp at this; omega
      simp only [fill]
      split
      · simp
      · split
        · simp
        · split
          · split
            · split
              · rename_i e he
                intro h; simp at h; subst h; exact ih _ _ hl he
              · rename_i kids rest s1 hk
                split
                · simp
                · split
                  · rename_i e he
                    intro h; simp at h; subst h
                    exact ih _ _ (hrest _ _ _ _ hk) he
                  · simp
            · simp
          · split
            · split
              · simp
              · split
                · rename_i e he
                  intro h; simp at h; subst h; exact ih _ _ hl he
                · simp
            · simp
          · split
            · split
              · simp
              · split
                · rename_i e he
                  intro h; simp at h; subst h; exact ih _ _ hl he
                · simp
            · simp
          · simp

theorem fuelFor_gt (ls : List Line) : ls.length < fuelFor ls := by
  unfold fuelFor
  have : ls.length + 1 ≤ (ls.length + 1) * (ls.length + 2) := Nat.le_mul_of_pos_right _ (by omega)
  omega

theorem nest1_fuel (ls : List Line) : nest1 ls ≠ .error .fuel := by
  unfold nest1
  split
  · rename_i e he
    intro h; simp at h; subst h
    exact fill_fuel _ _ _ (fuelFor_gt ls) he
  · simp

/-! ### nesting the flattened forest gives the forest back -/

theorem allowedOpen_ne_top {p k : Kind} (h : allowedOpen p k = true) : k ≠ .top := by
  cases p <;> cases k <;> simp_all [allowedOpen, isDeclConstruct, isExecConstruct, isSubprogram]

theorem isNil_eq {t : Forest} (h : t.isNil = true) : t = .nil := by
  cases t <;> simp_all [Forest.isNil]

theorem fill_flatten : ∀ (t : Forest) (f : Nat) (c : Ctx) (rest : List Line),
    wf c t = true → (c.kind = .top → rest = []) → t.size < f →
    fill f c (flatten t ++ rest) = .ok (t, rest, false) := by
  intro t
  induction t with
  | nil =>
    intro f c rest hw hr hf
    have hc : c.kind = .top := by simpa [wf] using hw
    cases f with
    | zero => omega
    | succ f => simp [flatten, hr hc, fill]
  | leaf l nx ih =>
    intro f c rest hw hr hf
    cases f with
    | zero => omega
    | succ f =>
      simp only [wf, Bool.and_eq_true, Bool.not_eq_true'] at hw
      obtain ⟨hsh, hw⟩ := hw
      simp only [flatten, List.cons_append, fill, hsh, Bool.false_eq_true, if_false]
      by_cases he : endValid c l = true
      · simp only [he, if_true] at hw ⊢
        rw [isNil_eq hw]; simp [flatten]
      · simp only [he, Bool.false_eq_true, if_false] at hw ⊢
        split at hw
        · rename_i cat hb
          simp only [Bool.and_eq_true] at hw
          simp only [hb, hw.1, if_true]
          by_cases hh : hit c l = true
          · simp only [hh, if_true] at hw ⊢
            rw [isNil_eq hw.2]; simp [flatten]
          · simp only [hh, Bool.false_eq_true, if_false] at hw ⊢
            rw [ih f c rest hw.2 hr (by simp [Forest.size] at hf; omega)]
        · simp at hw
  | if1 l nx ih =>
    intro f c rest hw hr hf
    cases f with
    | zero => omega
    | succ f =>
      simp only [wf, Bool.and_eq_true, Bool.not_eq_true', beq_iff_eq] at hw
      obtain ⟨⟨⟨⟨hsh, he⟩, hb⟩, ha⟩, hw⟩ := hw
      simp only [flatten, List.cons_append, fill, hsh, he, hb, ha, Bool.false_eq_true, if_false,
        if_true]
      by_cases hh : hit c l = true
      · simp only [hh, if_true] at hw ⊢
        rw [isNil_eq hw]; simp [flatten]
      · simp only [hh, Bool.false_eq_true, if_false] at hw ⊢
        rw [ih f c rest hw hr (by simp [Forest.size] at hf; omega)]
  | blk l kids nx ihk ihn =>
    intro f c rest hw hr hf
    cases f with
    | zero => omega
    | succ f =>
      simp only [wf, Bool.and_eq_true, Bool.not_eq_true'] at hw
      obtain ⟨⟨⟨hsh, he⟩, hm⟩, hw⟩ := hw
      simp only [Forest.size] at hf
      simp only [flatten, List.cons_append, fill, hsh, he, Bool.false_eq_true, if_false,
        List.append_assoc]
      split at hm
      · rename_i k name el hb
        simp only [Bool.and_eq_true] at hm
        simp only [hb, hm.1, if_true]
        have hk : (childCtx c k name el).kind = .top → flatten nx ++ rest = [] := by
          intro h; exact absurd h (allowedOpen_ne_top hm.1)
        rw [ihk f _ _ hm.2 hk (by omega)]
        by_cases hh : hit c l = true
        · simp only [hh, if_true] at hw ⊢
          rw [isNil_eq hw]; simp [flatten]
        · simp only [hh, Bool.false_eq_true, if_false] at hw ⊢
          rw [ihn f c rest hw hr (by omega)]
          simp
      · simp at hm

/-- `nest1_flatten`: for every well-ended forest (every depth, every mix of block kinds),
    nesting its flattened statement list gives back the forest. -/
theorem nest1_flatten (t : Forest) (h : WellEnded t) : nest1 (flatten t) = .ok (t, false) := by
  unfold nest1
  have := fill_flatten t (fuelFor (flatten t)) topCtx [] h (fun _ => rfl)
    (by have := fuelFor_gt (flatten t); rw [flatten_length] at this; exact this)
  simp only [List.append_nil] at this
  rw [this]

/-! ### non-vacuity and the defect witness -/

instance instDecEqExcept {ε α} [DecidableEq ε] [DecidableEq α] : DecidableEq (Except ε α)
  | .ok a, .ok b =>
    if h : a = b then isTrue (by rw [h]) else isFalse (by intro e; cases e; exact h rfl)
  | .error a, .error b =>
    if h : a = b then isTrue (by rw [h]) else isFalse (by intro e; cases e; exact h rfl)
  | .ok _, .error _ => isFalse (by intro e; cases e)
  | .error _, .ok _ => isFalse (by intro e; cases e)

def ln (id : Nat) (b : Body) (lab : Option Nat := none) : Line := { id := id, label := lab, body := b }

/-- subroutine s / if-then / x=1 / do 10 / 10 continue / end if / end subroutine s -/
def exForest : Forest :=
  .blk (ln 1 (.opn .subroutine "s".toList none))
    (.blk (ln 2 (.opn .ifthen [] none))
      (.leaf (ln 3 (.smp .assign))
        (.blk (ln 4 (.opn .do_ [] (some 10)))
          (.leaf (ln 5 (.smp .exec) (some 10)) .nil)
          (.leaf (ln 6 (.cls (some .ifthen) [])) .nil)))
      (.leaf (ln 7 (.cls (some .subroutine) "S".toList)) .nil))
    .nil

example : WellEnded exForest := by decide
example : nest1 (flatten exForest) = .ok (exForest, false) := nest1_flatten _ (by decide)
example : nest1 (flatten exForest) = .ok (exForest, false) := by decide

/-- a missing END at end of input is accepted (warning only) and is print-stable -/
example : nest1 [ln 1 (.opn .subroutine "s".toList none), ln 2 (.opn .ifthen [] none), ln 3 (.smp .assign)]
    = .ok (.blk (ln 1 (.opn .subroutine "s".toList none))
            (.blk (ln 2 (.opn .ifthen [] none)) (.leaf (ln 3 (.smp .assign)) .nil) .nil) .nil, false) := by
  decide

/-- mismatched END name / bare END inside IF: `AnalyzeError` -/
example : nest1 [ln 1 (.opn .subroutine "s".toList none), ln 2 (.cls (some .subroutine) "q".toList)]
    = .error (.nopattern 2 .subroutine) := by decide
example : nest1 [ln 1 (.opn .subroutine "s".toList none), ln 2 (.opn .ifthen [] none), ln 3 (.cls none [])]
    = .error (.nopattern 3 .ifthen) := by decide

def sharedSrc : List Line :=
  [ln 1 (.opn .do_ [] (some 10)), ln 2 (.opn .do_ [] (some 10)), ln 3 (.smp .assign),
   ln 4 (.smp .exec) (some 10)]

def treeOf (ls : List Line) : Forest :=
  match nest1 ls with
  | .ok (t, _) => t
  | .error _ => .nil

def treeOfLegacy (ls : List Line) : Forest :=
  match nest1Legacy ls with
  | .ok (t, _) => t
  | .error _ => .nil

/-- repaired behaviour (HEAD): `do 10 / do 10 / x=1 / 10 continue` - the inner loop holds
    `x=1` only, the CONTINUE is handed to the outer loop (flag = put-back happened), and the
    tree prints the four lines again. -/
example : nest1 sharedSrc =
    .ok (.blk (ln 1 (.opn .do_ [] (some 10)))
          (.blk (ln 2 (.opn .do_ [] (some 10))) (.leaf (ln 3 (.smp .assign)) .nil)
            (.leaf (ln 4 (.smp .exec) (some 10)) .nil))
          .nil, true) := by decide
example : flatten (treeOf sharedSrc) = sharedSrc ∧
    nest1 (flatten (treeOf sharedSrc)) = .ok (treeOf sharedSrc, true) :=
  nest1_print_stable sharedSrc _ true (by decide)

/-- three loops on one label, the terminal line closes all of them -/
example : nest1 (ln 0 (.opn .do_ [] (some 10)) :: sharedSrc) =
    .ok (.blk (ln 0 (.opn .do_ [] (some 10)))
          (.blk (ln 1 (.opn .do_ [] (some 10)))
            (.blk (ln 2 (.opn .do_ [] (some 10))) (.leaf (ln 3 (.smp .assign)) .nil) .nil)
            (.leaf (ln 4 (.smp .exec) (some 10)) .nil))
          .nil, true) := by decide

/-- the put-back flag really occurs with `false` too (non-vacuity of both values) -/
example : ∃ t, nest1 (flatten exForest) = .ok (t, false) := ⟨exForest, by decide⟩

/-- C19 defect of the algorithm BEFORE the fix (`fillLegacy`: `Do.process_subitem` put the
    shared terminal line back *and* added it): the tree of `do 10 / do 10 / x=1 / 10 continue`
    printed the CONTINUE twice, and three times after the next round trip.  The statement of
    `nest1_print_stable` is false for `nest1Legacy`. -/
theorem legacy_shared_label_dup_witness :
    ∃ t, nest1Legacy sharedSrc = .ok (t, true) ∧ flatten t ≠ sharedSrc
      ∧ (flatten t).length = sharedSrc.length + 1
      ∧ ∃ t2, nest1Legacy (flatten t) = .ok (t2, true)
          ∧ (flatten t2).length = sharedSrc.length + 2 :=
  ⟨treeOfLegacy sharedSrc, by decide, by decide, by decide,
    treeOfLegacy (flatten (treeOfLegacy sharedSrc)), by decide, by decide⟩

end Fp.One

