import FparserModel.ExprLex

/-! small facts about `strip` / `startsBlank` / `endsBlank` -/
namespace Fp.ExprLex
open Fp

def allBlank (s : Str) : Bool := s.all isSpace

theorem dropWhile_nil_iff : ∀ (s : Str), s.dropWhile isSpace = [] ↔ allBlank s = true
  | [] => by simp [allBlank]
  | c :: t => by
    have ih := dropWhile_nil_iff t
    simp only [List.dropWhile_cons, allBlank, List.all_cons, Bool.and_eq_true] at ih ⊢
    cases hc : isSpace c <;> simp [ih]

theorem lstrip_nil_iff (s : Str) : lstrip s = [] ↔ allBlank s = true := dropWhile_nil_iff s

theorem dropWhile_head : ∀ (s : Str) (c : Char) (t : Str), s.dropWhile isSpace = c :: t → isSpace c = false
  | [], _, _, h => by simp at h
  | a :: s, c, t, h => by
    simp only [List.dropWhile_cons] at h
    split at h
    · exact dropWhile_head s c t h
    · rename_i ha
      cases h
      simpa using ha

theorem rstrip_nil_iff (s : Str) : rstrip s = [] ↔ allBlank s = true := by
  simp only [rstrip, List.reverse_eq_nil_iff, dropWhile_nil_iff]
  simp [allBlank]

theorem strip_nil_iff (s : Str) : strip s = [] ↔ allBlank s = true := by
  constructor
  · intro h
    simp only [strip, lstrip] at h
    rw [dropWhile_nil_iff] at h
    -- rstrip s is all blank; but a non-empty rstrip ends with a non-blank
    by_cases hr : rstrip s = []
    · exact (rstrip_nil_iff s).mp hr
    · exfalso
      simp only [rstrip] at h hr
      cases hd : s.reverse.dropWhile isSpace with
      | nil => simp [hd] at hr
      | cons c t =>
        have hc := dropWhile_head _ c t hd
        rw [hd] at h
        simp [allBlank, hc] at h
  · intro h
    have : rstrip s = [] := (rstrip_nil_iff s).mpr h
    simp [strip, this, lstrip]

theorem strip_startsBlank (s : Str) : startsBlank (strip s) = false := by
  simp only [strip, lstrip]
  cases hd : (rstrip s).dropWhile isSpace with
  | nil => rfl
  | cons c t => exact dropWhile_head _ c t hd

theorem lstrip_of_not_startsBlank (s : Str) (h : startsBlank s = false) : lstrip s = s := by
  cases s with
  | nil => rfl
  | cons c t =>
    simp only [startsBlank] at h
    simp [lstrip, h]

theorem lstrip_strip (s : Str) : lstrip (strip s) = strip s :=
  lstrip_of_not_startsBlank _ (strip_startsBlank s)

theorem rstrip_strip_nil_iff (s : Str) : rstrip (strip s) = [] ↔ strip s = [] := by
  rw [rstrip_nil_iff]
  constructor
  · intro h
    cases hs : strip s with
    | nil => rfl
    | cons c t =>
      have := strip_startsBlank s
      rw [hs] at this h
      simp only [startsBlank] at this
      simp [allBlank, this] at h
  · intro h; rw [h]; rfl

theorem allBlank_append (a b : Str) : allBlank (a ++ b) = (allBlank a && allBlank b) := by
  simp [allBlank]

theorem allBlank_nil : allBlank [] = true := rfl

theorem not_allBlank_of_startsNB {s : Str} (hne : s ≠ []) (h : startsBlank s = false) : allBlank s = false := by
  cases s with
  | nil => exact absurd rfl hne
  | cons c t => simp only [startsBlank] at h; simp [allBlank, h]

theorem endsBlank_append {a b : Str} (hb : b ≠ []) : endsBlank (a ++ b) = endsBlank b := by
  simp only [endsBlank, List.getLast?_append]
  cases hl : b.getLast? with
  | none => simp [List.getLast?_eq_none_iff] at hl; exact absurd hl hb
  | some c => rfl

theorem endsBlank_nil : endsBlank [] = false := rfl

theorem endsBlank_of_allBlank {s : Str} (hne : s ≠ []) (h : allBlank s = true) : endsBlank s = true := by
  simp only [endsBlank]
  cases hl : s.getLast? with
  | none => simp [List.getLast?_eq_none_iff] at hl; exact absurd hl hne
  | some c =>
    have hm : c ∈ s := List.mem_of_getLast? hl
    simp only [allBlank, List.all_eq_true] at h
    exact h c hm

theorem startsBlank_append {a b : Str} (ha : a ≠ []) : startsBlank (a ++ b) = startsBlank a := by
  cases a with
  | nil => exact absurd rfl ha
  | cons c t => rfl

end Fp.ExprLex
