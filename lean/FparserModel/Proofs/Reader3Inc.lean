import FparserModel.Proofs.ReaderDrain

/-!
# Reader3Inc — INCLUDE readers: directory search, depth monotonicity, splicing (C13)

* `searchPath_first` / `searchPath_none` : the directory search of `next`
* `next_mono` / `drainEv_depth_mono`     : a larger include-depth budget changes nothing once the
                                           smaller one produced an answer other than `unsup`
* `Drains_chain`                         : an active include chain is drained first, then the
                                           holder continues
* `Drains_include`                       : the drain of a reader at an INCLUDE line that resolves
                                           = the drain of the include reader spliced in
-/
namespace Fp.Reader
open Fp

/-! ### the directory search -/

/-- the first directory (in order) that contains the name wins, whatever comes later -/
theorem searchPath_first (fs : Fs) (f : Str) : ∀ (pre : List Str) (dir : Str) (post : List Str) (p0 : Str),
    (∀ d' ∈ pre, fs.get (pathJoin d' f) = none) → (fs.get (pathJoin dir f)).isSome = true →
    searchPath fs f (pre ++ dir :: post) p0 = pathJoin dir f
  | [], dir, post, p0, _, h => by simp [searchPath, h]
  | d' :: pre, dir, post, p0, hpre, h => by
    have h1 : fs.get (pathJoin d' f) = none := hpre d' List.mem_cons_self
    simp only [List.cons_append, searchPath, h1, Option.isSome_none, Bool.false_eq_true, if_false]
    exact searchPath_first fs f pre dir post _ (fun x hx => hpre x (List.mem_cons_of_mem _ hx)) h

/-- no directory contains the name: the path finally tested is the one of the LAST directory
    (the bare file name when there is no directory) -/
theorem searchPath_none (fs : Fs) (f : Str) : ∀ (dirs : List Str) (p0 : Str),
    (∀ d' ∈ dirs, fs.get (pathJoin d' f) = none) →
    searchPath fs f dirs p0 = (dirs.getLast?.map (pathJoin · f)).getD p0
  | [], p0, _ => rfl
  | [d'], p0, h => by
    have h1 := h d' List.mem_cons_self
    simp [searchPath, h1]
  | d' :: d2 :: ds, p0, h => by
    have h1 := h d' List.mem_cons_self
    have ih := searchPath_none fs f (d2 :: ds) (pathJoin d' f)
      (fun x hx => h x (List.mem_cons_of_mem _ hx))
    have h2 : searchPath fs f (d' :: d2 :: ds) p0 = searchPath fs f (d2 :: ds) (pathJoin d' f) := by
      rw [searchPath]; simp [h1]
    rw [h2, ih, List.getLast?_cons_cons]
    cases hl : (d2 :: ds).getLast? with
    | none => simp at hl
    | some z => simp

/-! ### depth monotonicity -/

theorem errToStop_unsup {α} (q : Res α) : errToStop q ≠ .unsup → q ≠ .unsup := by
  intro h e; subst e; exact h rfl

theorem nextMain_mono (nn nn' : List Rd → Res Item × List Rd) (fs : Fs) (r : Rd)
    (h : ∀ st, (nn st).1 ≠ .unsup → nn' st = nn st) (hu : (nextMain nn fs r).1 ≠ .unsup) :
    nextMain nn' fs r = nextMain nn fs r := by
  unfold nextMain at hu ⊢
  simp only [] at hu ⊢
  cases hp : (next1 r).1 with
  | ok it =>
    rw [hp] at hu; simp only [] at hu ⊢
    cases hv : it.lineView with
    | none => rfl
    | some v =>
      obtain ⟨text, l, n, s, e⟩ := v
      rw [hv] at hu; simp only [] at hu ⊢
      by_cases hi : (includeRe text).isSome = true
      · simp only [hi, if_true] at hu ⊢
        cases hr : resolveInclude fs (next1 r).2 text with
        | missing => rfl
        | unsup => rfl
        | reader nr =>
          rw [hr] at hu; simp only [] at hu ⊢
          rw [h [nr] (errToStop_unsup _ hu)]
      · simp only [hi, Bool.false_eq_true, if_false]
  | stop => rfl
  | err => rfl
  | exit => rfl
  | unsup => rfl

theorem nextChain_mono (nn nn' : List Rd → Res Item × List Rd) (fs : Fs)
    (h : ∀ st, (nn st).1 ≠ .unsup → nn' st = nn st) : ∀ st : List Rd,
    (nextChain nn fs st).1 ≠ .unsup → nextChain nn' fs st = nextChain nn fs st
  | [], _ => rfl
  | [r], hu => by
    simp only [nextChain] at hu ⊢
    exact nextMain_mono nn nn' fs r h hu
  | r :: r2 :: rest, hu => by
    simp only [nextChain] at hu ⊢
    cases hq : (nextChain nn fs (r2 :: rest)).1 with
    | ok x =>
      rw [hq] at hu
      have := nextChain_mono nn nn' fs h (r2 :: rest) (by rw [hq]; simp)
      rw [this, hq]
    | stop =>
      rw [hq] at hu; simp only [] at hu
      have := nextChain_mono nn nn' fs h (r2 :: rest) (by rw [hq]; simp)
      rw [this, hq]
      exact nextMain_mono nn nn' fs r h hu
    | err =>
      rw [hq] at hu; simp only [] at hu
      have := nextChain_mono nn nn' fs h (r2 :: rest) (by rw [hq]; simp)
      rw [this, hq]
      exact nextMain_mono nn nn' fs r h hu
    | exit =>
      have := nextChain_mono nn nn' fs h (r2 :: rest) (by rw [hq]; simp)
      rw [this, hq]
    | unsup => rw [hq] at hu; exact absurd rfl hu

/-- a larger include-depth budget gives the same answer once the smaller one gave one -/
theorem next_mono (fs : Fs) : ∀ (d : Nat) (st : List Rd), (next d fs st).1 ≠ .unsup →
    next (d + 1) fs st = next d fs st
  | 0, st, hu => absurd rfl hu
  | d + 1, st, hu => by
    show nextChain (next (d + 1) fs) fs st = nextChain (next d fs) fs st
    exact nextChain_mono (next d fs) (next (d + 1) fs) fs (fun s hs => next_mono fs d s hs) st hu

theorem getItem_mono (fs : Fs) (d : Nat) (st : List Rd) (h : (getItem d fs st).1 ≠ .unsup) :
    getItem (d + 1) fs st = getItem d fs st := next_mono fs d st h

/-- `nextChain` never returns an empty chain for a non-empty one -/
theorem nextMain_nonempty (nn : List Rd → Res Item × List Rd) (fs : Fs) (r : Rd) :
    (nextMain nn fs r).2 ≠ [] := by
  unfold nextMain
  simp only []
  cases (next1 r).1 with
  | ok it =>
    simp only []
    cases it.lineView with
    | none => simp
    | some v =>
      obtain ⟨text, l, n, s, e⟩ := v
      simp only []
      split
      · cases resolveInclude fs (next1 r).2 text <;> simp
      · simp
  | stop => simp
  | err => simp
  | exit => simp
  | unsup => simp

theorem nextChain_nonempty (nn : List Rd → Res Item × List Rd) (fs : Fs) : ∀ st : List Rd, st ≠ [] →
    (nextChain nn fs st).2 ≠ []
  | [], h => absurd rfl h
  | [r], _ => by simp only [nextChain]; exact nextMain_nonempty nn fs r
  | r :: r2 :: rest, _ => by
    simp only [nextChain]
    cases (nextChain nn fs (r2 :: rest)).1 with
    | ok x => simp
    | stop => exact nextMain_nonempty nn fs r
    | err => exact nextMain_nonempty nn fs r
    | exit => simp
    | unsup => simp

theorem getItem_nonempty (d : Nat) (fs : Fs) (st : List Rd) (h : st ≠ []) :
    (getItem d fs st).2 ≠ [] := by
  cases d with
  | zero => exact h
  | succ d => exact nextChain_nonempty (next d fs) fs st h

/-! ### delegation to an active include chain -/

/-- while the include chain delivers items the holder is untouched -/
theorem getItem_chain_ok (d : Nat) (fs : Fs) (r : Rd) (st st' : List Rd) (x : Item) (hne : st ≠ [])
    (h : getItem (d + 1) fs st = (.ok x, st')) :
    getItem (d + 1) fs (r :: st) = (.ok x, r :: st') := by
  cases st with
  | nil => exact absurd rfl hne
  | cons a as =>
    unfold getItem next at h ⊢
    simp only [nextChain, h]

/-- when the include chain is at its end it is dropped and the holder reads on -/
theorem getItem_chain_stop (d : Nat) (fs : Fs) (r : Rd) (st : List Rd) (hne : st ≠ [])
    (h : (getItem (d + 1) fs st).1 = .stop ∨ (getItem (d + 1) fs st).1 = .err) :
    getItem (d + 1) fs (r :: st) = getItem (d + 1) fs [r] := by
  cases st with
  | nil => exact absurd rfl hne
  | cons a as =>
    unfold getItem next at h ⊢
    rcases h with h | h <;> simp only [nextChain, h]

/-! ### inversion of `Drains` -/

theorem Drains_item_inv {d : Nat} {fs : Fs} {st : List Rd} {y : Item} {ys : List Item} {fin : List Rd}
    (h : Drains d fs st (evItems (y :: ys)) fin) :
    ∃ st1, getItem d fs st = (.ok y, st1) ∧ Drains d fs st1 (evItems ys) fin := by
  obtain ⟨n, h⟩ := h
  cases n with
  | zero => simp [drainEv] at h
  | succ n =>
    unfold drainEv at h
    simp only [] at h
    cases hp : (getItem d fs st).1 with
    | ok x =>
      rw [hp] at h; simp only [] at h
      cases hq : drainEv d fs n (getItem d fs st).2 with
      | none => rw [hq] at h; simp at h
      | some q =>
        rw [hq] at h
        simp only [Option.map_some, Option.some.injEq, Prod.mk.injEq, evItems, List.map_cons,
          List.cons.injEq, Ev.item.injEq] at h
        obtain ⟨⟨rfl, h2⟩, h3⟩ := h
        refine ⟨(getItem d fs st).2, by rw [← hp], n, ?_⟩
        rw [hq]; simp only [evItems, ← h2, ← h3]
    | stop =>
      rw [hp] at h; simp only [] at h
      split at h
      · simp [evItems] at h
      · cases hq : drainEv d fs n (getItem d fs st).2 with
        | none => rw [hq] at h; simp at h
        | some q => rw [hq] at h; simp [evItems] at h
    | err =>
      rw [hp] at h; simp only [] at h
      split at h
      · simp [evItems] at h
      · cases hq : drainEv d fs n (getItem d fs st).2 with
        | none => rw [hq] at h; simp at h
        | some q => rw [hq] at h; simp [evItems] at h
    | exit => rw [hp] at h; simp [evItems] at h
    | unsup => rw [hp] at h; simp [evItems] at h

theorem Drains_nil_inv {d : Nat} {fs : Fs} {st : List Rd} {fin : List Rd}
    (h : Drains d fs st [] fin) :
    (getItem d fs st).1 = .stop ∨ (getItem d fs st).1 = .err := by
  obtain ⟨n, h⟩ := h
  cases n with
  | zero => simp [drainEv] at h
  | succ n =>
    unfold drainEv at h
    simp only [] at h
    cases hp : (getItem d fs st).1 with
    | ok x =>
      rw [hp] at h; simp only [] at h
      cases hq : drainEv d fs n (getItem d fs st).2 with
      | none => rw [hq] at h; simp at h
      | some q => rw [hq] at h; simp at h
    | stop => exact Or.inl rfl
    | err => exact Or.inr rfl
    | exit => rw [hp] at h; simp at h
    | unsup => rw [hp] at h; simp at h

/-- a one-step rewriting of the drain: states with the same `get_item` result drain alike -/
theorem Drains_congr {d : Nat} {fs : Fs} {st st' : List Rd} {evs : List Ev} {fin : List Rd}
    (hg : getItem d fs st = getItem d fs st') (h : Drains d fs st' evs fin) :
    Drains d fs st evs fin := by
  obtain ⟨n, h⟩ := h
  refine ⟨n, ?_⟩
  cases n with
  | zero => simp [drainEv] at h
  | succ n =>
    unfold drainEv at h ⊢
    rw [hg]; exact h

/-! ### splicing -/

/-- an active include chain `st` that delivers exactly the items `ys` (budget `d`) and then ends
    is drained first; then the holder `r` continues as if it had no include reader -/
theorem Drains_chain (d : Nat) (fs : Fs) (r : Rd) (evs : List Ev) (fin : List Rd) :
    ∀ (ys : List Item) (st finI : List Rd), st ≠ [] → Drains d fs st (evItems ys) finI →
    Drains (d + 1) fs [r] evs fin → Drains (d + 1) fs (r :: st) (evItems ys ++ evs) fin
  | [], st, finI, hne, hI, hM => by
    have hs := Drains_nil_inv hI
    have hs' : (getItem (d + 1) fs st).1 = .stop ∨ (getItem (d + 1) fs st).1 = .err := by
      rw [getItem_mono fs d st (by rcases hs with h | h <;> rw [h] <;> simp)]; exact hs
    simpa [evItems] using Drains_congr (getItem_chain_stop d fs r st hne hs') hM
  | y :: ys, st, finI, hne, hI, hM => by
    obtain ⟨st1, hg, hI'⟩ := Drains_item_inv hI
    have hg' : getItem (d + 1) fs st = (.ok y, st1) := by
      rw [getItem_mono fs d st (by rw [hg]; simp)]; exact hg
    have hne1 : st1 ≠ [] := by
      have := getItem_nonempty d fs st hne
      rw [hg] at this; exact this
    have ih := Drains_chain d fs r evs fin ys st1 finI hne1 hI' hM
    have := Drains_cons (getItem_chain_ok d fs r st st1 y hne hg') ih
    simpa [evItems] using this

/-- `get_item` at an INCLUDE line that resolves: the first item of the new include reader is
    returned, and the include reader is installed behind the holder -/
theorem getItem_include (d : Nat) (fs : Fs) (r r1 nr : Rd) (x y : Item) (text : Str)
    (l : Option Nat) (n : Option Str) (s e : Nat) (st1 : List Rd)
    (h : next1 r = (.ok x, r1)) (hv : x.lineView = some (text, l, n, s, e))
    (hinc : (includeRe text).isSome = true) (hres : resolveInclude fs r1 text = .reader nr)
    (hy : getItem d fs [nr] = (.ok y, st1)) :
    getItem (d + 1) fs [r] = (.ok y, r1 :: st1) := by
  unfold getItem at hy
  unfold getItem next nextChain nextMain
  simp only [h, hv, hinc, if_true, hres, hy, errToStop]

/-- C13 `include_transparent`, the induction step over the include depth: if the include reader
    `nr` started at an INCLUDE line is drained (budget `d`) to the items `ys` (at least one, no
    `None` in between), then the holder's drain (budget `d + 1`) is `ys` followed by the drain of
    the holder after the INCLUDE line: the INCLUDE line itself is not delivered, the items of the
    file take its place. -/
theorem Drains_include (d : Nat) (fs : Fs) (r r1 nr : Rd) (x : Item) (text : Str)
    (l : Option Nat) (n : Option Str) (s e : Nat) (ys : List Item) (finI : List Rd)
    (evs : List Ev) (fin : List Rd)
    (h : next1 r = (.ok x, r1)) (hv : x.lineView = some (text, l, n, s, e))
    (hinc : (includeRe text).isSome = true) (hres : resolveInclude fs r1 text = .reader nr)
    (hI : Drains d fs [nr] (evItems ys) finI) (hne : ys ≠ [])
    (hM : Drains (d + 1) fs [r1] evs fin) :
    Drains (d + 1) fs [r] (evItems ys ++ evs) fin := by
  cases ys with
  | nil => exact absurd rfl hne
  | cons y ys =>
    obtain ⟨st1, hg, hI'⟩ := Drains_item_inv hI
    have hne1 : st1 ≠ [] := by
      have := getItem_nonempty d fs [nr] (by simp)
      rw [hg] at this; exact this
    have hc := Drains_chain d fs r1 evs fin ys st1 finI hne1 hI' hM
    have := Drains_cons (getItem_include d fs r r1 nr x y text l n s e st1 h hv hinc hres hg) hc
    simpa [evItems] using this

end Fp.Reader
