import FparserModel.One3
/-!
`str.split(sep)` followed by `sep.join` is the identity (nothing is dropped by the comma split),
and the unfolding of `split_comma(line, item)`.
-/
namespace Fp.One3
open Fp Fp.Splitline

theorem join_cons_ne (sep a : Str) : ∀ l : List Str, l ≠ [] → join sep (a :: l) = a ++ sep ++ join sep l
  | [], h => absurd rfl h
  | _ :: _, _ => rfl

theorem join_snoc_append (sep x y : Str) :
    ∀ l : List Str, join sep (l ++ [x ++ y]) = join sep (l ++ [x]) ++ y
  | [] => by simp [join]
  | a :: l => by
    have h1 : l ++ [x ++ y] ≠ [] := by simp
    have h2 : l ++ [x] ≠ [] := by simp
    rw [List.cons_append, List.cons_append, join_cons_ne _ _ _ h1, join_cons_ne _ _ _ h2,
      join_snoc_append sep x y l]
    simp

theorem join_snoc (sep x : Str) : ∀ l : List Str, l ≠ [] → join sep (l ++ [x]) = join sep l ++ sep ++ x
  | [], h => absurd rfl h
  | [a], _ => by simp [join]
  | a :: b :: l, _ => by
    have h1 : (b :: l) ++ [x] ≠ [] := by simp
    rw [List.cons_append, join_cons_ne _ _ _ h1, join_snoc sep x (b :: l) (by simp),
      join_cons_ne _ _ _ (by simp : b :: l ≠ [])]
    simp

theorem go_join (sep : Char) : ∀ (s cur : Str) (acc : List Str),
    join [sep] (splitOnChar.go sep s cur acc) = join [sep] (acc.reverse ++ [cur.reverse]) ++ s
  | [], cur, acc => by simp [splitOnChar.go]
  | c :: cs, cur, acc => by
    unfold splitOnChar.go
    split
    · rename_i h
      have hc : c = sep := by simpa using h
      rw [go_join sep cs [] (cur.reverse :: acc)]
      have : (cur.reverse :: acc).reverse ++ [([] : Str).reverse] = (acc.reverse ++ [cur.reverse]) ++ [[]] := by simp
      rw [this, join_snoc _ _ _ (by simp), hc]
      simp
    · rw [go_join sep cs (c :: cur) acc]
      have : (c :: cur).reverse = cur.reverse ++ [c] := by simp
      rw [this, join_snoc_append]
      simp

/-- **split_join**: `sep.join(s.split(sep)) == s` -/
theorem split_join (s : Str) (sep : Char) : join [sep] (splitOnChar s sep) = s := by
  unfold splitOnChar
  rw [go_join]; simp [join]

/-- **splitComma_unfold**: what `split_comma(line, item)` returns: the stripped line is restored,
    mapped again, the new mapped text is cut at the commas (`split_join`: the cuts lose nothing),
    every part is restored and stripped, empty parts are dropped. -/
theorem splitComma_unfold (it : Item) (r : SrmResult) (line : Str) (parts : List Str)
    (h : splitComma it r line = .ok parts) :
    (strip line = [] ∧ parts = []) ∨
    ∃ ni r2, copyItem it r (strip line) true = .ok ni ∧ getLine ni = .ok r2 ∧
      join [','] (splitOnChar r2.text ',') = r2.text ∧
      parts = ((splitOnChar r2.text ',').map fun s => strip (am r2 s)).filter (fun s => !s.isEmpty) := by
  unfold splitComma splitCommaC at h
  simp only at h
  split at h
  · rename_i he
    left
    refine ⟨by simpa using he, ?_⟩
    cases h; rfl
  · right
    cases hc : copyItem it r (strip line) true with
    | error e => rw [hc] at h; cases h
    | ok ni =>
      rw [hc] at h
      cases hg : getLine ni with
      | error e => simp only [bind, Except.bind, hg] at h; cases h
      | ok r2 =>
        simp only [bind, Except.bind, hg] at h
        refine ⟨ni, r2, rfl, hg, split_join _ _, ?_⟩
        cases h
        simp [keepParts]

end Fp.One3
