"""Translator of the Incl08 slice (C17, class level): the OVERRIDE TABLE of the Fortran 2008 grammar, read
from the LIVE classes of /repo and written to `FparserModel/Generated/Incl08Tables.lean` with kernel
obligations.

For every rule name R bound to a class of the Fortran2003 module AND to a class of the Fortran2008 package
(the 2008 class wins in `ParserFactory.create("f2008")`), and for every 2008 class that stands in for a
differently named 2003 rule (`Action_Stmt_C824 -> Action_Stmt_C816` in `Do_Term_Action_Stmt.subclass_names`,
`Action_Stmt_C802 -> Action_Stmt_C828` in `If_Stmt.action_stmt_cls`: found from the live classes):

* the two class objects (module + qualname), whether the 2008 class is a Python subclass of the 2003 class,
  whether `match` / `tostr` are inherited, re-implemented, exec-generated or absent, `subclass_names`,
  `use_names` and the REAL alternative lists `Base.subclasses[R]` under both standards (names interned as
  numbers: the obligations are checked over `Nat`s, cheap in the kernel);
* obligation `subs_<R>`: `subclass_names03` (2003 names mapped through the renaming) is a subsequence of
  `subclass_names08` - an override that DROPS an alternative breaks it; the exceptions that exist on the
  pinned tree are listed with their reason in `FparserModel/Incl08.lean` (`subsExceptions`);
  `alts_<R>`: the same for the real `Base.subclasses` lists (2003 class objects mapped to the overriding ones);
* the keyword tables of the overrides that extend one (Connect_Spec._keyword_value_list(), Alloc_Opt._keyword_pairs,
  Component_Attr_Spec.attributes, the alternation of pattern.abs_attr_spec / abs_attr_spec_f08) as
  (keyword, value class) rows; obligations `kw_<T>_incl` (every 2003 row is a 2008 row WITH THE SAME VALUE
  CLASS, in the same order) and `kw_<T>_only08` (the 2008-only rows are exactly the pinned ones: a 2008-only
  keyword that also shows up in the 2003 table breaks it), `kw_<T>_model` (= the tables of the Lean models);
* the intrinsic tables of both standards (name, min, max): `intr_incl` (same range for every F2003 name);
* ALIASING: every mutable container (list / dict / set) in the own `__dict__` of a class of the Fortran2008
  package that IS (`id()`) a container of a Fortran2003 class, and the containers of Fortran2003 classes whose
  content differs between "only Fortran2003 imported" (a fresh interpreter) and "Fortran2008 imported and
  create('f2008') run": obligation `no_shared_mutable_tables`;
* how each override is REACHED under f2008 (alternative of which rules / hook or import of a 2008 module /
  2003 code that names the 2003 class object directly, so that the override is bypassed) and the overrides
  that are never reached (`dead_overrides` pinned);
* sha1 pins of the normalised source (docstring-free AST) of every module of the Fortran2008 package:
  `pin_<module> : Pinned "MIRRORED METHOD EDITED in /repo: re-validate ..." ...` against
  `FparserModel/Incl08Pins.lean` (hand-maintained, `--write-pins`).

    python -m fv.extract_incl08 <lean dir>               (re)generate
    python -m fv.extract_incl08 --write-pins <lean dir>  after re-validation: record the pins
"""
import ast
import hashlib
import inspect
import json
import os
import subprocess
import sys
import types

from fv import repo

repo.activate()

from fparser.two import utils as U                     # noqa: E402
from fparser.two import Fortran2003 as F3              # noqa: E402
from fparser.two import Fortran2008 as F8              # noqa: E402
from fparser.two import pattern_tools as pattern       # noqa: E402
from fparser.two.parser import ParserFactory           # noqa: E402

INSTRUCTION = ("MIRRORED METHOD EDITED in /repo: re-validate the mirrors of this Fortran2008 module in "
               "FparserModel/Incl08.lean / IoStmt.lean / Header.lean (read the diff, run fv/cosim_incl08.py), "
               "then record the new fingerprint with `python -m fv.extract_incl08 --write-pins <lean dir>`")

# the (keyword, value class) tables an override extends: name -> (getter03, getter08)
NOVAL = "-"


def _strip_doc(tree):
    for n in ast.walk(tree):
        if isinstance(n, (ast.FunctionDef, ast.ClassDef, ast.AsyncFunctionDef, ast.Module)) and n.body \
                and isinstance(n.body[0], ast.Expr) and isinstance(getattr(n.body[0], "value", None), ast.Constant) \
                and isinstance(n.body[0].value.value, str):
            n.body = n.body[1:] or [ast.Pass()]
    return tree


def module_fingerprint(path):
    tree = _strip_doc(ast.parse(open(path, encoding="utf-8").read()))
    return hashlib.sha1(ast.dump(tree, include_attributes=False).encode("utf-8")).hexdigest()[:16]


def is08(cls):
    return cls.__module__.startswith("fparser.two.Fortran2008")


def is03(cls):
    return cls.__module__ == "fparser.two.Fortran2003"


def qual(cls):
    return cls.__module__[len("fparser.two."):] + "." + cls.__qualname__


def _fn(raw):
    return raw.__func__ if isinstance(raw, (staticmethod, classmethod)) else raw


def _conames(code):
    s = set(code.co_names)
    for k in code.co_consts:
        if isinstance(k, types.CodeType):
            s |= _conames(k)
    return s


def _funcs(cls):
    for k, v in sorted(cls.__dict__.items()):
        f = _fn(v)
        if isinstance(f, types.FunctionType):
            yield k, f


def method_kind(c3, c8, meth):
    """0 inherited from the 2003 class, 1 re-implemented by the 2008 class (source), 2 absent on both,
    3 exec-generated by the 2008 package, 4 present in 2003 / absent in 2008, 5 absent in 2003 / present in 2008,
    6 inherited from elsewhere"""
    h3 = getattr(c3, meth, None)
    h8 = getattr(c8, meth, None)
    if h3 is None and h8 is None:
        return 2
    if h8 is None:
        return 4
    if h3 is None:
        return 5
    if meth in c8.__dict__:
        try:
            inspect.getsource(_fn(c8.__dict__[meth]))
            return 1
        except (OSError, TypeError):
            return 3
    own3 = next((k for k in c3.__mro__ if meth in k.__dict__), None)
    own8 = next((k for k in c8.__mro__ if meth in k.__dict__), None)
    return 0 if own3 is own8 else 6


def registries():
    ParserFactory().create(std="f2003")
    r3 = {k: list(v) for k, v in U.Base.subclasses.items()}
    ParserFactory().create(std="f2008")
    r8 = {k: list(v) for k, v in U.Base.subclasses.items()}
    return r3, r8


def alternation_words(pat):
    body = pat
    for pre in ("\\A", "^"):
        if body.startswith(pre):
            body = body[len(pre):]
    for suf in ("\\Z", "$"):
        if body.endswith(suf):
            body = body[:-len(suf)]
    while body.startswith("(") and body.endswith(")"):
        body = body[1:-1]
    return body.split("|")


def keyword_tables():
    t = {}
    t["connect"] = ([(k, v.__name__) for k, v in F3.Connect_Spec._keyword_value_list()],
                    [(k, v.__name__) for k, v in F8.Connect_Spec._keyword_value_list()])
    t["allocOpt"] = ([(k, v.__name__) for k, v in F3.Alloc_Opt._keyword_pairs],
                     [(k, v.__name__) for k, v in F8.Alloc_Opt._keyword_pairs])
    t["componentAttr"] = ([(k, NOVAL) for k in F3.Component_Attr_Spec.attributes],
                          [(k, NOVAL) for k in F8.Component_Attr_Spec.attributes])
    t["attrSpec"] = ([(k, NOVAL) for k in alternation_words(pattern.abs_attr_spec.pattern)],
                     [(k, NOVAL) for k in alternation_words(pattern.abs_attr_spec_f08.pattern)])
    return t


def intrinsic_tables():
    def tab(cls):
        rows = []
        for k, v in cls.generic_function_names.items():
            rows.append((k, v["min"], v["max"]))
        return rows
    return tab(F3.Intrinsic_Name), tab(F8.Intrinsic_Name)


MUTABLE = (list, dict, set)


def shared_containers():
    """(2008 attr, 2003 attr) with the same id(): own-__dict__ containers of classes of the 2008 package"""
    by_id = {}
    for n, c in inspect.getmembers(F3, inspect.isclass):
        if is03(c):
            for a, v in c.__dict__.items():
                if isinstance(v, MUTABLE):
                    by_id.setdefault(id(v), "Fortran2003.%s.%s" % (c.__name__, a))
    out = []
    for n, c in inspect.getmembers(F8, inspect.isclass):
        if is08(c):
            for a, v in sorted(c.__dict__.items()):
                if isinstance(v, MUTABLE) and id(v) in by_id:
                    out.append(("%s.%s" % (qual(c), a), by_id[id(v)]))
    return sorted(out)


_SNAP = r"""
import sys, json, inspect
sys.path.insert(0, %r)
import fparser.two.Fortran2003 as F3
from fparser.two import pattern_tools as pt
def snap():
    d = {}
    for n, c in inspect.getmembers(F3, inspect.isclass):
        if c.__module__ == "fparser.two.Fortran2003":
            for a, v in c.__dict__.items():
                if isinstance(v, (list, dict, set, tuple)) :
                    d["Fortran2003.%%s.%%s" %% (c.__name__, a)] = repr(v if not isinstance(v, set) else sorted(v, key=repr))
            kv = getattr(c, "_keyword_value_list", None)
            if kv is not None:
                d["Fortran2003.%%s._keyword_value_list()" %% c.__name__] = repr([(k, x.__name__) for k, x in kv()])
    for a in dir(pt):
        v = getattr(pt, a)
        if isinstance(v, pt.Pattern):
            d["pattern_tools.%%s" %% a] = repr((v.pattern, v.flags))
    return d
before = snap()
if %r:
    import fparser.two.Fortran2008
    from fparser.two.parser import ParserFactory
    ParserFactory().create(std="f2008")
    ParserFactory().create(std="f2003")
after = snap()
print(json.dumps([before, after]))
"""


def mutated_by_2008():
    """containers / patterns of Fortran2003 whose content differs between a process that never imported the
    Fortran2008 package and one that imported it and ran create('f2008')"""
    def run(flag):
        out = subprocess.run([sys.executable, "-c", _SNAP % (repo.SRC, flag)], capture_output=True, text=True,
                             timeout=300, check=True).stdout
        return json.loads(out.strip().splitlines()[-1])
    clean = run(False)[0]
    b, a = run(True)
    keys = sorted(set(clean) | set(a))
    return [k for k in keys if clean.get(k) != a.get(k) or b.get(k) != a.get(k)]


def collect():
    r3, r8 = registries()
    c3s = {n: c for n, c in inspect.getmembers(F3, inspect.isclass) if is03(c) and issubclass(c, U.Base)}
    c8s = {n: c for n, c in inspect.getmembers(F8, inspect.isclass) if is08(c) and issubclass(c, U.Base)}
    same = sorted(n for n in c8s if n in c3s)
    # renamings: a 2003 name that the 2008 override of a rule replaces by a 2008 class derived from it
    renamed = {}
    for n in same:
        s3 = list(getattr(c3s[n], "subclass_names", []) or [])
        s8 = list(getattr(c8s[n], "subclass_names", []) or [])
        for a in s3:
            if a not in s8 and a in c3s:
                for b in s8:
                    if b not in s3 and b in c8s and b not in c3s and issubclass(c8s[b], c3s[a]):
                        renamed[a] = b
        for attr, v8 in c8s[n].__dict__.items():
            v3 = getattr(c3s[n], attr, None)
            if isinstance(v8, type) and isinstance(v3, type) and v8.__name__ != v3.__name__ \
                    and issubclass(v8, U.Base) and v3.__name__ in c3s:
                renamed[v3.__name__] = v8.__name__
    pairs = [(n, n) for n in same] + sorted(renamed.items())
    ov_obj = {c3s[a]: c8s[b] for a, b in pairs}
    # hooks: zero-argument class-returning methods defined by a 2008 class
    rows = []
    for a, b in pairs:
        c3, c8 = c3s[a], c8s[b]
        hooks = []
        for k, f in _funcs(c8):
            if k.endswith("_cls") or k in ("alloc_opt_list",):
                try:
                    h8 = getattr(c8, k)().__name__
                    h3 = getattr(c3, k)().__name__
                    hooks.append((k, h3, h8))
                except Exception:      # noqa: BLE001
                    pass
        alt_of = sorted(r for r, l in r8.items() if c8 in l)
        refs8 = []
        for m, c in sorted(c8s.items()):
            for k, f in _funcs(c):
                if b in _conames(f.__code__):
                    g = f.__globals__.get(b)
                    where = "F8" if (g is c8 or g is None) else ("F3" if g is c3 else "other")
                    refs8.append(("%s.%s" % (c.__name__, k), where))
            for k, v in sorted(c.__dict__.items()):
                if v is c8:
                    refs8.append(("%s.%s" % (c.__name__, k), "F8"))
        direct03 = []
        for m, c in sorted(c3s.items()):
            for k, f in _funcs(c):
                if a in _conames(f.__code__) and f.__globals__.get(a) is c3:
                    direct03.append("%s.%s" % (c.__name__, k))
        has_match8 = getattr(c8, "match", None) is not None
        reached = bool(alt_of) or any(w == "F8" for _, w in refs8) or not has_match8
        rows.append({
            "rule": a, "name08": b, "cls03": qual(c3), "cls08": qual(c8),
            "subclass": issubclass(c8, c3),
            "match": method_kind(c3, c8, "match"), "tostr": method_kind(c3, c8, "tostr"),
            "subs03": list(getattr(c3, "subclass_names", []) or []),
            "subs08": list(getattr(c8, "subclass_names", []) or []),
            "uses03": list(getattr(c3, "use_names", []) or []),
            "uses08": list(getattr(c8, "use_names", []) or []),
            "alts03": [x.__name__ for x in r3.get(a, [])],
            "alts08": [x.__name__ for x in r8.get(b, [])],
            "alts03mapped": [ov_obj.get(x, x).__name__ for x in r3.get(a, [])],
            "hooks": hooks, "altOf": alt_of, "refs8": refs8, "direct03": direct03,
            "dead": not reached,
        })
    pkg = os.path.dirname(F8.__file__)
    mods = sorted(f for f in os.listdir(pkg) if f.endswith(".py"))
    pins = [("Fortran2008." + f[:-3], module_fingerprint(os.path.join(pkg, f))) for f in mods]
    return {"rows": rows, "renamed": sorted(renamed.items()), "kw": keyword_tables(), "intr": intrinsic_tables(),
            "shared": shared_containers(), "mutated": mutated_by_2008(), "pins": pins}


# ----------------------------------------------------------------------------------------- rendering

def lean_str(s):
    return '"' + s.replace("\\", "\\\\").replace('"', '\\"') + '"'


def ident(key):
    return "".join(ch if ch.isalnum() else "_" for ch in key)


class Names:
    def __init__(self):
        self.ix = {}
        self.names = []

    def __call__(self, s):
        if s not in self.ix:
            self.ix[s] = len(self.names)
            self.names.append(s)
        return self.ix[s]

    def lst(self, xs):
        return "[" + ", ".join(str(self(x)) for x in xs) + "]"


def render(d):
    N = Names()
    N(NOVAL)
    L = []
    A = L.append
    A("import FparserModel.Incl08")
    A("import FparserModel.Incl08Pins")
    A("/-! GENERATED by fv/extract_incl08.py from the fparser working tree - do not edit.")
    A("")
    A("The override table of the Fortran 2008 grammar (which rule names `ParserFactory.create(\"f2008\")` binds to a")
    A("class of the Fortran2008 package instead of the Fortran2003 class), the keyword tables and intrinsic tables")
    A("of both standards, the aliasing facts of the class-level containers and the fingerprints of the modules of")
    A("the Fortran2008 package - each with its kernel obligation (see fv/extract_incl08.py).")
    A("A failing `pin_*` theorem means: " + INSTRUCTION.replace("`", "'"))
    A("-/")
    A("namespace Fp.Incl08.Gen")
    A("open Fp.Incl08")
    A("")
    body = []
    B = body.append
    # ---- override rows
    B("/-- the overridden rules: same-named (`rule = name08`) and renamed ones -/")
    B("def overrides : List Override := [")
    rows = d["rows"]
    for i, r in enumerate(rows):
        B("  -- %s : %s  ->  %s" % (r["rule"], r["cls03"], r["cls08"]))
        B("  { rule := %d, name08 := %d, cls03 := %s, cls08 := %s, subclassOf03 := %s, matchKind := %d, tostrKind := %d,"
          % (N(r["rule"]), N(r["name08"]), lean_str(r["cls03"]), lean_str(r["cls08"]),
             "true" if r["subclass"] else "false", r["match"], r["tostr"]))
        B("    subs03 := %s, subs08 := %s," % (N.lst(r["subs03"]), N.lst(r["subs08"])))
        B("    uses03 := %s, uses08 := %s," % (N.lst(r["uses03"]), N.lst(r["uses08"])))
        B("    alts03 := %s, alts08 := %s," % (N.lst(r["alts03mapped"]), N.lst(r["alts08"])))
        B("    hooks := [%s]," % ", ".join("(%s, %d, %d)" % (lean_str(k), N(a), N(b)) for k, a, b in r["hooks"]))
        B("    altOf := %s, refs08 := [%s], direct03 := [%s], dead := %s }%s"
          % (N.lst(r["altOf"]), ", ".join("(%s, %s)" % (lean_str(k), lean_str(w)) for k, w in r["refs8"]),
             ", ".join(lean_str(x) for x in r["direct03"]), "true" if r["dead"] else "false",
             "," if i + 1 < len(rows) else ""))
    B("]")
    B("")
    B("/-- 2003 rule name -> the differently named 2008 class that replaces it where the 2008 grammar refers to it -/")
    B("def renamed : List (Nat × Nat) := [%s]" % ", ".join("(%d, %d)" % (N(a), N(b)) for a, b in d["renamed"]))
    B("")
    msg_subs = lean_str("A 2008 OVERRIDE DROPS OR REORDERS AN ALTERNATIVE (subclass_names) of the class it replaces: C17 "
                        "(f2008 accepts what f2003 accepts) is at risk; if intended, list the rule with its reason in "
                        "subsExceptions of FparserModel/Incl08.lean")
    msg_alts = lean_str("THE REAL Base.subclasses LIST of a rule under f2008 no longer contains the f2003 list (overridden "
                        "classes mapped) as a subsequence; if intended, list the rule in altsExceptions of FparserModel/Incl08.lean")
    for i, r in enumerate(rows):
        B("theorem subs_%s : Obl %s (subsOK renamed subsExceptions names overrides[%d]?) := by decide +kernel"
          % (ident(r["rule"]), msg_subs, i))
        B("theorem alts_%s : Obl %s (altsOK altsExceptions names overrides[%d]?) := by decide +kernel"
          % (ident(r["rule"]), msg_alts, i))
    B("")
    B("/-- the rules whose 2008 alternatives are NOT an extension of the 2003 ones: exactly the listed exceptions -/")
    B("theorem subs_exceptions_exact : (overrides.filter fun o => !subsPlain renamed o).map (fun o => names.getD o.rule \"\") "
      "= subsExceptions.map (·.1) := by decide +kernel")
    B("theorem alts_exceptions_exact : (overrides.filter fun o => !altsPlain o).map (fun o => names.getD o.rule \"\") "
      "= altsExceptions.map (·.1) := by decide +kernel")
    B("")
    B("/-- overrides with a `match` of their own that nothing reaches under f2008 (no rule lists them as an")
    B("    alternative, no 2008 module names them): the 2003 code names the 2003 class object directly -/")
    B("theorem dead_overrides : Obl %s ((overrides.filter (·.dead)).map (fun o => names.getD o.rule \"\") = deadOverrides) := by decide +kernel"
      % lean_str("the set of 2008 override classes that are never reached changed: update deadOverrides in FparserModel/Incl08.lean"))
    B("theorem override_kinds : Obl %s (overrides.map (fun o => (names.getD o.rule \"\", o.matchKind)) = overrideKinds) := by decide +kernel"
      % lean_str("THE SET OF OVERRIDDEN RULES or the way an override obtains its match (inherited / re-implemented / "
                 "generated / absent) changed: update overrideKinds in FparserModel/Incl08.lean and give the new override "
                 "its inclusion theorem"))
    B("theorem append_only_rules : Obl %s ((overrides.filter fun o => isPrefixOf' o.alts03 o.alts08 && o.alts03.length != o.alts08.length).map (fun o => names.getD o.rule \"\") = appendOnlyRules) := by decide +kernel"
      % lean_str("the set of rules whose f2008 alternatives are the f2003 ones plus APPENDED alternatives changed: update appendOnlyRules in FparserModel/Incl08.lean"))
    B("theorem inserted_rules : Obl %s ((overrides.filter fun o => !isPrefixOf' o.alts03 o.alts08).map (fun o => (names.getD o.rule \"\", (o.alts08.filter fun a => !o.alts03.contains a).map fun a => names.getD a \"\")) = insertedRules) := by decide +kernel"
      % lean_str("a 2008 alternative is INSERTED BEFORE 2003 alternatives of a rule (ordered choice: it is tried first): update insertedRules in FparserModel/Incl08.lean and check that it rejects what the later 2003 alternatives accept"))
    B("theorem hooks_same_name : Obl %s (overrides.all (fun o => o.hooks.all fun h => h.2.1 == h.2.2 || renamed.contains (h.2.1, h.2.2)) = true) := by decide +kernel"
      % lean_str("a class-returning hook of a 2008 override returns a class of ANOTHER rule name that is not a registered renaming"))
    B("")
    # ---- keyword tables
    for name, (t3, t8) in sorted(d["kw"].items()):
        B("def kw_%s_03 : List (Nat × Nat) := [%s]" % (name, ", ".join("(%d, %d)" % (N(k), N(v)) for k, v in t3)))
        B("def kw_%s_08 : List (Nat × Nat) := [%s]" % (name, ", ".join("(%d, %d)" % (N(k), N(v)) for k, v in t8)))
        B("/- %s 2003: %s" % (name, ", ".join("%s=%s" % kv for kv in t3)))
        B("   %s 2008: %s -/" % (name, ", ".join("%s=%s" % kv for kv in t8)))
        B("theorem kw_%s_incl : Obl %s (kwIncl kw_%s_03 kw_%s_08 = true) := by decide +kernel"
          % (name, lean_str("KEYWORD TABLE: a row (keyword, VALUE CLASS) of the 2003 table is missing from the 2008 table, "
                            "bound to another value class, or out of order [" + name + "]"), name, name))
        B("theorem kw_%s_only08 : Obl %s ((kwOnly08 kw_%s_03 kw_%s_08).map (fun r => (names.getD r.1 \"\", names.getD r.2 \"\")) = only08_%s) := by decide +kernel"
          % (name, lean_str("KEYWORD TABLE: the 2008-only rows are not the pinned ones (a 2008-only keyword in the 2003 "
                            "table, or a new keyword): update only08_" + name + " in FparserModel/Incl08.lean"), name, name, name))
        B("theorem kw_%s_model : Obl %s ((kw_%s_03.map (fun r => (names.getD r.1 \"\", names.getD r.2 \"\")) = model_%s .f2003) ∧ (kw_%s_08.map (fun r => (names.getD r.1 \"\", names.getD r.2 \"\")) = model_%s .f2008)) := by decide +kernel"
          % (name, lean_str("KEYWORD TABLE of /repo differs from the Lean model's table [" + name + "]"), name, name, name, name))
        B("")
    # ---- intrinsics
    i3, i8 = d["intr"]

    def irow(r):
        return "(%d, %d, %s)" % (N(r[0]), r[1], "none" if r[2] is None else "some %d" % r[2])
    B("/-- `Intrinsic_Name.generic_function_names` : (name, min, max) -/")
    B("def intr03 : List (Nat × Nat × Option Nat) := [%s]" % ", ".join(irow(r) for r in i3))
    B("def intr08 : List (Nat × Nat × Option Nat) := [%s]" % ", ".join(irow(r) for r in i8))
    B("theorem intr_incl : Obl %s (intr03.all (fun r => intr08.contains r) = true) := by decide +kernel"
      % lean_str("INTRINSIC TABLE: an F2003 intrinsic is missing from the F2008 table or has another argument range"))
    B("theorem intr_only08 : Obl %s ((intr08.filter fun r => !intr03.contains r).map (fun r => (names.getD r.1 \"\", r.2.1, r.2.2)) = only08_intrinsics) := by decide +kernel"
      % lean_str("INTRINSIC TABLE: the F2008-only intrinsics are not the pinned ones: update only08_intrinsics in FparserModel/Incl08.lean"))
    B("")
    # ---- aliasing
    B("/-- (container of a class of the 2008 package, container of a 2003 class) that are THE SAME OBJECT -/")
    B("def sharedContainers : List (String × String) := [%s]"
      % ", ".join("(%s, %s)" % (lean_str(a), lean_str(b)) for a, b in d["shared"]))
    B("/-- containers / patterns of Fortran2003 whose content depends on whether the Fortran2008 package was imported -/")
    B("def mutatedBy2008 : List String := [%s]" % ", ".join(lean_str(x) for x in d["mutated"]))
    B("theorem no_shared_mutable_tables : Obl %s (sharedContainers = allowedShared ∧ mutatedBy2008 = []) := by decide +kernel"
      % lean_str("ALIASING: a class of the Fortran2008 package shares a mutable list/dict with a Fortran2003 class (or "
                 "importing Fortran2008 changes a Fortran2003 table): an in-place extension leaks 2008 syntax into the 2003 parser"))
    B("")
    # ---- module pins
    B("def liveModules : List (String × String) := [")
    B(",\n".join("  (%s, %s)" % (lean_str(k), lean_str(v)) for k, v in d["pins"]))
    B("]")
    for i, (k, v) in enumerate(d["pins"]):
        B("theorem pin_%s : Pinned %s (some (%s, %s)) Pins.modules[%d]? := by decide +kernel"
          % (ident(k), lean_str(INSTRUCTION + " [" + k + "]"), lean_str(k), lean_str(v), i))
    B("theorem pins_complete : Obl %s (liveModules.length = Pins.modules.length) := by decide +kernel"
      % lean_str("a module was added to or removed from the Fortran2008 package: " + INSTRUCTION))
    B("")
    A("/-- every class / keyword name used below; a name is its index -/")
    A("def names : List String := [")
    for i in range(0, len(N.names), 6):
        A("  " + ", ".join(lean_str(n) for n in N.names[i:i + 6]) + ("," if i + 6 < len(N.names) else ""))
    A("]")
    A("")
    L.extend(body)
    A("end Fp.Incl08.Gen")
    return "\n".join(L) + "\n"


def render_pins(pins):
    L = []
    L.append("/-!")
    L.append("# Incl08Pins - the fingerprints of the modules of the Fortran2008 package the Incl08 slice was validated against")
    L.append("")
    L.append("Hand-maintained (written by `python -m fv.extract_incl08 --write-pins <lean dir>` AFTER the mirrors of an edited")
    L.append("module have been re-validated; never as part of a normal build).")
    L.append("-/")
    L.append("namespace Fp.Incl08")
    L.append("")
    L.append("/-- `live = expected`; the message is part of the statement so that it shows in the error -/")
    L.append("def Pinned (_msg : String) (live expected : Option (String × String)) : Prop := live = expected")
    L.append("instance (m : String) (a b : Option (String × String)) : Decidable (Pinned m a b) :=")
    L.append("  inferInstanceAs (Decidable (a = b))")
    L.append("")
    L.append("namespace Pins")
    L.append("def modules : List (String × String) := [")
    L.append(",\n".join("  (%s, %s)" % (lean_str(k), lean_str(v)) for k, v in pins))
    L.append("]")
    L.append("end Pins")
    L.append("end Fp.Incl08")
    return "\n".join(L) + "\n"


def _root(outdir):
    if os.path.basename(os.path.normpath(outdir)) == "Generated":
        outdir = os.path.dirname(os.path.dirname(os.path.normpath(outdir)))
    return outdir


def generate(outdir):
    outdir = _root(outdir)
    d = collect()
    path = os.path.join(outdir, "FparserModel", "Generated", "Incl08Tables.lean")
    os.makedirs(os.path.dirname(path), exist_ok=True)
    text = render(d)
    old = open(path, encoding="utf-8").read() if os.path.exists(path) else None
    if old != text:
        with open(path, "w", encoding="utf-8") as fh:
            fh.write(text)
    return path


def write_pins(outdir):
    outdir = _root(outdir)
    path = os.path.join(outdir, "FparserModel", "Incl08Pins.lean")
    with open(path, "w", encoding="utf-8") as fh:
        fh.write(render_pins(collect()["pins"]))
    return path


def main(argv=None):
    argv = list(sys.argv[1:] if argv is None else argv)
    pins = False
    dump = False
    if argv and argv[0] == "--write-pins":
        pins, argv = True, argv[1:]
    if argv and argv[0] == "--dump":
        dump, argv = True, argv[1:]
    if dump:
        print(json.dumps(collect(), indent=1))
        return 0
    outdir = argv[0] if argv else os.path.join(os.path.dirname(os.path.dirname(os.path.abspath(__file__))), "lean")
    if pins:
        print("wrote", write_pins(outdir))
    print("wrote", generate(outdir))
    return 0


if __name__ == "__main__":
    sys.exit(main())
