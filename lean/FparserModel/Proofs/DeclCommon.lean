import FparserModel.Proofs.DeclBasic
/-!
# Decl — `Common_Stmt`: what is kept, modulo the separators `,` and `/`

`Common_Stmt.tostr` prints a blank common without slashes as `COMMON // a`, and does not print the
optional comma before a further `/name/`: `toks` is NOT preserved.  What is preserved is the
`content`: the non-blank characters other than `,` and `/`, in order.
-/
namespace Fp.Decl
open Fp Fp.Splitline Fp.Combi

variable {A : Type}

def isSepC (c : Char) : Bool := c == ',' || c == '/'

/-- the non-blank characters other than `,` and `/` -/
def content (s : Str) : Str := (toks s).filter (fun c => !isSepC c)

theorem content_append (a b : Str) : content (a ++ b) = content a ++ content b := by
  simp [content, toks_append]

theorem content_of_toks_eq {a b : Str} (h : toks a = toks b) : content a = content b := by
  simp [content, h]

@[simp] theorem content_nil : content [] = [] := rfl

theorem content_sep_cons {c : Char} (s : Str) (h : isSepC c = true) : content (c :: s) = content s := by
  have hs : isSpace c = false := by
    simp only [isSepC, Bool.or_eq_true, beq_iff_eq] at h
    rcases h with rfl | rfl <;> decide
  simp [content, toks_cons_nonspace _ hs, List.filter_cons, h]

/-- `content (repmap(p))` -/
def cn (m : Map) (p : Str) : Str := content (applyMap m p)

theorem sep_not_word {c : Char} (h : isSepC c = true) : isWord c = false := by
  simp only [isSepC, Bool.or_eq_true, beq_iff_eq] at h
  rcases h with rfl | rfl <;> decide

theorem cn_sep {m : Map} {a b : Str} {c : Char} (h : Piece m (a ++ c :: b)) (hc : isSepC c = true) :
    Piece m a ∧ Piece m b ∧ cn m (a ++ c :: b) = cn m a ++ cn m b := by
  obtain ⟨pa, pb, e⟩ := h.sep (sep_not_word hc)
  refine ⟨pa, pb, ?_⟩
  unfold cn
  rw [e, content_append, content_sep_cons _ hc]

theorem cn_cons {m : Map} {b : Str} {c : Char} (h : Piece m (c :: b)) (hc : isSepC c = true) :
    Piece m b ∧ cn m (c :: b) = cn m b := by
  obtain ⟨pb, e⟩ := h.cons (sep_not_word hc)
  exact ⟨pb, by unfold cn; rw [e, content_sep_cons _ hc]⟩

theorem cn_snoc {m : Map} {a : Str} {c : Char} (h : Piece m (a ++ [c])) (hc : isSepC c = true) :
    Piece m a ∧ cn m (a ++ [c]) = cn m a := by
  obtain ⟨pa, e⟩ := h.snoc (sep_not_word hc)
  refine ⟨pa, ?_⟩
  unfold cn
  rw [e, content_append, content_sep_cons _ hc]
  simp

theorem cn_lstrip {m : Map} {p : Str} (h : Piece m p) : Piece m (lstrip p) ∧ cn m (lstrip p) = cn m p :=
  ⟨h.lstrip.1, content_of_toks_eq h.lstrip.2⟩
theorem cn_rstrip {m : Map} {p : Str} (h : Piece m p) : Piece m (rstrip p) ∧ cn m (rstrip p) = cn m p :=
  ⟨h.rstrip.1, content_of_toks_eq h.rstrip.2⟩
theorem cn_strip {m : Map} {p : Str} (h : Piece m p) : Piece m (strip p) ∧ cn m (strip p) = cn m p :=
  ⟨h.strip.1, content_of_toks_eq h.strip.2⟩

theorem cn_nil (m : Map) : cn m [] = [] := by simp [cn, applyMap, keyFindAll, keyFindAllAux]

theorem sw_comma {s : Str} (h : sw s "," = true) : s = ',' :: s.drop 1 := by
  have := sw_spec h
  simpa using this
theorem sw_slash {s : Str} (h : sw s "/" = true) : s = '/' :: s.drop 1 := by
  have := sw_spec h
  simpa using this

/-- the content of one `(name, list)` pair of texts -/
def pairContent (p : Option Str × Str) : Str :=
  (match p.1 with | some t => content t | none => []) ++ content p.2

def pairsContent (ps : List (Option Str × Str)) : Str := (ps.map pairContent).flatten

/-- the block names are handed over WITHOUT `repmap`: they must not contain a placeholder -/
def NamesPlain (ps : List (Option Str × Str)) : Prop :=
  ∀ p ∈ ps, ∀ t, p.1 = some t → keyFindAll t = []

instance (ps : List (Option Str × Str)) : Decidable (NamesPlain ps) := by
  unfold NamesPlain; infer_instance

theorem applyMap_plain (m : Map) (t : Str) (h : keyFindAll t = []) : applyMap m t = t := by
  simp [applyMap, h]

theorem commonTail_content {m : Map} {line lst line' : Str} (hp : Piece m line)
    (h : commonTail m line = some (lst, line')) :
    Piece m line' ∧ cn m line = content lst ++ cn m line' := by
  unfold commonTail at h
  cases hc : cutFirst '/' line with
  | none =>
    simp only [hc, Option.some.injEq, Prod.mk.injEq] at h
    obtain ⟨rfl, rfl⟩ := h
    exact ⟨Piece.nil m, by simp [cn_nil]; rfl⟩
  | some ab =>
    obtain ⟨a, b⟩ := ab
    simp only [hc] at h
    obtain ⟨e, _⟩ := cutFirst_spec _ _ _ hc
    rw [e] at hp
    obtain ⟨pa, pb, e1⟩ := cn_sep hp (by decide)
    obtain ⟨pra, era⟩ := cn_rstrip pa
    have hl : lstrip ('/' :: b) = '/' :: b := lstrip_cons_nonspace b (by decide)
    have pcb : Piece m ('/' :: b) :=
      (Piece.cut (a := a) (b := '/' :: b) hp (CutOK_right_nonword rfl (by decide))).2.1
    obtain ⟨_, e3⟩ := cn_cons pcb (by decide)
    by_cases hcomma : ew (rstrip a) ',' = true
    · simp only [hcomma, if_true] at h
      split at h
      · exact absurd h (by simp)
      · simp only [Option.some.injEq, Prod.mk.injEq] at h
        obtain ⟨h1, h2⟩ := h
        refine ⟨by rw [← h2, hl]; exact pcb, ?_⟩
        rw [e, e1, ← h2, hl, e3, ← h1]
        congr 1
        have es := ew_spec hcomma
        have pr' : Piece m ((rstrip a).dropLast ++ [',']) := by rw [← es]; exact pra
        obtain ⟨pd, ed⟩ := cn_snoc pr' (by decide)
        obtain ⟨_, er⟩ := cn_rstrip pd
        show cn m a = cn m (rstrip (rstrip a).dropLast)
        rw [er, ← ed, ← es, era]
    · simp only [hcomma, Bool.false_eq_true, if_false] at h
      split at h
      · exact absurd h (by simp)
      · simp only [Option.some.injEq, Prod.mk.injEq] at h
        obtain ⟨h1, h2⟩ := h
        refine ⟨by rw [← h2, hl]; exact pcb, ?_⟩
        rw [e, e1, ← h2, hl, e3, ← h1]
        congr 1
        exact era.symm

theorem commonName_content {m : Map} {nm : Str} (hp : Piece m nm)
    (hpl : ∀ t, commonName nm = some t → keyFindAll t = []) :
    cn m nm = (match commonName nm with | some t => content t | none => []) := by
  obtain ⟨ps, es⟩ := cn_strip hp
  unfold commonName at hpl ⊢
  by_cases he : (strip nm).isEmpty = true
  · simp only [he, if_true]
    have : strip nm = [] := by simpa using he
    rw [← es, this, cn_nil]
  · simp only [he, Bool.false_eq_true, if_false] at hpl ⊢
    rw [← es]
    unfold cn
    rw [applyMap_plain m _ (hpl _ rfl)]

theorem NamesPlain_cons {p : Option Str × Str} {ps : List (Option Str × Str)}
    (h : NamesPlain (p :: ps)) : (∀ t, p.1 = some t → keyFindAll t = []) ∧ NamesPlain ps :=
  ⟨fun t ht => h p (by simp) t ht, fun q hq t ht => h q (by simp [hq]) t ht⟩

theorem commonMore_content {m : Map} : ∀ (fuel : Nat) (line : Str) (more : List (Option Str × Str)),
    Piece m line → commonMore m fuel line = some more → NamesPlain more →
    cn m line = pairsContent more
  | 0, _, _, _, h, _ => by simp [commonMore] at h
  | fuel + 1, line, more, hp, h, hn => by
    unfold commonMore at h
    split at h
    · simp only [Option.some.injEq] at h
      subst h
      rename_i he
      have : line = [] := by simpa using he
      subst this
      simp [cn_nil, pairsContent]
    · -- the optional comma
      obtain ⟨line1, hl1, p1, e1⟩ : ∃ line1, line1 = (if sw line "," = true then lstrip (line.drop 1) else line)
          ∧ Piece m line1 ∧ cn m line1 = cn m line := by
        refine ⟨_, rfl, ?_⟩
        by_cases hc : sw line "," = true
        · simp only [hc, if_true]
          have es := sw_comma hc
          have hp' : Piece m (',' :: line.drop 1) := by rw [← es]; exact hp
          obtain ⟨pd, ed⟩ := cn_cons hp' (by decide)
          obtain ⟨pl, el⟩ := cn_lstrip pd
          refine ⟨pl, ?_⟩
          rw [el, ← ed, ← es]
        · simp only [hc, Bool.false_eq_true, if_false]
          exact ⟨hp, trivial⟩
      simp only [← hl1] at h
      split at h
      · exact absurd h (by simp)
      · rename_i hsl
        have hsl' : sw line1 "/" = true := by simpa using hsl
        have e0 : line1 = '/' :: line1.drop 1 := sw_slash hsl'
        have p1' : Piece m ('/' :: line1.drop 1) := by rw [← e0]; exact p1
        obtain ⟨pd, ed⟩ := cn_cons p1' (by decide)
        cases hc : cutFirst '/' (line1.drop 1) with
        | none => rw [hc] at h; exact absurd h (by simp)
        | some ab =>
          obtain ⟨nm, rest⟩ := ab
          simp only [hc] at h
          obtain ⟨e2, _⟩ := cutFirst_spec _ _ _ hc
          rw [e2] at pd
          obtain ⟨pnm, prest, e3⟩ := cn_sep pd (by decide)
          obtain ⟨plr, elr⟩ := cn_lstrip prest
          cases htl : commonTail m (lstrip rest) with
          | none => rw [htl] at h; exact absurd h (by simp)
          | some ll =>
            obtain ⟨lst, line'⟩ := ll
            simp only [htl] at h
            obtain ⟨pl', e4⟩ := commonTail_content plr htl
            cases hm : commonMore m fuel line' with
            | none => rw [hm] at h; exact absurd h (by simp)
            | some more' =>
              simp only [hm, Option.some.injEq] at h
              subst h
              obtain ⟨hn1, hn2⟩ := NamesPlain_cons hn
              have ih := commonMore_content fuel line' more' pl' hm hn2
              have enm := commonName_content pnm hn1
              rw [← e1, e0, ed, e2, e3, ← elr, e4, ih, enm]
              simp [pairsContent, pairContent]

/-- one `/name/ list` of the printed statement -/
def itemStr (o : Leaves A) (p : Option A × A) : Str :=
  match p.1 with
  | some n => " /".toList ++ o.render n ++ "/ ".toList ++ o.render p.2
  | none => " // ".toList ++ o.render p.2

theorem tostrCommonStmt_eq (o : Leaves A) (items : List (Option A × A)) :
    tostrCommonStmt o items = "COMMON".toList ++ (items.map (itemStr o)).flatten := rfl

/-- what the children print, given what they were handed -/
theorem leafCommon_items (o : Leaves A) (hf : Faithful o) :
    ∀ (ps : List (Option Str × Str)) (items : List (Option A × A)), leafCommon o ps = some items →
      content ((items.map (itemStr o)).flatten) = pairsContent ps
  | [], items, h => by
    simp only [leafCommon, Option.some.injEq] at h
    subst h
    rfl
  | (nm, lst) :: ps, items, h => by
    unfold leafCommon at h
    simp only at h
    cases nm with
    | none =>
      simp only at h
      cases hl : o.leaf .commonBlockObjectList lst with
      | none => rw [hl] at h; exact absurd h (by simp)
      | some l =>
        rw [hl] at h
        cases hr : leafCommon o ps with
        | none => rw [hr] at h; exact absurd h (by simp)
        | some r =>
          rw [hr] at h
          simp only [Option.some.injEq] at h
          subst h
          have ih := leafCommon_items o hf ps r hr
          have fl := content_of_toks_eq (hf _ _ _ hl)
          have k : content " // ".toList = [] := by decide
          simp only [List.map_cons, List.flatten_cons, content_append, itemStr, k, fl, ih,
            pairsContent, pairContent, List.nil_append]
    | some t =>
      simp only at h
      cases hn : o.leaf .commonBlockName t with
      | none => rw [hn] at h; exact absurd h (by simp)
      | some a =>
        rw [hn] at h
        simp only [Option.map_some] at h
        cases hl : o.leaf .commonBlockObjectList lst with
        | none => rw [hl] at h; exact absurd h (by simp)
        | some l =>
          rw [hl] at h
          cases hr : leafCommon o ps with
          | none => rw [hr] at h; exact absurd h (by simp)
          | some r =>
            rw [hr] at h
            simp only [Option.some.injEq] at h
            subst h
            have ih := leafCommon_items o hf ps r hr
            have fl := content_of_toks_eq (hf _ _ _ hl)
            have fn := content_of_toks_eq (hf _ _ _ hn)
            have k1 : content " /".toList = [] := by decide
            have k2 : content "/ ".toList = [] := by decide
            simp only [List.map_cons, List.flatten_cons, content_append, itemStr, k1, k2, fl, fn, ih,
              pairsContent, pairContent, List.nil_append, List.append_assoc]

theorem leafCommon_content (o : Leaves A) (hf : Faithful o) (ps : List (Option Str × Str))
    (items : List (Option A × A)) (h : leafCommon o ps = some items) :
    content (tostrCommonStmt o items) = "COMMON".toList ++ pairsContent ps := by
  rw [tostrCommonStmt_eq, content_append, leafCommon_items o hf ps items h]
  rfl

/-- the texts `Common_Stmt.match` hands to its children carry the content of the statement -/
theorem commonTexts_content (s : Str) (ps : List (Option Str × Str)) (h : commonTexts s = some ps)
    (hv : ∀ r, tokenise (lstrip (s.drop 6)) = some r → View (lstrip (s.drop 6)) r)
    (hn : NamesPlain ps) :
    content (s.drop 6) = pairsContent ps := by
  unfold commonTexts at h
  split at h
  · exact absurd h (by simp)
  split at h
  · exact absurd h (by simp)
  rename_i c cs hd
  split at h
  · exact absurd h (by simp)
  rw [hd] at hv ⊢
  cases ht : tokenise (lstrip (c :: cs)) with
  | none => rw [ht] at h; exact absurd h (by simp)
  | some r =>
    have v := hv r ht
    simp only [ht] at h
    have hwhole : content (c :: cs) = cn r.map r.text := by
      unfold cn
      apply content_of_toks_eq
      have : toks (applyMap r.map r.text) = toks (lstrip (c :: cs)) := v.whole
      rw [this, toks_lstrip]
    rw [hwhole]
    by_cases hsl : sw r.text "/" = true
    · simp only [hsl, if_true] at h
      have e0 := sw_slash hsl
      have p1' : Piece r.map ('/' :: r.text.drop 1) := by rw [← e0]; exact v.piece
      obtain ⟨pd, ed⟩ := cn_cons p1' (by decide)
      cases hc : cutFirst '/' (r.text.drop 1) with
      | none => rw [hc] at h; exact absurd h (by simp)
      | some ab =>
        obtain ⟨nm, rest⟩ := ab
        simp only [hc] at h
        obtain ⟨e2, _⟩ := cutFirst_spec _ _ _ hc
        rw [e2] at pd
        obtain ⟨pnm, prest, e3⟩ := cn_sep pd (by decide)
        obtain ⟨plr, elr⟩ := cn_lstrip prest
        cases htl : commonTail r.map (lstrip rest) with
        | none => rw [htl] at h; exact absurd h (by simp)
        | some ll =>
          obtain ⟨lst, line'⟩ := ll
          simp only [htl] at h
          obtain ⟨pl', e4⟩ := commonTail_content plr htl
          cases hm : commonMore r.map (line'.length + 1) line' with
          | none => rw [hm] at h; exact absurd h (by simp)
          | some more' =>
            simp only [hm, Option.some.injEq] at h
            subst h
            obtain ⟨hn1, hn2⟩ := NamesPlain_cons hn
            have ih := commonMore_content _ line' more' pl' hm hn2
            have enm := commonName_content pnm hn1
            rw [e0, ed, e2, e3, ← elr, e4, ih, enm]
            simp [pairsContent, pairContent]
    · simp only [hsl, Bool.false_eq_true, if_false] at h
      cases htl : commonTail r.map r.text with
      | none => rw [htl] at h; exact absurd h (by simp)
      | some ll =>
        obtain ⟨lst, line'⟩ := ll
        simp only [htl] at h
        obtain ⟨pl', e4⟩ := commonTail_content v.piece htl
        cases hm : commonMore r.map (line'.length + 1) line' with
        | none => rw [hm] at h; exact absurd h (by simp)
        | some more' =>
          simp only [hm, Option.some.injEq] at h
          subst h
          obtain ⟨_, hn2⟩ := NamesPlain_cons hn
          have ih := commonMore_content _ line' more' pl' hm hn2
          rw [e4, ih]
          simp [pairsContent, pairContent]

/-- **Common_Stmt, content** (view of the tokeniser explicit) -/
theorem commonStmt_content_view (o : Leaves A) (hf : Faithful o) (s : Str)
    (n : List (Option A × A)) (h : matchCommonStmt o s = some n)
    (hv : ∀ r, tokenise (lstrip (s.drop 6)) = some r → View (lstrip (s.drop 6)) r)
    (hn : ∀ ps, commonTexts s = some ps → NamesPlain ps) :
    content (tostrCommonStmt o n) = "COMMON".toList ++ content (s.drop 6) := by
  unfold matchCommonStmt at h
  cases hc : commonTexts s with
  | none => rw [hc] at h; exact absurd h (by simp)
  | some ps =>
    rw [hc] at h
    rw [leafCommon_content o hf ps n h, commonTexts_content s ps hc hv (hn ps hc)]

end Fp.Decl
