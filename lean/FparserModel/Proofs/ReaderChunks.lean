import FparserModel.Proofs.ReaderStmts

/-!
# ReaderChunks — the chunk kinds of the clean free-form layout class

comment line, one-line statement, continued statement (`join_continuation`), preprocessor
directive: each satisfies the `Chunk.ok` contract of `ReaderStmts.lean`.
-/
namespace Fp.Reader
open Fp

theorem afterChunk_eq (r : Rd) (c : Chunk) (rest : List Str) (f : List Item) :
    ({ afterChunk r c rest with fifo := f } : Rd) =
      { r with src := rest, linecount := r.linecount + c.lines.length,
               linesRev := (c.lines.map cook).reverse ++ r.linesRev, fifo := f } := rfl

/-! ### comment line -/

def commentChunk (l body : Str) : Chunk :=
  ⟨[l], fun lc => .comment ('!' :: body) (lc + 1) (lc + 1) false, fun _ => []⟩

theorem commentChunk_ok (o : Bool) (l ws body : Str) (hck : cook l = ws ++ '!' :: body)
    (hws : AllSpace ws) (hom : o = true → (replaceSentinelFree (cook l)).2 = false)
    (hf2py : startsWith ('!' :: body) kF2py = false) : (commentChunk l body).ok o where
  nonempty := by simp [commentChunk]
  comments := fun _ x hx => by cases hx
  few := fun _ => by simp [commentChunk]
  nosemi := fun _ => NoSemi.comment _ _ _ _
  first := fun _ => rfl
  last := fun _ => by simp [commentChunk, Item.last]
  read := fun r rest h0 hfifo h1 h2 h3 hsrc => by
    rw [getSourceItem_comment_free r l rest ws body hfifo h1 h2 h3 hsrc hck hws
      (fun h => hom (h0 ▸ h)) hf2py, afterChunk_eq]
    simp [commentChunk, hfifo]

/-! ### statement on one line -/

theorem freeStep_single_clean (line t1 b1 : Str) (lab : Option Nat) (nam : Option Str) (n : Nat)
    (hlab : extractLabel line = (lab, t1)) (hnam : extractName t1 = (nam, b1)) (hb : CleanBody b1) :
    freeStep false line n none none none = ⟨lab, nam, ⟨b1, none, false, []⟩, b1, false⟩ := by
  obtain ⟨hb1, hb2, hb3, hb4⟩ := hb
  have hh := hic_clean b1 n hb2 hb4 hb3
  have hr : rfind b1 '&' = none := rfind_none hb1
  unfold freeStep
  simp only [Bool.false_eq_true, if_false, hlab, hnam, hh, hr, Bool.not_true, Bool.not_false, if_true]

def stmtChunk (l b1 : Str) (lab : Option Nat) (nam : Option Str) : Chunk :=
  ⟨[l], fun lc => .line (strip b1) lab nam (lc + 1) (lc + 1), fun _ => []⟩

theorem stmtChunk_ok (o : Bool) (l t1 b1 : Str) (lab : Option Nat) (nam : Option Str)
    (hcpp : startsWith (lstrip (cook l)) ['#'] = false)
    (hom : o = true → (replaceSentinelFree (cook l)).2 = false)
    (hlab : extractLabel (cook l) = (lab, t1)) (hnam : extractName t1 = (nam, b1))
    (hb : CleanBody b1) (hne : strip b1 ≠ [])
    (hsemi : (stringReplaceMap (strip b1) true).1.contains ';' = false) :
    (stmtChunk l b1 lab nam).ok o where
  nonempty := by simp [stmtChunk]
  comments := fun _ x hx => by cases hx
  few := fun _ => by simp [stmtChunk]
  nosemi := fun _ text _ _ _ _ hv => by
    simp only [stmtChunk, Item.lineView, Option.some.injEq, Prod.mk.injEq] at hv
    rw [← hv.1]; exact hsemi
  first := fun _ => rfl
  last := fun _ => by simp [stmtChunk, Item.last]
  read := fun r rest h0 hfifo h1 h2 h3 hsrc => by
    rw [getSourceItem_plain_free r l rest h1 h2 h3 hsrc hcpp (fun h => hom (h0 ▸ h))]
    have hst := freeStep_single_clean (cook l) t1 b1 lab nam (r.linecount + 1) hlab hnam hb
    rw [freeItem_single _ _ false _ (fun h => by cases h) (by rw [hst])]
    rw [hst, afterChunk_eq]
    unfold singleOut
    simp only [hne, bne_iff_ne, ne_eq, not_false_eq_true, if_true, hfifo, List.append_nil,
      stmtChunk, List.length_cons, List.length_nil, List.map_cons, List.map_nil, List.reverse_cons,
      List.reverse_nil, List.nil_append, List.singleton_append]

/-! ### continued statement -/

theorem joinComments_isComment : ∀ (cs : List CLine) (n : Nat), ∀ x ∈ joinComments n cs,
    x.isComment = true
  | [], _, x, hx => by cases hx
  | .comment t :: cs, n, x, hx => by
    simp only [joinComments, List.mem_cons] at hx
    rcases hx with rfl | hx
    · rfl
    · exact joinComments_isComment cs (n + 1) x hx
  | .blank :: cs, n, x, hx => joinComments_isComment cs (n + 1) x hx
  | .cont _ _ _ _ :: cs, n, x, hx => joinComments_isComment cs (n + 1) x hx

theorem joinComments_length : ∀ (cs : List CLine) (n : Nat), (joinComments n cs).length ≤ cs.length
  | [], _ => Nat.le_refl _
  | .comment t :: cs, n => by
    simp only [joinComments, List.length_cons]; have := joinComments_length cs (n + 1); omega
  | .blank :: cs, n => by
    simp only [joinComments, List.length_cons]; have := joinComments_length cs (n + 1); omega
  | .cont _ _ _ _ :: cs, n => by
    simp only [joinComments, List.length_cons]; have := joinComments_length cs (n + 1); omega

def contChunk (l1 l2 : Str) (ls : List Str) (b1 : Str) (lab : Option Nat) (nam : Option Str)
    (c : CLine) (cs : List CLine) : Chunk :=
  ⟨l1 :: l2 :: ls,
   fun lc => .line (strip (b1 ++ joinPieces (c :: cs))) lab nam (lc + 1) (lc + 2 + cs.length),
   fun lc => joinComments (lc + 2) (c :: cs)⟩

theorem contChunk_ok (l1 l2 : Str) (ls : List Str) (t1 b1 : Str) (lab : Option Nat) (nam : Option Str)
    (c : CLine) (cs : List CLine)
    (hcpp : startsWith (lstrip (cook l1)) ['#'] = false)
    (hlab : extractLabel (cook l1) = (lab, t1)) (hnam : extractName t1 = (nam, b1 ++ ['&']))
    (hb1 : CleanBody b1) (hc2 : cook l2 = c.text) (hck : Cooked ls cs) (hw : WFc (c :: cs))
    (hne : strip (b1 ++ joinPieces (c :: cs)) ≠ [])
    (hsemi : (stringReplaceMap (strip (b1 ++ joinPieces (c :: cs))) true).1.contains ';' = false) :
    (contChunk l1 l2 ls b1 lab nam c cs).ok false where
  nonempty := by simp [contChunk]
  comments := fun lc => joinComments_isComment _ _
  few := fun lc => by
    have := joinComments_length (c :: cs) (lc + 2)
    have := hck.length
    simp only [contChunk, List.length_cons] at *
    omega
  nosemi := fun _ text _ _ _ _ hv => by
    simp only [contChunk, Item.lineView, Option.some.injEq, Prod.mk.injEq] at hv
    rw [← hv.1]; exact hsemi
  first := fun _ => rfl
  last := fun _ => by
    have := hck.length
    simp only [contChunk, Item.last, List.length_cons]; omega
  read := fun r rest h0 hfifo h1 h2 h3 hsrc => by
    rw [getSourceItem_join r l1 l2 ls rest t1 b1 lab nam c cs hfifo h1 h2 h3 h0
      (by simpa [contChunk] using hsrc) hcpp hlab hnam hb1 hc2 hck hw hne, afterChunk_eq]
    have := hck.length
    simp only [contChunk, List.length_cons, Prod.mk.injEq, Rd.mk.injEq, true_and, and_true]
    omega

/-! ### preprocessor directive -/

def cppChunk (l0 : Str) (ls : List Str) : Chunk :=
  ⟨l0 :: ls,
   fun lc => .cpp (strip (joinCpp (cook l0) (ls.map cook))) (lc + 1) (lc + 1 + ls.length),
   fun _ => []⟩

theorem cppChunk_ok (o : Bool) (l0 : Str) (ls : List Str)
    (hh : startsWith (lstrip (cook l0)) ['#'] = true) (hc : CppCont (cook l0) (ls.map cook))
    (hsemi : (stringReplaceMap (strip (joinCpp (cook l0) (ls.map cook))) true).1.contains ';' = false) :
    (cppChunk l0 ls).ok o where
  nonempty := by simp [cppChunk]
  comments := fun _ x hx => by cases hx
  few := fun _ => by simp [cppChunk]
  nosemi := fun _ text _ _ _ _ hv => by
    simp only [cppChunk, Item.lineView, Option.some.injEq, Prod.mk.injEq] at hv
    rw [← hv.1]; exact hsemi
  first := fun _ => rfl
  last := fun _ => by simp only [cppChunk, Item.last, List.length_cons]; omega
  read := fun r rest _ hfifo h1 h2 h3 hsrc => by
    rw [getSourceItem_cpp_free r l0 ls rest h1 h2 h3 (by simpa [cppChunk] using hsrc) hh hc,
      afterChunk_eq]
    simp only [cppChunk, List.length_cons, Prod.mk.injEq, Rd.mk.injEq, true_and, and_true]
    exact ⟨hfifo, by omega⟩

end Fp.Reader
