import FparserModel.Wire
import FparserModel.Rest
import FpDriver.IoStmt
/-!
driver commands of the Rest slice (trusted glue, no theorems)

    rest.match  cls text entry*
        cls = class name ; entry = 8 fields, one ANSWERED child call (as for iostmt.match):
            cls text kind str rhsStr head heads flag
            kind = ok | nomatch | raises
            flag (kind ok) = "<class names of type(node).__mro__ joined by ,>;<0|1>" — the second part is
                 the `P` test of Format_Item_C1002 on the node; (kind raises) = exception name
        → unmodelled
        | ask cls text                      the model needs `cls(text)`: answer it and ask again
        | nomatch
        | raises excname
        | pass i                            the object of entry i is returned itself (`Char_Expr` …)
        | ok n item* (str text | strraises excname)      item = N | S text | T i
    rest.plan   cls text
        → unmodelled | none (child-dependent class) | nomatch | raises excname
        | ok n slot*      slot = N | S text | C cls text | F | X excname        (call order)
    rest.str    cls item*            item = N | S text | T text
        → unmodelled | str text | strraises excname
    rest.classes → the class names (id order)
-/
namespace FpDriver.Rest
open Fp Fp.Wire Fp.IoStmt Fp.Rest
open FpDriver.IoStmt (ok excName Entry decEntries findEntry encItem encStrRes TNode textOracle decItems)

def clsOf (name : String) : Option ClassId :=
  let i := Rest.clsNames.idxOf name
  if i < Rest.clsNames.length then some i else none

def nameOf (c : ClassId) : String := Rest.clsNames.getD c "?"

/-- nodes are indices into the entry table -/
def tableOracle (es : List Entry) : Oracle Nat :=
  { call := fun c t =>
      match findEntry es (nameOf c) t with
      | none => .raises (.child ('?' :: (nameOf c).toList ++ '\t' :: t))
      | some (i, e) =>
        if e.kind == "ok" then .ok i
        else if e.kind == "nomatch" then .noMatch
        else .raises (.child e.flag.toList)
    str := fun i => (es[i]?.map (·.str)).getD []
    head := fun i => (es[i]?.map (·.head)).getD none
    rhsStr := fun i => (es[i]?.map (·.rhs)).getD []
    heads := fun i => (es[i]?.map (·.heads)).getD []
    isDataEdit := fun _ => false }

def tableKinds (es : List Entry) : Kinds Nat :=
  { isInst := fun i name =>
      match es[i]? with
      | some e => (((e.flag.splitOn ";").headD "").splitOn ",").contains name
      | none => false
    pOK := fun i =>
      match es[i]? with
      | some e => ((e.flag.splitOn ";").getD 1 "") == "1"
      | none => false }

def encSlot : Slot → List String
  | .none => [enc "N"]
  | .str s => [enc "S", encL s]
  | .child c s => [enc "C", enc (nameOf c), encL s]
  | .fail => [enc "F"]
  | .raise e => [enc "X", enc (excName e)]

def handle (cmd : String) (args : List String) : Option String :=
  match cmd, args with
  | "rest.classes", _ => some (ok (Rest.clsNames.map enc))
  | "rest.match", cls :: text :: entries =>
    match clsOf (dec cls) with
    | none => some (ok [enc "unmodelled"])
    | some c =>
      let es := decEntries entries
      let o := tableOracle es
      match Rest.matchOf (tableKinds es) o c (decL text) with
      | none => some (ok [enc "unmodelled"])
      | some .noMatch => some (ok [enc "nomatch"])
      | some (.raises (.child ('?' :: q))) =>
        let qs := String.ofList q
        (match qs.splitOn "\t" with
          | n :: rest => some (ok [enc "ask", enc n, enc ("\t".intercalate rest)])
          | [] => some (ok [enc "ask", enc "", enc ""]))
      | some (.raises e) => some (ok [enc "raises", enc (excName e)])
      | some (.ok (.pass i)) => some (ok [enc "pass", enc (toString i)])
      | some (.ok (.tuple items)) =>
        let pr := match Rest.tostrOf o c items with
          | some r => encStrRes r
          | none => [enc "strraises", enc "unmodelled"]
        some (ok (enc "ok" :: enc (toString items.length) :: items.flatMap encItem ++ pr))
  | "rest.plan", [cls, text] =>
    match clsOf (dec cls) with
    | none => some (ok [enc "unmodelled"])
    | some c =>
      match Rest.planOf c with
      | none => some (ok [enc (if (Rest.matchOf (tableKinds []) (tableOracle []) c []).isSome then "none" else "unmodelled")])
      | some plan =>
        match plan (decL text) with
        | .noMatch => some (ok [enc "nomatch"])
        | .raises e => some (ok [enc "raises", enc (excName e)])
        | .ok slots => some (ok (enc "ok" :: enc (toString slots.length) :: slots.flatMap encSlot))
  | "rest.str", cls :: items =>
    match clsOf (dec cls), decItems items with
    | some c, some its =>
      (match Rest.tostrOf textOracle c its with
        | some r => some (ok (encStrRes r))
        | none => some (ok [enc "unmodelled"]))
    | _, _ => some ("ERR\t" ++ enc "bad rest.str request")
  | _, _ => none

end FpDriver.Rest
