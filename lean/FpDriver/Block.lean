import Std.Data.HashMap
import FparserModel.Wire
import FparserModel.Block
import FparserModel.Generated.Blocks2003
import FparserModel.Generated.Blocks2008

/-!
Driver commands of model M-D.

`block.run  std pd items blank oracle start fuel`

* `std`    : `f2003` | `f2008` (selects the generated table compiled into the driver)
* `pd`     : `1` if `reader.process_directives`
* `items`  : tokens `kind dir` per item (kind 0 line, 1 comment, 2 cpp; dir 1 = directive-form
             comment); the item id is its position
* `blank`  : characters `0/1`: position p = "all source lines read so far are blank/comment"
             after p items were pulled; the last character is the value at end of file
* `oracle` : `;`-separated entries `item cls tag npc pc… [info]` (tag 0 none, 1 matched,
             2 NoMatch, 3 Syntax, 4 InternalSyntax, 5 SystemExit, 6 Other); info =
             `cls scoping scopeName hasSL SL hasEL EL hasSN SN hasEN EN hasN N nisa isa…`
             with optional values as 0 = None, k+1 = k
* `start`  : class id to call (empty: `Program`)
* `fuel`

Reply: outcome, tree S-expression, oracle queries, stream ops, scope ops, forest,
open chain (names, current first), pulled, ghost events, queries missing from the recording.

`block.names std` returns the class keys (newline separated).
-/
namespace FpDriver.Block
open Fp.Wire Fp.Block

def toks (s : String) : List Nat :=
  (s.splitOn " ").filterMap (fun t => if t.isEmpty then none else t.toNat?)

def optOf (n : Nat) : Option Nat := if n = 0 then none else some (n - 1)

def parseInfo : List Nat → NodeInfo
  | c :: sc :: sn :: hsl :: sl :: hel :: el :: hsn :: stn :: hen :: en :: hn :: nm :: _ :: isa =>
    { cls := c, isa := isa, scoping := sc != 0, scopeName := optOf sn,
      hasStartLabel := hsl != 0, startLabel := optOf sl,
      hasEndLabel := hel != 0, endLabel := optOf el,
      hasStartName := hsn != 0, startName := optOf stn,
      hasEndName := hen != 0, endName := optOf en,
      hasName := hn != 0, name := optOf nm }
  | _ => {}

def excOfTag : Nat → Exc
  | 2 => .noMatch | 3 => .syntax | 4 => .internalSyntax | 5 => .systemExit | _ => .other

def parseEntry (s : String) : Option ((Nat × Nat) × LeafAns) :=
  match toks s with
  | it :: c :: tag :: npc :: rest =>
    let pc := rest.take npc
    let rest := rest.drop npc
    let res : LeafRes :=
      if tag = 0 then .none
      else if tag = 1 then .matched (parseInfo rest)
      else .raise (excOfTag tag)
    some ((it, c), { res := res, pcAdd := pc })
  | _ => none

def parseOracle (s : String) : Std.HashMap (Nat × Nat) LeafAns :=
  (s.splitOn ";").foldl (fun m e =>
    match parseEntry e with
    | some (k, v) => if m.contains k then m else m.insert k v
    | none => m) {}

def parseItems (s : String) : List Item :=
  let rec go : List Nat → Nat → List Item
    | k :: d :: rest, i =>
      { id := i, kind := (if k = 1 then .comment else if k = 2 then .cpp else .line),
        directive := d != 0 } :: go rest (i + 1)
    | _, _ => []
  go (toks s) 0

partial def sexpr : Tree → String
  | .leaf c i _ => s!"({c} #{i.id})"
  | .node c ks => "(" ++ " ".intercalate (toString c :: ks.map sexpr) ++ ")"

partial def scopeStr : Scope → String
  | .mk _ n ks => "(" ++ " ".intercalate (toString n :: ks.map scopeStr) ++ ")"

def excName : Exc → String
  | .noMatch => "NoMatch" | .syntax => "Syntax" | .internalSyntax => "InternalSyntax"
  | .systemExit => "SystemExit" | .other => "Other" | .outOfFuel => "OutOfFuel"

def ghostName : Ghost → String
  | .seqDrop => "seqDrop" | .hookDrop => "hookDrop" | .progDrop => "progDrop"
  | .fallback => "fallback" | .noMatchDrop => "noMatchDrop" | .scopeLeak => "scopeLeak" | .main0Leak => "main0Leak"
  | .emptyScopeName => "emptyScopeName" | .sysExit => "sysExit"
  | .abandon => "abandon" | .nameClash => "nameClash"

def tableOf (std : String) : Option (Table × Cls × Array String) :=
  if std = "f2003" then
    some (Generated.F2003.table, Generated.F2003.program, Generated.F2003.names)
  else if std = "f2008" then
    some (Generated.F2008.table, Generated.F2008.program, Generated.F2008.names)
  else none

def run (std pd items blank oracle start fuel : String) : Option String := do
  let (tbl, prog, _) ← tableOf std
  let orc := parseOracle oracle
  let bl := blank.toList.toArray
  let n := bl.size
  let env : Env :=
    { tbl := tbl
      orc := fun i c => (orc.get? (i, c)).getD { res := .raise .other }
      processDirectives := pd = "1"
      blank := fun p => bl.getD p '0' == '1'
      blankEof := bl.getD (n - 1) '0' == '1' }
  let c := (start.toNat?).getD prog
  let fu := (fuel.toNat?).getD 2000
  let (o, st) := Fp.Block.run env fu c (St.init (parseItems items))
  let log := st.log.reverse
  let outc := match o with
    | .tree _ => "tree" | .none => "none" | .raise e => "raise:" ++ excName e
  let tr := match o with
    | .tree t => sexpr t | _ => ""
  let queries := log.filterMap fun e => match e with
    | .query i c => some s!"{i}:{c}" | _ => none
  let sops := log.filterMap fun e => match e with
    | .get (some i) => some s!"g{i}" | .get none => some "g-" | .put i => some s!"p{i}"
    | _ => none
  let scops := log.filterMap fun e => match e with
    | .enter n => some s!"e{n}" | .exit => some "x" | .remove n => some s!"r{n}"
    | .rollback => some "b" | _ => none
  let ghosts := log.filterMap fun e => match e with
    | .ghost g => some (ghostName g) | _ => none
  let missing := log.filterMap fun e => match e with
    | .query i c => if orc.contains (i, c) then none else some s!"{i}:{c}" | _ => none
  let forest := " ".intercalate (st.sym.forest.map scopeStr)
  let chain := " ".intercalate (st.sym.stack.map (fun f => toString f.name))
  let reply := [outc, tr, " ".intercalate queries, " ".intercalate sops, " ".intercalate scops,
    forest, chain, toString st.stream.pulled, " ".intercalate ghosts, " ".intercalate missing]
  some ("OK\t" ++ "\t".intercalate (reply.map enc))

def handle : String → List String → Option String
  | "block.run", [std, pd, items, blank, oracle, start, fuel] =>
    match run (dec std) (dec pd) (dec items) (dec blank) (dec oracle) (dec start) (dec fuel) with
    | some r => some r
    | none => some ("ERR\t" ++ enc "block.run: unknown standard")
  | "block.names", [std] =>
    match tableOf (dec std) with
    | some (_, _, names) => some ("OK\t" ++ enc ("\n".intercalate names.toList))
    | none => some ("ERR\t" ++ enc "block.names: unknown standard")
  | _, _ => none

end FpDriver.Block
