import FparserModel.One2Re
import FparserModel.Generated.One2Tables

/-!
# One2 — fparser1's block parser over the generated class tables

Typed version of the nesting loop of `FparserModel/One.lean`, driven by the table that
`fv/extract_one2.py` reads from the live classes (`Generated/One2Tables.lean`).

Mirrors, branch for branch (free-form mode):

* `FortranParser.get_item`            — `reader.next(ignore_comments=…)`: `fill … ic`
* `BeginStatement.fill`               — `Comment` items are appended unclassified; end of input
                                         without END only logs "failed to find the end of block"
* `Do.process_subitem`                — end label hit (`hit`), shared label put-back (`shared`)
* `BeginStatement.process_subitem`    — `end_stmt_cls.match(line)` + `stmt.isvalid` (`endOk`), then the
                                         class list of the block in order, first valid match wins
                                         (`scan`), `stmt.ignore` (`Action.skip`), `Function.typedecl` (`nextCtx`),
                                         `handle_unknown_item_and_raise` (`Err.nopattern`)
* `EndStatement.process_item`, `EndDo.process_item`   — `endOk`
* `BeginStatement.__init__` / the `process_item` of the Begin classes — `childCtx` (`name`,
                                         `construct_name`, `endlabel`)
* `BeginStatement.tofortran`, `EndStatement.tofortran` — `pr` / `endText`; `items` re-reads the
                                         printed lines (what the second round of C19 parses)

Oracle fields of an `Item` (computed by the harness, see `fv/cosim_one2.py`): the statement classes
whose `match` accepts the line (`cands`; the per-statement regex parsers are leaves), the Begin classes
whose `process_item` rejects it (`invalid`: `Type`, `If`), the name found by the `process_item` of
`Subroutine` / `Function` / `Interface` / `Type` (`oname`), the entity list of a type declaration
(`decls`), the classes that cut a prefixed / typed FUNCTION header down (`needs`).  Begin and END lines are classified by the model itself with the translated regexes.
No Mathlib.
-/
namespace Fp.One2
open Fp

structure Item where
  id : Nat
  label : Option Nat := none
  cname : Str := []            -- `item.name` (construct name), `[]` = None
  text : Str := []             -- `item.get_line()`
  isComment : Bool := false
  cands : List Nat := []
  invalid : List Nat := []
  oname : Str := []
  decls : List Str := []
  typedHdr : Bool := false     -- `<type-spec> function f(..)`: `Function.typedecl` is set by the header
  needs : List Nat := []       -- oracle: the classes whose `process_item` cut the text down to the
                               -- header in `text` (`SubprogramPrefix`, the type declaration class of a
                               -- typed FUNCTION header): `put_item` + `item.clone`, `isvalid = False`
  deriving DecidableEq, Repr, Inhabited

/-- the state of an open block (`self` of the running `fill`) -/
structure Ctx where
  row : Nat                      -- index in `T.rows`; 0 = BeginSource
  name : Str := []               -- `self.name`
  cname : Str := []              -- `self.construct_name`
  endlabel : Option Nat := none  -- `Do.endlabel` when truthy
  parentDo : Option Nat := none  -- `self.parent.endlabel` when the parent is a `Do`
  typed : Bool := false          -- `Function.typedecl is not None`
  deriving DecidableEq, Repr, Inhabited

inductive Forest
  | nil
  | leaf (it : Item) (cls : Nat) (nx : Forest)             -- statement / one-line `If` / `Comment`
  | endl (it : Item) (nx : Forest)                         -- the END statement of the block
  | blk (it : Item) (row : Nat) (ch : Ctx) (kids nx : Forest)
  deriving DecidableEq, Repr, Inhabited

inductive Err
  | nopattern (id : Nat) (row : Nat)   -- `handle_unknown_item_and_raise`: AnalyzeError
  | assertion (id : Nat)               -- `assert self.parent.typedecl is None`
  | fuel
  deriving DecidableEq, Repr, Inhabited

inductive Action
  | comment
  | putback
  | close
  | skip
  | leaf (cls : Nat)
  | open_ (row : Nat) (ch : Ctx)
  | unknown
  | assertFail
  deriving DecidableEq, Repr, Inhabited

/-! ## table access -/

def rowAt (T : Tables) (i : Nat) : BlockRow := T.rows.getD i default

def findRow (k : Nat) : List BlockRow → Nat → Option (Nat × BlockRow)
  | [], _ => none
  | r :: rs, i => if r.id == k then some (i, r) else findRow k rs (i + 1)

/-- the row of the Begin class with class index `k` -/
def rowOf? (T : Tables) (k : Nat) : Option (Nat × BlockRow) := findRow k T.rows 0

def classId (T : Tables) (n : String) : Nat := T.classNames.idxOf n
def className (T : Tables) (k : Nat) : String := T.classNames.getD k "?"

def isDo (T : Tables) (c : Ctx) : Bool := (rowAt T c.row).cls == "Do"
def isFunction (T : Tables) (c : Ctx) : Bool := (rowAt T c.row).cls == "Function"
def isSub (T : Tables) (c : Ctx) : Bool :=
  (rowAt T c.row).cls == "Function" || (rowAt T c.row).cls == "Subroutine"

/-! ## END statements -/

def truthy (x : Option Nat) : Option Nat :=
  match x with
  | some 0 => none
  | y => y

/-- `EndDo.process_item`: label and construct-name checks (names compared case-SENSITIVELY: the
    line is lower-cased by `get_line()`, `construct_name` keeps the case of the source) -/
def endDoOk (c : Ctx) (it : Item) : Bool :=
  let found := (noBlanks it.text).drop 5
  (match c.endlabel with
   | some e => (match truthy it.label with
                | some l => l == e
                | none => false)
   | none => true)
  && (if c.cname != [] then found == c.cname else found == [])

/-- `EndStatement.process_item`: the text after `end` starts with the blocktype (or is empty);
    a name, if given, equals the construct name / block name ignoring case -/
def endNameOk (bt : Str) (nm : Str) (text : Str) : Bool :=
  let line := (noBlanks text).drop 3
  if startsWith (lower line) bt then
    let rest := line.drop bt.length
    rest == [] || lower rest == lower nm
  else line == []

/-- the name an END statement gets: `parent.construct_name or parent.name` -/
def endName (c : Ctx) : Str := if c.cname != [] then c.cname else c.name

/-- `cls = self.end_stmt_cls; cls.match(line)` and `cls(self, item).isvalid` -/
def endOk (T : Tables) (c : Ctx) (it : Item) : Bool :=
  let r := rowAt T c.row
  r.endCls != "" && r.endRe.matches it.text
    && (r.cls != "Do" || endDoOk c it)
    && endNameOk r.endBt.toList (endName c) it.text

/-! ## DO termination -/

/-- `Do.process_subitem`: the item carries this DO's end label -/
def hit (T : Tables) (c : Ctx) (it : Item) : Bool :=
  isDo T c && c.endlabel.isSome && it.label == c.endlabel

/-- … and the enclosing block is a DO with the same end label: `put_item(item)` -/
def shared (T : Tables) (c : Ctx) (it : Item) : Bool :=
  hit T c it && c.parentDo == c.endlabel

/-! ## Begin statements -/

/-- `Do.item_re`: the digits after `do` -/
def doLabel (text : Str) : Option Nat :=
  let ds := ((text.drop 2).dropWhile isSp).takeWhile isDigit
  if ds == [] then none else some (digitsToNat ds)

/-- `self.name` after `__init__` and the `process_item` of the class -/
def blockName (r : BlockRow) (it : Item) : Str :=
  if r.cls == "Module" || r.cls == "PythonModule" then (noBlanks it.text).drop r.beginBt.length
  else if r.cls == "Program" then
    let n := (noBlanks it.text).drop r.beginBt.length
    if n != [] then n else r.defName.toList
  else if r.cls == "BlockData" then lstrip ((lstrip (it.text.drop 5)).drop 4)
  else if r.cls == "Subroutine" || r.cls == "Function" || r.cls == "Interface" || r.cls == "Type" then
    it.oname
  else r.defName.toList

def childCtx (T : Tables) (c : Ctx) (ri : Nat) (it : Item) : Ctx :=
  let r := rowAt T ri
  { row := ri, name := blockName r it, cname := it.cname,
    endlabel := if r.cls == "Do" then truthy (doLabel it.text) else none,
    parentDo := if isDo T c then c.endlabel else none,
    typed := it.typedHdr }

/-- A header `<prefix> <type-spec> function f(..)` only reaches the `Function` class through the
    classes that cut the prefix / type off (`it.needs`): each must be offered by the block BEFORE the
    Begin class `k` (first occurrences).  E.g. `Interface.get_classes()` = `intrinsic_type_spec +
    interface_specification` has no `TypeStmt` / `Class`: `type(t) function f(x)` inside an interface
    block matches no class (a defect of fparser1 that the model mirrors). -/
def needsOk (T : Tables) (c : Ctx) (it : Item) (k : Nat) : Bool :=
  let cl := (rowAt T c.row).classes
  it.needs.all fun d => decide (cl.idxOf d < cl.idxOf k)

/-- `TypeDeclarationStatement.process_item`: a type declaration naming the enclosing FUNCTION becomes
    the function's `typedecl`; the block goes on with this state -/
def typesFn (T : Tables) (c : Ctx) (it : Item) : Bool :=
  !it.isComment && isFunction T c && it.decls.contains c.name

def nextCtx (T : Tables) (c : Ctx) (it : Item) : Ctx := { c with typed := c.typed || typesFn T c it }

/-- the class list of the block, first valid match wins.  A type declaration that names the enclosing
    FUNCTION sets `Function.typedecl` (AssertionError if it is set already); it is ignored
    (`stmt.ignore`) only when it declares nothing else - otherwise it stays, for the other entities. -/
def scan (T : Tables) (c : Ctx) (it : Item) : List Nat → Action
  | [] => .unknown
  | k :: ks =>
    match rowOf? T k with
    | some (ri, r) =>
      if r.beginRe.matches it.text && !it.invalid.contains k && needsOk T c it k then
        if r.endCls == "" then .leaf k else .open_ ri (childCtx T c ri it)
      else scan T c it ks
    | none =>
      if it.cands.contains k then
        if k == classId T "SubprogramPrefix" then
          (if isSub T c then .skip else scan T c it ks)
        else if typesFn T c it then
          (if c.typed then .assertFail
           else if it.decls.all (· == c.name) then .skip else .leaf k)
        else .leaf k
      else scan T c it ks

/-- what `fill` does with one item -/
def step (T : Tables) (c : Ctx) (it : Item) : Action :=
  if it.isComment then .comment
  else if shared T c it then .putback
  else if endOk T c it then .close
  else scan T c it (rowAt T c.row).classes

/-- `BeginStatement.fill` (`ic` = `ignore_comments` of `FortranParser`) -/
def fill (T : Tables) (ic : Bool) : Nat → Ctx → List Item → Except Err (Forest × List Item)
  | 0, _, _ => .error .fuel
  | _ + 1, _, [] => .ok (.nil, [])
  | f + 1, c, it :: ls =>
    if it.isComment && ic then fill T ic f c ls
    else
      match step T c it with
      | .comment =>
        (match fill T ic f (nextCtx T c it) ls with
         | .error e => .error e
         | .ok (nx, rest) => .ok (.leaf it (classId T "Comment") nx, rest))
      | .putback => .ok (.nil, it :: ls)
      | .close => .ok (.endl it .nil, ls)
      | .skip =>
        if hit T c it then .ok (.nil, ls) else fill T ic f (nextCtx T c it) ls
      | .leaf k =>
        if hit T c it then .ok (.leaf it k .nil, ls)
        else
          (match fill T ic f (nextCtx T c it) ls with
           | .error e => .error e
           | .ok (nx, rest) => .ok (.leaf it k nx, rest))
      | .open_ ri ch =>
        (match fill T ic f ch ls with
         | .error e => .error e
         | .ok (kids, rest) =>
           if hit T c it then .ok (.blk it ri ch kids .nil, rest)
           else
             (match fill T ic f c rest with
              | .error e => .error e
              | .ok (nx, rest') => .ok (.blk it ri ch kids nx, rest')))
      | .unknown => .error (.nopattern it.id c.row)
      | .assertFail => .error (.assertion it.id)

def topCtx : Ctx := { row := 0 }

/-- `BeginSource(parser)`: the whole source -/
def parse1 (T : Tables) (ic : Bool) (is : List Item) : Except Err Forest :=
  match fill T ic (is.length + 1) topCtx is with
  | .error e => .error e
  | .ok (t, _) => .ok t

/-! ## printing -/

/-- `EndStatement.tofortran` without the indentation: `END <BLOCKTYPE> <name>` / `END <BLOCKTYPE>` -/
def endText (T : Tables) (c : Ctx) : Str :=
  let bt := upper (rowAt T c.row).endBt.toList
  let nm := endName c
  if nm != [] then "END ".toList ++ bt ++ ' ' :: nm else "END ".toList ++ bt

/-- `BeginStatement.tostr`: `BLOCKTYPE name` -/
def baseHdr (r : BlockRow) (name : Str) : Str := upper r.beginBt.toList ++ ' ' :: name

/-- the END line as the second round reads it (lower-cased by `get_line()`; no statement class
    matches it: `T.endLineQuiet`) -/
def reEnd (id : Nat) (label : Option Nat) (text : Str) : Item :=
  { id := id, label := label, text := lower text }

/-- the block header as the second round reads it: a `BLOCKTYPE name` header is re-classified
    from its text, every other header is a leaf of the model (same classification) -/
def reHdr (T : Tables) (it : Item) (ri : Nat) (ch : Ctx) : Item :=
  if (rowAt T ri).baseTostr then { it with text := strip (lower (baseHdr (rowAt T ri) ch.name)) }
  else it

inductive PLine
  | stmt (it : Item) (cls : Nat)
  | hdr (it : Item) (row : Nat) (ch : Ctx)
  | endl (id : Nat) (label : Option Nat) (text : Str)
  deriving DecidableEq, Repr, Inhabited

def PLine.id : PLine → Nat
  | .stmt it _ => it.id
  | .hdr it _ _ => it.id
  | .endl id _ _ => id

/-- `BeginStatement.tofortran`: header (a `BLOCKTYPE name` header in its printed form), content;
    the END statement is printed from the block -/
def pr (T : Tables) (c : Ctx) : Forest → List PLine
  | .nil => []
  | .leaf it k nx => .stmt it k :: pr T (nextCtx T c it) nx
  | .endl it nx => .endl it.id it.label (endText T c) :: pr T c nx
  | .blk it ri ch kids nx => .hdr (reHdr T it ri ch) ri ch :: (pr T ch kids ++ pr T c nx)

def print1 (T : Tables) (t : Forest) : List PLine := pr T topCtx t

def reItem (T : Tables) : PLine → Item
  | .stmt it _ => it
  | .hdr it _ _ => it
  | .endl id label text => reEnd id label text

/-- the items the reader delivers for the printed source -/
def items (T : Tables) (ls : List PLine) : List Item := ls.map (reItem T)

/-- items of the tree in print order -/
def flat : Forest → List Item
  | .nil => []
  | .leaf it _ nx => it :: flat nx
  | .endl it nx => it :: flat nx
  | .blk it _ _ kids nx => it :: (flat kids ++ flat nx)

def Forest.size : Forest → Nat
  | .nil => 0
  | .leaf _ _ nx => nx.size + 1
  | .endl _ nx => nx.size + 1
  | .blk _ _ _ kids nx => kids.size + nx.size + 1

/-- every END line and every `BLOCKTYPE name` header of the printed tree is, when read again in
    its block, treated as in the first round (decidable; sufficient syntactic conditions:
    `Props/One2.lean`) -/
def restep (T : Tables) (c : Ctx) : Forest → Bool
  | .nil => true
  | .leaf it _ nx => restep T (nextCtx T c it) nx
  | .endl it nx => step T c (reEnd it.id it.label (endText T c)) == .close && restep T c nx
  | .blk it ri ch kids nx =>
    step T c (reHdr T it ri ch) == .open_ ri ch && restep T ch kids && restep T c nx

/-- a type declaration that declares one name only (possibly repeated) -/
def singleDecl (it : Item) : Bool :=
  match it.decls with
  | [] => false
  | d :: ds => ds.all (· == d)

/-- items that `fill` may leave out of the tree: comments (`ignore_comments`), a bare prefix line
    (`pure` / `elemental` / `recursive`), a type declaration of a single name (when that is the
    enclosing FUNCTION it becomes the function's type and is printed in the header) -/
def droppable (T : Tables) (it : Item) : Bool :=
  it.isComment || it.cands.contains (classId T "SubprogramPrefix") || singleDecl it

/-! ## rendering for the driver -/

def showForest : Forest → String
  | .nil => ""
  | .leaf it _ nx => " " ++ toString it.id ++ showForest nx
  | .endl it nx => " " ++ toString it.id ++ showForest nx
  | .blk it _ _ kids nx => " (" ++ toString it.id ++ showForest kids ++ ")" ++ showForest nx

def showLabel : Option Nat → String
  | some n => toString n ++ " "
  | none => ""

def showPLine (T : Tables) : PLine → String
  | .stmt it k => toString it.id ++ ";S;" ++ className T k
  | .hdr it ri ch =>
    toString it.id ++ ";B;" ++ (rowAt T ri).cls ++ ";" ++ String.ofList ch.name ++ ";"
      ++ String.ofList ch.cname ++ ";"
      ++ (if (rowAt T ri).baseTostr then String.ofList (baseHdr (rowAt T ri) ch.name) else "")
  | .endl id label text => toString id ++ ";E;" ++ showLabel label ++ String.ofList text

end Fp.One2
