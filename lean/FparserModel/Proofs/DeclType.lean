import FparserModel.Proofs.DeclBasic
/-!
# Decl — `Type_Declaration_StmtBase.match` / `tostr`
-/
namespace Fp.Decl
open Fp Fp.Splitline Fp.Combi

variable {A : Type}

theorem searchBlankLetter_spec : ∀ (s p q : Str), searchBlankLetter s = some (p, q) →
    s = p ++ q ∧ ∃ c, q.head? = some c ∧ isSpace c = true
  | [], _, _, h => by simp [searchBlankLetter] at h
  | [_], _, _, h => by simp [searchBlankLetter] at h
  | c :: d :: cs, p, q, h => by
    unfold searchBlankLetter at h
    by_cases hc : (isSpace c && (isAlpha d || d == '_')) = true
    · simp only [hc, if_true, Option.some.injEq, Prod.mk.injEq] at h
      obtain ⟨rfl, rfl⟩ := h
      simp only [Bool.and_eq_true] at hc
      exact ⟨rfl, c, rfl, hc.1⟩
    · simp only [hc] at h
      cases hr : searchBlankLetter (d :: cs) with
      | none => simp [hr] at h
      | some pq =>
        simp only [hr, Option.some.injEq, Prod.mk.injEq] at h
        obtain ⟨rfl, rfl⟩ := h
        obtain ⟨e, hq⟩ := searchBlankLetter_spec (d :: cs) pq.1 pq.2 (by rw [hr])
        exact ⟨by rw [e]; simp, hq⟩

/-- where `Type_Declaration_StmtBase.match` cuts the type-spec off: the two parts are the line,
    and the cut is next to a character that cannot be part of a placeholder -/
theorem typeSpecCut_spec (line h t : Str) (hc : typeSpecCut line = some (h, t)) :
    line = h ++ t ∧ CutOK h t := by
  unfold typeSpecCut at hc
  cases h1 : cutColons line with
  | some ab =>
    obtain ⟨a, b⟩ := ab
    have e := cutColons_spec _ _ _ h1
    simp only [h1] at hc
    cases h2 : cutFirst ',' a with
    | some a12 =>
      obtain ⟨a1, a2⟩ := a12
      obtain ⟨e2, _⟩ := cutFirst_spec _ _ _ h2
      simp only [h2, Option.some.injEq, Prod.mk.injEq] at hc
      obtain ⟨rfl, rfl⟩ := hc
      exact ⟨by rw [e, e2]; simp, CutOK_right_nonword rfl (by decide)⟩
    | none =>
      simp only [h2, Option.some.injEq, Prod.mk.injEq] at hc
      obtain ⟨rfl, rfl⟩ := hc
      exact ⟨e, CutOK_right_nonword rfl (by decide)⟩
  | none =>
    simp only [h1] at hc
    split at hc
    · -- DOUBLE …
      cases h3 : searchBlankLetter (lstrip (line.drop 6)) with
      | none => simp [h3] at hc
      | some pq =>
        obtain ⟨p, q⟩ := pq
        simp only [h3, Option.some.injEq, Prod.mk.injEq] at hc
        obtain ⟨rfl, rfl⟩ := hc
        obtain ⟨e3, c, hq, hsp⟩ := searchBlankLetter_spec _ _ _ h3
        refine ⟨(List.take_append_drop _ _).symm, ?_⟩
        -- the character at the cut is the blank found by the search
        obtain ⟨w, hw, _⟩ := lstrip_decomp (line.drop 6)
        obtain ⟨L, hL⟩ : ∃ L, L = line.take 6 ++ w ++ p := ⟨_, rfl⟩
        have hline : line = L ++ q := by
          have := (List.take_append_drop 6 line).symm
          rw [hw, e3] at this
          rw [hL]
          simpa [List.append_assoc] using this
        have l1 : line.length = L.length + q.length := by
          have := congrArg List.length hline
          simpa using this
        have l2 : (lstrip (line.drop 6)).length = p.length + q.length := by rw [e3]; simp
        have l3 : L.length = (line.take 6).length + w.length + p.length := by rw [hL]; simp only [List.length_append]
        have hlen : p.length + line.length - (lstrip (line.drop 6)).length = L.length := by
          rw [l1, l2]; omega
        have hdrop : line.drop (p.length + line.length - (lstrip (line.drop 6)).length) = q := by
          rw [hlen]
          conv => lhs; rw [hline]
          simp
        rw [hdrop]
        exact CutOK_right_nonword hq (isSpace_not_word hsp)
    · cases h3 : searchBlankLetter line with
      | none => simp [h3] at hc
      | some pq =>
        obtain ⟨p, q⟩ := pq
        simp only [h3, Option.some.injEq, Prod.mk.injEq] at hc
        obtain ⟨rfl, rfl⟩ := hc
        obtain ⟨e3, c, hq, hsp⟩ := searchBlankLetter_spec _ _ _ h3
        exact ⟨e3, CutOK_right_nonword hq (isSpace_not_word hsp)⟩

/-- **Type_Declaration_StmtBase, tokens**: the printed statement is the statement with `::`
    inserted when it was absent; the type-spec, the attribute list and the entity list (the text
    before and after `::`) are kept in order -/
theorem typeDecl_tokens_view (o : Leaves A) (hf : Faithful o) (tsC alC elC : Cls) (s : Str)
    (n : TypeDecl A) (h : matchTypeDeclBase o tsC alC elC s = some n)
    (hv : ∀ r, tokenise s = some r → View s r) :
    ∃ a b, (toks s = a ++ b ∨ toks s = a ++ "::".toList ++ b) ∧
      toks (tostrTypeDecl o n) = a ++ "::".toList ++ b := by
  unfold matchTypeDeclBase at h
  cases ht : tokenise s with
  | none => simp [ht] at h
  | some r =>
    have v := hv r ht
    simp only [ht] at h
    cases hcut : typeSpecCut r.text with
    | none => simp [hcut] at h
    | some hd =>
      obtain ⟨head, tail⟩ := hd
      simp only [hcut] at h
      obtain ⟨e0, hok⟩ := typeSpecCut_spec _ _ _ hcut
      have hp : Piece r.map (head ++ tail) := by rw [← e0]; exact v.piece
      obtain ⟨ph, pt, e1⟩ := hp.cut hok
      have ew : toks s = nb r.map head ++ nb r.map tail := by
        have : nb r.map r.text = toks s := v.whole
        rw [← this, e0]
        unfold nb
        rw [e1, toks_append]
      cases hts : o.leaf tsC (applyMap r.map (rstrip head)) with
      | none => simp [hts] at h
      | some ts =>
        simp only [hts] at h
        have fts : toks (o.render ts) = nb r.map head := by
          rw [hf _ _ _ hts]; exact (nb_rstrip ph).2
        obtain ⟨pl, el⟩ := nb_lstrip pt
        split at h
        · -- attributes
          rename_i hsw
          cases hcc : cutColons (lstrip tail) with
          | none => simp [hcc] at h
          | some ab =>
            obtain ⟨a, b⟩ := ab
            simp only [hcc] at h
            have e2 := cutColons_spec _ _ _ hcc
            have e3 := sw_spec hsw
            -- `a` starts with the comma
            have ha : a = ',' :: a.drop 1 := by
              cases a with
              | nil =>
                rw [e2] at e3
                simp at e3
              | cons x a' =>
                rw [e2] at e3
                simp at e3
                simp [e3]
            cases hal : o.leaf alC (applyMap r.map (strip (a.drop 1))) with
            | none => rw [hal] at h; exact absurd h (by simp)
            | some al =>
              rw [hal] at h
              cases hel : o.leaf elC (applyMap r.map (lstrip b)) with
              | none => rw [hel] at h; exact absurd h (by simp)
              | some el' =>
                rw [hel] at h
                simp only [Option.some.injEq] at h
                subst h
                have pl' : Piece r.map ((',' :: a.drop 1) ++ ':' :: ':' :: b) := by
                  rw [← ha, ← e2]; exact pl
                obtain ⟨pa, pcb, e4⟩ := nb_sep pl' (by decide) (by decide)
                obtain ⟨pb, e5⟩ := nb_cons pcb (by decide) (by decide)
                obtain ⟨pa1, e6⟩ := nb_cons pa (by decide) (by decide)
                have fal : toks (o.render al) = nb r.map (a.drop 1) := by
                  rw [hf _ _ _ hal]; exact (nb_strip pa1).2
                have fel : toks (o.render el') = nb r.map b := by
                  rw [hf _ _ _ hel]; exact (nb_lstrip pb).2
                have etail : nb r.map tail = ',' :: nb r.map (a.drop 1) ++ ':' :: ':' :: nb r.map b := by
                  rw [← el, e2]
                  conv => lhs; rw [ha]
                  rw [e4, e5, e6]
                refine ⟨nb r.map head ++ ',' :: nb r.map (a.drop 1), nb r.map b, .inr ?_, ?_⟩
                · rw [ew, etail]; simp
                · simp only [tostrTypeDecl, toks_append, fts, fal, fel]
                  simp
        · -- no attributes
          rename_i hsw
          cases hcol : sw (lstrip tail) "::" with
          | true =>
            simp only [hcol, if_true] at h
            cases hel : o.leaf elC (applyMap r.map (lstrip ((lstrip tail).drop 2))) with
            | none => simp [hel] at h
            | some el' =>
              simp only [hel, Option.some.injEq] at h
              subst h
              have e3 := sw_spec hcol
              have pl' : Piece r.map ([] ++ ':' :: ':' :: (lstrip tail).drop 2) := by
                have : (lstrip tail) = [] ++ ':' :: ':' :: (lstrip tail).drop 2 := by
                  conv => lhs; rw [e3]
                  rfl
                rw [← this]; exact pl
              obtain ⟨_, pcb, e4⟩ := nb_sep pl' (by decide) (by decide)
              obtain ⟨pb, e5⟩ := nb_cons pcb (by decide) (by decide)
              have fel : toks (o.render el') = nb r.map ((lstrip tail).drop 2) := by
                rw [hf _ _ _ hel]; exact (nb_lstrip pb).2
              have etail : nb r.map tail = ':' :: ':' :: nb r.map ((lstrip tail).drop 2) := by
                rw [← el]
                conv => lhs; rw [e3]
                have : "::".toList ++ List.drop "::".toList.length (lstrip tail)
                    = [] ++ ':' :: ':' :: (lstrip tail).drop 2 := rfl
                rw [this, e4, e5, nb_nil]
                rfl
              refine ⟨nb r.map head, nb r.map ((lstrip tail).drop 2), .inr ?_, ?_⟩
              · rw [ew, etail]; simp
              · simp only [tostrTypeDecl, toks_append, fts, fel]
                simp
          | false =>
            simp only [hcol, Bool.false_eq_true, if_false] at h
            cases hel : o.leaf elC (applyMap r.map (lstrip tail)) with
            | none => simp [hel] at h
            | some el' =>
              simp only [hel, Option.some.injEq] at h
              subst h
              have fel : toks (o.render el') = nb r.map tail := by
                rw [hf _ _ _ hel]; exact el
              refine ⟨nb r.map head, nb r.map tail, .inl ew, ?_⟩
              simp only [tostrTypeDecl, toks_append, fts, fel]
              simp

end Fp.Decl
