import FparserModel.Proofs.IoStmtBasic
import FparserModel.Proofs.IoStmtHollerith
/-!
Property C06 at the leaf classes: which exceptions can ESCAPE from the modelled `match` methods of
`FparserModel/IoStmt.lean`.
-/
namespace Fp.IoStmt
open Fp Fp.Splitline

variable {Node : Type}

/-- a plan raises nothing of its own: only `tok`'s `KeyError` (= `Combi.tokenise … = none`, the un-nesting loop of
    string_replace_map; it cannot occur for `SrmOK` texts), and no `Slot.raise` in its slots -/
def PlanTotal (plan : Str → Res (List Slot)) : Prop :=
  ∀ s, (∀ e, plan s = .raises e → e = .keyError) ∧ (∀ slots, plan s = .ok slots → ∀ e, Slot.raise e ∉ slots)

/-! ## goal-directed toolkit -/

def Slot.isRaise : Slot → Bool
  | .raise _ => true
  | _ => false

/-- no `Slot.raise` in the list -/
def NoRaise (l : List Slot) : Prop := ∀ x ∈ l, Slot.isRaise x = false

theorem NoRaise.not_mem {l : List Slot} (h : NoRaise l) (e : Exc) : Slot.raise e ∉ l := by
  intro hm
  have := h _ hm
  simp [Slot.isRaise] at this

theorem NoRaise.nil : NoRaise [] := by intro x hx; cases hx

theorem NoRaise.cons {a : Slot} {l : List Slot} (ha : Slot.isRaise a = false) (hl : NoRaise l) :
    NoRaise (a :: l) := by
  intro x hx
  rcases List.mem_cons.1 hx with rfl | hx
  · exact ha
  · exact hl x hx

@[simp] theorem noRaise_nil : NoRaise [] ↔ True := iff_of_true NoRaise.nil trivial

@[simp] theorem noRaise_cons {a : Slot} {l : List Slot} :
    NoRaise (a :: l) ↔ Slot.isRaise a = false ∧ NoRaise l :=
  ⟨fun h => ⟨h a (by simp), fun x hx => h x (List.mem_cons_of_mem _ hx)⟩, fun h => NoRaise.cons h.1 h.2⟩

theorem NoRaise.append {a b : List Slot} (ha : NoRaise a) (hb : NoRaise b) : NoRaise (a ++ b) := by
  intro x hx
  rcases List.mem_append.1 hx with hx | hx
  · exact ha x hx
  · exact hb x hx

theorem NoRaise.map_child {α : Type} (c : ClassId) (f : α → Str) (l : List α) :
    NoRaise (l.map fun e => Slot.child c (f e)) := by
  intro x hx
  obtain ⟨a, _, rfl⟩ := List.mem_map.1 hx
  rfl

@[simp] theorem isRaise_none : Slot.isRaise .none = false := rfl
@[simp] theorem isRaise_str (s : Str) : Slot.isRaise (.str s) = false := rfl
@[simp] theorem isRaise_child (c : ClassId) (s : Str) : Slot.isRaise (.child c s) = false := rfl
@[simp] theorem isRaise_fail : Slot.isRaise .fail = false := rfl
@[simp] theorem isRaise_delim (d : Bool) : Slot.isRaise (delimSlot d) = false := by
  cases d <;> rfl
@[simp] theorem isRaise_ite (c : Prop) [Decidable c] (a b : Slot) :
    Slot.isRaise (if c then a else b) = if c then Slot.isRaise a else Slot.isRaise b := by
  split <;> rfl

/-- the outcome of a plan raises at most `KeyError` and carries no `Slot.raise` -/
def ResTotal (x : Res (List Slot)) : Prop :=
  (∀ e, x = .raises e → e = .keyError) ∧ (∀ slots, x = .ok slots → NoRaise slots)

theorem ResTotal.noMatch : ResTotal .noMatch := ⟨fun _ h => (by cases h), fun _ h => (by cases h)⟩

theorem ResTotal.ok {l : List Slot} (h : NoRaise l) : ResTotal (.ok l) :=
  ⟨fun _ h => (by cases h), fun _ h' => (by cases h'; exact h)⟩

theorem ResTotal.keyError : ResTotal (.raises .keyError) :=
  ⟨fun _ h => (by cases h; rfl), fun _ h => (by cases h)⟩

theorem ResTotal.tok_bind (l : Str) {f : SrmResult → Res (List Slot)} (h : ∀ r, ResTotal (f r)) :
    ResTotal ((tok l).bind f) := by
  constructor
  · intro e he
    rcases Res.bind_eq_raises he with h1 | ⟨r, _, h1⟩
    · exact (tok_raises h1).1
    · exact (h r).1 e h1
  · intro slots hs
    obtain ⟨r, _, h1⟩ := Res.bind_eq_ok hs
    exact (h r).2 slots h1

theorem planTotal_of_resTotal {plan : Str → Res (List Slot)} (h : ∀ s, ResTotal (plan s)) :
    PlanTotal plan := fun s =>
  ⟨(h s).1, fun slots hs e => ((h s).2 slots hs).not_mem e⟩

theorem resTotal_of_planTotal {plan : Str → Res (List Slot)} (h : PlanTotal plan) (s : Str) :
    ResTotal (plan s) := by
  refine ⟨(h s).1, fun slots hs x hx => ?_⟩
  cases x with
  | raise e => exact absurd hx ((h s).2 slots hs e)
  | _ => rfl

/-- close a leaf goal `ResTotal (.ok [literal slots])` / `ResTotal .noMatch` -/
macro "rt_leaf" : tactic =>
  `(tactic| first
    | with_reducible exact ResTotal.noMatch
    | (with_reducible refine ResTotal.ok ?_
       simp only [noRaise_cons, noRaise_nil, isRaise_none, isRaise_str,
        isRaise_child, isRaise_fail, isRaise_delim, isRaise_ite, ite_self, and_self]))

/-- one step of the descent through a plan -/
macro "rt_step" : tactic =>
  `(tactic| first
    | rt_leaf
    | (with_reducible apply ResTotal.tok_bind; intro r)
    | split
    | dsimp only)

/-! ## Write / Read / Print / Inquire -/

theorem planWrite_total : PlanTotal planWrite := by
  apply planTotal_of_resTotal
  intro s
  unfold planWrite
  repeat rt_step

theorem planRead_total : PlanTotal planRead := by
  apply planTotal_of_resTotal
  intro s
  unfold planRead
  repeat rt_step

theorem planPrint_total : PlanTotal planPrint := by
  apply planTotal_of_resTotal
  intro s
  unfold planPrint
  repeat rt_step

theorem planInquire_total : PlanTotal planInquire := by
  apply planTotal_of_resTotal
  intro s
  unfold planInquire
  repeat rt_step

theorem planControlEditDesc_total : PlanTotal planControlEditDesc := by
  apply planTotal_of_resTotal
  intro s
  unfold planControlEditDesc
  repeat rt_step

theorem planConcurrent_total : PlanTotal planConcurrent := by
  apply planTotal_of_resTotal
  intro s
  unfold planConcurrent
  repeat rt_step

theorem planLabelDo_total : PlanTotal planLabelDo := by
  apply planTotal_of_resTotal
  intro s
  unfold planLabelDo
  repeat rt_step

theorem planIfThen_total : PlanTotal planIfThen := by
  apply planTotal_of_resTotal
  intro s
  unfold planIfThen
  repeat rt_step

theorem planElseIf_total : PlanTotal planElseIf := by
  apply planTotal_of_resTotal
  intro s
  unfold planElseIf
  repeat rt_step

theorem planSelectCase_total : PlanTotal planSelectCase := by
  apply planTotal_of_resTotal
  intro s
  unfold planSelectCase
  repeat rt_step

theorem planCase_total : PlanTotal planCase := by
  apply planTotal_of_resTotal
  intro s
  unfold planCase
  repeat rt_step

theorem planCaseSelector_total : PlanTotal planCaseSelector := by
  apply planTotal_of_resTotal
  intro s
  unfold planCaseSelector
  repeat rt_step

theorem planWhere_total : PlanTotal planWhere := by
  apply planTotal_of_resTotal
  intro s
  unfold planWhere
  repeat rt_step

theorem planForallHeaderMask_total : PlanTotal planForallHeaderMask := by
  apply planTotal_of_resTotal
  intro s
  unfold planForallHeaderMask
  repeat rt_step

theorem planForallTriplet_total : PlanTotal planForallTriplet := by
  apply planTotal_of_resTotal
  intro s
  unfold planForallTriplet
  repeat rt_step

theorem planForall_total : PlanTotal planForall := by
  apply planTotal_of_resTotal
  intro s
  unfold planForall
  repeat rt_step

theorem planDeallocate_total : PlanTotal planDeallocate := by
  apply planTotal_of_resTotal
  intro s
  unfold planDeallocate
  repeat rt_step

theorem planGoto_total : PlanTotal planGoto := by
  apply planTotal_of_resTotal
  intro s
  unfold planGoto
  repeat rt_step

theorem planComputedGoto_total : PlanTotal planComputedGoto := by
  apply planTotal_of_resTotal
  intro s
  unfold planComputedGoto
  repeat rt_step

theorem planArithmeticIf_total : PlanTotal planArithmeticIf := by
  apply planTotal_of_resTotal
  intro s
  unfold planArithmeticIf
  repeat rt_step

theorem planCall_total : PlanTotal planCall := by
  apply planTotal_of_resTotal
  intro s
  unfold planCall
  repeat rt_step

theorem planIf_total (std : Std) : PlanTotal (planIf std) := by
  apply planTotal_of_resTotal
  intro s
  unfold planIf
  repeat rt_step

theorem planAllocate_total : PlanTotal planAllocate := by
  apply planTotal_of_resTotal
  intro s
  unfold planAllocate
  rt_step
  · rt_leaf
  try dsimp only
  rt_step
  · rt_leaf
  apply ResTotal.tok_bind; intro r
  try dsimp only
  rcases h : cutSub2 ':' ':' r.text with _ | ⟨a, b⟩
  · try dsimp only
    repeat rt_step
  · try dsimp only
    repeat rt_step

theorem planLoopControl03_total : PlanTotal planLoopControl03 := by
  apply planTotal_of_resTotal
  intro s
  unfold planLoopControl03
  try dsimp only
  rt_step
  try dsimp only
  split
  · rt_leaf
  · split
    · rt_leaf
    · split
      · rt_leaf
      · try dsimp only
        split
        · rt_leaf
        · refine ResTotal.ok ?_
          refine NoRaise.cons rfl (NoRaise.cons rfl (NoRaise.append ?_ ?_))
          · exact NoRaise.map_child _ _ _
          · simp

theorem planLoopControl_total (std : Std) : PlanTotal (planLoopControl std) := by
  apply planTotal_of_resTotal
  intro s
  have h03 := resTotal_of_planTotal planLoopControl03_total s
  unfold planLoopControl
  cases std with
  | f2003 => exact h03
  | f2008 =>
    try dsimp only
    split
    · rename_i slots hs
      refine ResTotal.ok (NoRaise.append (h03.2 _ hs) ?_)
      simp
    · rename_i e he
      rw [h03.1 e he]
      exact ResTotal.keyError
    · exact resTotal_of_planTotal planConcurrent_total s

/-! ## Format_Item: the `my_string[0]` on an empty string is unreachable -/

/-- the text is non-empty and its last character is not white space -/
def LastNS (s : Str) : Prop := ∃ c, s.getLast? = some c ∧ isSpace c = false

theorem LastNS.ne_nil {s : Str} (h : LastNS s) : s ≠ [] := by
  obtain ⟨c, hc, _⟩ := h
  intro e; subst e; cases hc

theorem LastNS.suffix {a b : Str} (h : LastNS (a ++ b)) (hb : b ≠ []) : LastNS b := by
  obtain ⟨c, hc, hs⟩ := h
  rw [List.getLast?_append] at hc
  cases hb' : b.getLast? with
  | none => exact absurd (List.getLast?_eq_none_iff.1 hb') hb
  | some d =>
    rw [hb'] at hc
    cases hc
    exact ⟨_, hb', hs⟩

theorem LastNS.lstrip_ne_nil {s : Str} (h : LastNS s) : lstrip s ≠ [] := by
  obtain ⟨c, hc, hs⟩ := h
  obtain ⟨w, hw, hall⟩ := Combi.lstrip_decomp s
  intro e
  rw [e, List.append_nil] at hw
  have := hall c (hw ▸ List.mem_of_getLast? hc)
  rw [hs] at this; cases this

theorem LastNS.lstrip {s : Str} (h : LastNS s) : LastNS (lstrip s) := by
  obtain ⟨w, hw, _⟩ := Combi.lstrip_decomp s
  have h' := h
  rw [hw] at h'
  exact h'.suffix h.lstrip_ne_nil

theorem LastNS.drop {s : Str} (h : LastNS s) (k : Nat) (hk : s.drop k ≠ []) : LastNS (s.drop k) := by
  rw [← List.take_append_drop k s] at h
  exact h.suffix hk

theorem lastNS_rstrip {s : Str} (h : rstrip s ≠ []) : LastNS (rstrip s) := by
  unfold rstrip at h ⊢
  have h1 := List.head?_dropWhile_not isSpace s.reverse
  cases hd : (List.dropWhile isSpace s.reverse).head? with
  | none =>
    rw [List.head?_eq_none_iff] at hd
    rw [hd] at h; exact absurd rfl h
  | some c =>
    rw [hd] at h1
    exact ⟨c, by rw [List.getLast?_reverse]; exact hd, h1⟩

theorem lastNS_strip {s : Str} (h : strip s ≠ []) : LastNS (strip s) := by
  unfold strip at h ⊢
  have : rstrip s ≠ [] := by
    intro e; rw [e] at h; exact h rfl
  exact (lastNS_rstrip this).lstrip

/-- `skip_digits` reporting `found`: the index points at a character that is neither a digit nor a blank -/
theorem skipDigitsAux_found : ∀ (s : Str) (i : Nat), (skipDigitsAux i s).1 = true →
    ∃ k c rest, (skipDigitsAux i s).2 = i + k ∧ s.drop k = c :: rest ∧ (isDigit c || c == ' ') = false
  | [], i, h => by simp [skipDigitsAux] at h
  | c :: cs, i, h => by
    unfold skipDigitsAux at h ⊢
    split
    · rename_i hc
      exact ⟨0, c, cs, rfl, rfl, by simpa using hc⟩
    · rename_i hc
      rw [if_neg hc] at h
      obtain ⟨k, d, rest, h1, h2, h3⟩ := skipDigitsAux_found cs (i + 1) h
      exact ⟨k + 1, d, rest, by omega, h2, h3⟩

theorem skipDigits_found {s : Str} (h : (skipDigits s).1 = true) :
    ∃ c rest, s.drop (skipDigits s).2 = c :: rest ∧ (isDigit c || c == ' ') = false := by
  obtain ⟨k, c, rest, h1, h2, h3⟩ := skipDigitsAux_found s 0 h
  refine ⟨c, rest, ?_, h3⟩
  unfold skipDigits
  rw [h1, Nat.zero_add]; exact h2

theorem headLast_of_ne_nil {my : Str} (h : my ≠ []) : ∃ a b, my.head? = some a ∧ my.getLast? = some b := by
  cases h1 : my.head? with
  | none => exact absurd (List.head?_eq_none_iff.1 h1) h
  | some a =>
    cases h2 : my.getLast? with
    | none => exact absurd (List.getLast?_eq_none_iff.1 h2) h
    | some b => exact ⟨a, b, rfl, rfl⟩

theorem planFormatItem_total : PlanTotal planFormatItem := by
  apply planTotal_of_resTotal
  intro s
  unfold planFormatItem
  split
  · rt_leaf
  dsimp only
  split
  · rt_leaf
  rename_i _ hne
  have hne' : strip s ≠ [] := by
    intro e; rw [e] at hne; exact hne rfl
  have hl := lastNS_strip hne'
  cases hfi : (skipDigits (strip s)).1 with
  | false =>
    simp only [Bool.false_eq_true, if_false]
    obtain ⟨a, b, ha, hb⟩ := headLast_of_ne_nil hne'
    split
    · repeat rt_step
    · rename_i hbad
      exact (hbad a b ha hb).elim
  | true =>
    simp only [if_true]
    obtain ⟨c, rest, hd, _⟩ := skipDigits_found hfi
    have hmy : lstrip ((strip s).drop (skipDigits (strip s)).2) ≠ [] :=
      (hl.drop _ (by rw [hd]; simp)).lstrip_ne_nil
    obtain ⟨a, b, ha, hb⟩ := headLast_of_ne_nil hmy
    split
    · repeat rt_step
    · rename_i hbad
      exact (hbad a b ha hb).elim

/-- the F2008 tail never raises: the `len > 1` guard makes `my` non-empty -/
theorem planFormatItemStar_total : PlanTotal planFormatItemStar := by
  apply planTotal_of_resTotal
  intro s
  unfold planFormatItemStar
  dsimp only
  split
  · rt_leaf
  rename_i hne
  have hne' : strip s ≠ [] := by
    intro e; rw [e] at hne; exact hne rfl
  have hl := lastNS_strip hne'
  split
  · rename_i hg
    have hlen : (strip s).length > 1 := by
      simp only [Bool.and_eq_true, decide_eq_true_eq] at hg
      exact hg.2
    have hd : (strip s).drop 1 ≠ [] := by
      intro e
      have := congrArg List.length e
      simp only [List.length_drop, List.length_nil] at this
      omega
    have hmy : lstrip ((strip s).drop 1) ≠ [] := (hl.drop _ hd).lstrip_ne_nil
    obtain ⟨a, b, ha, hb⟩ := headLast_of_ne_nil hmy
    split
    · repeat rt_step
    · rename_i hbad
      exact (hbad a b ha hb).elim
  · rt_leaf

theorem planFormatItemStar_not_raises (s : Str) (e : Exc) : planFormatItemStar s ≠ .raises e := by
  intro h
  have h1 := (planFormatItemStar_total s).1 e h
  subst h1
  unfold planFormatItemStar at h
  dsimp only at h
  split at h
  · cases h
  split at h
  · split at h
    · split at h <;> cases h
    · cases h
  · cases h

/-! ## the generic-combinator instances: no `.crash` slot without a `.bad` argument -/

/-- no `.crash` (calling a non-callable) among the slots of a split -/
def NoCrash (l : List Combi.Slot) : Prop := ∀ x ∈ l, x ≠ Combi.Slot.crash

@[simp] theorem noCrash_nil : NoCrash [] ↔ True := iff_of_true (fun _ h => by cases h) trivial

@[simp] theorem noCrash_cons {a : Combi.Slot} {l : List Combi.Slot} :
    NoCrash (a :: l) ↔ a ≠ .crash ∧ NoCrash l :=
  ⟨fun h => ⟨h a (by simp), fun x hx => h x (List.mem_cons_of_mem _ hx)⟩, fun h x hx => by
    rcases List.mem_cons.1 hx with rfl | hx
    · exact h.1
    · exact h.2 x hx⟩

/-- the split result carries no `.crash` -/
def OptNoCrash (x : Option (List Combi.Slot)) : Prop := ∀ slots, x = some slots → NoCrash slots

theorem OptNoCrash.none : OptNoCrash none := fun _ h => by cases h
theorem OptNoCrash.some {l : List Combi.Slot} (h : NoCrash l) : OptNoCrash (some l) :=
  fun _ h' => by cases h'; exact h

macro "nc_leaf" : tactic =>
  `(tactic| first
    | with_reducible exact OptNoCrash.none
    | (with_reducible refine OptNoCrash.some ?_
       simp only [noCrash_cons, noCrash_nil, ne_eq, reduceCtorEq, not_false_eq_true, and_self]))

macro "nc_step" : tactic =>
  `(tactic| first
    | nc_leaf
    | split
    | dsimp only)

theorem seqSplit_noCrash (sep : Str) (c : ClassId) (s : Str) : OptNoCrash (Combi.seqSplit sep c s) := by
  unfold Combi.seqSplit
  split
  · nc_leaf
  split
  · nc_leaf
  split
  · nc_leaf
  · refine OptNoCrash.some ?_
    intro x hx
    obtain ⟨a, _, rfl⟩ := List.mem_map.1 hx
    exact fun h => by cases h

theorem bracketSplit_noCrash (b : Str) (c : Option ClassId) (r : Bool) (s : Str) :
    OptNoCrash (Combi.bracketSplit b c r s) := by
  unfold Combi.bracketSplit
  repeat nc_step

theorem wordSplit1_noCrash (kw : Str) (c : Option ClassId) (co r : Bool) (s : Str) :
    OptNoCrash (Combi.wordSplit1 kw c co r s) := by
  unfold Combi.wordSplit1
  repeat nc_step

theorem endSplit_noCrash (ty : Str) (c : Option ClassId) (r : Bool) (s : Str) :
    OptNoCrash (Combi.endSplit ty c r s) := by
  unfold Combi.endSplit
  repeat nc_step

theorem sepSplit_noCrash (l r : Option ClassId) (ql qr : Bool) (s : Str) :
    OptNoCrash (Combi.sepSplit l r ql qr s) := by
  unfold Combi.sepSplit
  intro slots h
  split at h
  · cases h
  split at h
  · cases h
  dsimp only at h
  split at h
  · cases h
  rename_i ls hls
  cases h
  have h1 : ls ≠ .crash := by
    split at hls
    · split at hls
      · cases hls
      · cases hls; exact fun h => by cases h
    · split at hls
      · cases hls
      · cases hls; exact fun h => by cases h
  simp only [noCrash_cons, noCrash_nil, and_true]
  refine ⟨h1, ?_⟩
  split
  · split <;> exact fun h => by cases h
  · split <;> exact fun h => by cases h

/-- an argument that is not the non-callable one -/
def argGood : Combi.Arg → Bool
  | .bad => false
  | _ => true

/-- `h : (… nested ifs/matches ending in `some slot` / `none`) = some ls`, goal `ls ≠ .crash` -/
macro "nc_hyp" h:ident : tactic =>
  `(tactic| ((repeat' split at $h:ident) <;>
      first | (cases $h:ident; intro h'; cases h') | cases $h:ident))

theorem callSplit_noCrash (l r : Combi.Arg) (u q : Bool) (s : Str) (hl : argGood l = true)
    (hr : argGood r = true) : OptNoCrash (Combi.callSplit l r u q s) := by
  unfold Combi.callSplit
  intro slots h
  split at h
  · cases h
  split at h
  · cases h
  split at h
  · cases h
  dsimp only at h
  split at h
  · cases h
  split at h
  · cases h
  rename_i ls hls
  cases h
  have h1 : ls ≠ .crash := by
    cases l with
    | bad => cases hl
    | kw k => dsimp only at hls; nc_hyp hls
    | cls c => dsimp only at hls; nc_hyp hls
  simp only [noCrash_cons, noCrash_nil, and_true]
  refine ⟨h1, ?_⟩
  cases r with
  | bad => cases hr
  | kw k => dsimp only; repeat' split
            all_goals exact fun h => by cases h
  | cls c => dsimp only; repeat' split
             all_goals exact fun h => by cases h

theorem kvSplit_noCrash (l : Combi.Arg) (c : ClassId) (q u : Bool) (s : Str) (hl : argGood l = true) :
    OptNoCrash (Combi.kvSplit l c q u s) := by
  unfold Combi.kvSplit
  intro slots h
  split at h
  · cases h
  dsimp only at h
  split at h
  · cases h
  rename_i rhs hrhs
  cases h
  simp only [noCrash_cons, noCrash_nil, and_true]
  constructor
  · split
    · rename_i x hx
      cases l with
      | bad => cases hl
      | kw k => dsimp only at hx; nc_hyp hx
      | cls c => dsimp only at hx; nc_hyp hx
    · exact fun h => by cases h
  · split <;> exact fun h => by cases h

/-- no argument of the spec is the non-callable one -/
def specGood : Combi.Spec → Bool
  | .call l r _ _ => argGood l && argGood r
  | .kv l _ _ _ => argGood l
  | _ => true

theorem specSplit_noCrash (sp : Combi.Spec) (hg : specGood sp = true) (s : Str) : OptNoCrash (sp.split s) := by
  unfold Combi.Spec.split
  split
  · exact seqSplit_noCrash _ _ _
  · exact bracketSplit_noCrash _ _ _ _
  · simp only [specGood, Bool.and_eq_true] at hg
    exact callSplit_noCrash _ _ _ _ _ hg.1 hg.2
  · exact kvSplit_noCrash _ _ _ _ _ hg
  · exact wordSplit1_noCrash _ _ _ _ _
  · exact endSplit_noCrash _ _ _ _
  · exact sepSplit_noCrash _ _ _ _ _
  · exact OptNoCrash.none

theorem noRaise_ofCombi {l : List Combi.Slot} (h : NoCrash l) : NoRaise (l.map ofCombiSlot) := by
  intro x hx
  obtain ⟨a, ha, rfl⟩ := List.mem_map.1 hx
  cases a with
  | crash => exact absurd rfl (h _ ha)
  | _ => rfl

/-- a generic-combinator class without a non-callable argument raises nothing at all -/
theorem combiPlan_total (sp : Combi.Spec) (hg : specGood sp = true) : PlanTotal (combiPlan sp) := by
  apply planTotal_of_resTotal
  intro s
  unfold combiPlan ofCombi
  split
  · exact ResTotal.noMatch
  · rename_i slots hs
    exact ResTotal.ok (noRaise_ofCombi (specSplit_noCrash sp hg s slots hs))

theorem combiPlan_not_raises (sp : Combi.Spec) (s : Str) (e : Exc) : combiPlan sp s ≠ .raises e := by
  unfold combiPlan ofCombi
  split <;> exact fun h => by cases h

theorem specOpen_good : specGood specOpen = true := by decide
theorem specClose_good : specGood specClose = true := by decide
theorem specNullify_good : specGood specNullify = true := by decide
theorem specAllocation_good : specGood specAllocation = true := by decide
theorem specFormatStmt_good : specGood specFormatStmt = true := by decide
theorem specFormatSpecification_good : specGood specFormatSpecification = true := by decide
theorem specNonlabelDo_good : specGood specNonlabelDo = true := by decide
theorem specStop_good : specGood specStop = true := by decide
theorem specErrorStop_good : specGood specErrorStop = true := by decide
theorem specForallConstruct_good : specGood specForallConstruct = true := by decide
theorem specCaseValueRange_good : specGood specCaseValueRange = true := by decide
theorem specActualArgSpec_good : specGood specActualArgSpec = true := by decide
theorem specList_good (elem : ClassId) : specGood (specList elem) = true := rfl

/-! ### the concrete generic-combinator plans of `planOf` (and `specOpen` of `matchOpen`) -/
theorem combiPlan_specOpen_total : PlanTotal (combiPlan specOpen) := combiPlan_total _ specOpen_good
theorem combiPlan_specClose_total : PlanTotal (combiPlan specClose) := combiPlan_total _ specClose_good
theorem combiPlan_specNullify_total : PlanTotal (combiPlan specNullify) := combiPlan_total _ specNullify_good
theorem combiPlan_specAllocation_total : PlanTotal (combiPlan specAllocation) := combiPlan_total _ specAllocation_good
theorem combiPlan_specFormatStmt_total : PlanTotal (combiPlan specFormatStmt) := combiPlan_total _ specFormatStmt_good
theorem combiPlan_specFormatSpecification_total : PlanTotal (combiPlan specFormatSpecification) := combiPlan_total _ specFormatSpecification_good
theorem combiPlan_specNonlabelDo_total : PlanTotal (combiPlan specNonlabelDo) := combiPlan_total _ specNonlabelDo_good
theorem combiPlan_specStop_total : PlanTotal (combiPlan specStop) := combiPlan_total _ specStop_good
theorem combiPlan_specErrorStop_total : PlanTotal (combiPlan specErrorStop) := combiPlan_total _ specErrorStop_good
theorem combiPlan_specForallConstruct_total : PlanTotal (combiPlan specForallConstruct) := combiPlan_total _ specForallConstruct_good
theorem combiPlan_specCaseValueRange_total : PlanTotal (combiPlan specCaseValueRange) := combiPlan_total _ specCaseValueRange_good
theorem combiPlan_specActualArgSpec_total : PlanTotal (combiPlan specActualArgSpec) := combiPlan_total _ specActualArgSpec_good
theorem combiPlan_specList_total (elem : ClassId) : PlanTotal (combiPlan (specList elem)) :=
  combiPlan_total _ (specList_good elem)

/-! ## consequences: what escapes from a `match` -/

/-- an exception escaping from a planned match is the tokeniser's KeyError or was raised by a child -/
theorem plan_match_total (plan : Str → Res (List Slot)) (hp : PlanTotal plan) (o : Oracle Node) (s : Str) (e : Exc)
    (h : (plan s).bind (runSlots o) = .raises e) : e = .keyError ∨ ∃ c t, o.call c t = .raises e := by
  rcases Res.bind_eq_raises h with h1 | ⟨slots, h1, h2⟩
  · exact .inl ((hp s).1 e h1)
  · rcases runSlots_raises h2 with h3 | ⟨c, t, _, h3⟩
    · exact absurd h3 ((hp s).2 slots h1 e)
    · exact .inr ⟨c, t, h3⟩

/-- slots without a `Slot.raise`: only a child's exception escapes -/
theorem runSlots_noRaise_raises {o : Oracle Node} {slots : List Slot} {e : Exc} (hn : NoRaise slots)
    (h : runSlots o slots = .raises e) : ∃ c t, o.call c t = .raises e := by
  rcases runSlots_raises h with h3 | ⟨c, t, _, h3⟩
  · exact absurd h3 (hn.not_mem e)
  · exact ⟨c, t, h3⟩

/-! ### the keyword tables -/

theorem kvOne_noRaise {k : Str} {c : ClassId} {s : Str} {slots : List Slot} (h : kvOne k c s = some slots) :
    NoRaise slots := by
  unfold kvOne at h
  cases hk : Combi.kvSplit (.kw k) c true true s with
  | none => rw [hk] at h; cases h
  | some l =>
    rw [hk] at h
    cases h
    exact noRaise_ofCombi (kvSplit_noCrash _ _ _ _ _ rfl l hk)

theorem kvTable_total (o : Oracle Node) (catchNM : Bool) : ∀ (tbl : List (Str × ClassId)) (s : Str) (e : Exc),
    kvTable o catchNM tbl s = some (.raises e) → ∃ c t, o.call c t = .raises e
  | [], s, e, h => by cases h
  | (k, c) :: rest, s, e, h => by
    unfold kvTable at h
    split at h
    · exact kvTable_total o catchNM rest s e h
    · rename_i slots hs
      split at h
      · cases h
      · split at h
        · exact kvTable_total o catchNM rest s e h
        · cases h
      · rename_i e' he'
        cases h
        exact runSlots_noRaise_raises (kvOne_noRaise hs) he'

theorem unitDefault_total (o : Oracle Node) (s : Str) (e : Exc) (h : unitDefault o s = .raises e) :
    ∃ c t, o.call c t = .raises e := by
  unfold unitDefault at h
  exact runSlots_noRaise_raises (by simp) h

theorem tableOr_total {o : Oracle Node} {catchNM : Bool} {tbl : List (Str × ClassId)} {s : Str}
    {dflt : Res (List (Item Node))} {e : Exc}
    (hd : dflt = .raises e → ∃ c t, o.call c t = .raises e)
    (h : tableOr (kvTable o catchNM tbl s) dflt = .raises e) : ∃ c t, o.call c t = .raises e := by
  unfold tableOr at h
  split at h
  · rename_i x hx
    subst h
    exact kvTable_total o catchNM tbl s e hx
  · exact hd h

theorem matchIoControlSpec_total (o : Oracle Node) (s : Str) (e : Exc)
    (h : matchIoControlSpec o s = .raises e) : ∃ c t, o.call c t = .raises e := by
  unfold matchIoControlSpec at h
  exact tableOr_total (fun h => by cases h) h

theorem matchConnectSpec_total (std : Std) (o : Oracle Node) (s : Str) (e : Exc)
    (h : matchConnectSpec std o s = .raises e) : ∃ c t, o.call c t = .raises e := by
  unfold matchConnectSpec at h
  split at h
  · exact unitDefault_total o s e h
  · exact tableOr_total (fun h => by cases h) h

theorem matchCloseSpec_total (o : Oracle Node) (s : Str) (e : Exc)
    (h : matchCloseSpec o s = .raises e) : ∃ c t, o.call c t = .raises e := by
  unfold matchCloseSpec at h
  exact tableOr_total (unitDefault_total o s e) h

theorem matchInquireSpec_total (o : Oracle Node) (s : Str) (e : Exc)
    (h : matchInquireSpec o s = .raises e) : ∃ c t, o.call c t = .raises e := by
  unfold matchInquireSpec at h
  split at h
  · exact unitDefault_total o s e h
  · exact tableOr_total (fun h => by cases h) h

theorem matchAllocOpt_total (std : Std) (o : Oracle Node) (s : Str) (e : Exc)
    (h : matchAllocOpt std o s = .raises e) : ∃ c t, o.call c t = .raises e := by
  unfold matchAllocOpt at h
  exact tableOr_total (fun h => by cases h) h

theorem matchDeallocOpt_total (o : Oracle Node) (s : Str) (e : Exc)
    (h : matchDeallocOpt o s = .raises e) : ∃ c t, o.call c t = .raises e := by
  unfold matchDeallocOpt at h
  exact tableOr_total (fun h => by cases h) h

/-! ### Format_Item / Forall_Header / Open_Stmt -/

theorem matchFormatItem_total (std : Std) (o : Oracle Node) (s : Str) (e : Exc)
    (h : matchFormatItem std o s = .raises e) : e = .keyError ∨ ∃ c t, o.call c t = .raises e := by
  unfold matchFormatItem at h
  cases std with
  | f2003 => exact plan_match_total _ planFormatItem_total o s e h
  | f2008 =>
    dsimp only at h
    split at h
    · cases h
    · split at h
      · cases h
      · rename_i e' he'
        cases h
        exact plan_match_total _ planFormatItem_total o s e he'
      · exact plan_match_total _ planFormatItemStar_total o s e h

theorem matchForallHeader_total (o : Oracle Node) (s : Str) (e : Exc)
    (h : matchForallHeader o s = .raises e) : e = .keyError ∨ ∃ c t, o.call c t = .raises e := by
  unfold matchForallHeader at h
  dsimp only at h
  split at h
  · split at h
    · cases h
    · split at h
      · cases h
      · rename_i e' he'
        cases h
        exact .inr ⟨_, _, he'⟩
      · exact plan_match_total _ planForallHeaderMask_total o _ e h
  · cases h

/-- the two slots of `CALLBase.match(<keyword>, <class>, string, require_rhs=True)` -/
theorem callSplit_kw_cls_shape {k : Str} {c : ClassId} {u : Bool} {s : Str} {slots : List Combi.Slot}
    (h : Combi.callSplit (.kw k) (.cls c) u true s = some slots) :
    ∃ a, slots = [.str a, .fail] ∨ ∃ t, slots = [.str a, .child c t] := by
  unfold Combi.callSplit at h
  split at h
  · cases h
  split at h
  · cases h
  split at h
  · cases h
  dsimp only at h
  split at h
  · cases h
  split at h
  · cases h
  rename_i ls hls
  cases h
  have hls' : ∃ a, ls = .str a := by
    (repeat' split at hls) <;> first | (cases hls; exact ⟨_, rfl⟩) | cases hls
  obtain ⟨a, rfl⟩ := hls'
  refine ⟨a, ?_⟩
  split
  · exact .inr ⟨_, rfl⟩
  · exact .inl rfl

theorem openItems_shape {o : Oracle Node} {s : Str} {items : List (Item Node)}
    (h : (combiPlan specOpen s).bind (runSlots o) = .ok items) : ∃ a n, items = [.str a, .node n] := by
  obtain ⟨slots, h1, h2⟩ := Res.bind_eq_ok h
  unfold combiPlan ofCombi at h1
  split at h1
  · cases h1
  · rename_i cs hcs
    cases h1
    obtain ⟨a, rfl | ⟨t, rfl⟩⟩ := callSplit_kw_cls_shape (k := "OPEN".toList) (c := C.Connect_Spec_List)
      (u := true) (s := s) hcs
    · obtain ⟨i, is, rfl, _, h4⟩ := runSlots_cons_ok h2
      obtain ⟨j, js, rfl, h5, _⟩ := runSlots_cons_ok h4
      exact absurd h5 (runSlot_fail o j)
    · obtain ⟨i, is, rfl, h3, h4⟩ := runSlots_cons_ok h2
      obtain ⟨j, js, rfl, h5, h6⟩ := runSlots_cons_ok h4
      cases runSlots_nil_ok h6
      obtain ⟨n, rfl, _⟩ := runSlot_child_ok h5
      cases runSlot_str_ok h3
      exact ⟨a, n, rfl⟩

/-- `Open_Stmt.match`: the `IndexError` of the model guards a shape `CALLBase.match` cannot produce -/
theorem matchOpen_total (std : Std) (o : Oracle Node) (s : Str) (e : Exc)
    (h : matchOpen std o s = .raises e) : e = .keyError ∨ ∃ c t, o.call c t = .raises e := by
  have hp := combiPlan_total specOpen specOpen_good
  unfold matchOpen at h
  cases std with
  | f2003 => exact plan_match_total _ hp o s e h
  | f2008 =>
    dsimp only at h
    rcases Res.bind_eq_raises h with h1 | ⟨items, h1, h2⟩
    · exact plan_match_total _ hp o s e h1
    · obtain ⟨a, n, rfl⟩ := openItems_shape h1
      dsimp only at h2
      split at h2 <;> cases h2

/-! ### Io_Control_Spec_List -/

theorem splitGo_ne_nil' (sep : Str) : ∀ (s : Str) (k : Nat), Combi.splitGo sep k s ≠ []
  | [], k => by cases k <;> simp [Combi.splitGo]
  | c :: cs, k + 1 => by simpa [Combi.splitGo] using splitGo_ne_nil' sep cs k
  | c :: cs, 0 => by
    unfold Combi.splitGo
    split
    · simp
    · split <;> simp

/-- `str.split` never returns an empty list -/
theorem splitC_ne_nil (c : Char) (s : Str) : splitC c s ≠ [] := splitGo_ne_nil' [c] s 0

theorem bareSpec_raises {o : Oracle Node} {t : Str} {e : Exc} (h : bareSpec o t = .raises e) :
    ∃ c t, o.call c t = .raises e := ⟨_, _, Res.map_eq_raises h⟩

theorem namedSpec_raises {o : Oracle Node} {t : Str} {e : Exc} (h : namedSpec o t = .raises e) :
    ∃ c t, o.call c t = .raises e := ⟨_, _, Res.map_eq_raises h⟩

theorem namedSpecs_raises {o : Oracle Node} {m : Map} {e : Exc} : ∀ {ps : List Str},
    namedSpecs o m ps = .raises e → ∃ c t, o.call c t = .raises e
  | [], h => by cases h
  | p :: ps, h => by
    unfold namedSpecs at h
    rcases Res.bind_eq_raises h with h1 | ⟨i, _, h1⟩
    · exact namedSpec_raises h1
    · rcases Res.bind_eq_raises h1 with h2 | ⟨is, _, h2⟩
      · exact namedSpecs_raises h2
      · cases h2

theorem ioControlChecks_not_raises (o : Oracle Node) (hu hn : Bool) (lst : List (Item Node)) (e : Exc) :
    ioControlChecks o hu hn lst ≠ .raises e := by
  unfold ioControlChecks
  dsimp only
  intro h
  split at h
  · cases h
  · split at h
    · cases h
    · split at h <;> cases h

theorem unnamedSecond_raises {o : Oracle Node} {spec : Str} {e : Exc} : ∀ {l : List (ClassId × String)},
    unnamedSecond o spec l = .raises e → ∃ c t, o.call c t = .raises e
  | [], h => by cases h
  | (c, name) :: rest, h => by
    unfold unnamedSecond at h
    split at h
    · rename_i e' he'; cases h; exact ⟨_, _, he'⟩
    · exact unnamedSecond_raises h
    · split at h
      · rename_i e' he'; cases h; exact bareSpec_raises he'
      · exact unnamedSecond_raises h
      · cases h

theorem named_raises {o : Oracle Node} {m : Map} {lst : List (Item Node)} {spec : Str} {rest : List Str}
    {hu hn : Bool} {e : Exc}
    (h : ((namedSpec o spec).bind fun i =>
      (namedSpecs o m rest).bind fun is => ioControlChecks o hu hn (lst ++ i :: is)) = .raises e) :
    ∃ c t, o.call c t = .raises e := by
  rcases Res.bind_eq_raises h with h1 | ⟨i, _, h1⟩
  · exact namedSpec_raises h1
  · rcases Res.bind_eq_raises h1 with h2 | ⟨is, _, h2⟩
    · exact namedSpecs_raises h2
    · exact absurd h2 (ioControlChecks_not_raises _ _ _ _ _)

/-- `Io_Control_Spec_List.match`: the `IndexError` branch of the model (an empty `str.split`) is unreachable -/
theorem matchIoControlSpecList_total (o : Oracle Node) (s : Str) (e : Exc)
    (h : matchIoControlSpecList o s = .raises e) : e = .keyError ∨ ∃ c t, o.call c t = .raises e := by
  unfold matchIoControlSpecList at h
  rcases Res.bind_eq_raises h with h1 | ⟨r, _, h1⟩
  · exact .inl (tok_raises h1).1
  right
  dsimp only at h1
  split at h1
  · rename_i hsp
    exact absurd hsp (splitC_ne_nil _ _)
  · split at h1
    · rename_i e' he'; cases h1; exact ⟨_, _, he'⟩
    · exact named_raises h1
    · split at h1
      · rename_i e' he'; cases h1; exact bareSpec_raises he'
      · exact named_raises h1
      · split at h1
        · cases h1
        · try dsimp only at h1
          split at h1
          · rename_i e' he'; cases h1; exact unnamedSecond_raises he'
          · cases h1
          · rcases Res.bind_eq_raises h1 with h2 | ⟨is, _, h2⟩
            · exact namedSpecs_raises h2
            · exact absurd h2 (ioControlChecks_not_raises _ _ _ _ _)
          · exact named_raises h1

/-! ## Format_Item_List: its plan carries `Slot.raise .keyError` (the tokeniser inside the loop) and, syntactically, the
    `ValueError` of `int(...)` — UNREACHABLE since the repair fa6d1cf of /repo (`hollerith_count_int`) -/

/-- the only `Slot.raise` is the tokeniser's `KeyError` -/
def RaiseK (l : List Slot) : Prop := ∀ e, Slot.raise e ∈ l → e = .keyError

theorem RaiseK.nil : RaiseK [] := fun _ h => by cases h
theorem RaiseK.fail : RaiseK [.fail] := fun _ h => by simp at h
theorem RaiseK.ke : RaiseK [.raise .keyError] := fun e h => by
  simp only [List.mem_cons, List.not_mem_nil, or_false, Slot.raise.injEq] at h; exact h
theorem RaiseK.child {c : ClassId} {t : Str} {l : List Slot} (h : RaiseK l) : RaiseK (.child c t :: l) :=
  fun e he => by
    rcases List.mem_cons.1 he with h1 | h1
    · cases h1
    · exact h e h1
/-- the `int(...)` branch: impossible -/
theorem RaiseK.hol {cur m : Str} {l : List Slot} (hm : hollerithPrefix cur = some m)
    (hn : pyInt (Combi.noSpaces m.dropLast) = none) : RaiseK l := by
  obtain ⟨n, hn'⟩ := hollerith_count_int hm
  rw [hn'] at hn; cases hn

theorem formatItemListLoop_raiseK : ∀ (fuel : Nat) (cur : Str), RaiseK (formatItemListLoop fuel cur)
  | 0, _ => by unfold formatItemListLoop; exact RaiseK.fail
  | fuel + 1, cur => by
    have ih := formatItemListLoop_raiseK fuel
    unfold formatItemListLoop
    repeat (first
      | with_reducible exact RaiseK.nil
      | with_reducible exact RaiseK.fail
      | with_reducible exact RaiseK.ke
      | with_reducible exact ih _
      | with_reducible refine RaiseK.child ?_
      | exact RaiseK.hol (by assumption) (by assumption)
      | split
      | dsimp only)

theorem planFormatItemList_raise (s : Str) (slots : List Slot) (h : planFormatItemList s = .ok slots) :
    ∀ e, Slot.raise e ∈ slots → e = .keyError := by
  unfold planFormatItemList at h
  split at h
  · cases h
  dsimp only at h
  split at h
  · cases h
  cases h
  exact formatItemListLoop_raiseK _ _

theorem planFormatItemList_not_raises (s : Str) (e : Exc) : planFormatItemList s ≠ .raises e := by
  unfold planFormatItemList
  intro h
  split at h
  · cases h
  dsimp only at h
  split at h <;> cases h

/-- an exception escaping from `Format_Item_List.match` (after fa6d1cf): as for every other class -/
theorem formatItemList_match_total (o : Oracle Node) (s : Str) (e : Exc)
    (h : (planFormatItemList s).bind (runSlots o) = .raises e) :
    e = .keyError ∨ ∃ c t, o.call c t = .raises e := by
  rcases Res.bind_eq_raises h with h1 | ⟨slots, h1, h2⟩
  · exact absurd h1 (planFormatItemList_not_raises s e)
  · rcases runSlots_raises h2 with h3 | ⟨c, t, _, h3⟩
    · exact .inl (planFormatItemList_raise s slots h1 e h3)
    · exact .inr ⟨c, t, h3⟩

/-! ## the dispatch -/

/-- every plan of `planOf` except the one of `Format_Item_List` is total -/
theorem planOf_total (std : Std) (c : ClassId) (plan : Str → Res (List Slot)) (h : planOf std c = some plan)
    (hc : c ≠ C.Format_Item_List) : PlanTotal plan := by
  unfold planOf at h
  by_cases h1 : (c == C.Write_Stmt) = true
  · rw [if_pos h1] at h; cases h; exact planWrite_total
  rw [if_neg h1] at h; clear h1
  by_cases h1 : (c == C.Read_Stmt) = true
  · rw [if_pos h1] at h; cases h; exact planRead_total
  rw [if_neg h1] at h; clear h1
  by_cases h1 : (c == C.Print_Stmt) = true
  · rw [if_pos h1] at h; cases h; exact planPrint_total
  rw [if_neg h1] at h; clear h1
  by_cases h1 : (c == C.Close_Stmt) = true
  · rw [if_pos h1] at h; cases h; exact combiPlan_total _ specClose_good
  rw [if_neg h1] at h; clear h1
  by_cases h1 : (c == C.Inquire_Stmt) = true
  · rw [if_pos h1] at h; cases h; exact planInquire_total
  rw [if_neg h1] at h; clear h1
  by_cases h1 : (c == C.Format_Stmt) = true
  · rw [if_pos h1] at h; cases h; exact combiPlan_total _ specFormatStmt_good
  rw [if_neg h1] at h; clear h1
  by_cases h1 : (c == C.Format_Specification) = true
  · rw [if_pos h1] at h; cases h; exact combiPlan_total _ specFormatSpecification_good
  rw [if_neg h1] at h; clear h1
  by_cases h1 : (c == C.Format_Item_List) = true
  · exact absurd (by simpa using h1) hc
  rw [if_neg h1] at h; clear h1
  by_cases h1 : (c == C.Control_Edit_Desc) = true
  · rw [if_pos h1] at h; cases h; exact planControlEditDesc_total
  rw [if_neg h1] at h; clear h1
  by_cases h1 : (c == C.Loop_Control) = true
  · rw [if_pos h1] at h; cases h; exact planLoopControl_total std
  rw [if_neg h1] at h; clear h1
  by_cases h1 : (c == C.Label_Do_Stmt) = true
  · rw [if_pos h1] at h; cases h; exact planLabelDo_total
  rw [if_neg h1] at h; clear h1
  by_cases h1 : (c == C.Nonlabel_Do_Stmt) = true
  · rw [if_pos h1] at h; cases h; exact combiPlan_total _ specNonlabelDo_good
  rw [if_neg h1] at h; clear h1
  by_cases h1 : (c == C.If_Stmt) = true
  · rw [if_pos h1] at h; cases h; exact planIf_total std
  rw [if_neg h1] at h; clear h1
  by_cases h1 : (c == C.If_Then_Stmt) = true
  · rw [if_pos h1] at h; cases h; exact planIfThen_total
  rw [if_neg h1] at h; clear h1
  by_cases h1 : (c == C.Else_If_Stmt) = true
  · rw [if_pos h1] at h; cases h; exact planElseIf_total
  rw [if_neg h1] at h; clear h1
  by_cases h1 : (c == C.Select_Case_Stmt) = true
  · rw [if_pos h1] at h; cases h; exact planSelectCase_total
  rw [if_neg h1] at h; clear h1
  by_cases h1 : (c == C.Case_Stmt) = true
  · rw [if_pos h1] at h; cases h; exact planCase_total
  rw [if_neg h1] at h; clear h1
  by_cases h1 : (c == C.Case_Selector) = true
  · rw [if_pos h1] at h; cases h; exact planCaseSelector_total
  rw [if_neg h1] at h; clear h1
  by_cases h1 : (c == C.Case_Value_Range) = true
  · rw [if_pos h1] at h; cases h; exact combiPlan_total _ specCaseValueRange_good
  rw [if_neg h1] at h; clear h1
  by_cases h1 : (c == C.Where_Stmt) = true
  · rw [if_pos h1] at h; cases h; exact planWhere_total
  rw [if_neg h1] at h; clear h1
  by_cases h1 : (c == C.Forall_Triplet_Spec) = true
  · rw [if_pos h1] at h; cases h; exact planForallTriplet_total
  rw [if_neg h1] at h; clear h1
  by_cases h1 : (c == C.Forall_Stmt) = true
  · rw [if_pos h1] at h; cases h; exact planForall_total
  rw [if_neg h1] at h; clear h1
  by_cases h1 : (c == C.Forall_Construct_Stmt) = true
  · rw [if_pos h1] at h; cases h; exact combiPlan_total _ specForallConstruct_good
  rw [if_neg h1] at h; clear h1
  by_cases h1 : (c == C.Allocate_Stmt) = true
  · rw [if_pos h1] at h; cases h; exact planAllocate_total
  rw [if_neg h1] at h; clear h1
  by_cases h1 : (c == C.Allocation) = true
  · rw [if_pos h1] at h; cases h; exact combiPlan_total _ specAllocation_good
  rw [if_neg h1] at h; clear h1
  by_cases h1 : (c == C.Deallocate_Stmt) = true
  · rw [if_pos h1] at h; cases h; exact planDeallocate_total
  rw [if_neg h1] at h; clear h1
  by_cases h1 : (c == C.Nullify_Stmt) = true
  · rw [if_pos h1] at h; cases h; exact combiPlan_total _ specNullify_good
  rw [if_neg h1] at h; clear h1
  by_cases h1 : (c == C.Stop_Stmt) = true
  · rw [if_pos h1] at h; cases h; exact combiPlan_total _ specStop_good
  rw [if_neg h1] at h; clear h1
  by_cases h1 : (c == C.Error_Stop_Stmt) = true
  · rw [if_pos h1] at h; cases h; exact combiPlan_total _ specErrorStop_good
  rw [if_neg h1] at h; clear h1
  by_cases h1 : (c == C.Goto_Stmt) = true
  · rw [if_pos h1] at h; cases h; exact planGoto_total
  rw [if_neg h1] at h; clear h1
  by_cases h1 : (c == C.Computed_Goto_Stmt) = true
  · rw [if_pos h1] at h; cases h; exact planComputedGoto_total
  rw [if_neg h1] at h; clear h1
  by_cases h1 : (c == C.Arithmetic_If_Stmt) = true
  · rw [if_pos h1] at h; cases h; exact planArithmeticIf_total
  rw [if_neg h1] at h; clear h1
  by_cases h1 : (c == C.Call_Stmt) = true
  · rw [if_pos h1] at h; cases h; exact planCall_total
  rw [if_neg h1] at h; clear h1
  by_cases h1 : (c == C.Actual_Arg_Spec) = true
  · rw [if_pos h1] at h; cases h; exact combiPlan_total _ specActualArgSpec_good
  rw [if_neg h1] at h; clear h1
  by_cases h1 : (c == C.Actual_Arg_Spec_List) = true
  · rw [if_pos h1] at h; cases h; exact combiPlan_total _ (specList_good _)
  rw [if_neg h1] at h; clear h1
  by_cases h1 : (c == C.Connect_Spec_List) = true
  · rw [if_pos h1] at h; cases h; exact combiPlan_total _ (specList_good _)
  rw [if_neg h1] at h; clear h1
  by_cases h1 : (c == C.Close_Spec_List) = true
  · rw [if_pos h1] at h; cases h; exact combiPlan_total _ (specList_good _)
  rw [if_neg h1] at h; clear h1
  by_cases h1 : (c == C.Inquire_Spec_List) = true
  · rw [if_pos h1] at h; cases h; exact combiPlan_total _ (specList_good _)
  rw [if_neg h1] at h; clear h1
  by_cases h1 : (c == C.Alloc_Opt_List) = true
  · rw [if_pos h1] at h; cases h; exact combiPlan_total _ (specList_good _)
  rw [if_neg h1] at h; clear h1
  by_cases h1 : (c == C.Dealloc_Opt_List) = true
  · rw [if_pos h1] at h; cases h; exact combiPlan_total _ (specList_good _)
  rw [if_neg h1] at h; clear h1
  by_cases h1 : (c == C.Allocation_List) = true
  · rw [if_pos h1] at h; cases h; exact combiPlan_total _ (specList_good _)
  rw [if_neg h1] at h; clear h1
  by_cases h1 : (c == C.Case_Value_Range_List) = true
  · rw [if_pos h1] at h; cases h; exact combiPlan_total _ (specList_good _)
  rw [if_neg h1] at h; clear h1
  by_cases h1 : (c == C.Forall_Triplet_Spec_List) = true
  · rw [if_pos h1] at h; cases h; exact combiPlan_total _ (specList_good _)
  rw [if_neg h1] at h; clear h1
  cases h

/-- `planOf` is defined for `Format_Item_List` only with `planFormatItemList` -/
theorem planOf_formatItemList (std : Std) : planOf std C.Format_Item_List = some planFormatItemList := by
  cases std <;> rfl

theorem matchOf_total_aux (std : Std) (o : Oracle Node) (c : ClassId) (s : Str) (e : Exc) (hc : c ≠ C.Format_Item_List)
    (h : matchOf std o c s = some (.raises e)) : e = .keyError ∨ ∃ c' t, o.call c' t = .raises e := by
  unfold matchOf at h
  split at h
  · rename_i plan hp
    have h1 := Res.map_eq_raises (Option.some.inj h)
    exact plan_match_total plan (planOf_total std c plan hp hc) o s e h1
  · split at h
    · exact matchIoControlSpecList_total o s e (Option.some.inj h)
    split at h
    · exact .inr (matchIoControlSpec_total o s e (Option.some.inj h))
    split at h
    · exact matchOpen_total std o s e (Option.some.inj h)
    split at h
    · exact .inr (matchConnectSpec_total std o s e (Option.some.inj h))
    split at h
    · exact .inr (matchCloseSpec_total o s e (Option.some.inj h))
    split at h
    · exact .inr (matchInquireSpec_total o s e (Option.some.inj h))
    split at h
    · exact .inr (matchAllocOpt_total std o s e (Option.some.inj h))
    split at h
    · exact .inr (matchDeallocOpt_total o s e (Option.some.inj h))
    split at h
    · exact matchFormatItem_total std o s e (Option.some.inj h)
    split at h
    · exact matchForallHeader_total o s e (Option.some.inj h)
    · cases h

theorem matchOf_formatItemList_total (std : Std) (o : Oracle Node) (s : Str) (e : Exc)
    (h : matchOf std o C.Format_Item_List s = some (.raises e)) :
    e = .keyError ∨ ∃ c' t, o.call c' t = .raises e := by
  unfold matchOf at h
  rw [planOf_formatItemList] at h
  dsimp only at h
  exact formatItemList_match_total o s e (Res.map_eq_raises (Option.some.inj h))

/-- **match_total** for EVERY modelled class (both standards): an exception escaping from `match` is the `KeyError` of
    string_replace_map's un-nesting loop or was raised inside a child call -/
theorem matchOf_total (std : Std) (o : Oracle Node) (c : ClassId) (s : Str) (e : Exc)
    (h : matchOf std o c s = some (.raises e)) : e = .keyError ∨ ∃ c' t, o.call c' t = .raises e := by
  by_cases hc : c = C.Format_Item_List
  · subst hc; exact matchOf_formatItemList_total std o s e h
  · exact matchOf_total_aux std o c s e hc h

#print axioms planWrite_total
#print axioms planRead_total
#print axioms planPrint_total
#print axioms planInquire_total
#print axioms planControlEditDesc_total
#print axioms planConcurrent_total
#print axioms planLabelDo_total
#print axioms planIfThen_total
#print axioms planElseIf_total
#print axioms planSelectCase_total
#print axioms planCase_total
#print axioms planCaseSelector_total
#print axioms planWhere_total
#print axioms planForallHeaderMask_total
#print axioms planForallTriplet_total
#print axioms planForall_total
#print axioms planDeallocate_total
#print axioms planGoto_total
#print axioms planComputedGoto_total
#print axioms planArithmeticIf_total
#print axioms planCall_total
#print axioms planIf_total
#print axioms planAllocate_total
#print axioms planLoopControl03_total
#print axioms planLoopControl_total
#print axioms lastNS_strip
#print axioms skipDigits_found
#print axioms planFormatItem_total
#print axioms planFormatItemStar_total
#print axioms planFormatItemStar_not_raises
#print axioms combiPlan_total
#print axioms combiPlan_not_raises
#print axioms combiPlan_specOpen_total
#print axioms combiPlan_specClose_total
#print axioms combiPlan_specNullify_total
#print axioms combiPlan_specAllocation_total
#print axioms combiPlan_specFormatStmt_total
#print axioms combiPlan_specFormatSpecification_total
#print axioms combiPlan_specNonlabelDo_total
#print axioms combiPlan_specStop_total
#print axioms combiPlan_specErrorStop_total
#print axioms combiPlan_specForallConstruct_total
#print axioms combiPlan_specCaseValueRange_total
#print axioms combiPlan_specActualArgSpec_total
#print axioms combiPlan_specList_total
#print axioms plan_match_total
#print axioms kvTable_total
#print axioms unitDefault_total
#print axioms tableOr_total
#print axioms matchIoControlSpec_total
#print axioms matchConnectSpec_total
#print axioms matchCloseSpec_total
#print axioms matchInquireSpec_total
#print axioms matchAllocOpt_total
#print axioms matchDeallocOpt_total
#print axioms matchFormatItem_total
#print axioms matchForallHeader_total
#print axioms matchOpen_total
#print axioms matchIoControlSpecList_total
#print axioms planFormatItemList_raise
#print axioms planFormatItemList_not_raises
#print axioms formatItemList_match_total
#print axioms planOf_total
#print axioms planOf_formatItemList
#print axioms matchOf_total
#print axioms matchOf_formatItemList_total

end Fp.IoStmt
