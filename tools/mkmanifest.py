#!/usr/bin/env python3
"""Regenerate /verif/MANIFEST.json from the table below (kept in one place so that the
claims, the notes and the not_applicable list stay consistent)."""
import json
import os

HERE = os.path.dirname(os.path.dirname(os.path.abspath(__file__)))
PROPS = [json.loads(l)["id"] for l in open(os.path.join(HERE, "properties.jsonl"))]

COMMON_NOTE = ("Trusted: Lean 4.33 kernel (axioms of every theorem audited by #print axioms on each run: subset of propext, "
               "Classical.choice, Quot.sound; no sorry/native_decide/added axioms), the translator fv/extract_*.py, the co-simulation "
               "harness fv/cosim_*.py with the compiled driver fpmodel, CPython. The ~600 leaf rule classes are an oracle parameter "
               "of the block-level theorems (not modelled); regex engines are replaced by hand scanners tied by exhaustive tables. ")

# id -> (text, note, technique, design_ref)
CLAIMS = {
 "C01": ("Kernel-checked theorems about the Lean models of the block matcher (fail_restores, frontier_eq_consumed: every consumed item is in the tree once, in order, for every class table and leaf oracle), the reader (get_put_inverse, join_continuation) and the expression chain (parse_sound, parse_render_partial), tied to the code by regenerated tables and co-simulation; the round trip itself is decided on generated programs (both standards, comments dropped/kept). PARTIAL: leaf match/tostr pairs are exercised, not proved.",
         "Round-trip of hand-written leaf classes is tested on generated inputs only.", "Lean 4 proof of model + translator/co-simulation tie + differential search", "§5 C01"),
 "C02": ("Theorems norm_idem, norm_never_invents, norm_only_drops_droppable, norm_literals_exact (the comparison itself is sound and exact on literals), splitquote_join, srm_lower_preserves_literals, parse_sound (expressions), frontier_eq_consumed (no statement dropped/duplicated/reordered); oracle normeq(source, printed) computed by the Lean model for every generated program and layout. PARTIAL: srm_roundtrip is an open obligation; leaf classes are exercised only.",
         "The normaliser's canonicalisation list is calibrated against the real printer (negative controls 100%).", "Lean 4 proof of model + Lean-computed token oracle", "§5 C02"),
 "C03": ("parse_sound, parse_render_partial (for every tree derivable by the standard's grammar R701-R722 inside the stated boundary, the model parser returns exactly that tree), parse_groups, boundary necessity + decide'd witnesses of the failing family; level table tied by kernel obligation levels_tie_f2003/f2008 on the table regenerated from the repo; model == real Fortran2003.Expr on bounded-exhaustive + random expressions every run.",
         "Regex lexing of operators is co-simulated, not proved. Known finding F-C03-1 is the negated hypothesis of parse_render_partial.", "Lean 4 proof (induction over expression trees) + kernel-checked generated-table tie + co-simulation", "§5 C03"),
 "C04": ("Reader theorems join_continuation (continuation lines with comments/blank lines in between join to one item with exact span, for every such layout), get_put_inverse, splitquote_join/splitquote_state (quote state across cuts); model == real reader by co-simulation; property decided on generated programs x seeded layouts incl. ';' joins and keyword-pair stress. PARTIAL: cuts inside literals and multi-statement induction are co-simulated only.",
         "'same items => same tree' needs blank-insensitive leaf matchers: exercised only.", "Lean 4 proof of reader model + co-simulation + differential search", "§5 C04"),
 "C05": ("detect_fixed / detect_free / detect_free_only_if (format detection, all sources) with decide'd misdetection witnesses; regex tables kernel/exhaustively tied; fixed-form reader branch co-simulated; property decided on fixed-form renderings (wrap, continuation char, comment style, label placement).",
         "fixed_items (fixed-form join) is co-simulated, not proved.", "Lean 4 proof of detection model + co-simulation + differential search", "§5 C05"),
 "C06": ("outcome_classified and systemExit_only_via_reader_error (block level, every class table and leaf oracle: if leaves only return match/none/NoMatch/Syntax/InternalSyntax the outcome is tree or FortranSyntaxError, SystemExit only through reader.error); termination of the modelled algorithms by construction; fuzz stream (mutants + random text, both standards, comments kept/dropped, invalid UTF-8 file) is the search for leaf escapes, classified by call site. PARTIAL by nature.",
         "Leaf classes' own stray exceptions and the wall-clock bound are outside the model.", "Lean 4 proof of block model (plumbing) + fuzz search", "§5 C06"),
 "C07": ("no_read_past_unmatched, unmatched_rejects_program (block level: an item matched by no leaf class is never read past and the outcome is an error, for every table/oracle/nesting) + linecount_monotone / linecount_is_lines_read / item_span_bounds (reader); property decided exhaustively per generated program (every statement replaced by garbage).",
         "", "Lean 4 proof (block + reader models) + exhaustive per-program search", "§5 C07"),
 "C08": ("block_closed, program_consumes_all, nomatch_restores (block level, every table/oracle), splitparen_balanced/splitparen_paren_shape, srm_unmatched_opener_visible; generated block tables kernel-tied; property decided on every single structural mutation of generated programs.",
         "CloserOnly/OpenerOnly leaf exclusivity is exercised, not proved.", "Lean 4 proof (block + tokeniser models) + exhaustive per-program mutation search", "§5 C08"),
}


def main():
    checks = []
    na = []
    for p in PROPS:
        if p in CLAIMS:
            text, note, tech, ref = CLAIMS[p]
            checks.append({
                "property_id": p,
                "quick_cmd": "./check %s quick" % p,
                "thorough_cmd": "./check %s thorough" % p,
                "evidence_file": "evidence/%s.json" % p,
                "replay_cmd_template": "./check %s --replay {path}" % p,
                "engine": "lean-models",
                "level_claimed": {"category": "proof", "text": text, "design_ref": ref},
                "level_note": COMMON_NOTE + note,
                "technique": tech,
            })
        else:
            na.append({"property_id": p, "reason": "check not built yet (work in progress; see DESIGN.md)"})
    m = {
        "version": 1,
        "setup_cmd": "./check setup",
        "hooks": {"guard": "FPARSER_VERIF", "enable": "no source hooks: observation is by wrapping callables from the harness process",
                  "baseline_off_cmd": "cd /repo && /venv/bin/python -m pytest -q -p no:cacheprovider -n 8 --timeout=900",
                  "source_commits": [], "add_only": True},
        "engines": [{"name": "lean-models", "path": "lean/", "serves_properties": sorted(CLAIMS),
                     "kind_free_text": "Lean 4 library FparserModel (executable models + theorems), compiled driver fpmodel, translator fv/extract_*.py, co-simulation fv/cosim_*.py"}],
        "checks": checks,
        "not_applicable": na,
        "notes": "All checks: ./check <id> quick|thorough; exit 0 = held (KNOWN-FINDING lines for listed findings), 1 = VIOLATION, 2 = harness error/time-out.",
    }
    with open(os.path.join(HERE, "MANIFEST.json"), "w") as f:
        json.dump(m, f, indent=1)
    print("claimed:", len(checks), "not applicable:", len(na))


if __name__ == "__main__":
    main()
