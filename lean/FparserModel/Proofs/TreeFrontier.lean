import FparserModel.Proofs.TreeCopy
import FparserModel.Block
/-!
# statements in `walk` order = the frontier of the block model; `deepcopy` from the root
(helper lemmas for C10 / C18)
-/
namespace Fp.Tree

mutual
/-- the statement nodes (`isLeaf`) of a tree, left to right; the search stops at a statement
    (what is below a statement is its expression tree) -/
def RTree.frontier (isLeaf : Nat → Bool) : RTree → List Nat
  | .mk id kids => if isLeaf id then [id] else RTree.frontierL isLeaf kids
def RTree.frontierL (isLeaf : Nat → Bool) : List RTree → List Nat
  | [] => []
  | t :: ts => t.frontier isLeaf ++ RTree.frontierL isLeaf ts
end

mutual
/-- no statement node below a statement node -/
def RTree.stmtOK (isLeaf : Nat → Bool) : RTree → Bool
  | .mk id kids => if isLeaf id then (RTree.preL kids).all (fun m => !isLeaf m) else RTree.stmtOKL isLeaf kids
def RTree.stmtOKL (isLeaf : Nat → Bool) : List RTree → Bool
  | [] => true
  | t :: ts => t.stmtOK isLeaf && RTree.stmtOKL isLeaf ts
end

mutual
theorem filter_pre (isLeaf : Nat → Bool) : ∀ t : RTree, t.stmtOK isLeaf = true →
    t.pre.filter isLeaf = t.frontier isLeaf
  | .mk id kids, h => by
    simp only [RTree.stmtOK] at h
    simp only [RTree.pre, RTree.frontier]
    by_cases hl : isLeaf id = true
    · simp only [hl, if_true] at h ⊢
      rw [List.filter_cons_of_pos hl]
      congr 1
      rw [List.filter_eq_nil_iff]
      intro m hm
      have := List.all_eq_true.1 h m hm
      simpa using this
    · simp only [hl] at h ⊢
      rw [List.filter_cons_of_neg hl]
      exact filter_preL isLeaf kids (by simpa using h)
theorem filter_preL (isLeaf : Nat → Bool) : ∀ ts : List RTree, RTree.stmtOKL isLeaf ts = true →
    (RTree.preL ts).filter isLeaf = RTree.frontierL isLeaf ts
  | [], _ => rfl
  | t :: ts, h => by
    simp only [RTree.stmtOKL, Bool.and_eq_true] at h
    simp only [RTree.preL, RTree.frontierL, List.filter_append]
    rw [filter_pre isLeaf t h.1, filter_preL isLeaf ts h.2]
end

section
variable (isLeaf : Nat → Bool) (clsOf : Nat → Block.Cls) (itemOf : Nat → Block.Item)
  (infoOf : Nat → Block.NodeInfo)

mutual
/-- the block-model tree (`Fp.Block.Tree`) of an arena tree: statement nodes become leaves
    carrying their source item, the other nodes become containers -/
def RTree.skel : RTree → Block.Tree
  | .mk id kids =>
    if isLeaf id then .leaf (clsOf id) (itemOf id) (infoOf id) else .node (clsOf id) (RTree.skelL kids)
def RTree.skelL : List RTree → List Block.Tree
  | [] => []
  | t :: ts => t.skel :: RTree.skelL ts
end

mutual
theorem skel_frontier : ∀ t : RTree,
    (t.skel isLeaf clsOf itemOf infoOf).frontier = (t.frontier isLeaf).map itemOf
  | .mk id kids => by
    simp only [RTree.skel, RTree.frontier]
    by_cases hl : isLeaf id = true
    · simp [hl, Block.Tree.frontier]
    · simp only [hl, Bool.false_eq_true, if_false, Block.Tree.frontier]
      exact skelL_frontier kids
theorem skelL_frontier : ∀ ts : List RTree,
    Block.frontierL (RTree.skelL isLeaf clsOf itemOf infoOf ts) = (RTree.frontierL isLeaf ts).map itemOf
  | [] => rfl
  | t :: ts => by
    simp only [RTree.skelL, Block.frontierL, RTree.frontierL, List.map_append]
    rw [skel_frontier t, skelL_frontier ts]
end
end

/-! ## deepcopy from the root -/

theorem arena_fuel_walk (a : Arena) (l : List Nat) (hnd : l.Nodup) (hlt : ∀ n ∈ l, n < a.length) :
    cost a 1 l + 2 ≤ arenaFuel a := by
  have := cost_le a 1 l hnd hlt
  unfold arenaFuel; omega

theorem arena_fuel_copy (a : Arena) (l : List Nat) (hnd : l.Nodup) (hlt : ∀ n ∈ l, n < a.length) :
    cost a 2 l ≤ 2 * arenaFuel a + 2 := by
  have := cost_le a 2 l hnd hlt
  unfold arenaFuel; omega

theorem idxOf_of_getElem? {G : List Nat} (hG : G.Nodup) (j n : Nat) (h : G[j]? = some n) : G.idxOf n = j := by
  obtain ⟨hj, rfl⟩ := List.getElem?_eq_some_iff.1 h
  exact hG.idxOf_getElem j hj

theorem deepcopy_root (facts : Nat → CopyFacts) (a : Arena) (root h : Nat) (t : RTree)
    (ht : absNode a h root = some t) (wf : TreeWF a root)
    (hok : ∀ n ∈ t.pre, ∀ nd, a[n]? = some nd → (facts nd.cls).ok = true) :
    ∃ out, deepcopy facts a root = .ok (a ++ out, a.length) ∧ out.length = t.pre.length
      ∧ ∀ (i n : Nat) (nd : Node), t.pre[i]? = some n → a[n]? = some nd →
          out[i]? = some (expNode (fun m => a.length + t.pre.idxOf m) nd) := by
  have hnd := wf_pre_nodup a root h t wf ht
  have hlt := pre_alloc a h root t ht
  have hφ : ∀ j n, t.pre[j]? = some n → (fun m => a.length + t.pre.idxOf m) n = a.length + j := by
    intro j n hj; simp [idxOf_of_getElem? hnd j n hj]
  have hall := (copy_all facts a a.length t.pre (fun m => a.length + t.pre.idxOf m) hφ
    (2 * arenaFuel a + 2)).1
  have hinv0 : CInv t.pre a.length 0 {} := by
    refine ⟨fun j n hj _ => by omega, fun n _ => ?_, rfl⟩
    simp [memoGet, Registry.nGet]
  obtain ⟨st', hc, hinv', _, hfill⟩ := hall h root t {} 0 ht (fun i _ => by simp) hinv0
    (fun p hp => by rw [wf.root_parent] at hp; cases hp)
    (fun n hn nd hnd' => ⟨hok n hn nd hnd', fun m hm =>
      wf.parent_ok n nd m (pre_reach a h root t ht n hn) hnd' hm⟩)
    (arena_fuel_copy a t.pre hnd hlt)
  refine ⟨st'.out, ?_, by simpa using hinv'.len, ?_⟩
  · unfold deepcopy
    simp only [hc, Nat.add_zero]
  · intro i n nd hi hn
    have hil : i < t.pre.length := (List.getElem?_eq_some_iff.1 hi).1
    exact hfill i n nd (by omega) (by omega) hi hn

end Fp.Tree

namespace Fp.Tree

/-- decidable form of `TreeWF` on the nodes of the unfolding -/
def wfCheck (a : Arena) (root : Nat) (l : List Nat) : Bool :=
  (parentOf a root).isNone &&
  l.all (fun c => (spList (kidItems a c)).all (fun n => parentOf a n == some c)
                  && decide (spList (kidItems a c)).Nodup)

theorem treeWF_of_check (a : Arena) (root h : Nat) (t : RTree) (ht : absNode a h root = some t)
    (hc : wfCheck a root t.pre = true) : TreeWF a root := by
  simp only [wfCheck, Bool.and_eq_true, List.all_eq_true, Option.isNone_iff_eq_none,
    decide_eq_true_eq, beq_iff_eq] at hc
  refine ⟨hc.1, ?_, ?_⟩
  · intro c nd n hr hnd hn
    have := (hc.2 c (reach_pre a h root t ht c hr)).1 n (by simpa [kidItems, hnd] using hn)
    exact this
  · intro c nd hr hnd
    have := (hc.2 c (reach_pre a h root t ht c hr)).2
    simpa [kidItems, hnd] using this

end Fp.Tree

namespace Fp.Tree

/-! ## the copy is again a tree of the same shape -/

mutual
def RTree.mapIds (φ : Nat → Nat) : RTree → RTree
  | .mk id kids => .mk (φ id) (RTree.mapIdsL φ kids)
def RTree.mapIdsL (φ : Nat → Nat) : List RTree → List RTree
  | [] => []
  | t :: ts => t.mapIds φ :: RTree.mapIdsL φ ts
end

mutual
theorem pre_mapIds (φ : Nat → Nat) : ∀ t : RTree, (t.mapIds φ).pre = t.pre.map φ
  | .mk id kids => by simp only [RTree.mapIds, RTree.pre, List.map_cons]; rw [preL_mapIds φ kids]
theorem preL_mapIds (φ : Nat → Nat) : ∀ ts : List RTree, RTree.preL (RTree.mapIdsL φ ts) = (RTree.preL ts).map φ
  | [] => rfl
  | t :: ts => by
    simp only [RTree.mapIdsL, RTree.preL, List.map_append]
    rw [pre_mapIds φ t, preL_mapIds φ ts]
end

mutual
theorem spItem_mapItem (φ : Nat → Nat) : ∀ it : Item, spItem (mapItem φ it) = (spItem it).map φ
  | .node id => rfl
  | .tup xs => by simp only [mapItem, spItem]; exact spList_mapItems φ xs
  | .lst xs => by simp only [mapItem, spItem]; exact spList_mapItems φ xs
  | .str _ => rfl
  | .none => rfl
  | .other _ => rfl
theorem spList_mapItems (φ : Nat → Nat) : ∀ l : List Item, spList (mapItems φ l) = (spList l).map φ
  | [] => rfl
  | x :: xs => by
    simp only [mapItems, spList, List.map_append]
    rw [spItem_mapItem φ x, spList_mapItems φ xs]
end

theorem mapO_map_rel (φ : Nat → Nat) (f f' : Nat → Option RTree) : ∀ (ks : List Nat) (kids : List RTree),
    mapO f ks = some kids →
    (∀ k tk, k ∈ ks → tk ∈ kids → f k = some tk → f' (φ k) = some (tk.mapIds φ)) →
    mapO f' (ks.map φ) = some (RTree.mapIdsL φ kids) := by
  intro ks
  induction ks with
  | nil => intro kids h _; simp only [mapO, Option.some.injEq] at h; subst h; rfl
  | cons k ks ih =>
    intro kids h hrel
    obtain ⟨t, tr, h1, h2, rfl⟩ := mapO_cons_some _ _ _ _ h
    simp only [List.map_cons, mapO, RTree.mapIdsL]
    rw [hrel k t (by simp) (by simp) h1,
      ih tr h2 (fun k' tk hk' htk hf => hrel k' tk (by simp [hk']) (by simp [htk]) hf)]

theorem absNode_copy (a a' : Arena) (φ : Nat → Nat) (S : List Nat)
    (hent : ∀ n ∈ S, ∀ nd, a[n]? = some nd → a'[φ n]? = some (expNode φ nd)) :
    ∀ h x t', absNode a h x = some t' → (∀ n ∈ t'.pre, n ∈ S) →
      absNode a' h (φ x) = some (t'.mapIds φ) := by
  intro h
  induction h with
  | zero => intro x t' ht; simp [absNode] at ht
  | succ h ih =>
    intro x t' ht hS
    obtain ⟨h', nd, kids, hh, hx, hk, rfl⟩ := absNode_succ_some a _ x t' ht
    have hh : h' = h := by omega
    subst hh
    have hx' := hent x (hS x (by simp [RTree.pre])) nd hx
    unfold absNode
    simp only [hx', expNode, spList_mapItems, RTree.mapIds]
    rw [mapO_map_rel φ (absNode a h') (absNode a' h') _ kids hk]
    · rfl
    · intro k tk _ htk hf
      exact ih k tk hf (fun n hn => hS n (by
        simp only [RTree.pre, List.mem_cons]; right; exact mem_preL.2 ⟨tk, htk, hn⟩))

end Fp.Tree
