import re, json, os, sys
ROOT = sys.argv[1] if len(sys.argv) > 1 else "/tmp/lw/header"   # the lean project dir
TOOLS = os.path.dirname(os.path.abspath(__file__))
P = os.path.join(ROOT, "FparserModel", "Proofs")
FILES = sorted(f[:-5] for f in os.listdir(P) if f.startswith("Header") and f.endswith(".lean"))
src = {f: open(os.path.join(P, f + ".lean"), encoding="utf-8").read() for f in FILES}

def find_stmt(name):
    """-> (file, binders text, conclusion text)"""
    for f, text in src.items():
        m = re.search(r"^theorem %s\b" % re.escape(name), text, re.M)
        if not m:
            continue
        i = m.end()
        # scan to the top-level ':=' that ends the statement
        depth = 0
        j = i
        colon = None
        while j < len(text):
            ch = text[j]
            if ch == "'" and j + 2 < len(text) and text[j + 2] == "'":
                j += 3
                continue
            if ch == '"':
                j = text.index('"', j + 1) + 1
                continue
            if ch in "([{⟨":
                depth += 1
            elif ch in ")]}⟩":
                depth -= 1
            elif depth == 0 and text.startswith(":=", j):
                break
            elif depth == 0 and ch == ":" and colon is None and not text.startswith(":=", j):
                colon = j
            j += 1
        binders = text[i:colon].strip()
        concl = text[colon + 1:j].strip()
        return f, binders, concl
    raise KeyError(name)

def binder_names(binders):
    names = []
    depth = 0
    cur = ""
    groups = []
    binders = re.sub(r"'[()\[\]{}:]'", "'x'", binders)
    binders = re.sub(r'"[^"]*"', '"x"', binders)
    for ch in binders:
        if ch in "({[":
            if depth == 0:
                cur = ch
            else:
                cur += ch
            depth += 1
        elif ch in ")}]":
            depth -= 1
            cur += ch
            if depth == 0:
                groups.append(cur)
                cur = ""
        elif depth > 0:
            cur += ch
    for g in groups:
        if g[0] != "(":
            continue
        body = g[1:-1]
        # names before the first top-level ':'
        d = 0
        for k, ch in enumerate(body):
            if ch in "([{":
                d += 1
            elif ch in ")]}":
                d -= 1
            elif ch == ":" and d == 0:
                names += body[:k].split()
                break
    return names


# (proof name, props name, serves, strength, note)
T = []
def add(proof, props, serves, strength, note):
    T.append((proof, props, serves, strength, note))

# ---- own theorems (Proofs/HeaderNames.lean, Proofs/HeaderLabel.lean)
add("namesAgree_spec", "end_name_discipline_spec", ["C08", "C06"], "full",
    "closed form of what BlockBase.match decides about the END name for EVERY kind of block: namesAgree (cfgOf k) o e = disciplineSpec k o e "
    "(accepted / FortranSyntaxError / SystemExit); cfgOf k = the flags with which the block class calls BlockBase.match, pinned to the live "
    "flags by Generated/HeaderTables.kinds_as_modelled")
add("end_name_discipline_iff", "end_name_discipline", ["C08"], "full",
    "THE name discipline: accepted iff the kind does not compare names (interface block, enum definition: deviation, witness "
    "interface_mismatch_accepted) or the END carries no name (and the opener is unnamed too for the kinds that REQUIRE the name: "
    "constructs, kinds_requiring_end_name) or both names agree up to case")
add("end_name_mismatch_verdict", "end_name_mismatch_verdict", ["C06", "C08"], "full",
    "a rejected END name is a SystemExit exactly for a DIFFERING name on the END of a program unit other than the main program "
    "(reader.error -> sys.exit: known finding F-C06-1, kinds_exiting_on_mismatch), FortranSyntaxError otherwise; never noMatch/goesOn")
add("do_label_rule", "do_label_rule", ["C08"], "full", "labelled DO: a closing statement with another label never closes the loop (END DO: the block fails; CONTINUE: body content)")
add("do_continue_closes", "do_continue_closes", ["C08"], "full", "labelled DO: CONTINUE with the DO label closes it, no name test")
add("mid_name_discipline", "mid_name_discipline", ["C08"], "full", "ELSE / ELSEWHERE / TYPE IS ... with a construct name: no name is fine, a name must equal the construct name up to case")
add("mid_not_tested", "mid_not_tested", ["C08"], "full", "statements outside match_name_classes are not tested")
add("kinds_requiring_end_name", "kinds_requiring_end_name", ["C08"], "full", "by evaluation of the flag table: the constructs (incl. labelled DO closed by END DO) REQUIRE the END name when the opener is named")
add("kinds_exiting_on_mismatch", "kinds_exiting_on_mismatch", ["C06"], "full", "module, submodule, subroutine, function (also as interface bodies), block data: mismatch = SystemExit")
add("kinds_not_comparing", "kinds_not_comparing", ["C08"], "full", "interface blocks and enum definitions: END names are never compared")
add("interface_names_never_compared", "interface_names_never_compared", ["C08"], "witness", "DEFECT: `interface a` ... `end interface b` is accepted (Interface_Stmt has no get_name; Interface_Block passes no match_names)")
for w_, n_ in [("witness_interface_mismatch_accepted", "`interface a / end interface b` accepted"),
               ("witness_module_mismatch_exits", "`module m / end module q` -> SystemExit (F-C06-1)"),
               ("witness_program_mismatch_syntax", "`program p / end program q` -> FortranSyntaxError"),
               ("witness_blockdata_unnamed_named_end", "`block data / end block data q` -> FortranSyntaxError"),
               ("witness_construct_requires_name", "`nam: if (a) then / end if` -> FortranSyntaxError"),
               ("witness_unit_does_not_require_name", "`subroutine s / end subroutine` accepted"),
               ("witness_derived_type", "`type :: t` closed by `end type`, `end type T` (accepted), `end type u` (FortranSyntaxError)"),
               ("witness_case_insensitive", "`nam: do / end do NaM` accepted"),
               ("witness_label_do", "labelled DO: label rule and strict names"),
               ("forall_without_match_names_accepts_mismatch", "sensitivity: with match_names cleared for FORALL a differing END name would be accepted")]:
    add(w_, w_, ["C08"], "witness", n_ + " (replayed on the real parser by fv/cosim_header.py part ii)")
add("label_name_printed", "label_name_printed", ["C01", "C02"], "full",
    "StmtBase.tofortran (free form) prints exactly [label][blanks][name:]text for all four combinations of label / construct name present / absent, "
    "and extract_label + extract_construct_name of the reader model read the same label, name and text back; hypotheses: label >= 1, the name is a word "
    "not starting with a digit, the text starts with a word character and is not itself `word :` (TextOK, decidable), the tab consists of blanks")
add("label_zero_dropped", "label_zero_dropped", ["C02"], "witness", "DEFECT: `if label:` - a statement labelled 0 is printed WITHOUT its label (`0 continue` -> `CONTINUE`)")
add("tofortran_fixed_label", "tofortran_fixed_label", ["C02"], "full", "fixed form: label field padded to six columns")

# ---- the parts delivered by the proof agents
PARTS = os.path.join(ROOT, "DELIVER_PARTS")
if not os.path.isdir(PARTS):
    PARTS = os.path.join(TOOLS, "parts")
seen = set(p[1] for p in T)
for fn in sorted(os.listdir(PARTS)) if os.path.isdir(PARTS) else []:
    if not fn.endswith(".json"):
        continue
    for e in json.load(open(os.path.join(PARTS, fn), encoding="utf-8")):
        proof = e["proof"].split(".")[-1]
        name = e["name"]
        if name in seen:
            name = name + "_" + fn[:-5]
        seen.add(name)
        add(proof, name, e.get("serves", []), e.get("strength", "full"), e.get("note", ""))

imports = "".join("import FparserModel.Proofs.%s\n" % f for f in FILES)
out = [imports]
out.append(open(os.path.join(TOOLS, "props_header_header.txt"), encoding="utf-8").read())
entries = []
axioms = []
skipped = []
for proof, props, serves, strength, note in T:
    try:
        f, binders, concl = find_stmt(proof)
    except KeyError:
        skipped.append(proof)
        continue
    names = binder_names(binders)
    out.append("theorem %s %s :\n    %s :=\n  _root_.Fp.Header.%s %s\n" % (props, binders, concl, proof, " ".join(names)))
    stmt = re.sub(r"\s+", " ", (binders + " : " + concl)).strip()
    entries.append({"name": "Fp.Header.Props." + props, "file": "FparserModel/Props/Header.lean", "statement": stmt,
                    "serves": serves, "strength": strength, "note": note})
    axioms.append(props)
out.append(open(os.path.join(TOOLS, "props_footer_header.txt"), encoding="utf-8").read())
out.append("end Fp.Header.Props\n")
for n_ in axioms:
    out.append("#print axioms Fp.Header.Props.%s" % n_)
os.makedirs(os.path.join(ROOT, "FparserModel", "Props"), exist_ok=True)
open(os.path.join(ROOT, "FparserModel", "Props", "Header.lean"), "w", encoding="utf-8").write("\n".join(out) + "\n")
json.dump(entries, open(os.path.join(ROOT, "theorems", "Header.json"), "w", encoding="utf-8"), indent=1, ensure_ascii=False)
print(len(entries), "theorems; skipped (statement not found):", skipped)
