import FparserModel.Proofs.Reader4Step

/-!
# Reader4Loop — the free-form continuation loop over lines WITH character literals (C04, C05)

Generalises `ReaderJoin.lean` (`freeLoop_join`, `getSourceItem_join`): the pieces may contain
quotes, `!` and `&`; the statement may be cut inside a character literal; continuation lines may
carry trailing comments. The quote character threaded through `handle_inline_comment` is, at
every line, `quoteStateAfter` of the statement text read so far.
-/
namespace Fp.Reader
open Fp
open Fp.Splitline (QState qstep qrun qinit qfinal quoteStateAfter)

instance (s : Str) : Decidable (AllSpace s) := by unfold AllSpace; infer_instance

/-- a cooked physical line of a continued statement -/
inductive QLine where
  /-- `[pre &] body [& post] [! cmt]` (`lead = some pre`: leading `&` after the blanks `pre`;
      `more`: trailing `&` followed by the blanks `post`) -/
  | cont (lead : Option Str) (body post : Str) (cmt : Option Str) (more : Bool)
  | comment (t : Str)
  | blank
deriving DecidableEq, Repr

def leadTxt : Option Str → Str
  | some pre => pre ++ ['&']
  | none => []
def cmtTxt : Option Str → Str
  | some c => '!' :: c
  | none => []
def tailTxt (more : Bool) (post : Str) : Str := if more then '&' :: post else []

/-- the line without its trailing comment -/
def qcode (lead : Option Str) (body post : Str) (more : Bool) : Str :=
  leadTxt lead ++ body ++ tailTxt more post

def QLine.text : QLine → Str
  | .cont lead body post cmt more => qcode lead body post more ++ cmtTxt cmt
  | .comment t => t
  | .blank => []

/-- **the exact conditions** under which a continuation line read in quote state `q`
    contributes exactly `body`:
    1. the text before a leading `&` is blank;
    2. WITHOUT a leading `&` the first non-blank character of `body` is neither `&` (it would be
       taken for a leading `&` and dropped together with the blanks before it) nor `!` (the
       line would be taken for a comment line — also inside a character literal); a blank
       `body` is only possible on a `&`-terminated line (else the line is a blank line);
    3. after the trailing `&` only blanks (and the comment) follow;
    4. on the last line the last `&` (e.g. inside a literal, or the leading one) is followed by
       a non-blank character — otherwise it is a continuation mark;
    5. `!` occurs in `body` only inside character literals;
    6. a trailing comment is only possible when `body` ends outside a literal (inside, `!` is
       text and the `&` before it no continuation mark). -/
def QLine.ok (q : Option Char) : QLine → Prop
  | .cont lead body post cmt more =>
      AllSpace (lead.getD []) ∧
      (lead = none → (lstrip body).head? ≠ some '&' ∧ (lstrip body).head? ≠ some '!' ∧
        (lstrip body = [] → more = true)) ∧
      (more = true → AllSpace post) ∧
      (more = false → lastAmpOk (leadTxt lead ++ body)) ∧
      bangFree (qinit q) body = true ∧
      (cmt.isSome = true → quoteStateAfter q body = none)
  | .comment t => startsWith (lstrip t) ['!'] = true
  | .blank => True

def QLine.isLast : QLine → Bool
  | .cont _ _ _ _ false => true
  | _ => false

/-- the quote state after the line -/
def QLine.next (q : Option Char) : QLine → Option Char
  | .cont _ body _ _ _ => quoteStateAfter q body
  | _ => q

/-- the Comment item queued for the trailing comment of a line at physical line `n` -/
def qcmtItems (n : Nat) (q : Option Char) : QLine → List Item
  | .cont lead body post (some c) more =>
      [.comment ('!' :: c) n n (hicInline q (qcode lead body post more) c)]
  | _ => []

/-- comment / blank / `&`-terminated lines closed by one line without trailing `&`; the quote
    state is threaded -/
def WFq : Option Char → List QLine → Prop
  | _, [] => False
  | q, [c] => c.ok q ∧ c.isLast = true
  | q, c :: c' :: cs => c.ok q ∧ c.isLast = false ∧ WFq (c.next q) (c' :: cs)

def joinBodies : List QLine → Str
  | [] => []
  | .cont _ body _ _ _ :: cs => body ++ joinBodies cs
  | _ :: cs => joinBodies cs

/-- trailing comments and comment lines, in order, numbered from physical line `n` -/
def joinCommentsQ (n : Nat) (q : Option Char) : List QLine → List Item
  | [] => []
  | .comment t :: cs => .comment (lstrip t) n n false :: joinCommentsQ (n + 1) q cs
  | .blank :: cs => joinCommentsQ (n + 1) q cs
  | c :: cs => qcmtItems n q c ++ joinCommentsQ (n + 1) (c.next q) cs

inductive CookedQ : List Str → List QLine → Prop where
  | nil : CookedQ [] []
  | cons {l : Str} {c : QLine} {ls : List Str} {cs : List QLine} :
      cook l = c.text → CookedQ ls cs → CookedQ (l :: ls) (c :: cs)

theorem CookedQ.length {ls : List Str} {cs : List QLine} (h : CookedQ ls cs) :
    ls.length = cs.length := by
  induction h with
  | nil => rfl
  | cons _ _ ih => simp [ih]

theorem leadTxt_inert (lead : Option Str) (h : AllSpace (lead.getD [])) :
    Inert (leadTxt lead) := by
  cases lead with
  | none => intro x hx; cases hx
  | some pre => exact (AllSpace.inert (w := pre) h).append inert_amp

theorem tailTxt_inert (more : Bool) (post : Str) (h : more = true → AllSpace post) :
    Inert (tailTxt more post) := by
  cases more with
  | false => intro x hx; cases hx
  | true => exact (h rfl).inert.cons_amp

/-- `handle_inline_comment` on a line `[pre &] body [& post] [! cmt]` -/
theorem hic_qcont' (lead : Option Str) (body post : Str) (cmt : Option Str) (more : Bool) (n : Nat)
    (q : Option Char) (hq : ∀ c, q = some c → isQuote c = true)
    (h1 : AllSpace (lead.getD [])) (h3 : more = true → AllSpace post)
    (h5 : bangFree (qinit q) body = true) (h6 : cmt.isSome = true → quoteStateAfter q body = none) :
    handleInlineComment (QLine.cont lead body post cmt more).text n q =
      ⟨qcode lead body post more, quoteStateAfter q body, cmt.isSome,
       qcmtItems n q (.cont lead body post cmt more)⟩ := by
  have hw := inert_wrap q hq (leadTxt lead) body (tailTxt more post) (leadTxt_inert lead h1)
    (tailTxt_inert more post h3)
  have hb : bangFree (qinit q) (qcode lead body post more) = true := by
    unfold qcode; rw [hw.2]; exact h5
  have hs : quoteStateAfter q (qcode lead body post more) = quoteStateAfter q body := hw.1
  cases cmt with
  | none =>
    simp only [QLine.text, cmtTxt, List.append_nil, hic_code _ n q hq hb, hs, qcmtItems,
      Option.isSome_none]
  | some c =>
    have h6' := h6 rfl
    simp only [QLine.text, cmtTxt, hic_comment _ c n q hq hb (hs.trans h6'), qcmtItems,
      Option.isSome_some, h6']

theorem hic_qcont (lead : Option Str) (body post : Str) (cmt : Option Str) (more : Bool) (n : Nat)
    (q : Option Char) (hq : ∀ c, q = some c → isQuote c = true)
    (hok : (QLine.cont lead body post cmt more).ok q) :
    handleInlineComment (QLine.cont lead body post cmt more).text n q =
      ⟨qcode lead body post more, quoteStateAfter q body, cmt.isSome,
       qcmtItems n q (.cont lead body post cmt more)⟩ :=
  hic_qcont' lead body post cmt more n q hq hok.1 hok.2.2.1 hok.2.2.2.2.1 hok.2.2.2.2.2

/-- what `freeStep` does on a continuation line with character literals -/
theorem freeStep_qcont (lead : Option Str) (body post : Str) (cmt : Option Str) (more : Bool)
    (n : Nat) (q : Option Char) (label : Option Nat) (name : Option Str)
    (hq : ∀ c, q = some c → isQuote c = true) (hok : (QLine.cont lead body post cmt more).ok q) :
    freeStep true (QLine.cont lead body post cmt more).text n q label name =
      ⟨label, name, ⟨qcode lead body post more, quoteStateAfter q body, cmt.isSome,
         qcmtItems n q (.cont lead body post cmt more)⟩, body, more⟩ := by
  rw [freeStep_started, hic_qcont lead body post cmt more n q hq hok]
  obtain ⟨h1, h2, h3, h4, _, _⟩ := hok
  have hE : ampEnd (qcode lead body post more) = (leadTxt lead ++ body, more) := by
    cases more with
    | true =>
      simp only [qcode, tailTxt, if_true]
      exact ampEnd_more _ _ (h3 rfl)
    | false =>
      simp only [qcode, tailTxt, Bool.false_eq_true, if_false, List.append_nil]
      exact ampEnd_last _ (h4 rfl)
  simp only [hE]
  cases lead with
  | some pre =>
    have := startIdx_lead pre body h1
    simp only [leadTxt, List.append_assoc, List.singleton_append, this]
  | none =>
    simp only [leadTxt, List.nil_append, startIdx_nolead body (h2 rfl).1, List.drop_zero]

/-- a continuation line is neither skipped as a comment line nor as a blank line -/
theorem qcont_conds (lead : Option Str) (body post : Str) (cmt : Option Str) (more : Bool)
    (q : Option Char) (hok : (QLine.cont lead body post cmt more).ok q) :
    (true && startsWith (lstrip (QLine.cont lead body post cmt more).text) ['!']) = false ∧
    (true && (lstrip (QLine.cont lead body post cmt more).text == [])) = false := by
  obtain ⟨h1, h2, _, _, _, _⟩ := hok
  have key : ∃ c rest, lstrip (QLine.cont lead body post cmt more).text = c :: rest ∧ c ≠ '!' := by
    cases lead with
    | some pre =>
      refine ⟨'&', body ++ tailTxt more post ++ cmtTxt cmt, ?_, by decide⟩
      have := lstrip_ws_cons pre (body ++ tailTxt more post ++ cmtTxt cmt) '&' h1 (by decide)
      simpa [QLine.text, qcode, leadTxt, List.append_assoc] using this
    | none =>
      obtain ⟨ha, hb, hc⟩ := h2 rfl
      cases hl : lstrip body with
      | cons c rest =>
        refine ⟨c, rest ++ (tailTxt more post ++ cmtTxt cmt), ?_, ?_⟩
        · have hne : lstrip body ≠ [] := by rw [hl]; exact List.cons_ne_nil _ _
          have := lstrip_append_of_ne (b := tailTxt more post ++ cmtTxt cmt) hne
          simpa [QLine.text, qcode, leadTxt, List.append_assoc, hl] using this
        · intro e; subst e; rw [hl] at hb; exact hb rfl
      | nil =>
        have hm := hc hl
        subst hm
        refine ⟨'&', post ++ cmtTxt cmt, ?_, by decide⟩
        have := lstrip_ws_cons body (post ++ cmtTxt cmt) '&' (allSpace_of_lstrip_nil body hl) (by decide)
        simpa [QLine.text, qcode, leadTxt, tailTxt, List.append_assoc] using this
  obtain ⟨c, rest, he, hc⟩ := key
  rw [he]
  simp [startsWith, hc]

/-- the free-form loop on a continued statement with character literals and trailing comments:
    bodies are concatenated; trailing comments and comment lines go to the FIFO in order with
    their own line numbers; blank lines vanish; the quote state is threaded; exactly the lines
    of the statement are consumed. -/
theorem freeLoopQ_join : ∀ (cs : List QLine) (c : QLine) (ls rest : List Str) (r : Rd) (acc : Str)
    (q : Option Char) (label : Option Nat) (name : Option Str) (endl fuel : Nat),
    (∀ x, q = some x → isQuote x = true) →
    WFq q (c :: cs) → CookedQ ls cs →
    r.src = ls ++ rest → r.filo = [] → r.closed = false → r.isFree = true → cs.length + 1 ≤ fuel →
    freeLoop false fuel (some c.text) true acc q label name endl r =
      ⟨acc ++ joinBodies (c :: cs), label, name, r.linecount + cs.length,
       { r with src := rest, linecount := r.linecount + cs.length,
                linesRev := (ls.map cook).reverse ++ r.linesRev,
                fifo := r.fifo ++ joinCommentsQ r.linecount q (c :: cs) }⟩
  | [], c, ls, rest, r, acc, q, label, name, endl, fuel, hq, hw, hl, hs, h1, h2, h3, hf => by
    cases hl
    obtain ⟨hok, hlast⟩ := hw
    cases c with
    | comment t => cases hlast
    | blank => cases hlast
    | cont lead body post cmt more =>
      cases more with
      | true => cases hlast
      | false =>
        obtain ⟨k1, k2⟩ := qcont_conds lead body post cmt false q hok
        cases fuel with
        | zero => omega
        | succ fuel =>
          unfold freeLoop
          simp only [Bool.false_eq_true, if_false, k1, k2,
            freeStep_qcont lead body post cmt false r.linecount q label name hq hok]
          obtain ⟨src, closed, filo, fifo, lc, linesRev, isFree, ic, omp, dirs⟩ := r
          simp only [List.nil_append] at hs
          subst hs
          simp [joinBodies, joinCommentsQ]
  | c' :: cs, c, ls, rest, r, acc, q, label, name, endl, fuel, hq, hw, hl, hs, h1, h2, h3, hf => by
    cases hl with
    | cons hcook hl' =>
      rename_i l ls'
      obtain ⟨hok, hlast, hw'⟩ := hw
      cases fuel with
      | zero => omega
      | succ fuel =>
        have hfuel : cs.length + 1 ≤ fuel := by simp only [List.length_cons] at hf; omega
        cases c with
        | comment t =>
          have hst : (true && startsWith (lstrip t) ['!']) = true := by
            simp only [Bool.true_and]; exact hok
          unfold freeLoop
          simp only [QLine.text, Bool.false_eq_true, if_false, hst, if_true]
          rw [getSingleLine_free { r with fifo := r.fifo ++ [Item.comment (lstrip t) r.linecount r.linecount false] }
            l (ls' ++ rest) h1 h2 h3 (by simpa using hs)]
          simp only []
          rw [hcook]
          refine (freeLoopQ_join cs c' ls' rest _ acc q label name endl fuel hq hw' hl' ?_ ?_ ?_ ?_ hfuel).trans ?_
          · rfl
          · exact h1
          · exact h2
          · exact h3
          obtain ⟨src, closed, filo, fifo, lc, linesRev, isFree, ic, omp, dirs⟩ := r
          simp only [] at hs
          subst hs
          simp [joinBodies, joinCommentsQ, hcook]
          omega
        | blank =>
          unfold freeLoop
          have hb1 : (true && startsWith (lstrip ([] : Str)) ['!']) = false := by decide
          have hb2 : (true && (lstrip ([] : Str) == [])) = true := by decide
          simp only [QLine.text, Bool.false_eq_true, if_false, hb1, hb2, if_true]
          rw [getSingleLine_free r l (ls' ++ rest) h1 h2 h3 (by simpa using hs)]
          simp only []
          rw [hcook]
          refine (freeLoopQ_join cs c' ls' rest _ acc q label name endl fuel hq hw' hl' ?_ ?_ ?_ ?_ hfuel).trans ?_
          · rfl
          · exact h1
          · exact h2
          · exact h3
          obtain ⟨src, closed, filo, fifo, lc, linesRev, isFree, ic, omp, dirs⟩ := r
          simp only [] at hs
          subst hs
          simp [joinBodies, joinCommentsQ, hcook]
          omega
        | cont lead body post cmt more =>
          cases more with
          | false => cases hlast
          | true =>
            obtain ⟨k1, k2⟩ := qcont_conds lead body post cmt true q hok
            unfold freeLoop
            simp only [Bool.false_eq_true, if_false, k1, k2,
              freeStep_qcont lead body post cmt true r.linecount q label name hq hok, if_true]
            rw [getSingleLine_free
              { r with fifo := r.fifo ++ qcmtItems r.linecount q (.cont lead body post cmt true) }
              l (ls' ++ rest) h1 h2 h3 (by simpa using hs)]
            simp only []
            rw [hcook]
            refine (freeLoopQ_join cs c' ls' rest _ _ _ label name _ fuel
              (quoteStateAfter_isQuote q hq body) hw' hl' ?_ ?_ ?_ ?_ hfuel).trans ?_
            · rfl
            · exact h1
            · exact h2
            · exact h3
            obtain ⟨src, closed, filo, fifo, lc, linesRev, isFree, ic, omp, dirs⟩ := r
            simp only [] at hs
            subst hs
            simp [joinBodies, joinCommentsQ, hcook, QLine.next]
            omega

/-! ### the whole statement -/

/-- the conditions on the first line `[label] [name:] b1 & post [! cmt]` -/
def FirstOk (b1 post : Str) (cmt : Option Str) : Prop :=
  AllSpace post ∧ bangFree .outside b1 = true ∧ (cmt.isSome = true → quoteStateAfter none b1 = none)

/-- the first line seen as a `QLine` (for its text and its trailing comment) -/
def firstLine (b1 post : Str) (cmt : Option Str) : QLine := .cont none b1 post cmt true

theorem freeStep_firstQ (line t1 b1 post : Str) (cmt : Option Str) (lab : Option Nat)
    (nam : Option Str) (n : Nat)
    (hlab : extractLabel line = (lab, t1)) (hnam : extractName t1 = (nam, (firstLine b1 post cmt).text))
    (hf : FirstOk b1 post cmt) :
    freeStep false line n none none none =
      ⟨lab, nam, ⟨qcode none b1 post true, quoteStateAfter none b1, cmt.isSome,
         qcmtItems n none (firstLine b1 post cmt)⟩, b1, true⟩ := by
  obtain ⟨f1, f2, f3⟩ := hf
  rw [freeStep_first', hlab]
  simp only [hnam]
  unfold firstLine
  rw [hic_qcont' none b1 post cmt true n none (fun _ h => by cases h) (fun _ h => by cases h)
    (fun _ => f1) f2 f3]
  have hE : ampEnd (qcode none b1 post true) = (b1, true) := by
    simp only [qcode, leadTxt, List.nil_append, tailTxt, if_true]
    exact ampEnd_more _ _ f1
  simp only [hE]

/-- C04/C05 `join_continuation` with character literals, at `get_source_item` level -/
theorem getSourceItem_joinQ (r0 : Rd) (l1 l2 : Str) (ls rest : List Str) (t1 b1 post1 : Str)
    (cmt1 : Option Str) (lab : Option Nat) (nam : Option Str) (c : QLine) (cs : List QLine)
    (hfifo : r0.fifo = []) (h1 : r0.filo = []) (h2 : r0.closed = false) (h3 : r0.isFree = true)
    (h4 : r0.omp = false) (hsrc : r0.src = l1 :: l2 :: (ls ++ rest))
    (hcpp : startsWith (lstrip (cook l1)) ['#'] = false)
    (hlab : extractLabel (cook l1) = (lab, t1))
    (hnam : extractName t1 = (nam, (firstLine b1 post1 cmt1).text))
    (hb1 : FirstOk b1 post1 cmt1) (hc2 : cook l2 = c.text) (hck : CookedQ ls cs)
    (hw : WFq (quoteStateAfter none b1) (c :: cs))
    (hne : strip (b1 ++ joinBodies (c :: cs)) ≠ []) :
    getSourceItem r0 =
      (.ok (.line (strip (b1 ++ joinBodies (c :: cs))) lab nam (r0.linecount + 1)
              (r0.linecount + 2 + cs.length)),
       { r0 with src := rest, linecount := r0.linecount + 2 + cs.length,
                 linesRev := ((l1 :: l2 :: ls).map cook).reverse ++ r0.linesRev,
                 fifo := qcmtItems (r0.linecount + 1) none (firstLine b1 post1 cmt1) ++
                         joinCommentsQ (r0.linecount + 2) (quoteStateAfter none b1) (c :: cs) }) := by
  obtain ⟨src, closed, filo, fifo, lc, linesRev, isFree, ic, omp, dirs⟩ := r0
  simp only [] at hfifo h1 h2 h3 h4 hsrc
  subst hfifo h1 h2 h3 h4 hsrc
  unfold getSourceItem
  rw [getSingleLine_free _ l1 (l2 :: (ls ++ rest)) rfl rfl rfl rfl]
  simp only [hcpp, Bool.and_false, Bool.false_eq_true, if_false, Bool.not_true]
  unfold freeItem
  simp only [List.length_cons, List.length_append, List.length_nil]
  have hfu : ls.length + rest.length + 1 + 0 + 2 = (ls.length + rest.length + 2) + 1 := by omega
  rw [hfu]
  unfold freeLoop
  simp only [Bool.false_eq_true, if_false, Bool.false_and,
    freeStep_firstQ (cook l1) t1 b1 post1 cmt1 lab nam (lc + 1) hlab hnam hb1, if_true]
  rw [getSingleLine_free _ l2 (ls ++ rest) rfl rfl rfl rfl]
  simp only [hc2, List.nil_append]
  rw [freeLoopQ_join cs c ls rest _ b1 _ lab nam (lc + 1) (ls.length + rest.length + 2)
    (quoteStateAfter_isQuote none (fun _ h => by cases h) b1) hw hck rfl rfl rfl rfl
    (by rw [← hck.length]; omega)]
  simp only [hne, bne_iff_ne, ne_eq, not_false_eq_true, if_true]
  simp [hc2]

end Fp.Reader
