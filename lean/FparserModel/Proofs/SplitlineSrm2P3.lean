import FparserModel.Proofs.SplitlineSrm2Split
import FparserModel.Proofs.SplitlineSrm2Sq
import FparserModel.Proofs.SplitlineSrm2Paren
/-!
Phase 3 of `string_replace_map` (top-level groups → `F2PY_EXPR_TUPLE_n`) on a token text.
-/
namespace Fp.Splitline
open Fp

/-- `opener … its own closer` (default pairs) -/
def Shape (s : Str) : Prop :=
  ∃ o mid cl, s = o :: (mid ++ [cl]) ∧ closerOf defaultPairs o = some cl

theorem parensOK_shape : ∀ (items : List PItem) (s : Scan), parensOK defaultPairs s items →
    ∀ t, PItem.paren t ∈ items → Shape t
  | [], _, _, t, h => by simp at h
  | it :: items, s, hok, t, h => by
    rcases List.mem_cons.mp h with h | h
    · subst h
      obtain ⟨o, mid, cl, h1, h2, _⟩ := parenOK_run defaultPairs s t hok.1
      exact ⟨o, mid, cl, h1, h2⟩
    · exact parensOK_shape items _ hok.2 t h

theorem splitparen_shape (t s : Str) (h : PItem.paren s ∈ splitparen t) : Shape s :=
  parensOK_shape _ _ (splitparen_parensOK t) s h

theorem closerOf_default {o cl : Char} (h : closerOf defaultPairs o = some cl) :
    (o = '(' ∧ cl = ')') ∨ (o = '[' ∧ cl = ']') := by
  simp only [closerOf, defaultPairs] at h
  split at h
  · left; rename_i h1; simp at h1; exact ⟨h1, (Option.some.inj h).symm⟩
  · split at h
    · right; rename_i h1; simp at h1; exact ⟨h1, (Option.some.inj h).symm⟩
    · cases h

theorem shape_chars {o cl : Char} (h : closerOf defaultPairs o = some cl) :
    isOpenerC o = true ∧ isCloserC cl = true ∧ isWord o = false ∧ isWord cl = false := by
  rcases closerOf_default h with ⟨rfl, rfl⟩ | ⟨rfl, rfl⟩ <;> decide

theorem space_not_word (c : Char) (h : isSpace c = true) : isWord c = false := by
  cases hw : isWord c with
  | false => rfl
  | true => have := (word_inert c hw).2.2.2.2.2.2; rw [h] at this; cases this

theorem nonword_ne_F (c : Char) (h : isWord c = false) : c ≠ 'F' := by
  intro e; subst e; revert h; decide

theorem nonword_not_digit (c : Char) (h : isWord c = false) : isDigit c = false := by
  cases hd : isDigit c with
  | false => rfl
  | true => have := (isDigit_props c hd).2.2.1; rw [h] at this; cases this

/-- a token text without word characters has no keys -/
theorem nonword_ne (c x : Char) (h : isWord c = false) (hx : isWord x = true) : c ≠ x := by
  intro e; subst e; rw [h] at hx; cases hx

theorem valJoin_nonword {m : Map} : ∀ ts, WFk m ts → (∀ c ∈ rawJoin ts, isWord c = false) →
    valJoin ts = rawJoin ts
  | [], _, _ => rfl
  | .chunk s :: ts, hw, h => by
    have := valJoin_nonword ts hw (fun c hc => h c (by simp [hc]))
    simp [Tok.raw, Tok.val, this]
  | .key k v :: ts, hw, h => by
    exfalso
    rcases IsKey_head k hw.1.isKey with ⟨t, rfl⟩ | ⟨t, rfl⟩
    · have := h 'F' (by simp [Tok.raw]); revert this; decide
    · have := h '_' (by simp [Tok.raw]); revert this; decide

theorem closed_ne_expr {k : Str} (h : ClosedKey k) (j : Nat) : k ≠ exprKey j := by
  rcases h with ⟨i, rfl⟩ | ⟨i, rfl⟩
  · intro e
    have := congrArg List.head? e
    rw [strKey_head, exprKey_head] at this; cases this
  · intro e
    simp [realKey, exprKey, realPrefix, exprPrefix] at e

/-- a map value that is itself a well-formed token text over the phase-2 map -/
def HasToks (m2 : Map) (v : Str) : Prop := ∃ ts, rawJoin ts = v ∧ WF m2 ts ∧ Closed ts

structure P3Inv (m2 : Map) (st : SrmState) : Prop where
  base : MapExt m2 st.map
  entries : ∀ k v, st.map.get? k = some v →
    m2.get? k = some v ∨ (∃ j, j ≤ st.parensIdx ∧ k = exprKey j ∧ HasToks m2 v)
  revP : ∀ t k, st.revParen.get? t = some k → st.map.get? k = some t ∧ ∃ j, k = exprKey j
  listed : ∀ j v, st.map.get? (exprKey j) = some v → exprKey j ∈ st.exprKeys
  inMap : ∀ k ∈ st.exprKeys, ∃ v, st.map.get? k = some v

theorem phase3Step_replaced (d : Discipline) (hd : d.lookupTrimmed = true)
    (hs : d.separateParenMap = true) (m2 : Map) (hm2 : ∀ k v, m2.get? k = some v → ClosedKey k)
    (st : SrmState) (s : Str) (inv : P3Inv m2 st)
    (hns : isSimple (strip (interior s)) = false) (ht : HasToks m2 (strip (interior s))) :
    ∃ j, (phase3Step d st (.paren s)).2 = rewrap s (exprKey j) ∧
      (phase3Step d st (.paren s)).1.map.get? (exprKey j) = some (strip (interior s)) ∧
      P3Inv m2 (phase3Step d st (.paren s)).1 ∧
      MapExt st.map (phase3Step d st (.paren s)).1.map ∧
      (phase3Step d st (.paren s)).1.constKeys = st.constKeys := by
  unfold phase3Step
  simp only [hns, Bool.not_false, if_true, hs, hd]
  cases hrev : st.revParen.get? (strip (interior s)) with
  | some key =>
    simp only
    obtain ⟨h1, j, rfl⟩ := inv.revP _ _ hrev
    exact ⟨j, rfl, h1, inv, MapExt.refl _, trivial⟩
  | none =>
    simp only
    have hfresh : ∀ k v, st.map.get? k = some v → exprKey (st.parensIdx + 1) ≠ k := by
      intro k v h e
      rcases inv.entries k v h with h2 | ⟨j, hj, hk, _⟩
      · exact closed_ne_expr (hm2 k v h2) _ e.symm
      · rw [hk] at e; have := exprKey_inj e; omega
    refine ⟨st.parensIdx + 1, rfl, Map.get?_set_self _ _ _, ⟨?_, ?_, ?_, ?_, ?_⟩, ?_, trivial⟩
    · intro k v h
      show Map.get? (Map.set st.map _ _) k = some v
      rw [Map.get?_set_ne _ _ _ _ (hfresh k v (inv.base k v h))]
      exact inv.base k v h
    · intro k v h
      simp only at h ⊢
      by_cases hk : exprKey (st.parensIdx + 1) = k
      · subst hk
        rw [Map.get?_set_self] at h; cases h
        exact .inr ⟨st.parensIdx + 1, Nat.le_refl _, rfl, ht⟩
      · rw [Map.get?_set_ne _ _ _ _ hk] at h
        rcases inv.entries k v h with h2 | ⟨j, hj, hk', ht'⟩
        · exact .inl h2
        · exact .inr ⟨j, by omega, hk', ht'⟩
    · intro t k h
      simp only at h ⊢
      by_cases htt : strip (interior s) = t
      · subst htt
        rw [Map.get?_set_self] at h; cases h
        exact ⟨Map.get?_set_self _ _ _, _, rfl⟩
      · rw [Map.get?_set_ne _ _ _ _ htt] at h
        obtain ⟨h1, h2⟩ := inv.revP t k h
        exact ⟨by rw [Map.get?_set_ne _ _ _ _ (hfresh k t h1)]; exact h1, h2⟩
    · intro j v h
      simp only at h ⊢
      by_cases hk : exprKey (st.parensIdx + 1) = exprKey j
      · rw [← hk]; simp
      · rw [Map.get?_set_ne _ _ _ _ hk] at h
        exact List.mem_append_left _ (inv.listed j v h)
    · intro k hk
      simp only at hk ⊢
      rcases List.mem_append.mp hk with hk | hk
      · obtain ⟨v, hv⟩ := inv.inMap k hk
        exact ⟨v, by rw [Map.get?_set_ne _ _ _ _ (hfresh k v hv)]; exact hv⟩
      · simp at hk; subst hk
        exact ⟨_, Map.get?_set_self _ _ _⟩
    · intro k v h
      show Map.get? (Map.set st.map _ _) k = some v
      rw [Map.get?_set_ne _ _ _ _ (hfresh k v h)]
      exact h

/-- what a final map must satisfy for the phase-3 tokens to be well-formed -/
def GoodFinal (m2 m3 m' : Map) : Prop :=
  MapExt m2 m' ∧ ∀ j raw, m3.get? (exprKey j) = some raw → m'.get? (exprKey j) = some (applyMap m2 raw)

theorem phase3_keep (d : Discipline) (st : SrmState) (it : PItem)
    (h : ∀ s, it = .paren s → isSimple (strip (interior s)) = true) :
    phase3Step d st it = (st, it.str) := by
  cases it with
  | plain s => rfl
  | paren s => simp [phase3Step, h s rfl, PItem.str]

theorem phase3_toks (d : Discipline) (hd : d.lookupTrimmed = true) (hs : d.separateParenMap = true)
    (m2 : Map) (hm2 : ∀ k v, m2.get? k = some v → ClosedKey k) :
    ∀ (items : List PItem) (st : SrmState) (P : Str) (ts : List Tok),
      P3Inv m2 st → rawJoin ts = P ++ pjoin items → WF m2 ts → Closed ts →
      (∀ s, PItem.paren s ∈ items → Shape s) →
      ∃ (tsOut : List Tok) (ps : List (Str × Str)),
        P ++ (phase3 d st items).2 = rawJoin tsOut ∧
        (ps.map (·.1)).flatten = valJoin ts ∧ (ps.map (·.2)).flatten = valJoin tsOut ∧
        (∀ p ∈ ps, SqPiece p.1 p.2) ∧
        P3Inv m2 (phase3 d st items).1 ∧ MapExt st.map (phase3 d st items).1.map ∧
        (phase3 d st items).1.constKeys = st.constKeys ∧
        (∀ m', GoodFinal m2 (phase3 d st items).1.map m' → WFk m' tsOut) ∧
        Free (valJoin tsOut)
  | [], st, P, ts, inv, hraw, hw, hc, _ => by
    refine ⟨ts, [(valJoin ts, valJoin ts)], ?_, by simp, by simp, ?_, inv, MapExt.refl _, rfl, ?_, hw.2⟩
    · simpa [phase3] using hraw.symm
    · intro p hp; simp at hp; subst hp; exact .same _
    · intro m' hg; exact WFk_mono hg.1 ts hw.1
  | it :: items, st, P, ts, inv, hraw, hw, hc, hshape => by
    by_cases hkeep : ∀ s, it = .paren s → isSimple (strip (interior s)) = true
    · -- plain item, or a group `(\w*)`: copied verbatim
      have hstep := phase3_keep d st it hkeep
      rw [phase3_cons, hstep]
      simp only
      have hraw' : rawJoin ts = (P ++ it.str) ++ pjoin items := by rw [hraw]; simp
      obtain ⟨tsOut, ps, h1, h2, h3, h4, h5, h6, h7, h8, h9⟩ :=
        phase3_toks d hd hs m2 hm2 items st (P ++ it.str) ts inv hraw' hw hc
          (fun s hs' => hshape s (by simp [hs']))
      exact ⟨tsOut, ps, by rw [← h1]; simp, h2, h3, h4, h5, h6, h7, h8, h9⟩
    · -- a replaced group
      have : ∃ s, it = .paren s ∧ isSimple (strip (interior s)) = false := by
        cases it with
        | plain s => exact absurd (fun s' h => by cases h) hkeep
        | paren s =>
          refine ⟨s, rfl, ?_⟩
          cases hh : isSimple (strip (interior s)) with
          | false => rfl
          | true => exact absurd (fun s' h => by cases h; exact hh) hkeep
      obtain ⟨s, rfl, hns⟩ := this
      obtain ⟨o, mid, cl, rfl, hcl⟩ := hshape s (by simp)
      obtain ⟨ho, hclc, hwo, hwcl⟩ := shape_chars hcl
      rw [interior_shape] at hns
      obtain ⟨w1, w2, hmid, hw1, hw2⟩ := strip_decomp mid
      -- cut the tokens:  P | o | w1 | strip mid | w2 | cl | rest
      have hraw1 : rawJoin ts = P ++ (o :: (mid ++ [cl]) ++ pjoin items) := by
        rw [hraw]; simp [PItem.str]
      obtain ⟨tP, tb, e1, e2, e3, wP, wb, cP, cb⟩ := split_toks ts hw hc _ _ hraw1
        (.inr (.inr (.inr ⟨o, by simp, hwo⟩)))
      obtain ⟨tS, tR, f1, f2, f3, wS, wR, cS, cR⟩ := split_toks tb wb cb _ _ e2
        (.inr (.inr (.inl ⟨cl, by rw [← List.cons_append, List.getLast?_concat], hwcl⟩)))
      have hS1 : rawJoin tS = [o] ++ (mid ++ [cl]) := by rw [f1]; rfl
      obtain ⟨tO, tS', g1, g2, g3, wO, wS', cO, cS'⟩ := split_toks tS wS cS _ _ hS1
        (.inr (.inr (.inl ⟨o, by simp, hwo⟩)))
      obtain ⟨tM, tC, k1, k2, k3, wM, wC, cM, cC⟩ := split_toks tS' wS' cS' _ _ g2
        (.inr (.inr (.inr ⟨cl, by simp, hwcl⟩)))
      have hM1 : rawJoin tM = w1 ++ (strip mid ++ w2) := by rw [k1]; exact hmid
      have cut1 : CutOK w1 (strip mid ++ w2) := by
        cases hl : w1.getLast? with
        | none => left; simpa [List.getLast?_eq_none_iff] using hl
        | some c =>
          exact .inr (.inr (.inl ⟨c, hl, space_not_word c (hw1 c (List.mem_of_getLast? hl))⟩))
      obtain ⟨tW1, tX', l1, l2, l3, wW1, wX', cW1, cX'⟩ := split_toks tM wM cM _ _ hM1 cut1
      have cut2 : CutOK (strip mid) w2 := by
        cases w2 with
        | nil => exact .inr (.inl rfl)
        | cons c w2' =>
          exact .inr (.inr (.inr ⟨c, rfl, space_not_word c (hw2 c (by simp))⟩))
      obtain ⟨tX, tW2, n1, n2, n3, wX, wW2, cX, cW2⟩ := split_toks tX' wX' cX' _ _ l2 cut2
      -- the step
      obtain ⟨j, q1, q2, q3, q4, q5⟩ := phase3Step_replaced d hd hs m2 hm2 st (o :: (mid ++ [cl]))
        inv (by rw [interior_shape]; exact hns) (by rw [interior_shape]; exact ⟨tX, n1, wX, cX⟩)
      rw [interior_shape] at q2
      rw [rewrap_shape] at q1
      rw [phase3_cons]
      simp only
      obtain ⟨tsOutR, psR, r1, r2, r3, r4, r5, r6, r7, r8, r9⟩ :=
        phase3_toks d hd hs m2 hm2 items _ [] tR q3 (by simpa using f2) wR cR
          (fun s hs' => hshape s (by simp [hs']))
      -- values of the pure-punctuation / blank pieces
      have vO : valJoin tO = [o] := by
        rw [valJoin_nonword tO wO.1 (by rw [g1]; intro c hc; simp at hc; subst hc; exact hwo), g1]
      have vC : valJoin tC = [cl] := by
        rw [valJoin_nonword tC wC.1 (by rw [k2]; intro c hc; simp at hc; subst hc; exact hwcl), k2]
      have vW1 : valJoin tW1 = w1 := by
        rw [valJoin_nonword tW1 wW1.1 (by rw [l1]; intro c hc; exact space_not_word c (hw1 c hc)), l1]
      have vW2 : valJoin tW2 = w2 := by
        rw [valJoin_nonword tW2 wW2.1 (by rw [n2]; intro c hc; exact space_not_word c (hw2 c hc)), n2]
      have vS : valJoin tS = o :: (w1 ++ valJoin tX ++ w2 ++ [cl]) := by
        rw [g3, k3, l3, n3, vO, vC, vW1, vW2]; simp
      have hV : applyMap m2 (strip mid) = valJoin tX := by
        rw [← n1]; exact applyMap_toks tX wX
      refine ⟨tP ++ (.chunk [o] :: .key (exprKey j) (valJoin tX) :: .chunk [cl] :: tsOutR),
        (valJoin tP, valJoin tP) :: (valJoin tS, o :: (valJoin tX ++ [cl])) :: psR,
        ?_, ?_, ?_, ?_, r5, q4.trans r6, r7.trans q5, ?_, ?_⟩
      · rw [q1]; simp at r1; simp [Tok.raw, e1, ← r1]
      · simp [r2, e3, f3]
      · simp [Tok.val, r3]
      · intro p hp
        rcases List.mem_cons.mp hp with hp | hp
        · subst hp; exact .same _
        · rcases List.mem_cons.mp hp with hp | hp
          · subst hp
            simp only [vS]
            exact .group o cl w1 (valJoin tX) w2 ho hclc hw1 hw2
          · exact r4 p hp
      · intro m' hg
        have hgR := r8 m' hg
        apply WFk_append_closed tP (WFk_mono hg.1 tP wP.1) cP
        refine ⟨?_, ?_, hgR⟩
        · refine .inr (.inr ⟨j, rfl, ?_⟩)
          intro c hc
          simp [Tok.raw] at hc; subst hc
          exact nonword_not_digit _ hwcl
        · rw [← hV]; exact hg.2 j _ (r6 _ _ q2)
      · have hR : Free (cl :: valJoin tsOutR) := Free_cons_of_ne (nonword_ne_F _ hwcl) r9
        have hX : Free (valJoin tX ++ (cl :: valJoin tsOutR)) :=
          Free_append_of_head _ _ wX.2 hR (by
            intro c hc; simp at hc; subst hc
            exact ⟨nonword_ne _ _ hwcl (by decide), nonword_ne _ _ hwcl (by decide),
              nonword_ne _ _ hwcl (by decide)⟩)
        have hO : Free (o :: (valJoin tX ++ (cl :: valJoin tsOutR))) :=
          Free_cons_of_ne (nonword_ne_F _ hwo) hX
        have := Free_append_of_head _ _ wP.2 hO (by
            intro c hc; simp at hc; subst hc
            exact ⟨nonword_ne _ _ hwo (by decide), nonword_ne _ _ hwo (by decide),
              nonword_ne _ _ hwo (by decide)⟩)
        simpa [Tok.val] using this

end Fp.Splitline
