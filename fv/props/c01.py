"""C01 — regenerated source re-parses to the same tree (round-trip fixpoint)."""
import random
from fv import real, gen, layout, treeutil, engine, findings
from fv.props import util

RULE = ("programs from the grammar-directed generator (fv/gen.py), one per derived seed, x std in {f2003,f2008} "
        "x comments {ignored, kept (comment/blank lines + trailing comments laid out by fv/layout.py)}; "
        "non-trivial = parses to a tree with >= 8 statements; distinct = distinct (seed,std,comments)")
ASSUMPTIONS = ["leaf rule classes are an oracle parameter of the block-level theorems; their own match/tostr pairs are "
               "exercised here, not proved",
               "generator valid class = what fv/gen.py emits (validated against the pinned tree)"]
TIE_MODULES = ["FparserModel.Block", "FparserModel.Reader", "FparserModel.Expr", "FparserModel.Combi", "FparserModel.Generated.Combi", "FparserModel.Print", "FparserModel.Generated.PrintTables", "FparserModel.Props.Print"]


def _render(p, case):
    L = layout.render_free(p, case["seed"] ^ 0x5A5A, layout.FreeOpts(p_cont=0.0, p_extra_blank=0.0, comments=True))
    # blank (empty or whitespace-only) lines at the very end are dropped: with comments kept a
    # blank line is an empty Comment node, and str(tree) does not end in a newline, so a
    # trailing blank line cannot survive the round trip (noted, not what C01 is about)
    lines = L.text().split("\n")
    while lines and not lines[-1].strip():
        lines.pop()
    return "\n".join(lines) + "\n"


def run_case(case):
    p = util.program_case(case)
    std, keep = case["std"], case["keep"]
    if keep:
        src = _render(p, case)
    else:
        src = p.text()
    res = {"key": [case["seed"], std, keep], "counts": util.feature_counts(p), "findings": []}
    o = real.try_parse(src, std=std, ignore_comments=not keep, free=True)
    nst = len(src.splitlines())
    res["nontrivial"] = nst >= 8
    res["sample"] = {"seed": case["seed"], "std": std, "keep_comments": keep, "lines": nst, "head": src[:200]}
    if o.kind != "tree":
        sigs = util.outcome_signature(o)

        def failsp(q):
            t = _render(q, case) if keep else q.text()
            o_ = real.try_parse(t, std=std, ignore_comments=not keep, free=True)
            return o_.kind != "tree" and util.outcome_signature(o_) == sigs
        q = util.reduce_prog(p, failsp)
        mini = _render(q, case) if keep else q.text()
        known = findings.classify("C01", mini, {"ignore_comments": not keep, "std": std})
        res["findings"].append({"signature": known or ("reject:" + sigs),
                                "what": "generated valid program rejected: %s | minimal: %r" % (str(o.exc)[:200], mini[:400]),
                                "replay": {"case": case, "source": src, "minimal": mini}})
        return res
    if case.get("cosim"):
        res["findings"] += util.token_cosim([st_.text() for st_ in p.flat()][::3], case=case)
        fs, info = util.block_cosim(src, std=std, ignore_comments=not keep, case=case)
        res["findings"] += fs
        res["counts"]["block-cosim"] = 1
        for g in info.get("ghost", []) or []:
            res["counts"]["ghost:" + g] = res["counts"].get("ghost:" + g, 0) + 1
    s1 = str(o.tree)
    o2 = real.try_parse(s1, std=std, ignore_comments=not keep, free=True)
    if o2.kind != "tree":
        res["findings"].append({"signature": "reparse-reject:" + util.outcome_signature(o2),
                                "what": "printed source rejected: %s" % str(o2.exc)[:300],
                                "replay": {"case": case, "source": src, "printed": s1}})
        return res
    a, b = treeutil.sig(o.tree), treeutil.sig(o2.tree)
    if a != b:
        d = treeutil.first_diff(a, b)
        res["findings"].append({"signature": "tree-differs:" + (str(d[1])[:40] if d else "?"),
                                "what": "re-parsed tree differs at %s: %s vs %s" % d,
                                "replay": {"case": case, "source": src, "printed": s1}})
    s2 = str(o2.tree)
    if s2.rstrip("\n") != s1.rstrip("\n"):
        la, lb = s1.split("\n"), s2.split("\n")
        dl = next(((x, y) for x, y in zip(la, lb) if x != y), ("<len>", "<len>"))
        res["findings"].append({"signature": "print-unstable:" + util.stmt_kind(dl[0]),
                                "what": "second print differs: %r vs %r" % dl,
                                "replay": {"case": case, "source": src, "printed": s1, "printed2": s2}})
    return res


def cases(tier, seed):
    n = util.tier_n(tier, 160, 1500)
    out = []
    for i, s in enumerate(util.seeds(seed, n, 1)):
        std = "f2008" if i % 2 == 0 else "f2003"
        out.append({"seed": s, "std": std, "keep": (i // 2) % 2 == 1, "size": 1.0 if i % 5 else 2.0, "cosim": i % 2 == 0})
    return out


def run(tier, rep, st):
    util.sub_cosim(rep, tier, "cosim_print", "Fp.Print", 100, 1000)
    util.sub_cosim(rep, tier, "cosim_combi", "Fp.Combi", 40, 300, extra=["--max-seconds", "45" if tier != "thorough" else "600", "--classes-per-base", "6" if tier != "thorough" else "1000"])
    engine.run_cases(__name__, cases(tier, rep.seed), rep)
