import FparserModel.Wire
import FparserModel.Decl
/-!
driver commands of the declaration slice (trusted glue, no theorems)

    decl.match  className text
        → crash                                  (the Python raises InternalError / IndexError)
        | none
        | some printed n (tag text)*n            children = the echo oracle: `text` is what the
                                                 `match` hands to the child class `tag`
                                                 (tag = Python class name | "str" | "None")
    decl.print  className text (childClass piece printed)*
        → none | some printed                    children = the table: `childClass(piece)` prints
                                                 as `printed`; a pair not in the table = NoMatchError
    decl.classes → the class names `decl.match` knows
-/
namespace FpDriver.Decl
open Fp Fp.Wire Fp.Decl

def ok (fs : List String) : String := "\t".intercalate ("OK" :: fs)

abbrev Field := String × Str

def fOpt (c : Cls) : Option Str → Field
  | some t => (c.pyName, t)
  | none => ("None", [])

def fItem (c : Cls) : Combi.Item Str → Field
  | .none => ("None", [])
  | .str s => ("str", s)
  | .node n => (c.pyName, n)

def fItems (cs : List Cls) (items : List (Combi.Item Str)) : List Field :=
  (items.zip (cs ++ List.replicate items.length Cls.name)).map fun p => fItem p.2 p.1

/-- `(printed, fields)` of class `cls` on `s` with children `o` -/
def run (o : Leaves Str) (cls : String) (s : Str) : Option (Option (Str × List Field)) :=
  let td (r : Option (TypeDecl Str)) (al el : Cls) :=
    r.map fun n => (tostrTypeDecl o n,
      [(Cls.declarationTypeSpec.pyName, n.typeSpec), fOpt al n.attrSpecs, (el.pyName, n.entityDecls)])
  let ed (r : Option (EntityDecl Str)) (nc ac ic : Cls) :=
    r.map fun n => (tostrEntityDecl o n,
      [(nc.pyName, n.name), fOpt ac n.arraySpec, fOpt .charLength n.charLength, fOpt ic n.init])
  let combi (r : Option (List (Combi.Item Str))) (pr : List (Combi.Item Str) → Option Str)
      (cs : List Cls) :=
    match r with
    | none => none
    | some items => (pr items).map fun t => (t, fItems cs items)
  match cls with
  | "Type_Declaration_Stmt" => some (td (matchTypeDeclarationStmt o s) .attrSpecList .entityDeclList)
  | "Data_Component_Def_Stmt" =>
    some (td (matchDataComponentDefStmt o s) .componentAttrSpecList .componentDeclList)
  | "Entity_Decl" => some (ed (matchEntityDecl o s) .name .arraySpec .initialization)
  | "Component_Decl" =>
    some (ed (matchComponentDecl o s) .componentName .componentArraySpec .componentInitialization)
  | "Initialization" | "Component_Initialization" =>
    some ((matchInitialization o s).map fun n => (tostrInitialization o n,
      match n with
      | .ptr a => [("str", "=>".toList), (Cls.nullInit.pyName, a)]
      | .val a => [("str", "=".toList), (Cls.initializationExpr.pyName, a)]))
  | "Kind_Selector" =>
    some ((matchKindSelector o s).map fun n => (tostrKindSelector o n,
      match n with
      | .star a => [("str", "*".toList), (Cls.charLength.pyName, a)]
      | .paren a => [("str", "(".toList), (Cls.scalarIntInitializationExpr.pyName, a), ("str", ")".toList)]))
  | "Char_Selector" =>
    some ((matchCharSelector o s).map fun n => (tostrCharSelector o n,
      [fOpt .typeParamValue n.len, (Cls.scalarIntInitializationExpr.pyName, n.kind)]))
  | "Length_Selector" =>
    some ((matchLengthSelector o s).map fun n => (tostrLengthSelector o n,
      match n with
      | .star a => [("str", "*".toList), (Cls.charLength.pyName, a)]
      | .paren a => [("str", "(".toList), (Cls.typeParamValue.pyName, a), ("str", ")".toList)]))
  | "Char_Length" => some (combi (matchCharLength o s) (Combi.bracketStr o.combi) [.name, .typeParamValue, .name])
  | "Attr_Spec" => some ((matchAttrSpec s).map fun t => (t, [("str", t)]))
  | "Component_Attr_Spec" => some ((matchComponentAttrSpec s).map fun t => (t, [("str", t)]))
  | "Intent_Spec" => some ((matchIntentSpec s).map fun t => (t, [("str", t)]))
  | "Dimension_Attr_Spec" =>
    some (combi (matchDimensionAttrSpec o s) (fun i => some (Combi.callStr o.combi i)) [.name, .arraySpec])
  | "Intent_Attr_Spec" => some (combi (matchIntentAttrSpec o s) (fun i => some (Combi.callStr o.combi i))
      [.name, .intentSpec])
  | "Implicit_Stmt" =>
    some ((matchImplicitStmt o s).map fun n => (tostrImplicitStmt o n,
      match n with
      | .none' => [("str", "NONE".toList)]
      | .specs a => [(Cls.implicitSpecList.pyName, a)]))
  | "Implicit_Spec" =>
    some ((matchImplicitSpec o s).map fun n => (tostrImplicitSpec o n,
      [(Cls.declarationTypeSpec.pyName, n.typeSpec), (Cls.letterSpecList.pyName, n.letters)]))
  | "Letter_Spec" =>
    some ((matchLetterSpec s).map fun n => (tostrLetterSpec n,
      [("str", n.1), (match n.2 with | some r => ("str", r) | none => ("None", []))]))
  | "Data_Stmt" =>
    some ((matchDataStmt o s).map fun n => (tostrDataStmt o n, n.map fun a => (Cls.dataStmtSet.pyName, a)))
  | "Data_Stmt_Set" =>
    some ((matchDataStmtSet o s).map fun n => (tostrDataStmtSet o n,
      [(Cls.dataStmtObjectList.pyName, n.objects), (Cls.dataStmtValueList.pyName, n.values)]))
  | "Data_Implied_Do" =>
    some ((matchDataImpliedDo o s).map fun n => (tostrDataImpliedDo o n,
      [(Cls.dataIDoObjectList.pyName, n.objects), (Cls.dataIDoVariable.pyName, n.var),
       (Cls.scalarIntExpr.pyName, n.e1), (Cls.scalarIntExpr.pyName, n.e2), fOpt .scalarIntExpr n.e3]))
  | "Data_Stmt_Value" =>
    some ((matchDataStmtValue o s).map fun n => (tostrDataStmtValue o n,
      [(Cls.dataStmtRepeat.pyName, n.repeat'), (Cls.dataStmtConstant.pyName, n.constant)]))
  | "Dimension_Stmt" =>
    some ((matchDimensionStmt o s).map fun n => (tostrDimensionStmt o n,
      n.flatMap fun p => [(Cls.arrayName.pyName, p.1), (Cls.arraySpec.pyName, p.2)]))
  | "Intent_Stmt" =>
    some ((matchIntentStmt o s).map fun n => (tostrIntentStmt o n,
      [(Cls.intentSpec.pyName, n.spec), (Cls.dummyArgNameList.pyName, n.names)]))
  | "Parameter_Stmt" => some (combi (matchParameterStmt o s) (fun i => some (Combi.callStr o.combi i))
      [.name, .namedConstantDefList])
  | "Named_Constant_Def" => some (combi (matchNamedConstantDef o s) (fun i => some (Combi.kvStr o.combi i))
      [.namedConstant, .initializationExpr])
  | "Save_Stmt" => some (combi (matchSaveStmt o s) (fun i => some (Combi.wordStrA o.combi i))
      [.name, .savedEntityList])
  | "Saved_Entity" => some (combi (matchSavedEntity o s) (Combi.bracketStr o.combi)
      [.name, .commonBlockName, .name])
  | "Equivalence_Stmt" => some (combi (matchEquivalenceStmt o s) (fun i => some (Combi.wordStr o.combi i))
      [.name, .equivalenceSetList])
  | "Namelist_Stmt" =>
    some ((matchNamelistStmt o s).map fun n => (tostrNamelistStmt o n,
      n.flatMap fun p => [(Cls.namelistGroupName.pyName, p.1), (Cls.namelistGroupObjectList.pyName, p.2)]))
  | "Equivalence_Set" =>
    some ((matchEquivalenceSet o s).map fun n => (tostrEquivalenceSet o n,
      (n.first :: n.rest).map fun a => (Cls.equivalenceObject.pyName, a)))
  | "Common_Stmt" =>
    some ((matchCommonStmt o s).map fun n => (tostrCommonStmt o n,
      n.flatMap fun p => [fOpt .commonBlockName p.1, (Cls.commonBlockObjectList.pyName, p.2)]))
  | _ => none

def classNames : List String :=
  ["Type_Declaration_Stmt", "Data_Component_Def_Stmt", "Entity_Decl", "Component_Decl",
   "Initialization", "Component_Initialization", "Kind_Selector", "Char_Selector", "Length_Selector",
   "Char_Length", "Attr_Spec", "Component_Attr_Spec", "Intent_Spec", "Dimension_Attr_Spec",
   "Intent_Attr_Spec", "Implicit_Stmt", "Implicit_Spec",
   "Letter_Spec", "Data_Stmt", "Data_Stmt_Set", "Data_Implied_Do", "Data_Stmt_Value",
   "Dimension_Stmt", "Intent_Stmt", "Parameter_Stmt", "Named_Constant_Def", "Save_Stmt",
   "Saved_Entity", "Equivalence_Stmt", "Namelist_Stmt", "Equivalence_Set", "Common_Stmt"]

def crashes (cls : String) (s : Str) : Bool :=
  match cls with
  | "Kind_Selector" => crashKindSelector s
  | "Char_Selector" | "Length_Selector" => crashOnEmpty s
  | _ => false

def decTable : List String → List (String × Str × Str)
  | c :: p :: t :: rest => (dec c, decL p, decL t) :: decTable rest
  | _ => []

def tableOracle (tbl : List (String × Str × Str)) : Leaves Str :=
  { leaf := fun c s => (tbl.find? fun e => e.1 == c.pyName && e.2.1 == s).map (·.2.2),
    render := id }

/-- in `combi`-based classes the child class is reported as "node": the harness knows the class -/
def handle (cmd : String) (args : List String) : Option String :=
  match cmd, args with
  | "decl.classes", _ => some (ok (classNames.map enc))
  | "decl.match", [cls, text] =>
    let s := decL text
    if crashes (dec cls) s then some (ok [enc "crash"]) else
    match run echo (dec cls) s with
    | none => some ("ERR\t" ++ enc ("decl.match: unknown class " ++ dec cls))
    | some none => some (ok [enc "none"])
    | some (some (printed, fs)) =>
      some (ok (enc "some" :: encL printed :: enc (toString fs.length)
        :: fs.flatMap fun f => [enc f.1, encL f.2]))
  | "decl.print", cls :: text :: table =>
    let s := decL text
    if crashes (dec cls) s then some (ok [enc "crash"]) else
    match run (tableOracle (decTable table)) (dec cls) s with
    | none => some ("ERR\t" ++ enc ("decl.print: unknown class " ++ dec cls))
    | some none => some (ok [enc "none"])
    | some (some (printed, _)) => some (ok [enc "some", encL printed])
  | _, _ => none

end FpDriver.Decl
