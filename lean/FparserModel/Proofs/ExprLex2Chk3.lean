import FparserModel.Proofs.ExprLex2Chk2

/-! segment boundaries never put two `*` or two `/` next to each other; cutting `chkA` -/
set_option linter.unusedSimpArgs false
set_option linter.unusedVariables false
namespace Fp.ExprLex
open Fp Fp.Expr

theorem dotWord_full_last (r w : Str) (h : dotWord ('.' :: r) = some (w, r.length + 1)) :
    r.getLast? = some '.' := by
  rw [dotWord_cons] at h
  split at h
  · rename_i tl hr
    split at h
    · cases h
    · simp only [Option.some.injEq, Prod.mk.injEq] at h
      have hle := dotRest_le r
      rw [hr] at h hle
      simp only [List.length_cons] at h hle
      have htl : tl = [] := List.eq_nil_of_length_eq_zero (by omega)
      subst htl
      unfold dotRest dropSp at hr
      have h1 : List.dropWhile isSpace (List.dropWhile isAlpha (List.dropWhile isSpace r)) ≠ [] := by
        rw [hr]; simp
      have h2 : List.dropWhile isAlpha (List.dropWhile isSpace r) ≠ [] := by
        intro h0; rw [h0] at h1; exact h1 rfl
      have h3 : List.dropWhile isSpace r ≠ [] := by
        intro h0; rw [h0] at h2; exact h2 rfl
      rw [dw_getLast isSpace r h3, dw_getLast isAlpha _ h2, dw_getLast isSpace _ h1, hr]
      rfl
  · cases h

theorem noTok_last : ∀ (s y : Str) (ch : Char), noTok s y = true → s.getLast? = some ch →
    tokAt (ch :: y) = none
  | [], _, _, _, h => by simp at h
  | [c], y, ch, h, hl => by
    simp only [List.getLast?_singleton, Option.some.injEq] at hl
    subst hl
    simpa [noTok] using h
  | c :: d :: t, y, ch, h, hl => by
    simp only [noTok, Bool.and_eq_true] at h
    rw [List.getLast?_cons_cons] at hl
    exact noTok_last (d :: t) y ch (by simp only [noTok, Bool.and_eq_true]; exact h.2) hl

theorem bndc_of_ne {ch : Char} (y : Str) (h1 : ch ≠ '*') (h2 : ch ≠ '/') : bndc ch y :=
  ⟨fun h => absurd h h1, fun h => absurd h h2⟩

/-- a word is not followed by the character it ends with, when that is `*` or `/` -/
theorem word_adj {prev : Option Char} {k : TK} {m after : Str} {ch : Char}
    (h : segC prev (.word k m) after = true) (hl : m.getLast? = some ch) : bndc ch after := by
  obtain ⟨hok, htk⟩ := segC_word_parts h
  obtain ⟨hne, hin1, _, _, _, _, _⟩ := segOK_word hok
  have htm : tokAt m = some (k, m.length) := tokAt_cut m after k _ htk (Nat.le_refl _)
  rcases m with _ | ⟨c, r⟩
  · exact absurd rfl hne
  · by_cases hc : c = '.'
    · subst hc
      rw [tokAt_dot] at htm
      cases hd : dotWord ('.' :: r) with
      | none => simp [hd] at htm
      | some wn =>
        rw [hd] at htm
        simp only [Option.map_some, Option.some.injEq, Prod.mk.injEq, List.length_cons] at htm
        have hd' : dotWord ('.' :: r) = some (wn.1, r.length + 1) := by rw [hd, ← htm.2]
        have hlast := dotWord_full_last r wn.1 hd'
        have hr : r ≠ [] := by intro h0; rw [h0] at hlast; cases hlast
        rw [getLast_cons_ne _ hr, hlast] at hl
        simp only [Option.some.injEq] at hl
        subst hl
        exact bndc_of_ne _ (by decide) (by decide)
    · rw [tokAt_cons _ _ hc] at htm
      unfold tok2 at htm
      simp only [List.length_cons] at htm
      rcases r with _ | ⟨d, _ | ⟨e, r'⟩⟩
      · -- one character
        simp only [List.getLast?_singleton, Option.some.injEq] at hl
        subst hl
        simp only [List.head?_nil, reduceCtorEq, ↓reduceIte, List.length_nil] at htm
        by_cases h1 : c = '*'
        · subst h1
          simp only [↓reduceIte, Option.some.injEq, Prod.mk.injEq] at htm
          have := hin1 .mult (by rw [← htm.1]; rfl)
          simp only [matchAt, List.cons_append, List.nil_append, List.length_cons, List.length_nil] at this
          split at this
          · cases this
          · rename_i hh
            simp only [Bool.or_eq_true, not_or, Bool.not_eq_true] at hh
            exact ⟨fun _ => hh.2, fun h => absurd h (by decide)⟩
        · by_cases h2 : c = '/'
          · subst h2
            simp only [Char.reduceEq, ↓reduceIte, Option.some.injEq, Prod.mk.injEq] at htm
            have := hin1 .mult (by rw [← htm.1]; rfl)
            simp only [matchAt, List.cons_append, List.nil_append, List.length_cons, List.length_nil] at this
            split at this
            · cases this
            · rename_i hh
              simp only [Bool.or_eq_true, not_or, Bool.not_eq_true] at hh
              exact ⟨fun h => absurd h (by decide), fun _ => hh.2⟩
          · exact bndc_of_ne _ h1 h2
      · -- two characters
        simp only [List.getLast?_cons_cons, List.getLast?_singleton, Option.some.injEq] at hl
        subst hl
        simp only [List.head?_cons, Option.some.injEq, List.length_cons, List.length_nil] at htm
        by_cases h1 : d = '*'
        · subst h1
          by_cases hc1 : c = '*'
          · subst hc1
            simp only [↓reduceIte, Option.some.injEq, Prod.mk.injEq] at htm
            have := hin1 .power (by rw [← htm.1]; rfl)
            simp only [matchAt, List.cons_append, List.nil_append, List.length_cons, List.length_nil] at this
            split at this
            · cases this
            · rename_i hh
              simp only [Bool.or_eq_true, not_or, Bool.not_eq_true] at hh
              exact ⟨fun _ => hh.2, fun h => absurd h (by decide)⟩
          · exfalso
            simp only [hc1, ↓reduceIte, Char.reduceEq] at htm
            repeat' split at htm
            all_goals simp at htm
        · by_cases h2 : d = '/'
          · subst h2
            by_cases hc1 : c = '/'
            · subst hc1
              simp only [Char.reduceEq, ↓reduceIte, Option.some.injEq, Prod.mk.injEq] at htm
              have := hin1 .concat (by rw [← htm.1]; rfl)
              simp only [matchAt, List.cons_append, List.nil_append, List.length_cons, List.length_nil,
                dropSp, List.dropWhile_cons] at this
              split at this
              · cases this
              · have hsp : isSpace '/' = false := by decide
                simp only [hsp, Bool.false_eq_true, ↓reduceIte] at this
                split at this
                · cases this
                · rename_i hh
                  exact ⟨fun h => absurd h (by decide), fun _ => by simpa using hh⟩
            · exfalso
              simp only [hc1, ↓reduceIte, Char.reduceEq] at htm
              repeat' split at htm
              all_goals simp at htm
          · exact bndc_of_ne _ h1 h2
      · -- three or more: impossible for a symbolic word
        exfalso
        simp only [List.length_cons] at htm
        repeat' split at htm
        all_goals simp at htm
        all_goals omega

theorem seg_bnd {prev : Option Char} {x : Seg} {y : Str} {ch : Char}
    (h : segC prev x y = true) (hl : x.text.getLast? = some ch) : bndc ch y := by
  cases x with
  | gap s =>
    have := tokAt_none_char ch y (noTok_last s y ch (segC_gap_parts h).2 hl)
    exact bndc_of_ne _ this.1 this.2
  | word k m => exact word_adj h hl

theorem chkA_bnd : ∀ (A : List Seg) (prev : Option Char) (y : Str), chkA prev A y = true →
    ∀ ch, (flat A).getLast? = some ch → bndc ch y
  | [], _, _, _, ch, hl => by simp [flat_nil] at hl
  | x :: A', prev, y, h, ch, hl => by
    simp only [chkA, Bool.and_eq_true] at h
    rw [flat_cons] at hl
    by_cases hA : flat A' = []
    · rw [hA] at h hl
      simp only [List.append_nil, List.nil_append] at h hl
      exact seg_bnd h.1 hl
    · obtain ⟨c', hc'⟩ := getLast_some_of_ne hA
      have : (x.text ++ flat A').getLast? = some c' := by simp [List.getLast?_append, hc']
      rw [this] at hl
      simp only [Option.some.injEq] at hl
      subst hl
      exact chkA_bnd A' _ y h.2 _ hc'

theorem chkA_cut' : ∀ (A : List Seg) (prev : Option Char) (y : Str), chkA prev A y = true →
    (∀ ch, (flat A).getLast? = some ch → bndc ch y) → chkA prev A [] = true
  | [], _, _, _, _ => rfl
  | x :: A', prev, y, h, hb => by
    simp only [chkA, Bool.and_eq_true, List.append_nil] at h ⊢
    refine ⟨segC_cut h.1 (by rw [← flat_cons]; exact hb), chkA_cut' A' _ y h.2 ?_⟩
    intro ch hch
    apply hb ch
    rw [flat_cons]; simp [List.getLast?_append, hch]

/-- **the text behind a checked segment list can be cut off** -/
theorem chkA_cut (A : List Seg) (prev : Option Char) (y : Str) (h : chkA prev A y = true) :
    chkA prev A [] = true := chkA_cut' A prev y h (chkA_bnd A prev y h)

end Fp.ExprLex
