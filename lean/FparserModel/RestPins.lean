import FparserModel.Combi
import FparserModel.Generated.Combi
import FparserModel.IoStmtPins
import FparserModel.HeaderPins
import FparserModel.PrimaryPins
import FparserModel.Incl08Pins
import FparserModel.Proofs.DeclGenerated
import FparserModel.Generated.CppTables
import FparserModel.Generated.Blocks2003
import FparserModel.Generated.Blocks2008
import FparserModel.Generated.ExprLevels
/-!
# RestPins - what FparserModel/Rest.lean was validated against, and the vocabulary of the inventory

Hand-maintained.  The four blocks `expected`, `blockDelegations`, `intrinsicRows`, `regexSources` are rewritten by
`python -m fv.extract_rest --write-pins <lean dir> [<method>…]` AFTER the mirror of an edited method has been
re-validated (read the diff, run fv/cosim_rest.py); never as part of a normal build.
Generated/RestTables.lean proves that the live fingerprints, tables and patterns equal these.
-/
namespace Fp.Rest

/-- `live = expected`; the message is part of the statement so that it shows in the error -/
def Pinned (_msg : String) (live expected : Option (String × String)) : Prop := live = expected
instance (m : String) (a b : Option (String × String)) : Decidable (Pinned m a b) :=
  inferInstanceAs (Decidable (a = b))
def PinnedN (_msg : String) (live expected : Nat) : Prop := live = expected
instance (m : String) (a b : Nat) : Decidable (PinnedN m a b) :=
  inferInstanceAs (Decidable (a = b))
def PinnedP (_msg : String) (live expected : List (String × String)) : Prop := live = expected
instance (m : String) (a b : List (String × String)) : Decidable (PinnedP m a b) :=
  inferInstanceAs (Decidable (a = b))
def PinnedT (_msg : String) (live expected : List (String × Nat)) : Prop := live = expected
instance (m : String) (a b : List (String × Nat)) : Decidable (PinnedT m a b) :=
  inferInstanceAs (Decidable (a = b))
def PinnedL (_msg : String) (live expected : List String) : Prop := live = expected
instance (m : String) (a b : List String) : Decidable (PinnedL m a b) :=
  inferInstanceAs (Decidable (a = b))

namespace Pins

/-- fingerprints of the mirrored methods (same order as `Generated.RestTables.liveFingerprints`) -/
def expected : List (String × String) := [
  ("Fortran2003.Allocate_Shape_Spec.match", "f92c823b1fe9fd52"),
  ("Fortran2003.Allocate_Shape_Spec.tostr", "7d4581160477028a"),
  ("Fortran2003.Assumed_Size_Spec.match", "cca2db053afa52f4"),
  ("Fortran2003.Assumed_Size_Spec.tostr", "2d880011efd5a55a"),
  ("Fortran2003.Backspace_Stmt.match", "10852ba3fdc41057"),
  ("Fortran2003.Backspace_Stmt.tostr", "9a533854b209c52e"),
  ("Fortran2003.Bind_Stmt.match", "2ab655ec24ef0c94"),
  ("Fortran2003.Bind_Stmt.tostr", "6900892804e23e25"),
  ("Fortran2003.Block.match", "21e7d0ebcfa694dc"),
  ("Fortran2003.Char_Expr.match", "39987e5f704060ea"),
  ("Fortran2003.Comment.tostr", "bcf9419403db7235"),
  ("Fortran2003.Cray_Pointer_Decl.match", "b918c88c4fdc4c6c"),
  ("Fortran2003.Cray_Pointer_Decl.tostr", "21fd4ccf9b0b5900"),
  ("Fortran2003.Cray_Pointer_Stmt.match", "9dd869bac8c3d921"),
  ("Fortran2003.Data_Edit_Desc.match", "cd3b76680865455e"),
  ("Fortran2003.Data_Edit_Desc.tostr", "d26ceaf536f25f85"),
  ("Fortran2003.Data_Edit_Desc_C1002.match", "82290e779df5e29a"),
  ("Fortran2003.Data_Edit_Desc_C1002.tostr", "2d4dcaf870d5351d"),
  ("Fortran2003.Declaration_Type_Spec.match", "4dcc3243fe90758b"),
  ("Fortran2003.Declaration_Type_Spec.tostr", "a31ba6bff2464def"),
  ("Fortran2003.Default_Char_Expr.match", "39987e5f704060ea"),
  ("Fortran2003.Deferred_Shape_Spec.match", "36676c8be0d873da"),
  ("Fortran2003.Defined_Op.match", "a09d7333d1ca7114"),
  ("Fortran2003.Directive.tostr", "02a2464e559b1749"),
  ("Fortran2003.Do_Block.match", "21e7d0ebcfa694dc"),
  ("Fortran2003.Endfile_Stmt.match", "7b8db879b760d44f"),
  ("Fortran2003.Endfile_Stmt.tostr", "a9c54c0a748fb251"),
  ("Fortran2003.Entity_Decl.match", "0462a186aca5c3c7"),
  ("Fortran2003.Entity_Decl.tostr", "bdfa023b67d1d3bb"),
  ("Fortran2003.Enumerator.match", "0bff3a7df3172bdf"),
  ("Fortran2003.Explicit_Shape_Spec.match", "2f88584295e30521"),
  ("Fortran2003.Explicit_Shape_Spec.tostr", "7d4581160477028a"),
  ("Fortran2003.Flush_Spec.match", "8dfbc54ecfe262d2"),
  ("Fortran2003.Flush_Stmt.match", "0322f9ceea04947b"),
  ("Fortran2003.Flush_Stmt.tostr", "bf06acd2e3b4f109"),
  ("Fortran2003.Format_Item_C1002.match", "004c554cb2cfdc27"),
  ("Fortran2003.Format_Item_C1002.tostr", "e7993abee60d25c7"),
  ("Fortran2003.Hollerith_Item.match", "9875141921fc24e6"),
  ("Fortran2003.Hollerith_Item.tostr", "3e0504583eb674c6"),
  ("Fortran2003.Include_Stmt.match", "ddb9f1fd5cfd1138"),
  ("Fortran2003.Include_Stmt.tostr", "259eb924f5941a05"),
  ("Fortran2003.Int_Expr.match", "734283f9772686b8"),
  ("Fortran2003.Intrinsic_Type_Spec.match", "29b6186c68e3e5b8"),
  ("Fortran2003.Io_Implied_Do.match", "e589d7596dd9c762"),
  ("Fortran2003.Io_Implied_Do.tostr", "aab496f75a231db9"),
  ("Fortran2003.Io_Implied_Do_Control.match", "894ebfa8e857b7bc"),
  ("Fortran2003.Io_Implied_Do_Control.tostr", "c4709931aaa7fa9c"),
  ("Fortran2003.Logical_Expr.match", "4ceec666f02bc871"),
  ("Fortran2003.Numeric_Expr.match", "e03bea09e2e9cb8e"),
  ("Fortran2003.Position_Edit_Desc.match", "305dbd6502d8519b"),
  ("Fortran2003.Position_Edit_Desc.tostr", "e47235ef65398182"),
  ("Fortran2003.Position_Spec.match", "8dfbc54ecfe262d2"),
  ("Fortran2003.Rename.match", "39aa61c9c483489d"),
  ("Fortran2003.Rename.tostr", "ac0f842b48fe8b29"),
  ("Fortran2003.Return_Stmt.match", "927b61e4356c637c"),
  ("Fortran2003.Return_Stmt.tostr", "36f3e621f6756940"),
  ("Fortran2003.Rewind_Stmt.match", "db82d2584849d4a8"),
  ("Fortran2003.Rewind_Stmt.tostr", "6f831772d2152d8c"),
  ("Fortran2003.Stmt_Function_Stmt.match", "76fe28875e1ef4c0"),
  ("Fortran2003.Stmt_Function_Stmt.tostr", "acc98d5dfe377193"),
  ("Fortran2003.Stop_Code.match", "d54761ce41aeb47e"),
  ("Fortran2003.Target_Entity_Decl.match", "4ae41f6eac449ba6"),
  ("Fortran2003.Target_Stmt.match", "316a141c0c9705ac"),
  ("Fortran2003.Target_Stmt.tostr", "30f2cc119ff95eef"),
  ("Fortran2003.Type_Param_Decl.match", "27d42a01b846a2c7"),
  ("Fortran2003.Type_Param_Def_Stmt.match", "a3909de5e1982c02"),
  ("Fortran2003.Type_Param_Def_Stmt.tostr", "c9a1616e0f7894ec"),
  ("Fortran2003.Use_Stmt._match", "9810aeaaf349bf58"),
  ("Fortran2003.Use_Stmt.match", "c79dd67076a60e15"),
  ("Fortran2003.Use_Stmt.tostr", "6771ff9473433116"),
  ("Fortran2003.Wait_Spec.match", "71d14cdde59a344a"),
  ("Fortran2003.Where_Construct_Stmt.match", "8df0c922b9f15b48"),
  ("Fortran2003.Where_Construct_Stmt.tostr", "2753425e5faa5962"),
  ("Fortran2003.skip_digits", "ab5f2a70d656c965"),
  ("utils.Base.__new__", "b1803e1bd63b9277"),
  ("utils.Base.init", "66d1e2f29d6560f9"),
  ("utils.BinaryOpBase.tostr", "2dcbb0cca9f6a9fc"),
  ("utils.KeywordValueBase.match", "87d0f3faee19f12a"),
  ("utils.KeywordValueBase.tostr", "90c4fe9165b5ccd2"),
  ("utils.STRINGBase.match", "db96f61a290af301"),
  ("utils.SeparatorBase.tostr", "066df08a1d4fe288"),
  ("utils.StringBase.init", "661def2a8e35ac55"),
  ("utils.StringBase.match", "fbffdebfc59d2876"),
  ("utils.StringBase.tostr", "3a80c79b95abcbb0"),
  ("utils.WORDClsBase.match", "45f2366df1e3be33"),
  ("utils.WORDClsBase.tostr", "af2afdcf9063c31a")
]

/-- one-line `BlockBase.match(...)` delegations of classes no rule refers to (`Block`, `Do_Block`) -/
def blockDelegations : List (String × String) := [
  ("Block", "block|startcls=None|subclasses=[Execution_Part_Construct]|endcls=None|match_labels=False|match_names=False|match_name_classes=[]|enable_do_label_construct_hook=False|enable_if_construct_hook=False|enable_where_construct_hook=False|strict_order=False|strict_match_names=False"),
  ("Do_Block", "block|startcls=None|subclasses=[Execution_Part_Construct]|endcls=None|match_labels=False|match_names=False|match_name_classes=[]|enable_do_label_construct_hook=False|enable_if_construct_hook=False|enable_where_construct_hook=False|strict_order=False|strict_match_names=False")
]

/-- the rows of the keyword loop of `Intrinsic_Type_Spec.match` -/
def intrinsicRows : List String := [
  "kw:INTEGER:Kind_Selector", "kw:REAL:Kind_Selector", "kw:COMPLEX:Kind_Selector", "kw:LOGICAL:Kind_Selector", "kw:CHARACTER:Char_Selector", "re:\\ADOUBLE\\s*COMPLEX\\Z:DOUBLE COMPLEX:-:re.IGNORECASE", "re:\\ADOUBLE\\s*PRECISION\\Z:DOUBLE PRECISION:-:re.IGNORECASE", "kw:BYTE:-"
]

/-- the regexes `Rest.lean` has closed forms for -/
def regexSources : List (String × String) := [
  ("abs_label", "\\A\\d{1,5}\\Z"), ("name", "[A-Z][\\w$]*"), ("abs_defined_op", "\\A[.][A-Z]+[.]\\Z"), ("non_defined_binary_op", "((((((((((?<![*])[*]{2}(?![*])|(?<![*])[*](?![*])|(?<![/])[/](?![/]))|[+-])|(?<![/])[/]\\s*[/](?![/]))|[.]\\s*EQ\\s*[.]|[.]\\s*NE\\s*[.]|[.]\\s*LT\\s*[.]|[.]\\s*LE\\s*[.]|[.]\\s*GT\\s*[.]|[.]\\s*GE\\s*[.]|[=]{2}|/[=]|[<][=]|[<]|[>][=]|[>])|[.]\\s*NOT\\s*[.])|[.]\\s*AND\\s*[.])|[.]\\s*OR\\s*[.])|[.]\\s*EQV\\s*[.]|[.]\\s*NEQV\\s*[.])|[.]\\s*(TRUE|FALSE)\\s*[.]\\s*(_\\s*(\\d+|[A-Z][\\w$]*))?)"), ("hollerith", "^[1-9][0-9 ]*[hH]")
]

/-! The three lists below are edited BY HAND only (never by `--write-pins`): they are the statement of the
    completeness obligation. -/

/-- own `match` / `tostr` of rule classes that NO slice pins.  Must stay empty: a new hand-written class has to
    be mirrored (or tabulated) by a slice before the build passes again. -/
def knownUnpinned : List String := []

/-- own `tofortran` of block classes (tree printers), mirrored by nobody -/
def unmirroredTofortran : List String := [
  "Fortran2003.Action_Term_Do_Construct.tofortran", "Fortran2003.Block_Label_Do_Construct.tofortran",
  "Fortran2003.Case_Construct.tofortran", "Fortran2003.Component_Part.tofortran",
  "Fortran2003.If_Construct.tofortran", "Fortran2003.Where_Construct.tofortran"]

/-- entries of `Generated/Combi.lean` whose arguments are not constants of the source (read by interception
    there; pinned by IoStmt / Primary / Incl08) -/
def unconfirmedDelegations : List String := [
  "Component_Attr_Spec", "Component_Attr_Spec@2008", "Intrinsic_Name", "Intrinsic_Name@2008",
  "Nonlabel_Do_Stmt", "Nonlabel_Do_Stmt@2008"]

end Pins

/-! ## the inventory: which slice pins a hand-written method, and where -/

/-- the slices that pin hand-written methods -/
inductive Src where
  | rest | iostmt | header | primary | decl | cpp | incl08 | combi | block03 | block08 | expr
deriving Repr, DecidableEq

/-- is the key of this table the qualified method name itself (otherwise: source-text table keyed
    `Class.method`, module fingerprint, class table of tabulated delegations) -/
def Src.sameKey : Src → Bool
  | .rest | .iostmt | .header | .primary | .decl => true
  | _ => false

/-- the keys of the pin table of a slice, in order — the tables ARE the definitions the other slices'
    obligations are stated over (for the block tables: the class names, `""` for a plain leaf) -/
def tableKeys : Src → List String
  | .rest => Pins.expected.map (·.1)
  | .iostmt => Fp.IoStmt.Pins.expected.map (·.1)
  | .header => Fp.Header.Pins.expected.map (·.1)
  | .primary => Fp.Primary.Pins.expected.map (·.1)
  | .decl => Fp.Decl.Gen.pinnedFingerprints.map (·.1)
  | .cpp => Fp.CppTables.sources.map (·.1)
  | .incl08 => Fp.Incl08.Pins.modules.map (·.1)
  | .combi => Fp.Combi.Generated.specs.map fun p => Fp.Combi.Generated.classNames.getD p.1 "?"
  | .block03 => Fp.Block.Generated.F2003.names.toList
  | .block08 => Fp.Block.Generated.F2008.names.toList
  | .expr => Fp.Expr.Generated.subclassNames2003.map (·.1)

/-- position in the table, the key found there, the methods (qualified name, kind) it pins -/
abbrev Group := Nat × String × List (String × String)

/-- one pass over a table and the (position-sorted) groups that refer to it -/
def walkKeys : Nat → List String → List Group → Bool
  | _, _, [] => true
  | _, [], _ :: _ => false
  | i, k :: ks, g :: gs =>
    if g.1 == i then (k == g.2.1) && walkKeys (i + 1) ks gs else walkKeys (i + 1) ks (g :: gs)

/-- a fingerprint table is keyed by the method itself (or by the utils.py function an own `tostr` is an alias of) -/
def groupKeyOk (src : Src) (g : Group) : Bool :=
  !src.sameKey || g.2.1.startsWith "utils." || g.2.2.all (fun m => m.1 == g.2.1)

/-- a block-table entry must be a non-leaf class (its `match` is tabulated) -/
def blockOk (src : Src) (g : Group) : Bool :=
  match src with
  | .block03 => Fp.Block.Generated.F2003.nonLeaf.any (fun p => p.1 == g.1)
  | .block08 => Fp.Block.Generated.F2008.nonLeaf.any (fun p => p.1 == g.1)
  | _ => true

def evidenceOk (src : Src) (gs : List Group) : Bool :=
  walkKeys 0 (tableKeys src) gs && gs.all (fun g => groupKeyOk src g && blockOk src g)

/-- a linear check of the tabulated delegations against `Fp.Combi.Generated.specs` -/
def walkDeleg (render : Fp.Combi.Spec → List String) :
    Nat → List (Nat × Fp.Combi.Spec) → List (Nat × String × List String) → Bool
  | _, _, [] => true
  | _, [], _ :: _ => false
  | i, p :: ps, d :: ds =>
    if d.1 == i then
      (Fp.Combi.Generated.classNames.getD p.1 "?" == d.2.1 && render p.2 == d.2.2) && walkDeleg render (i + 1) ps ds
    else walkDeleg render (i + 1) ps (d :: ds)

/-! ## rendering of a `Combi.Spec` (mirrors `render` of fv/extract_rest.py) -/

def rb (b : Bool) : String := if b then "1" else "0"
def rcls (c : Option Nat) : String :=
  match c with
  | some i => Fp.Combi.Generated.classNames.getD i "?"
  | none => "-"
def rarg : Fp.Combi.Arg → String
  | .kw s => "kw:" ++ String.ofList s
  | .cls c => "cls:" ++ rcls (some c)
  | .bad => "bad"
def rpre : Fp.Combi.Pre → String
  | .id => "id" | .strip => "strip" | .upper => "upper"
/-- the label part of a `regexNames` entry `Owner:label` -/
def rlabel (i : Nat) : String :=
  let s := Fp.Combi.Generated.regexNames.getD i "?"
  String.ofList ((s.toList.dropWhile (· != ':')).drop 1)
def ratom : Fp.Combi.PatAtom → String
  | .lit s => "lit:" ++ String.ofList s
  | .re i => "re:" ++ rlabel i

/-- the pieces of the rendering (a list, so that the kernel compares short strings and never concatenates) -/
def renderSpec : Fp.Combi.Spec → List String
  | .seq sep c => ["seq", String.ofList sep, rcls (some c)]
  | .bracket b c r => ["bracket", String.ofList b, rcls c, rb r]
  | .call l r u q => ["call", rarg l, rarg r, rb u, rb q]
  | .kv l r q u => ["kv", rarg l, rcls (some r), rb q, rb u]
  | .word kws isList c co r a =>
    "word" :: kws.map String.ofList ++ ["|", rb isList, rcls c, rb co, rb r, rb a]
  | .endStmt t n r => ["end", String.ofList t, rcls n, rb r]
  | .sep l r ql qr => ["sep", rcls l, rcls r, rb ql, rb qr]
  | .string u p atoms => "string" :: rb u :: rpre p :: atoms.map ratom
  | .number p re => ["number", rpre p, ratom (.re re)]

end Fp.Rest
