import FparserModel.Proofs.Reader4Squeeze

/-!
# Reader4Layout — cutting a statement text at arbitrary positions

* `wfq_of_loc`: the per-line condition "`!` only inside literals" follows from the same
  condition on the whole statement text (the quote state composes over every cut).
* `CutLine` / `cutLines`: a statement text `T = p₀ ++ p₁ ++ … ++ pₙ` cut at arbitrary positions;
  continuation line `i` is `[pre &] ind pᵢ [& post] [! cmt]`, preceded by comment/blank lines.
  `cut_wf`: the local side conditions + `bangFree T` give `WFq`; `cut_squeeze`: the text that
  is read back has the squeeze of `T`; it IS `T` when no indentation is inserted.
-/
namespace Fp.Reader
open Fp
open Fp.Splitline (QState qstep qrun qinit qfinal quoteStateAfter)

/-- `QLine.ok` without the condition on `!` -/
def QLine.okLoc (q : Option Char) : QLine → Prop
  | .cont lead body post cmt more =>
      AllSpace (lead.getD []) ∧
      (lead = none → (lstrip body).head? ≠ some '&' ∧ (lstrip body).head? ≠ some '!' ∧
        (lstrip body = [] → more = true)) ∧
      (more = true → AllSpace post) ∧
      (more = false → lastAmpOk (leadTxt lead ++ body)) ∧
      (cmt.isSome = true → quoteStateAfter q body = none)
  | .comment t => startsWith (lstrip t) ['!'] = true
  | .blank => True

def WFloc : Option Char → List QLine → Prop
  | _, [] => False
  | q, [c] => c.okLoc q ∧ c.isLast = true
  | q, c :: c' :: cs => c.okLoc q ∧ c.isLast = false ∧ WFloc (c.next q) (c' :: cs)

theorem bangFree_thread (q : Option Char) (hq : ∀ c, q = some c → isQuote c = true)
    (body rest : Str) :
    bangFree (qinit q) (body ++ rest) =
      (bangFree (qinit q) body && bangFree (qinit (quoteStateAfter q body)) rest) := by
  rw [bangFree_append, bangFree_requote (qrun (qinit q) body)
    (Fp.Splitline.qrun_quoteOnly _ _ (qinit_quoteOnly q hq))]
  rfl

theorem squeezeFrom_thread (q : Option Char) (hq : ∀ c, q = some c → isQuote c = true)
    (body rest : Str) :
    squeezeFrom (qinit q) (body ++ rest) =
      squeezeFrom (qinit q) body ++ squeezeFrom (qinit (quoteStateAfter q body)) rest := by
  rw [squeezeFrom_append, squeezeFrom_requote (qrun (qinit q) body)
    (Fp.Splitline.qrun_quoteOnly _ _ (qinit_quoteOnly q hq))]
  rfl

theorem okLoc_ok {q : Option Char} {c : QLine} (h : c.okLoc q)
    (hb : ∀ lead body post cmt more, c = .cont lead body post cmt more →
      bangFree (qinit q) body = true) : c.ok q := by
  cases c with
  | cont lead body post cmt more =>
    obtain ⟨h1, h2, h3, h4, h6⟩ := h
    exact ⟨h1, h2, h3, h4, hb _ _ _ _ _ rfl, h6⟩
  | comment t => exact h
  | blank => trivial

/-- the local conditions plus "`!` only inside literals" for the WHOLE text give the threaded
    per-line conditions -/
theorem wfq_of_loc : ∀ (lines : List QLine) (q : Option Char),
    (∀ c, q = some c → isQuote c = true) → WFloc q lines →
    bangFree (qinit q) (joinBodies lines) = true → WFq q lines
  | [], _, _, hw, _ => hw.elim
  | [c], q, hq, hw, hb => by
    obtain ⟨hok, hl⟩ := hw
    refine ⟨okLoc_ok hok ?_, hl⟩
    intro lead body post cmt more e
    subst e
    simpa [joinBodies] using hb
  | c :: c' :: cs, q, hq, hw, hb => by
    obtain ⟨hok, hl, hw'⟩ := hw
    cases c with
    | cont lead body post cmt more =>
      simp only [joinBodies] at hb
      rw [bangFree_thread q hq, Bool.and_eq_true] at hb
      refine ⟨okLoc_ok hok ?_, hl, ?_⟩
      · intro _ _ _ _ _ e; cases e; exact hb.1
      · exact wfq_of_loc (c' :: cs) _ (quoteStateAfter_isQuote q hq body) hw' hb.2
    | comment t =>
      exact ⟨hok, hl, wfq_of_loc (c' :: cs) q hq hw' (by simpa [joinBodies] using hb)⟩
    | blank =>
      exact ⟨trivial, hl, wfq_of_loc (c' :: cs) q hq hw' (by simpa [joinBodies] using hb)⟩

/-! ### cut layouts -/

/-- one continuation line of a cut layout, with the comment / blank lines in front of it -/
structure CutLine where
  skip : List QLine
  lead : Option Str        -- `some pre`: the line starts with `pre &`
  ind : Str                -- blanks inserted in front of the piece
  piece : Str
  post : Str               -- blanks after the trailing `&`
  cmt : Option Str         -- trailing comment (text after the `!`)

def CutLine.line (c : CutLine) (more : Bool) : QLine :=
  .cont c.lead (c.ind ++ c.piece) c.post c.cmt more

/-- comment and blank lines only -/
def SkipOk : List QLine → Prop
  | [] => True
  | .comment t :: cs => startsWith (lstrip t) ['!'] = true ∧ SkipOk cs
  | .blank :: cs => SkipOk cs
  | .cont .. :: _ => False

def cutLines : List CutLine → List QLine
  | [] => []
  | [c] => c.skip ++ [c.line false]
  | c :: c' :: cs => c.skip ++ c.line true :: cutLines (c' :: cs)

/-- the local side conditions of a cut layout read from quote state `q` (none of them mentions
    `!` inside the pieces): the line conditions `QLine.okLoc`, and inserted blanks only at a
    cut outside a character literal -/
def CutsOk : Option Char → List CutLine → Prop
  | _, [] => False
  | q, [c] => SkipOk c.skip ∧ AllSpace c.ind ∧ (c.ind ≠ [] → q = none) ∧ (c.line false).okLoc q
  | q, c :: c' :: cs => SkipOk c.skip ∧ AllSpace c.ind ∧ (c.ind ≠ [] → q = none) ∧
      (c.line true).okLoc q ∧ CutsOk (quoteStateAfter q c.piece) (c' :: cs)

def cutPieces (cs : List CutLine) : Str := (cs.map CutLine.piece).flatten

theorem joinBodies_skip : ∀ (sk : List QLine) (rest : List QLine), SkipOk sk →
    joinBodies (sk ++ rest) = joinBodies rest
  | [], _, _ => rfl
  | .comment t :: sk, rest, h => by simpa [joinBodies] using joinBodies_skip sk rest h.2
  | .blank :: sk, rest, h => by simpa [joinBodies] using joinBodies_skip sk rest h
  | .cont .. :: _, _, h => h.elim

theorem wfloc_skip : ∀ (sk : List QLine) (c : QLine) (rest : List QLine) (q : Option Char),
    SkipOk sk → WFloc q (c :: rest) → WFloc q (sk ++ c :: rest)
  | [], _, _, _, _, hw => hw
  | .comment t :: sk, c, rest, q, h, hw => by
    have ih := wfloc_skip sk c rest q h.2 hw
    show WFloc q (QLine.comment t :: (sk ++ c :: rest))
    cases hsk : sk ++ c :: rest with
    | nil => simp at hsk
    | cons x xs =>
      rw [hsk] at ih
      exact ⟨h.1, rfl, ih⟩
  | .blank :: sk, c, rest, q, h, hw => by
    have ih := wfloc_skip sk c rest q h hw
    show WFloc q (QLine.blank :: (sk ++ c :: rest))
    cases hsk : sk ++ c :: rest with
    | nil => simp at hsk
    | cons x xs =>
      rw [hsk] at ih
      exact ⟨trivial, rfl, ih⟩
  | .cont .. :: _, _, _, _, h, _ => h.elim

/-- blanks in front of a piece, at a line start, do not move the quote automaton -/
theorem quoteStateAfter_ind (q : Option Char) (hq : ∀ c, q = some c → isQuote c = true)
    (ind p : Str) (hi : AllSpace ind) : quoteStateAfter q (ind ++ p) = quoteStateAfter q p := by
  unfold quoteStateAfter
  rw [Fp.Splitline.qrun_append, (inert_init q hq ind hi.inert).1]

theorem cutLines_ne_nil : ∀ (cs : List CutLine), cs ≠ [] → ∃ x xs, cutLines cs = x :: xs
  | [], h => (h rfl).elim
  | [c], _ => by
    cases hs : c.skip with
    | nil => simp only [cutLines, hs, List.nil_append]; exact ⟨_, _, rfl⟩
    | cons a as => simp only [cutLines, hs, List.cons_append]; exact ⟨_, _, rfl⟩
  | c :: c' :: cs, _ => by
    cases hs : c.skip with
    | nil => simp only [cutLines, hs, List.nil_append]; exact ⟨_, _, rfl⟩
    | cons a as => simp only [cutLines, hs, List.cons_append]; exact ⟨_, _, rfl⟩

theorem cut_wfloc : ∀ (cs : List CutLine) (q : Option Char),
    (∀ c, q = some c → isQuote c = true) → CutsOk q cs → WFloc q (cutLines cs)
  | [], _, _, h => h.elim
  | [c], q, _, h => by
    obtain ⟨h1, _, _, h4⟩ := h
    exact wfloc_skip c.skip _ [] q h1 ⟨h4, rfl⟩
  | c :: c' :: cs, q, hq, h => by
    obtain ⟨h1, h2, _, h4, h5⟩ := h
    have ih := cut_wfloc (c' :: cs) _ (quoteStateAfter_isQuote q hq c.piece) h5
    obtain ⟨x, xs, hx⟩ := cutLines_ne_nil (c' :: cs) (List.cons_ne_nil _ _)
    simp only [cutLines]
    rw [hx] at ih ⊢
    refine wfloc_skip c.skip _ _ q h1 ⟨h4, rfl, ?_⟩
    simpa [QLine.next, CutLine.line, quoteStateAfter_ind q hq c.ind c.piece h2] using ih

theorem cut_bodies : ∀ (cs : List CutLine) (q : Option Char), CutsOk q cs →
    joinBodies (cutLines cs) = ((cs.map fun c => c.ind ++ c.piece).flatten)
  | [], _, h => h.elim
  | [c], q, h => by
    simp [cutLines, joinBodies_skip c.skip _ h.1, CutLine.line, joinBodies]
  | c :: c' :: cs, q, h => by
    have ih := cut_bodies (c' :: cs) _ h.2.2.2.2
    simp only [cutLines, joinBodies_skip c.skip _ h.1, CutLine.line, joinBodies, ih]
    simp

/-- with no inserted blanks the text read back is the text that was cut -/
theorem cut_bodies_exact (cs : List CutLine) (q : Option Char) (h : CutsOk q cs)
    (hind : ∀ c ∈ cs, c.ind = []) : joinBodies (cutLines cs) = cutPieces cs := by
  rw [cut_bodies cs q h]
  unfold cutPieces
  congr 1
  apply List.map_congr_left
  intro c hc
  simp [hind c hc]

theorem cut_squeeze_aux : ∀ (cs : List CutLine) (q : Option Char),
    (∀ c, q = some c → isQuote c = true) → CutsOk q cs →
    squeezeFrom (qinit q) ((cs.map fun c => c.ind ++ c.piece).flatten) =
      squeezeFrom (qinit q) (cutPieces cs) ∧
    bangFree (qinit q) ((cs.map fun c => c.ind ++ c.piece).flatten) =
      bangFree (qinit q) (cutPieces cs) ∧
    quoteStateAfter q ((cs.map fun c => c.ind ++ c.piece).flatten) =
      quoteStateAfter q (cutPieces cs)
  | [], _, _, h => h.elim
  | [c], q, hq, h => by
    obtain ⟨_, h2, h3, _⟩ := h
    simp only [List.map_cons, List.map_nil, List.flatten_cons, List.flatten_nil, List.append_nil,
      cutPieces]
    by_cases hi : c.ind = []
    · simp [hi]
    · have := h3 hi; subst this
      refine ⟨?_, ?_, quoteStateAfter_ind none hq c.ind c.piece h2⟩
      · exact squeezeFrom_space .outside trivial rfl c.ind c.piece h2
      · rw [bangFree_append, (inert_init none (fun _ h => by cases h) c.ind h2.inert).1,
          (inert_init none (fun _ h => by cases h) c.ind h2.inert).2]; rfl
  | c :: c' :: cs, q, hq, h => by
    obtain ⟨_, h2, h3, _, h5⟩ := h
    have ih := cut_squeeze_aux (c' :: cs) _ (quoteStateAfter_isQuote q hq c.piece) h5
    have hcp : cutPieces (c :: c' :: cs) = c.piece ++ cutPieces (c' :: cs) := by
      simp [cutPieces]
    have hfl : ((c :: c' :: cs).map fun c => c.ind ++ c.piece).flatten =
        c.ind ++ (c.piece ++ ((c' :: cs).map fun c => c.ind ++ c.piece).flatten) := by
      simp
    rw [hcp, hfl]
    have hstep : squeezeFrom (qinit q) (c.piece ++ ((c' :: cs).map fun c => c.ind ++ c.piece).flatten) =
          squeezeFrom (qinit q) (c.piece ++ cutPieces (c' :: cs)) ∧
        bangFree (qinit q) (c.piece ++ ((c' :: cs).map fun c => c.ind ++ c.piece).flatten) =
          bangFree (qinit q) (c.piece ++ cutPieces (c' :: cs)) ∧
        quoteStateAfter q (c.piece ++ ((c' :: cs).map fun c => c.ind ++ c.piece).flatten) =
          quoteStateAfter q (c.piece ++ cutPieces (c' :: cs)) := by
      rw [squeezeFrom_thread q hq, squeezeFrom_thread q hq, bangFree_thread q hq,
        bangFree_thread q hq, ih.1, ih.2.1,
        Fp.Splitline.quoteStateAfter_append_quote q _ _ hq,
        Fp.Splitline.quoteStateAfter_append_quote q c.piece (cutPieces (c' :: cs)) hq, ih.2.2]
      exact ⟨rfl, rfl, rfl⟩
    by_cases hi : c.ind = []
    · simp only [hi, List.nil_append]; exact hstep
    · have := h3 hi; subst this
      have hqs := quoteStateAfter_ind none hq c.ind
        (c.piece ++ ((c' :: cs).map fun c => c.ind ++ c.piece).flatten) h2
      simp only [qinit] at hstep ⊢
      refine ⟨?_, ?_, hqs.trans hstep.2.2⟩
      · rw [squeezeFrom_space .outside trivial rfl c.ind _ h2]; exact hstep.1
      · have hin := inert_init none (fun _ h => by cases h) c.ind h2.inert
        simp only [qinit] at hin
        rw [bangFree_append, hin.1, hin.2, Bool.true_and]
        exact hstep.2.1

end Fp.Reader
