import FparserModel.Proofs.ExprLex2Parts
import FparserModel.Proofs.ExprBasic

/-! closing the induction: the iterated string step = the token-level parser -/
set_option linter.unusedSimpArgs false
set_option linter.unusedVariables false
namespace Fp.ExprLex
open Fp Fp.Expr

/-- side condition of the refinement: the line has no `/=`, or the class is below `Add_Operand`
(`mult_op` cuts `/=` in two: `step_witness_ne`) -/
def guard (k : Lv) (sg : List Seg) : Prop := noNe sg = true ∨ k.rank < 3

theorem segStep_sound {q : Pat} {right excl g0 : Bool} {sg L R : List Seg} {k : TK} {m : Str}
    (h : segStep q right excl g0 sg = some (L, k, m, R)) :
    sg = L ++ .word k m :: R ∧ toksOf g0 L ≠ [] ∧ toksOf true R ≠ [] := by
  unfold segStep at h
  split at h
  · cases h
  · rename_i x hx
    split at h
    · cases h
    · rename_i hne
      split at h
      · cases h
      · simp only [Option.some.injEq] at h
        subst h
        refine ⟨?_, fun h0 => hne (Or.inl h0), fun h0 => hne (Or.inr h0)⟩
        cases right with
        | true =>
          simp only [↓reduceIte] at hx
          split at hx
          · cases hx
          · exact (pieces_split q sg [] L k m R hx).1
        | false =>
          simp only [Bool.false_eq_true, ↓reduceIte] at hx
          exact (splitFirst_sound q sg L R k m hx).1

theorem unSeg_sound {q : Pat} : ∀ {sg : List Seg} {k : TK} {m : Str} {R : List Seg},
    unSeg q sg = some (k, m, R) → ∃ E, sg = E ++ .word k m :: R
  | [], _, _, _, h => by simp [unSeg] at h
  | .gap s :: rest, k, m, R, h => by
    simp only [unSeg] at h
    split at h
    · obtain ⟨E, hE⟩ := unSeg_sound h
      exact ⟨.gap s :: E, by rw [hE]; rfl⟩
    · cases h
  | .word k' m' :: rest, k, m, R, h => by
    simp only [unSeg] at h
    split at h
    · simp only [Option.some.injEq, Prod.mk.injEq] at h
      obtain ⟨rfl, rfl, rfl⟩ := h
      exact ⟨[], rfl⟩
    · cases h

theorem unSegStep_sound {q : Pat} {sg : List Seg} {k : TK} {m : Str} {R : List Seg}
    (h : unSegStep q sg = some (k, m, R)) : ∃ E, sg = E ++ .word k m :: R := by
  unfold unSegStep at h
  split at h
  · rename_i k' m' R' hu
    split at h
    · cases h
    · simp only [Option.some.injEq, Prod.mk.injEq] at h
      obtain ⟨rfl, rfl, rfl⟩ := h
      exact unSeg_sound hu
  · cases h

theorem noNe_split {L R : List Seg} {k : TK} {m : Str} (h : noNe (L ++ .word k m :: R) = true) :
    noNe L = true ∧ noNe R = true := by
  rw [noNe_append] at h
  simp only [Bool.and_eq_true] at h
  refine ⟨h.1, ?_⟩
  have := h.2
  simp only [noNe, List.all_cons, Bool.and_eq_true] at this ⊢
  exact this.2

theorem guard_child {k k' : Lv} {sg L R X X' : List Seg} {kk : TK} {m : Str}
    (hg : guard k sg) (hsg : sg = L ++ .word kk m :: R) (hr : k'.rank ≤ k.rank)
    (hX : X = L ∨ X = R) (hX' : noNe X' = noNe X) : guard k' X' := by
  rcases hg with h | h
  · left
    rw [hsg] at h
    obtain ⟨h1, h2⟩ := noNe_split h
    rcases hX with rfl | rfl
    · rw [hX']; exact h1
    · rw [hX']; exact h2
  · right; omega

abbrev RecOK (recS : Lv → Bool → Str → Option Ex) (recT : Lv → List T → Option Ex) : Prop :=
  ∀ (k' : Lv) (g : Bool) (str : Str) (sg' : List Seg), lexSegs str = some sg' →
    startsBlank str = false → guard k' sg' → recS k' g str = recT k' (toksOf g sg')

theorem startsBlank_prefix {a b : Str} (h : startsBlank (a ++ b) = false) (hb : b ≠ []) :
    startsBlank a = false := by
  cases a with
  | nil => rfl
  | cons c t => exact h

theorem half_rec {recS : Lv → Bool → Str → Option Ex} {recT : Lv → List T → Option Ex}
    (hrec : RecOK recS recT) {k lhs rhs : Lv} (hlr : lhs.rank ≤ k.rank) (hrr : rhs.rank ≤ k.rank)
    {g0 : Bool} {s : Str} {sg : List Seg} (hlex : lexSegs s = some sg) (hs : startsBlank s = false)
    (hg : guard k sg) {L R : List Seg} {kk : TK} {m : Str} (hsg : sg = L ++ .word kk m :: R) :
    recS lhs g0 (rstrip (strip (flat L))) = recT lhs (toksOf g0 L) ∧
    recS rhs (!startsBlank (flat R)) (strip (flat R)) = recT rhs (toksOf true R) := by
  obtain ⟨hf, ha, hc⟩ := lexSegs_canon s sg hlex
  obtain ⟨⟨haL, hcL⟩, haR, p, hcR, hpR⟩ := split_parts sg L R kk m hsg ha hc
  obtain ⟨L', l1, l2, l3⟩ := relex_part_strip L none haL hcL (by intro c h; cases h)
  obtain ⟨R', r1, r2, r3⟩ := relex_part_strip R p haR hcR hpR
  constructor
  · rw [rstrip_strip]
    have hsL : startsBlank (flat L) = false := by
      rw [← hf, hsg, flat_append] at hs
      exact startsBlank_prefix hs (by simp [flat_cons, Seg.text, (segOK_word (segC_word_parts (by
        have := hc; rw [hsg, chkA_append] at this
        simp only [Bool.and_eq_true, chkA] at this
        exact this.2.1)).1).1])
    have e := l2 g0
    rw [hsL] at e
    simp only [Bool.not_false, Bool.and_true] at e
    rw [← e]
    exact hrec lhs g0 _ L' l1 (strip_startsBlank _) (guard_child hg hsg hlr (Or.inl rfl) l3)
  · have e := r2 true
    simp only [Bool.true_and] at e
    rw [← e]
    exact hrec rhs _ _ R' r1 (strip_startsBlank _) (guard_child hg hsg hrr (Or.inr rfl) r3)

theorem cleanFor_guard {k : Lv} {sg : List Seg} (q : Pat) (hg : guard k sg) (hqm : q = .mult → 3 ≤ k.rank) :
    cleanFor q sg := by
  by_cases hq : q = .mult
  · subst hq
    rcases hg with h | h
    · exact cleanFor_mult_of_no_ne sg h
    · have := hqm rfl; omega
  · exact cleanFor_of_ne_mult q hq sg

theorem step_binL {recS : Lv → Bool → Str → Option Ex} {recT : Lv → List T → Option Ex}
    (hrec : RecOK recS recT) (k : Lv) (q : Pat) (lhs rhs : Lv)
    (hk : (rowOf k).kind = .binL) (hq : patOf (rowOf k).cls = some q) (hl : (rowOf k).lhs = some lhs)
    (hr : (rowOf k).rhs = some rhs) (hexcl : (rowOf k).excl = true → q = .defined)
    (hlr : lhs.rank ≤ k.rank) (hrr : rhs.rank ≤ k.rank) (hqm : q = .mult → 3 ≤ k.rank)
    (g0 : Bool) (s : Str) (sg : List Seg) (hlex : lexSegs s = some sg) (hs : startsBlank s = false)
    (hg : guard k sg) :
    matchStepS recS (rowOf k) g0 s = matchStep recT (rowOf k) (toksOf g0 sg) := by
  apply matchStep_refines_binL recS recT (rowOf k) q lhs rhs hk hq hl hr hexcl g0 s sg hlex
    (cleanFor_guard q hg hqm)
  intro L kk m R hseg
  exact half_rec hrec hlr hrr hlex hs hg (segStep_sound hseg).1

theorem step_binR {recS : Lv → Bool → Str → Option Ex} {recT : Lv → List T → Option Ex}
    (hrec : RecOK recS recT) (k : Lv) (q : Pat) (lhs rhs : Lv)
    (hk : (rowOf k).kind = .binR) (hq : patOf (rowOf k).cls = some q) (hl : (rowOf k).lhs = some lhs)
    (hr : (rowOf k).rhs = some rhs) (hexcl : (rowOf k).excl = true → q = .defined)
    (hlr : lhs.rank ≤ k.rank) (hrr : rhs.rank ≤ k.rank) (hqm : q = .mult → 3 ≤ k.rank)
    (g0 : Bool) (s : Str) (sg : List Seg) (hlex : lexSegs s = some sg) (hs : startsBlank s = false)
    (hg : guard k sg) :
    matchStepS recS (rowOf k) g0 s = matchStep recT (rowOf k) (toksOf g0 sg) := by
  apply matchStep_refines_binR recS recT (rowOf k) q lhs rhs hk hq hl hr hexcl g0 s sg hlex
    (cleanFor_guard q hg hqm)
  intro L kk m R hseg
  exact half_rec hrec hlr hrr hlex hs hg (segStep_sound hseg).1

theorem step_unary {recS : Lv → Bool → Str → Option Ex} {recT : Lv → List T → Option Ex}
    (hrec : RecOK recS recT) (k : Lv) (q : Pat) (rhs : Lv)
    (hk : (rowOf k).kind = .unary) (hq : patOf (rowOf k).cls = some q)
    (hr : (rowOf k).rhs = some rhs) (hrr : rhs.rank ≤ k.rank) (hqm : q ≠ .mult)
    (g0 : Bool) (s : Str) (sg : List Seg) (hlex : lexSegs s = some sg) (hs : startsBlank s = false)
    (hg : guard k sg) :
    matchStepS recS (rowOf k) g0 s = matchStep recT (rowOf k) (toksOf g0 sg) := by
  apply matchStep_refines_unary recS recT (rowOf k) q rhs hk hq hr g0 s sg hlex
    (cleanFor_of_ne_mult q hqm sg) hs
  intro kk m R hun
  obtain ⟨E, hsg⟩ := unSegStep_sound hun
  obtain ⟨hf, ha, hc⟩ := lexSegs_canon s sg hlex
  obtain ⟨_, haR, p, hcR, hpR⟩ := split_parts sg E R kk m hsg ha hc
  obtain ⟨R', r1, r2, r3⟩ := relex_part_lstrip R p haR hcR hpR
  have e := r2 true
  simp only [Bool.true_and] at e
  rw [← e]
  exact hrec rhs _ _ R' r1 (startsBlank_lstrip _) (guard_child hg hsg hrr (Or.inr rfl) r3)

theorem step_prim (recS : Lv → Bool → Str → Option Ex) (recT : Lv → List T → Option Ex)
    (g0 : Bool) (s : Str) (sg : List Seg) (hlex : lexSegs s = some sg) :
    matchStepS recS (rowOf .prim) g0 s = matchStep recT (rowOf .prim) (toksOf g0 sg) := by
  have hnp : ∀ t ∈ toksOf g0 sg, t ≠ T.lp := by
    intro t ht h0
    have := toksOf_np sg g0 t ht
    rw [h0] at this; cases this
  have h1 := primS_refines g0 s sg hlex hnp
  have hrow : rowOf .prim = ⟨.prim, .prim, .none, none, some .expr, none, false⟩ := by decide
  have h2 : matchStepS recS (rowOf .prim) g0 s = primS g0 s := by rw [hrow]; rfl
  rw [h2, h1, hrow]
  unfold matchStep
  simp only
  cases hT : toksOf g0 sg with
  | nil => rfl
  | cons t rest =>
    cases t with
    | lp => exact absurd rfl (hnp T.lp (by rw [hT]; simp))
    | rp => rfl
    | op o g => rfl
    | atom i d g => cases rest <;> rfl

theorem step_all {recS : Lv → Bool → Str → Option Ex} {recT : Lv → List T → Option Ex}
    (hrec : RecOK recS recT) (k : Lv) (g0 : Bool) (s : Str) (sg : List Seg)
    (hlex : lexSegs s = some sg) (hs : startsBlank s = false) (hg : guard k sg) :
    matchStepS recS (rowOf k) g0 s = matchStep recT (rowOf k) (toksOf g0 sg) := by
  cases k
  case expr =>
    exact step_binL hrec .expr .defined .expr .l5 (by decide) (by decide) (by decide) (by decide) (by decide) (by decide) (by decide) (by decide) g0 s sg hlex hs hg
  case l5 =>
    exact step_binL hrec .l5 .equiv .l5 .equivOp (by decide) (by decide) (by decide) (by decide) (by decide) (by decide) (by decide) (by decide) g0 s sg hlex hs hg
  case equivOp =>
    exact step_binL hrec .equivOp .or .equivOp .orOp (by decide) (by decide) (by decide) (by decide) (by decide) (by decide) (by decide) (by decide) g0 s sg hlex hs hg
  case orOp =>
    exact step_binL hrec .orOp .and .orOp .andOp (by decide) (by decide) (by decide) (by decide) (by decide) (by decide) (by decide) (by decide) g0 s sg hlex hs hg
  case andOp =>
    exact step_unary hrec .andOp .not .l4 (by decide) (by decide) (by decide) (by decide) (by decide) g0 s sg hlex hs hg
  case l4 =>
    exact step_binL hrec .l4 .rel .l3 .l3 (by decide) (by decide) (by decide) (by decide) (by decide) (by decide) (by decide) (by decide) g0 s sg hlex hs hg
  case l3 =>
    exact step_binL hrec .l3 .concat .l3 .l2 (by decide) (by decide) (by decide) (by decide) (by decide) (by decide) (by decide) (by decide) g0 s sg hlex hs hg
  case l2 =>
    exact step_binL hrec .l2 .add .l2 .addOp (by decide) (by decide) (by decide) (by decide) (by decide) (by decide) (by decide) (by decide) g0 s sg hlex hs hg
  case l2u =>
    exact step_unary hrec .l2u .add .addOp (by decide) (by decide) (by decide) (by decide) (by decide) g0 s sg hlex hs hg
  case addOp =>
    exact step_binL hrec .addOp .mult .addOp .multOp (by decide) (by decide) (by decide) (by decide) (by decide) (by decide) (by decide) (by decide) g0 s sg hlex hs hg
  case multOp =>
    exact step_binR hrec .multOp .power .l1 .multOp (by decide) (by decide) (by decide) (by decide) (by decide) (by decide) (by decide) (by decide) g0 s sg hlex hs hg
  case l1 =>
    exact step_unary hrec .l1 .defined .prim (by decide) (by decide) (by decide) (by decide) (by decide) g0 s sg hlex hs hg
  case prim =>
    exact step_prim recS recT g0 s sg hlex

theorem parseSF_succ (n : Nat) (k : Lv) (g0 : Bool) (s : Str) :
    parseSF (n+1) k g0 s =
      match matchStepS (parseSF n) (rowOf k) g0 s with
      | some e => some e
      | none => match (rowOf k).next with
        | some k' => parseSF n k' g0 s
        | none => none := rfl

/-- same fuel on both sides: the string-level parser is the token-level parser -/
theorem parse_refines_fuel : ∀ (n : Nat), RecOK (parseSF n) (parseF n) := by
  intro n
  induction n with
  | zero => intro k g s sg _ _ _; rfl
  | succ n ih =>
    intro k g0 s sg hlex hs hg
    rw [parseSF_succ, parseF_succ, step_all ih k g0 s sg hlex hs hg]
    cases matchStep (parseF n) (rowOf k) (toksOf g0 sg) with
    | some e => rfl
    | none =>
      simp only
      cases hn : (rowOf k).next with
      | none => rfl
      | some k' =>
        simp only
        apply ih k' g0 s sg hlex hs
        rcases hg with h | h
        · exact Or.inl h
        · right; have := next_rank hn; omega

end Fp.ExprLex
