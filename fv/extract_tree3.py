"""Translator for the Tree3 slice (C10 construction discipline, C18 copy protocol).

`generate(outdir)` writes `FparserModel/Generated/Tree3Proto.lean` from the LIVE code of the
repository under test:

  * `classes : List ProtoFacts` - for every rule class (every subclass of `utils.Base` in
    utils, Fortran2003, Fortran2008, C99Preprocessor): does it use the default
    `copyreg.__reduce_ex__` path (no `__reduce__`, `__reduce_ex__`, `__getstate__`,
    `__setstate__`, `__deepcopy__`, `__copy__`, `__getnewargs_ex__`, `__slots__` anywhere in
    its MRO below `object`), the arity of its `__getnewargs__` tuple, whether
    `cls.__new__(cls, *args)` binds with `_deepcopy=True`, which `__init__` is in effect;
  * `construct : ConstructFacts` - the shape (by AST) of the three pieces of code the
    construction discipline rests on: `_set_parent` (unconditional assignment for `Base`
    items, recursion into lists/tuples), `Base.__init__` (`self.parent = None`), and
    `Base.__new__` (`object.__new__(cls)`; `_set_parent(obj, result)`; `obj.init(*result)` in
    this order, `_set_parent` called nowhere else in `fparser.two`), plus the reader's
    `Line.parse_line` cache (the one source of re-used statement objects).

`Props/Tree3.lean` proves `protocol_default_generated` and `construct_generated` over these
tables by `decide`, so a change of the repository that adds a `__getstate__` to one class,
changes a constructor signature, makes `_set_parent` conditional or gives `Base` a class-level
`parent` flips the generated file and breaks the build.
"""
import ast
import inspect
import os
import sys
import textwrap

from fv import repo
repo.activate()


def _lean_str(s):
    return '"' + s.replace("\\", "\\\\").replace('"', '\\"') + '"'


def _b(x):
    return "true" if x else "false"


PROTO_ATTRS = ("__reduce__", "__reduce_ex__", "__getstate__", "__setstate__", "__deepcopy__",
               "__copy__", "__getnewargs_ex__", "__slots__")


def rule_classes():
    """All rule classes, in a deterministic order."""
    from fparser.two.parser import ParserFactory
    ParserFactory().create(std="f2008")
    from fparser.two import utils, Fortran2003, Fortran2008, C99Preprocessor
    seen = []
    ids = set()

    def reg(c):
        if inspect.isclass(c) and issubclass(c, utils.Base) and id(c) not in ids:
            ids.add(id(c))
            seen.append(c)
    for mod in (utils, Fortran2003, C99Preprocessor, Fortran2008):
        for _, c in sorted(inspect.getmembers(sys.modules[mod.__name__], inspect.isclass),
                           key=lambda p: p[0]):
            reg(c)
    # anything else reachable as a subclass (classes created by exec, sub-packages)
    todo = [utils.Base]
    while todo:
        c = todo.pop()
        for s in sorted(c.__subclasses__(), key=lambda k: (k.__module__, k.__qualname__)):
            if s.__module__.startswith("fparser."):
                reg(s)
                todo.append(s)
    return seen


def _resolved(cls, name):
    for k in cls.__mro__:
        if name in k.__dict__:
            return k, k.__dict__[name]
    return None, None


def class_facts(cls):
    from fparser.two.utils import Base
    custom = [a for k in cls.__mro__ if k is not object for a in PROTO_ATTRS if a in k.__dict__]
    gowner, gfunc = _resolved(cls, "__getnewargs__")

    class _Stub:
        string = "<s>"
    try:
        args = gfunc(_Stub()) if gfunc is not None else None
    except Exception:
        args = None
    nowner, nfunc = _resolved(cls, "__new__")
    nfunc = getattr(nfunc, "__func__", nfunc)
    binds = False
    if args is not None and nowner is not object:
        f = nfunc
        while hasattr(f, "__wrapped__"):
            f = f.__wrapped__
        try:
            bound = inspect.signature(f).bind(cls, *args)
            binds = bound.arguments.get("_deepcopy", None) is True
        except (TypeError, ValueError):
            binds = False
    iowner, _ = _resolved(cls, "__init__")
    return {
        "name": cls.__module__.replace("fparser.two.", "") + "." + cls.__qualname__,
        "default_reduce": not custom,
        "custom": custom,
        "nargs": len(args) if args is not None else 0,
        "new_binds": bool(binds),
        "init_is_base": iowner is Base,
        "args_from": gowner.__name__ if gowner else "-",
        "new_from": nowner.__name__ if nowner else "-",
    }


# --------------------------------------------------------------------------- construction code

def _fn_ast(func):
    f = func
    while hasattr(f, "__wrapped__"):
        f = f.__wrapped__
    src = textwrap.dedent(inspect.getsource(f))
    return ast.parse(src).body[0]


def _is_name(n, ident):
    return isinstance(n, ast.Name) and n.id == ident


def _call_name(n):
    if isinstance(n, ast.Call):
        f = n.func
        if isinstance(f, ast.Name):
            return f.id
        if isinstance(f, ast.Attribute):
            return f.attr
    return None


def set_parent_shape(utils):
    """`for item in items: if item: if isinstance(item, Base): item.parent = parent_node
    elif isinstance(item, (list, tuple)): _set_parent(parent_node, item)`"""
    fn = _fn_ast(utils._set_parent)
    body = [s for s in fn.body if not (isinstance(s, ast.Expr) and isinstance(s.value, ast.Constant))]
    ok = len(body) == 1 and isinstance(body[0], ast.For)
    uncond = False
    recurses = False
    if ok:
        loop = body[0]
        ok = (len(loop.body) == 1 and isinstance(loop.body[0], ast.If)
              and _is_name(loop.body[0].test, loop.target.id) and not loop.body[0].orelse)
    if ok:
        inner = loop.body[0].body
        ok = len(inner) == 1 and isinstance(inner[0], ast.If)
    if ok:
        br = inner[0]
        t = br.test
        is_base = (_call_name(t) == "isinstance" and len(t.args) == 2 and _is_name(t.args[1], "Base"))
        asg = br.body
        uncond = (is_base and len(asg) == 1 and isinstance(asg[0], ast.Assign)
                  and len(asg[0].targets) == 1 and isinstance(asg[0].targets[0], ast.Attribute)
                  and asg[0].targets[0].attr == "parent"
                  and _is_name(asg[0].targets[0].value, loop.target.id)
                  and _is_name(asg[0].value, fn.args.args[0].arg))
        els = br.orelse
        recurses = (len(els) == 1 and isinstance(els[0], ast.If) and not els[0].orelse
                    and _call_name(els[0].test) == "isinstance"
                    and len(els[0].body) == 1 and isinstance(els[0].body[0], ast.Expr)
                    and _call_name(els[0].body[0].value) == "_set_parent")
    return bool(ok and uncond), bool(ok and recurses)


def init_shape(utils):
    fn = _fn_ast(utils.Base.__init__)
    body = [s for s in fn.body if not (isinstance(s, ast.Expr) and isinstance(s.value, ast.Constant))]
    return (len(body) == 1 and isinstance(body[0], ast.Assign)
            and isinstance(body[0].targets[0], ast.Attribute) and body[0].targets[0].attr == "parent"
            and _is_name(body[0].targets[0].value, "self")
            and isinstance(body[0].value, ast.Constant) and body[0].value.value is None)


def new_shape(utils):
    """In `Base.__new__`: the `isinstance(result, tuple)` branch is
    `obj = object.__new__(cls)` ... `_set_parent(obj, result)` ... `obj.init(*result)`
    ... `return obj`, in this order."""
    fn = _fn_ast(utils.Base.__new__)
    order = []
    for node in ast.walk(fn):
        if isinstance(node, ast.If) and _call_name(node.test) == "isinstance" \
                and len(node.test.args) == 2 and _is_name(node.test.args[0], "result") \
                and _is_name(node.test.args[1], "tuple"):
            for s in node.body:
                if isinstance(s, ast.Assign) and _call_name(s.value) == "__new__" \
                        and _is_name(s.targets[0], "obj"):
                    order.append("alloc")
                elif isinstance(s, ast.Expr) and _call_name(s.value) == "_set_parent":
                    a = s.value.args
                    order.append("attach" if len(a) == 2 and _is_name(a[0], "obj") and _is_name(a[1], "result")
                                 else "attach?")
                elif isinstance(s, ast.If):
                    for q in s.body:
                        if isinstance(q, ast.Expr) and _call_name(q.value) == "init":
                            order.append("init")
                elif isinstance(s, ast.Expr) and _call_name(s.value) == "init":
                    order.append("init")
                elif isinstance(s, ast.Return) and _is_name(s.value, "obj"):
                    order.append("return")
    return order == ["alloc", "attach", "init", "return"], order


def set_parent_call_sites():
    """number of call sites of `_set_parent` in fparser.two outside `_set_parent` itself, and
    the number of assignments to an attribute `parent` outside utils.Base/_set_parent"""
    import fparser.two as two
    root = os.path.dirname(two.__file__)
    calls = 0
    assigns = 0
    for dp, dn, fns in os.walk(root):
        if os.path.basename(dp) == "tests":
            dn[:] = []
            continue
        dn[:] = [d for d in dn if d != "tests"]
        for fname in sorted(fns):
            if not fname.endswith(".py") or fname == "symbol_table.py":
                continue
            with open(os.path.join(dp, fname), encoding="utf-8") as f:
                try:
                    tree = ast.parse(f.read())
                except SyntaxError:
                    continue
            for node in ast.walk(tree):
                if isinstance(node, ast.FunctionDef) and node.name == "_set_parent":
                    continue
                if _call_name(node) == "_set_parent":
                    calls += 1
                if isinstance(node, (ast.Assign, ast.AugAssign, ast.AnnAssign)):
                    tg = node.targets if isinstance(node, ast.Assign) else [node.target]
                    for t in tg:
                        if isinstance(t, ast.Attribute) and t.attr == "parent":
                            assigns += 1
    return calls, assigns


def parse_line_shape():
    """`Line.parse_line` : the per-(item, cls) cache - the source of re-used statement objects"""
    from fparser.common import readfortran
    src = inspect.getsource(readfortran.Line.parse_line)
    return "parse_cache" in src


def construct_facts():
    from fparser.two import utils
    uncond, recurses = set_parent_shape(utils)
    calls, assigns = set_parent_call_sites()
    ok_new, order = new_shape(utils)
    return {
        "set_parent_unconditional": uncond,
        "set_parent_recurses": recurses,
        "init_resets": bool(init_shape(utils)),
        "new_order_ok": bool(ok_new),
        "new_order": order,
        # one recursive call inside _set_parent + one in Base.__new__
        "set_parent_calls": calls,
        # item.parent = parent_node (in _set_parent) + self.parent = None (Base.__init__)
        "parent_assignments": assigns,
        "parent_class_attr": "parent" in utils.Base.__dict__ or any(
            "parent" in k.__dict__ for k in utils.Base.__mro__[1:] if k is not object),
        "line_cache": bool(parse_line_shape()),
    }


def collect():
    return {"classes": [class_facts(c) for c in rule_classes()], "construct": construct_facts()}


def render(data=None):
    data = data or collect()
    out = []
    out.append("import FparserModel.Tree3")
    out.append("/-! GENERATED by fv/extract_tree3.py from the live classes of the repository under test."
               " Do not edit. -/")
    out.append("namespace Fp.Generated.Tree3")
    out.append("open Fp.Tree3")
    out.append("")
    out.append("def classes : List ProtoFacts := [")
    rows = []
    for f in data["classes"]:
        rows.append("  ⟨%s, %s, %d, %s, %s, %s, %s⟩" % (
            _lean_str(f["name"]), _b(f["default_reduce"]), f["nargs"], _b(f["new_binds"]),
            _b(f["init_is_base"]), _lean_str(f["args_from"]), _lean_str(f["new_from"])))
    out.append(",\n".join(rows))
    out.append("]")
    out.append("")
    c = data["construct"]
    out.append("/-- shape of `_set_parent`, `Base.__init__`, `Base.__new__` (by AST), see extract_tree3.py -/")
    out.append("def construct : ConstructFacts :=")
    out.append("  { setParentUnconditional := %s, setParentRecurses := %s, initResets := %s," % (
        _b(c["set_parent_unconditional"]), _b(c["set_parent_recurses"]), _b(c["init_resets"])))
    out.append("    newOrderOk := %s, setParentCalls := %d, parentAssignments := %d," % (
        _b(c["new_order_ok"]), c["set_parent_calls"], c["parent_assignments"]))
    out.append("    parentClassAttr := %s, lineCache := %s }" % (_b(c["parent_class_attr"]), _b(c["line_cache"])))
    out.append("")
    out.append("end Fp.Generated.Tree3")
    return "\n".join(out) + "\n", {"classes": len(data["classes"]),
                                   "not_default": [f["name"] for f in data["classes"] if not f["default_reduce"]],
                                   "not_binding": [f["name"] for f in data["classes"] if not f["new_binds"]],
                                   "construct": c}


def generate(outdir=None):
    """Write Tree3Proto.lean into `outdir` (default: lean/FparserModel/Generated of this tree)."""
    if outdir is None:
        outdir = os.path.join(os.path.dirname(os.path.dirname(os.path.abspath(__file__))),
                              "lean", "FparserModel", "Generated")
    os.makedirs(outdir, exist_ok=True)
    text, stats = render()
    path = os.path.join(outdir, "Tree3Proto.lean")
    old = None
    if os.path.exists(path):
        with open(path, encoding="utf-8") as f:
            old = f.read()
    if old != text:
        with open(path, "w", encoding="utf-8") as f:
            f.write(text)
    return stats


if __name__ == "__main__":
    print(generate(sys.argv[1] if len(sys.argv) > 1 else None))
