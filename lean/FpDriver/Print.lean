import FparserModel.Wire
import FparserModel.Print
import FparserModel.Generated.PrintTables
/-!
driver commands of the Print slice (trusted glue, no theorems)

    print.tree  isfix(0|1) tab script [flip]
        script = the tree in pre-order, one node per line:
            B <cid> <number of content elements>
            L <cid> <stmt 0|1> <label|-> <x+hex of item.name|-> <x+hex of str(node)> <item id>
        the class table is `Fp.Print.Generated.tbl` (generated from the live classes); the `stmt`
        flag sent must agree with it (`err:…` otherwise), a `B` class must be a block class there
        → status (`ok` | `raises` (IndexError) | `err:<why>`),
          text by `render (printTree …)`, text by the string-level mirror `tofortran`,
          one line per printed line: `<tab length> <L|E> <cid> <item id> <depth>`,
          `sane` (0|1), number of leaves of the frontier
        flip (optional, any value): the deliberately WRONG driver of the negative control
        (prints ELSE/CASE/ELSEWHERE at body indentation)
    print.table → `cid:printer` of the block classes, `stmt` cids, `end` cids
-/
namespace FpDriver.Print
open Fp Fp.Wire Fp.Print

def toks (s : String) : List String := (s.splitOn " ").filter (· ≠ "")
def lines (s : String) : List String := (s.splitOn "\n").filter (· ≠ "")

def optNat (s : String) : Option Nat := if s == "-" then none else s.toNat?
def xhex (s : String) : Str := (dec (s.drop 1).toString).toList
def optStr (s : String) : Option Str := if s == "-" then none else some (xhex s)

mutual
def parseTree : Nat → List (List String) → Option (Tree × List (List String))
  | 0, _ => none
  | _ + 1, [] => none
  | fuel + 1, l :: rest =>
    match l with
    | ["B", c, n] =>
      match parseN fuel n.toNat! rest with
      | some (ks, rest') => some (.block c.toNat! ks, rest')
      | none => none
    | ["L", c, st, lab, nm, tx, it] =>
      some (.leaf { cls := c.toNat!, stmt := st == "1", label := optNat lab, name := optStr nm,
                    text := xhex tx, item := it.toNat! }, rest)
    | _ => none
def parseN : Nat → Nat → List (List String) → Option (List Tree × List (List String))
  | 0, _, _ => none
  | _ + 1, 0, rest => some ([], rest)
  | fuel + 1, n + 1, rest =>
    match parseTree fuel rest with
    | some (t, rest') =>
      match parseN fuel n rest' with
      | some (ts, rest'') => some (t :: ts, rest'')
      | none => none
    | none => none
end

mutual
/-- first disagreement between the tree and the generated class table -/
def tableCheck : Tree → Option String
  | .leaf l =>
    if Generated.isBlock l.cls then some ("leaf of block class " ++ toString l.cls)
    else if Generated.isStmt l.cls != l.stmt then some ("stmt flag of class " ++ toString l.cls)
    else none
  | .block c ks => if !Generated.isBlock c then some ("block of non-block class " ++ toString c) else tableCheckL ks
def tableCheckL : List Tree → Option String
  | [] => none
  | t :: ts => match tableCheck t with
    | some e => some e
    | none => tableCheckL ts
end

def S (s : Str) : String := String.ofList s

def showLine (ln : Line) (d : Nat) : String :=
  match ln.src with
  | .leaf l => toString ln.tab.length ++ " L " ++ toString l.cls ++ " " ++ toString l.item ++ " " ++ toString d
  | .empty c => toString ln.tab.length ++ " E " ++ toString c ++ " 0 " ++ toString d

/-- the wrong table of the negative control -/
def flipTbl (T : Tbl) : Tbl :=
  { T with isElse := fun _ => false, isCase := fun _ => false, isElsewhere := fun _ => false }

def handleTree (isfix tab script : String) (flip : Bool) : String :=
  let ls := (lines script).map toks
  match parseTree (2 * ls.length + 4) ls with
  | none => "ERR\t" ++ enc "unreadable tree script"
  | some (t, _) =>
    let T := if flip then flipTbl Generated.tbl else Generated.tbl
    match tableCheck t with
    | some e => "OK\t" ++ enc ("err:" ++ e)
    | none =>
      if t.raises T then "OK\t" ++ enc "raises"
      else
        let fx := isfix == "1"
        let out := printTree T tab.toList t
        let ds := (printDepths T 0 t).map (·.1)
        "OK\t" ++ enc "ok" ++ "\t" ++ enc (S (render fx out)) ++ "\t" ++ enc (S (tofortran T fx tab.toList t))
        ++ "\t" ++ enc ("\n".intercalate ((out.zip ds).map fun p => showLine p.1 p.2))
        ++ "\t" ++ enc (if t.sane T then "1" else "0") ++ "\t" ++ enc (toString t.frontier.length)

def showPrinter : Printer → String
  | .blockBase => "blockBase" | .componentPart => "componentPart" | .whereC => "where" | .ifC => "if"
  | .caseC => "case" | .labelDo => "labelDo" | .actionTerm => "actionTerm"

def handle (cmd : String) (args : List String) : Option String :=
  match cmd, args with
  | "print.tree", [isfix, tab, script] => some (handleTree (dec isfix) (dec tab) (dec script) false)
  | "print.tree", [isfix, tab, script, _] => some (handleTree (dec isfix) (dec tab) (dec script) true)
  | "print.table", _ =>
    some ("OK\t" ++ enc (" ".intercalate (Generated.printers.map fun p => toString p.1 ++ ":" ++ showPrinter p.2))
      ++ "\t" ++ enc (" ".intercalate (Generated.stmtCls.map toString))
      ++ "\t" ++ enc (" ".intercalate (Generated.endCls.map toString)))
  | "print.tree", _ => some ("ERR\t" ++ enc "print.tree: isfix tab script [flip]")
  | _, _ => none

end FpDriver.Print
