"""C20 — parsing effort stays polynomial in nesting depth and program length."""
import time
from fv import real, engine, findings
from fv.props import util

RULE = ("fixed catalogue of input families f(n) (nested parentheses, nested references, IF, block DO, CONTINUE-terminated label DO, "
        "shared-label DO, distinct-label non-block DO nest, SELECT CASE, nested BLOCK, repeated statement, repeated loop, long "
        "expression, long argument list, continued statement), sizes n = 1,2,4,…,N in increasing order under a per-size budget of "
        "rule-constructor calls (so an exponential family is caught at the first size whose doubling ratio explodes instead of "
        "hanging); measure = deterministic count of Base.__new__ invocations (reader-level and string-level); oracle: doubling "
        "ratio T(2n)/T(n) <= 2^k_f * 1.3 for all n >= 4 and T(n) <= c_f * n^k_f with the family's fixed degree k_f. "
        "non-trivial = size >= 8")
ASSUMPTIONS = ["a bound for unseen n is an extrapolation from the measured sizes; the theorems bound the modelled algorithms "
               "(eval_fuel_mono, parse_cache_once), the leaf classes' own cost is measured"]
TIE_MODULES = ["FparserModel.Block", "FparserModel.Expr"]

BUDGET = 1500000


class Budget(Exception):
    pass


def fam_parens(n):
    return "program p\n  x = " + "(" * n + "a" + ")" * n + "\nend program p\n"


def fam_refs(n):
    s = "a"
    for i in range(n):
        s = "f%d(%s)" % (i, s)
    return "program p\n  x = " + s + "\nend program p\n"


def fam_defop_pow(n):
    """valid expressions V(0)=a, V(d+1) = ( V(d) ) ** c + .y. b  (theorem
    Fp.Expr.parse_calls_exponential_witness: 2^d <= calls in the model)"""
    s = "a"
    for _ in range(n):
        s = "(" + s + ") ** c + .y. b"
    return "program p\n  x = " + s + "\nend program p\n"


def _nest(open_, close, n, body="x = 1"):
    lines = ["program p"]
    for i in range(n):
        lines.append("  " * (i + 1) + open_(i))
    lines.append("  " * (n + 1) + body)
    for i in reversed(range(n)):
        lines.append("  " * (i + 1) + close(i))
    lines.append("end program p")
    return "\n".join(lines) + "\n"


def fam_if(n):
    return _nest(lambda i: "if (a%d > 0) then" % i, lambda i: "end if", n)


def fam_do(n):
    return _nest(lambda i: "do i%d = 1, 10" % i, lambda i: "end do", n)


def fam_labeldo(n):
    return _nest(lambda i: "do %d i%d = 1, 10" % (100 + i, i), lambda i: "%d continue" % (100 + i), n)


def fam_shared(n):
    lines = ["program p"] + ["  do 10 i%d = 1, 10" % i for i in range(n)] + ["    x = 1", "10 continue", "end program p"]
    return "\n".join(lines) + "\n"


def fam_nonblock(n):
    lines = ["program p"] + ["  do %d i%d = 1, 10" % (100 + i, i) for i in range(n)]
    lines += ["%d x = x + %d" % (100 + i, i) for i in reversed(range(n))]
    lines.append("end program p")
    return "\n".join(lines) + "\n"


def fam_select(n):
    return _nest(lambda i: "select case (k%d)\n%scase (1)" % (i, "  " * (i + 1)), lambda i: "end select", n)


def fam_block(n):
    return _nest(lambda i: "block", lambda i: "end block", n)


def fam_repeat_stmt(n):
    return "program p\n" + "".join("  x%d = a(%d) + b * c\n" % (i, i) for i in range(n)) + "end program p\n"


def fam_repeat_loop(n):
    return "program p\n" + "".join("  do i = 1, 10\n    x(i) = %d\n  end do\n" % i for i in range(n)) + "end program p\n"


def fam_repeat_nonblock(n):
    """n consecutive (not nested) non-block DO loops, each ended by a labelled action statement"""
    return "subroutine s(a)\n  real :: a(10)\n" + "".join("  do %d i = 1, 10\n%d a(i) = %d\n" % (100 + k, 100 + k, k) for k in range(n)) + "end subroutine s\n"


def fam_repeat_nonblock_commented(n):
    """as repeat-nonblock-do, a comment line in front of every DO statement (comments kept)"""
    return "subroutine s(a)\n  real :: a(10)\n" + "".join("  ! loop %d\n  do %d i = 1, 10\n%d a(i) = %d\n" % (k, 100 + k, 100 + k, k) for k in range(n)) + "end subroutine s\n"


def fam_if_commented(n):
    return _nest(lambda i: "! level %d\n%sif (a%d > 0) then" % (i, "  " * (i + 1), i), lambda i: "end if ! %d" % i, n)


def fam_paren_dotted(n):
    """nested parentheses with a dotted operator on every level"""
    e = "b"
    for i in range(n):
        e = "a%d .and. (%s)" % (i, e)
    return "program p\n  x = " + e + "\nend program p\n"


def fam_paren_rel(n):
    e = "i .lt. j"
    for i in range(n):
        e = "a%d .or. (%s)" % (i, e)
    return "program p\n  if (" + e + ") x = 1\nend program p\n"


def fam_long_expr(n):
    return "program p\n  x = " + " + ".join("a%d * b%d" % (i, i) for i in range(n)) + "\nend program p\n"


def fam_args(n):
    return "program p\n  call s(" + ", ".join("a%d" % i for i in range(n)) + ")\nend program p\n"


def fam_continued(n):
    return "program p\n  x = a0 &\n" + "".join("    + a%d &\n" % i for i in range(1, n)) + "    + z\nend program p\n"


def fam_units(n):
    return "".join("subroutine s%d(a)\n  real :: a\n  a = %d\nend subroutine s%d\n" % (i, i, i) for i in range(n))


# family -> (generator, degree k_f, max size quick, max size thorough)
FAMILIES = {
    "nested-parens": (fam_parens, 1, 32, 64),
    "nested-refs": (fam_refs, 1, 32, 64),
    "paren-pow-defined-unary": (fam_defop_pow, 1, 16, 32),
    "nested-if": (fam_if, 1, 32, 128),
    "nested-do": (fam_do, 1, 32, 128),
    "label-do-continue": (fam_labeldo, 1, 32, 128),
    "shared-label-do": (fam_shared, 1, 32, 128),
    "nonblock-do-distinct-labels": (fam_nonblock, 1, 32, 64),
    "nested-select": (fam_select, 1, 32, 128),
    "nested-block": (fam_block, 1, 32, 128),
    "repeat-statement": (fam_repeat_stmt, 1, 128, 1024),
    "repeat-loop": (fam_repeat_loop, 1, 64, 512),
    "repeat-nonblock-do": (fam_repeat_nonblock, 1, 32, 128),
    "repeat-nonblock-do+comments": (fam_repeat_nonblock_commented, 1, 32, 128),
    "nested-if+comments": (fam_if_commented, 1, 32, 128),
    "nested-paren-dotted": (fam_paren_dotted, 1, 32, 64),
    "nested-paren-relational": (fam_paren_rel, 1, 32, 64),
    "long-expression": (fam_long_expr, 1, 64, 256),
    "long-arglist": (fam_args, 1, 64, 256),
    "continued-statement": (fam_continued, 1, 64, 256),
    "repeat-units": (fam_units, 1, 64, 512),
}


def count_calls(src, std="f2008", keep=False):
    """(calls at reader level, calls at string level, outcome kind); aborts over BUDGET"""
    U = real.U
    orig = U.Base.__new__
    cnt = [0, 0]

    def counting(cls, string, *a, **k):
        if isinstance(string, real.RF.FortranReaderBase):
            cnt[0] += 1
        else:
            cnt[1] += 1
        if cnt[0] + cnt[1] > BUDGET:
            raise Budget()
        return orig(cls, string, *a, **k)
    real.get_parser(std)
    U.Base.__new__ = counting
    try:
        try:
            o = real.try_parse(src, std=std, free=True, ignore_comments=not keep)
            kind = o.kind
            if o.kind == "other" and isinstance(o.exc, Budget):
                kind = "budget"
            if o.kind == "other" and isinstance(o.exc, RecursionError):
                kind = "recursion"
        except Budget:
            kind = "budget"
    finally:
        U.Base.__new__ = orig
    return cnt[0], cnt[1], kind


def run_case(case):
    name = case["family"]
    genf, k, nq, nt = FAMILIES[name]
    nmax = nt if case["tier"] == "thorough" else nq
    res = {"key": ["family", name, case.get("std")], "counts": {}, "findings": [], "nontrivial": True}
    sizes = []
    n = 1
    while n <= nmax:
        sizes.append(n)
        n *= 2
    T = {}
    t0 = time.time()
    rp = {"case": case}
    for n in sizes:
        src = genf(n)
        a, b, kind = count_calls(src, case.get("std", "f2008"), keep=name.endswith("+comments"))
        T[n] = a + b
        if n >= 8:
            res.setdefault("keys", []).append("%s:%s:%d" % (name, case.get("std"), n))
        res["counts"]["size:%d" % n] = a + b
        if kind == "budget":
            res["findings"].append({"signature": "superpolynomial:" + name,
                                    "what": "%s: more than %d rule-constructor calls at n=%d (counts so far %s)" % (name, BUDGET, n, T),
                                    "replay": dict(rp, source=src, counts=T)})
            break
        if kind == "recursion":
            res["counts"]["recursion-limit-at"] = n
            break
        if kind != "tree":
            res["findings"].append({"signature": "family-rejected:" + name, "what": "%s(n=%d) not accepted: %s" % (name, n, kind),
                                    "replay": dict(rp, source=src)})
            break
        if n >= 8 and n // 2 in T and T[n // 2] > 0:
            ratio = T[n] / T[n // 2]
            if ratio > (2 ** k) * 1.3:
                res["findings"].append({"signature": "superpolynomial:" + name,
                                        "what": "%s: doubling n from %d to %d multiplies the count by %.2f (> 2^%d*1.3); counts %s" % (name, n // 2, n, ratio, k, T),
                                        "replay": dict(rp, source=src, counts=T)})
                break
        if time.time() - t0 > 200:
            break
    res["sample"] = {"family": name, "counts": T}
    res["evals"] = len(T)
    res["table"] = T
    return res


def cases(tier, seed):
    return [{"family": f, "tier": tier, "std": std, "_timeout": 900} for f in FAMILIES for std in ("f2008", "f2003")
            if not (std == "f2003" and f in ("nested-block",))]


def run(tier, rep, st):
    results = engine.run_cases(__name__, cases(tier, rep.seed), rep)
    rep.evaluations = sum(r.get("evals", 0) for r in results)
    rep.coverage["tables"] = {r["_case"]["family"] + "/" + r["_case"].get("std", ""): r.get("table") for r in results}
    rep.coverage["exhaustive"] = True
