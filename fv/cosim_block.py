"""Co-simulation of model M-D (lean/FparserModel/Block.lean) against the real fparser2.

`check_source(model, src, ...)` runs the REAL parser on `src` with observation wrappers
installed from this process (no change to /repo):

* `readfortran.Line.parse_line`   every `(item, cls) -> outcome + node-info`, including cache
                                  hits and exceptions  (this is the recorded ORACLE)
* `reader.next` / `reader.put_item`   the get/put sequence of the item stream
* `SYMBOL_TABLES.enter_scope/exit_scope/remove/clear`   the scope operations

then sends the recorded oracle to the compiled Lean model and compares outcome kind, tree
skeleton, ORDER of oracle queries, get/put sequence, scope-operation sequence, final scope
forest and current scope chain, and the number of items pulled.  A query of the model that the
recording does not contain is a disagreement.

    timeout 1800 /venv/bin/python -m fv.cosim_block --seed 0 --n 300
"""
import argparse
import collections
import contextlib
import logging
import random
import sys

from fv import repo
from fv import extract_block

repo.activate()

from fparser.common import readfortran                      # noqa: E402
from fparser.common.sourceinfo import FortranFormat          # noqa: E402
from fparser.two import utils as f2utils                     # noqa: E402
from fparser.two import Fortran2003                          # noqa: E402
from fparser.two.parser import ParserFactory                 # noqa: E402
from fparser.two.symbol_table import SYMBOL_TABLES           # noqa: E402

MAIN0_SCOPE = extract_block.MAIN0_SCOPE
FUEL = 4000

EXC_TAG = {"NoMatch": 2, "Syntax": 3, "InternalSyntax": 4, "SystemExit": 5, "Other": 6}


def exc_kind(err):
    if isinstance(err, f2utils.NoMatchError):
        return "NoMatch"
    if isinstance(err, f2utils.FortranSyntaxError):
        return "Syntax"
    if isinstance(err, f2utils.InternalSyntaxError):
        return "InternalSyntax"
    if isinstance(err, SystemExit):
        return "SystemExit"
    return "Other"


class Names:
    """interning of lower-cased names: 0 = "", 1 = the Main_Program0 scope name"""

    def __init__(self):
        self.ids = {"": 0, MAIN0_SCOPE: 1}
        self.names = ["", MAIN0_SCOPE]

    def get(self, s):
        s = s.lower()
        if s not in self.ids:
            self.ids[s] = len(self.names)
            self.names.append(s)
        return self.ids[s]


class ClassIds:
    """class object -> id of the generated table (unknown classes get fresh ids)"""

    def __init__(self, table):
        self.table = table
        self.keys = [e["key"] for e in table["classes"]]
        self.by_modname = {(e["module"], e["name"]): e["id"] for e in table["classes"]}
        self.extra = {}

    def known(self, cls):
        return self.by_modname.get((cls.__module__, cls.__name__))

    def get(self, cls):
        i = self.known(cls)
        if i is None:
            k = (cls.__module__, cls.__name__)
            if k not in self.extra:
                self.extra[k] = len(self.keys)
                self.keys.append("%s@%s?" % (cls.__name__, cls.__module__.split(".")[-1]))
            i = self.extra[k]
        return i

    def key(self, i):
        return self.keys[i] if i < len(self.keys) else "?%d" % i


def _opt(x):
    return 0 if x is None else x + 1


class Recording:
    """everything observed during one real parse"""

    def __init__(self, table, reader):
        self.cids = ClassIds(table)
        self.names = Names()
        self.reader = reader
        self.items = []            # item objects, index = id (keeps them alive)
        self.item_id = {}          # id(obj) -> index
        self.item_kind = []        # (kind, directive)
        self.blank = []            # blank[p] after p items pulled
        self.blank_eof = None
        self.oracle = {}           # (item, cls) -> entry tokens (first call)
        self.queries = []          # (item, cls) in call order, cache hits included
        self.sops = []             # g<i> / g- / p<i>
        self.scops = []            # e<n> / x / r<n>
        self.cleared = 0
        self.reader_exit = False
        self.hits = 0

    # -- reader facts --------------------------------------------------------------
    def is_blank(self):
        rd = self.reader
        return (not rd.source_lines) or all(
            (line.strip() == "" or rd.is_comment_line(line)) for line in rd.source_lines)

    def see(self, item):
        key = id(item)
        if key not in self.item_id:
            self.item_id[key] = len(self.items)
            self.items.append(item)
            if isinstance(item, readfortran.Comment):
                directive = Fortran2003.Directive(item) is not None
                self.item_kind.append((1, int(directive)))
            elif isinstance(item, readfortran.CppDirective):
                self.item_kind.append((2, 0))
            else:
                self.item_kind.append((0, 0))
            self.blank.append(self.is_blank())
        return self.item_id[key]

    # -- node info -----------------------------------------------------------------
    def info(self, obj):
        cids = self.cids
        nm = self.names

        def call(name):
            if not hasattr(obj, name):
                return 0, None
            try:
                return 1, getattr(obj, name)()
            except Exception:  # pylint: disable=broad-except
                return 1, None

        scoping = isinstance(obj, f2utils.ScopingRegionMixin)
        scope_name = None
        if scoping:
            try:
                scope_name = nm.get(obj.get_scope_name())
            except Exception:  # pylint: disable=broad-except
                scope_name = None
        hsl, sl = call("get_start_label")
        hel, el = call("get_end_label")
        hsn, sn = call("get_start_name")
        hen, en = call("get_end_name")
        hn, n = call("get_name")
        if n is not None:
            try:
                n = n.string
            except AttributeError:
                n = None

        def lab(x):
            return _opt(int(x)) if x is not None else 0

        def name(x):
            return _opt(nm.get(x)) if isinstance(x, str) else 0
        isa = sorted({cids.known(b) for b in type(obj).__mro__ if cids.known(b) is not None}
                     | {cids.get(type(obj))})
        return [cids.get(type(obj)), int(scoping), _opt(scope_name), hsl, lab(sl), hel, lab(el),
                hsn, name(sn), hen, name(en), hn, name(n), len(isa)] + isa


@contextlib.contextmanager
def observe(rec):
    """install the wrappers; remove them again whatever happens"""
    reader = rec.reader
    orig_parse_line = readfortran.Line.parse_line
    orig_next = reader.next
    orig_put = reader.put_item
    st_saved = {}

    def parse_line(self, cls, parent_cls):
        iid = rec.see(self)
        cid = rec.cids.get(cls)
        rec.queries.append((iid, cid))
        hit = cls in self.parse_cache
        before = list(parent_cls)
        try:
            obj = orig_parse_line(self, cls, parent_cls)
        except BaseException as err:
            if not hit:
                added = [rec.cids.get(c) for c in parent_cls[len(before):]]
                rec.oracle[(iid, cid)] = [EXC_TAG[exc_kind(err)], len(added)] + added
            raise
        if hit:
            rec.hits += 1
        else:
            added = [rec.cids.get(c) for c in parent_cls[len(before):]]
            if obj is None:
                rec.oracle[(iid, cid)] = [0, len(added)] + added
            else:
                if getattr(obj, "item", None) is None:
                    # Base.__new__ does exactly this right after parse_line returns
                    obj.item = self
                rec.oracle[(iid, cid)] = [1, len(added)] + added + rec.info(obj)
        return obj

    def nxt(*a, **k):
        try:
            item = orig_next(*a, **k)
        except StopIteration:
            rec.sops.append("g-")
            if rec.blank_eof is None:
                rec.blank_eof = rec.is_blank()
            raise
        except SystemExit:
            # the READER ended the process (its error() calls sys.exit, F-C06-4): the item
            # stream is cut in the middle of the parse, outside what the block model describes
            rec.reader_exit = True
            raise
        rec.sops.append("g%d" % rec.see(item))
        return item

    def put(item):
        rec.sops.append("p%d" % rec.see(item))
        return orig_put(item)

    def mk_scope(nm, orig):
        def fn(*a, **k):
            if nm == "enter_scope":
                rec.scops.append("e%d" % rec.names.get(a[0] if a else k["name"]))
            elif nm == "exit_scope":
                rec.scops.append("x")
            elif nm == "remove":
                rec.scops.append("r%d" % rec.names.get(a[0] if a else k["name"]))
            elif nm == "rollback":
                rec.scops.append("b")
            else:
                rec.cleared += 1
            return orig(*a, **k)
        return fn

    prev_disable = logging.root.manager.disable
    logging.disable(logging.CRITICAL)
    readfortran.Line.parse_line = parse_line
    reader.next = nxt
    reader.put_item = put
    for nm in ("enter_scope", "exit_scope", "remove", "clear", "rollback"):
        if not hasattr(SYMBOL_TABLES, nm):
            continue
        st_saved[nm] = SYMBOL_TABLES.__dict__.get(nm)
        setattr(SYMBOL_TABLES, nm, mk_scope(nm, getattr(SYMBOL_TABLES, nm)))
    try:
        yield rec
    finally:
        readfortran.Line.parse_line = orig_parse_line
        for obj, nm in ((reader, "next"), (reader, "put_item")):
            if nm in obj.__dict__:
                del obj.__dict__[nm]
        for nm, val in st_saved.items():
            if val is None:
                if nm in SYMBOL_TABLES.__dict__:
                    del SYMBOL_TABLES.__dict__[nm]
            else:
                setattr(SYMBOL_TABLES, nm, val)
        logging.disable(prev_disable)


# ----------------------------------------------------------------------------------------
def skeleton(rec, obj):
    """S-expression of the tree: blocks `(cls kid…)`, everything else `(cls #item)`"""
    c = rec.cids.get(type(obj))
    if isinstance(obj, f2utils.BlockBase):
        return "(" + " ".join([str(c)] + [skeleton(rec, k) for k in obj.content]) + ")"
    item = getattr(obj, "item", None)
    return "(%d #%s)" % (c, rec.item_id.get(id(item), "?"))


def _parse_sexpr(s):
    toks = s.replace("(", " ( ").replace(")", " ) ").split()
    pos = 0

    def one():
        nonlocal pos
        if toks[pos] == "(":
            pos += 1
            out = []
            while toks[pos] != ")":
                out.append(one())
            pos += 1
            return out
        pos += 1
        return toks[pos - 1]
    out = []
    while pos < len(toks):
        out.append(one())
    return out


def real_forest(rec):
    def one(tab):
        return [str(rec.names.get(tab.name))] + [one(c) for c in tab.children]
    return sorted((one(t) for t in SYMBOL_TABLES._symbol_tables.values()), key=lambda x: int(x[0]))


def real_chain(rec):
    out = []
    cur = SYMBOL_TABLES.current_scope
    while cur is not None:
        out.append(str(rec.names.get(cur.name)))
        cur = cur.parent
    return out


def pretty_sexpr(rec, s):
    def one(x):
        if isinstance(x, list):
            head = rec.cids.key(int(x[0])) if x and not isinstance(x[0], list) else "?"
            return "(" + " ".join([head] + [one(y) for y in x[1:]]) + ")"
        return x
    return " ".join(one(x) for x in _parse_sexpr(s))


def run_real(src, std="f2008", ignore_comments=True, process_directives=False, free_form=True):
    """-> (Recording, outcome string, skeleton, reader.linecount, forest, chain)"""
    table = extract_block.load_table(std)
    parser = ParserFactory().create(std=std)
    reader = readfortran.FortranStringReader(
        src, ignore_comments=ignore_comments, process_directives=process_directives)
    if free_form is not None:
        reader.set_format(FortranFormat(bool(free_form), False))
    rec = Recording(table, reader)
    rec.blank.append(rec.is_blank())
    outcome, tree = None, ""
    with observe(rec):
        try:
            obj = parser(reader)
            if obj is None:
                outcome = "none"
            else:
                outcome = "tree"
                tree = skeleton(rec, obj)
        except BaseException as err:  # SystemExit included
            if isinstance(err, KeyboardInterrupt):
                raise
            outcome = "raise:" + exc_kind(err)
            rec.error = err
        rec.pulled = len(rec.items)
        rec.linecount = reader.linecount
        forest = real_forest(rec)
        chain = real_chain(rec)
    # the rest of the item stream (the model is given the whole stream)
    while True:
        try:
            item = reader.next()
        except StopIteration:
            if rec.blank_eof is None:
                rec.blank_eof = rec.is_blank()
            break
        except SystemExit:
            # the reader's error() ends the process (F-C06-4): the stream ends here
            if rec.blank_eof is None:
                rec.blank_eof = rec.is_blank()
            break
        if "g-" in rec.sops:
            # the parser was told "end of stream" although the reader still has items: next()
            # swallowed an internal exception of the reader (F-C12-1: e.g. a line that consists
            # of a label only) and reported it as the end.  The stream the model would be given
            # is not the one the parser saw: outside what the block model describes.
            rec.reader_exit = True
        rec.see(item)
    SYMBOL_TABLES.clear()
    return rec, outcome, tree, forest, chain


def model_request(rec, std, process_directives, start="", fuel=FUEL):
    items = " ".join("%d %d" % kd for kd in rec.item_kind)
    blank = "".join("1" if b else "0" for b in rec.blank) + ("1" if rec.blank_eof else "0")
    oracle = ";".join(" ".join(str(x) for x in (k[0], k[1]) + tuple(v))
                      for k, v in rec.oracle.items())
    return ("block.run", std, "1" if process_directives else "0", items, blank, oracle,
            str(start), str(fuel))


def first_diff(a, b):
    for i, (x, y) in enumerate(zip(a, b)):
        if x != y:
            return i, x, y
    if len(a) != len(b):
        i = min(len(a), len(b))
        return i, (a[i] if i < len(a) else None), (b[i] if i < len(b) else None)
    return None


def check_source(model, src, std="f2008", ignore_comments=True, process_directives=False,
                 free_form=True, want_info=False):
    """None if model and code agree on `src`, else a dict describing the first disagreement.
    With want_info=True returns (disagreement-or-None, info dict)."""
    rec, outcome, tree, forest, chain = run_real(
        src, std, ignore_comments, process_directives, free_form)
    if "g-" in rec.sops:
        k_ = rec.sops.index("g-")
        if any(x[:1] == "g" and x != "g-" for x in rec.sops[k_ + 1:]):
            # next() reported the end of the stream and delivered items afterwards: it had swallowed
            # an internal exception of the reader (F-C12-1, e.g. a line that consists of a label
            # only).  The stream is not a stream: outside what the block model describes.
            rec.reader_exit = True
    if rec.reader_exit:
        info = {"outcome": outcome, "ghost": [], "classes": collections.Counter(), "queries": len(rec.queries), "hits": rec.hits,
                "items": len(rec.items), "linecount": rec.linecount, "chain": chain, "forest": forest,
                "names": rec.names.names, "tree": tree, "rec": rec, "skipped": "reader-exit"}
        return (None, info) if want_info else None
    reply = model.ask(*model_request(rec, std, process_directives))
    (m_out, m_tree, m_queries, m_sops, m_scops, m_forest, m_chain, m_pulled, m_ghost,
     m_missing) = reply
    dis = None

    def disagree(what, real, mod, step=None):
        return {"what": what, "real": real, "model": mod, "step": step, "src": src, "std": std,
                "options": (ignore_comments, process_directives, free_form)}
    r_queries = ["%d:%d" % q for q in rec.queries]
    mq = m_queries.split()
    ms = m_sops.split()
    msc = m_scops.split()
    if m_missing.strip():
        d = first_diff(r_queries, mq)
        dis = disagree("model asked a query the real run never made", r_queries[:0],
                       [("%s:%s" % (q.split(":")[0], rec.cids.key(int(q.split(":")[1]))))
                        for q in m_missing.split()[:3]], d)
    elif r_queries != mq:
        d = first_diff(r_queries, mq)

        def show(q):
            if q is None:
                return None
            i, c = q.split(":")
            return "%s:%s" % (i, rec.cids.key(int(c)))
        dis = disagree("oracle query order", show(d[1]), show(d[2]), d[0])
    elif rec.sops != ms:
        d = first_diff(rec.sops, ms)
        dis = disagree("get/put sequence", d[1], d[2], d[0])
    elif m_out != outcome:
        dis = disagree("outcome", outcome, m_out)
    elif m_tree != tree:
        dis = disagree("tree", pretty_sexpr(rec, tree), pretty_sexpr(rec, m_tree))
    elif rec.scops != msc:
        d = first_diff(rec.scops, msc)
        dis = disagree("scope operations", d[1], d[2], d[0])
    elif sorted(_parse_sexpr(m_forest), key=lambda x: int(x[0])) != forest:
        dis = disagree("final forest", forest, _parse_sexpr(m_forest))
    elif m_chain.split() != chain:
        dis = disagree("current scope chain", chain, m_chain.split())
    elif int(m_pulled) != rec.pulled:
        dis = disagree("pulled", rec.pulled, int(m_pulled))
    if want_info:
        classes_hit = collections.Counter()
        for x in tree.replace("(", " ").replace(")", " ").split():
            if not x.startswith("#"):
                classes_hit[rec.cids.key(int(x))] += 1
        info = {"outcome": outcome, "ghost": m_ghost.split(), "classes": classes_hit,
                "queries": len(rec.queries), "hits": rec.hits, "items": len(rec.items),
                "linecount": rec.linecount, "chain": chain, "forest": forest,
                "names": rec.names.names, "tree": tree, "rec": rec}
        return dis, info
    return dis


# ----------------------------------------------------------------------------------------
# generator of nested programs and structurally broken variants
class Gen:
    def __init__(self, rng, std="f2008"):
        self.rng = rng
        self.std = std
        self.label = 10
        self.uid = 0

    def fresh(self, p):
        self.uid += 1
        return "%s%d" % (p, self.uid)

    def newlabel(self):
        self.label += 10
        return self.label

    def noise(self, ind):
        r = self.rng
        out = []
        x = r.random()
        if x < 0.10:
            out.append(ind + "! a comment")
        elif x < 0.14:
            out.append(ind + "!$omp parallel do")
        elif x < 0.18:
            out += ["#ifdef FOO", "#endif"]
        elif x < 0.21:
            out.append(ind + "include 'x.inc'")
        elif x < 0.23:
            out.append("#define BAR 1")
        return out

    def simple(self, ind):
        r = self.rng
        return ind + r.choice([
            "x = y + 1", "call foo(x, y)", "a(i) = b(i) * 2", "print *, x", "i = i + 1",
            "if (x > 0) y = 1", "write(*,*) i", "continue", "x = f(y)", "return",
            "allocate(p(10))", "goto 99", "stop", "cycle", "exit"])

    def construct_name(self):
        return self.fresh("n") if self.rng.random() < 0.3 else None

    def body(self, ind, depth, n=None):
        r = self.rng
        out = []
        n = r.randint(0, 3) if n is None else n
        for _ in range(n):
            out += self.noise(ind)
            if depth <= 0 or r.random() < 0.45:
                out.append(self.simple(ind))
            else:
                out += self.construct(ind, depth - 1)
        return out

    def construct(self, ind, depth):
        r = self.rng
        kinds = ["if", "do", "labeldo", "shareddo", "actiondo", "nonblocknest", "select", "where",
                 "forall", "associate"]
        if self.std == "f2008":
            kinds += ["block", "critical", "blockindo"]
        k = r.choice(kinds)
        nm = self.construct_name()
        pre = (nm + ": ") if nm else ""
        post = (" " + nm) if nm else ""
        i2 = ind + "  "
        if k == "if":
            out = [ind + pre + "if (x > 0) then"] + self.body(i2, depth)
            for _ in range(r.randint(0, 2)):
                out += [ind + "else if (x < 0) then" + (post if r.random() < 0.5 else "")]
                out += self.body(i2, depth)
            if r.random() < 0.5:
                out += [ind + "else" + (post if r.random() < 0.5 else "")] + self.body(i2, depth)
            return out + [ind + r.choice(["end if", "endif"]) + post]
        if k == "do":
            head = r.choice(["do i = 1, 10", "do", "do while (x > 0)"])
            return [ind + pre + head] + self.body(i2, depth) + [ind + "end do" + post]
        if k == "labeldo":
            lab = self.newlabel()
            term = r.choice(["continue", "end do"])
            return [ind + "do %d i = 1, 10" % lab] + self.body(i2, depth) + \
                ["%d %s" % (lab, term)]
        if k == "shareddo":
            lab = self.newlabel()
            term = r.choice(["continue", "x = x + 1"])
            return [ind + "do %d i = 1, 10" % lab, i2 + "do %d j = 1, 10" % lab] + \
                self.body(i2 + "  ", depth) + ["%d %s" % (lab, term)]
        if k == "actiondo":
            lab = self.newlabel()
            return [ind + "do %d i = 1, 10" % lab] + self.body(i2, depth) + \
                ["%d a(i) = 0" % lab]
        if k == "nonblocknest":
            d = r.randint(2, 3)
            labs = [self.newlabel() for _ in range(d)]
            out = [ind + "do %d i%d = 1, 3" % (lab, j) for j, lab in enumerate(labs)]
            out += self.body(i2, 0, r.randint(0, 1))
            for lab in reversed(labs):
                out.append("%d x = x + 1" % lab)
            return out
        if k == "select":
            out = [ind + pre + "select case (i)"]
            for j in range(r.randint(0, 2)):
                out += [ind + "case (%d)" % j + (post if r.random() < 0.3 else "")]
                out += self.body(i2, depth)
            if r.random() < 0.5:
                out += [ind + "case default"] + self.body(i2, depth)
            return out + [ind + "end select" + post]
        if k == "where":
            out = [ind + pre + "where (a > 0)", i2 + "a = 1"]
            if r.random() < 0.5:
                out += [ind + "elsewhere (a < 0)", i2 + "a = 2"]
            if r.random() < 0.5:
                out += [ind + "elsewhere", i2 + "a = 3"]
            return out + [ind + "end where" + post]
        if k == "forall":
            return [ind + pre + "forall (i = 1:10)", i2 + "a(i) = i", ind + "end forall" + post]
        if k == "associate":
            return [ind + pre + "associate (z => x)"] + self.body(i2, depth) + \
                [ind + "end associate" + post]
        if k == "block":
            return [ind + pre + "block", i2 + "integer :: k"] + self.body(i2, depth) + \
                [ind + "end block" + post]
        if k == "critical":
            return [ind + pre + "critical"] + self.body(i2, depth) + \
                [ind + "end critical" + post]
        if k == "blockindo":
            lab = self.newlabel()
            b = self.fresh("b")
            return [ind + "do %d i = 1, 3" % lab, i2 + b + ": block", i2 + "  integer :: k",
                    i2 + "end block " + b, "%d x = 1" % lab]
        raise AssertionError(k)

    def spec(self, ind):
        r = self.rng
        out = []
        if r.random() < 0.3:
            out.append(ind + "use some_mod, only: q")
        if r.random() < 0.5:
            out.append(ind + "implicit none")
        out += self.noise(ind)
        for _ in range(r.randint(0, 3)):
            x = r.random()
            if x < 0.5:
                out.append(ind + r.choice(["integer :: i, j", "real :: x, y", "real :: a(10), b(10)",
                                           "logical :: flag", "integer, parameter :: n = 3"]))
            elif x < 0.7:
                t = self.fresh("t")
                out += [ind + "type " + t, ind + "  integer :: f1", ind + "  real :: f2"]
                if r.random() < 0.3:
                    out += [ind + "contains", ind + "  procedure :: m => impl"]
                out += [ind + r.choice(["end type", "end type " + t])]
            elif x < 0.9:
                nm = self.fresh("s")
                out += [ind + "interface", ind + "  subroutine %s(a)" % nm, ind + "    real :: a",
                        ind + "  end subroutine " + r.choice(["", nm]), ind + "end interface"]
            else:
                out += [ind + "enum, bind(c)", ind + "  enumerator :: red = 1", ind + "end enum"]
        return out

    def subprogram(self, ind, depth, allow_contains=True):
        r = self.rng
        nm = self.fresh("p")
        kind = r.choice(["subroutine", "function"])
        head = "%s %s(%s)" % (kind, nm, r.choice(["", "a", "a, b"])) if kind == "subroutine" \
            else "function %s(a)" % nm
        out = [ind + head] + self.spec(ind + "  ") + self.body(ind + "  ", depth)
        if allow_contains and r.random() < 0.25:
            out += [ind + "contains"] + self.subprogram(ind + "  ", depth - 1, False)
        end = r.choice(["end", "end " + kind, "end %s %s" % (kind, nm)])
        return out + [ind + end]

    def unit(self, depth):
        r = self.rng
        k = r.choice(["program", "module", "sub", "sub", "program"])
        if k == "program":
            nm = self.fresh("prog")
            out = ["program " + nm] + self.spec("  ") + self.body("  ", depth)
            if r.random() < 0.3:
                out += ["contains"] + self.subprogram("  ", depth - 1, False)
            return out + [r.choice(["end", "end program", "end program " + nm])]
        if k == "module":
            nm = self.fresh("m")
            out = ["module " + nm] + self.spec("  ")
            if r.random() < 0.6:
                out += ["contains"]
                for _ in range(r.randint(1, 2)):
                    out += self.noise("  ") + self.subprogram("  ", depth)
            return out + [r.choice(["end", "end module", "end module " + nm])]
        return self.subprogram("", depth)

    def program(self):
        r = self.rng
        out = self.noise("")
        for _ in range(r.randint(1, 3)):
            out += self.unit(r.randint(0, 3)) + self.noise("")
        return out


BREAKS = ["none", "none", "drop_end", "wrong_end_name", "surplus_end", "garbage", "wrong_unit_name",
          "main0_then_unit", "main0_only", "internal_syntax", "endif_name", "missing_end_name",
          "open_do", "empty", "comments_only", "main0_syntax", "drop_line", "dup_line",
          "sysexit_nested", "garbage_tail"]


def mutate(rng, lines, how):
    lines = list(lines)

    def idx(pred):
        cand = [i for i, l in enumerate(lines) if pred(l.strip().lower())]
        return rng.choice(cand) if cand else None
    if how == "none":
        return lines
    if how == "drop_end":
        i = idx(lambda l: l.startswith("end") or l.endswith("continue"))
        if i is not None:
            del lines[i]
    elif how == "wrong_end_name":
        i = idx(lambda l: l.startswith("end ") and len(l.split()) == 3)
        if i is not None:
            p = lines[i].split()
            lines[i] = " ".join(p[:2] + ["wrongname"])
    elif how == "surplus_end":
        i = rng.randrange(len(lines) + 1)
        lines.insert(i, rng.choice(["end if", "end do", "end", "end subroutine", "end select",
                                    "end block", "end program"]))
    elif how == "garbage":
        i = rng.randrange(len(lines) + 1)
        lines.insert(i, rng.choice(["@@ garbage", "x = = 1", "if (x then", "end do do", "1 2 3"]))
    elif how == "wrong_unit_name":
        i = idx(lambda l: l.startswith(("end subroutine", "end function", "end module",
                                        "end program")))
        if i is not None:
            p = lines[i].split()
            lines[i] = " ".join(p[:2] + ["wrongname"])
    elif how == "main0_then_unit":
        lines = ["i = 1", "end"] + lines
        if rng.random() < 0.5:
            lines = ["subroutine zz", "end subroutine zz"] + lines
    elif how == "main0_only":
        lines = ["integer :: i", "i = 1", rng.choice(["end", "end program"])] + \
            (["@@ garbage"] if rng.random() < 0.5 else [])
    elif how == "main0_syntax":
        lines = ["integer :: a", "if (a > 0) then", "end if foo", "end"]
    elif how == "internal_syntax":
        i = idx(lambda l: l in ("x = y + 1", "i = i + 1", "x = f(y)"))
        if i is not None:
            lines[i] = "a = sin(1.0, 2.0)"
    elif how == "endif_name":
        i = idx(lambda l: l in ("end if", "endif", "end do", "end select"))
        if i is not None:
            lines[i] = lines[i] + " nosuch"
    elif how == "missing_end_name":
        i = idx(lambda l: l.startswith("end ") and len(l.split()) == 3
                and l.split()[1] in ("if", "do", "select", "where", "block", "critical",
                                     "associate", "forall"))
        if i is not None:
            lines[i] = " ".join(lines[i].split()[:2])
    elif how == "open_do":
        i = idx(lambda l: l in ("x = y + 1", "i = i + 1", "call foo(x, y)"))
        if i is not None:
            lines.insert(i, "do 7777 k = 1, 3")
    elif how == "empty":
        lines = rng.choice([[], [""], ["   ", ""]])
    elif how == "comments_only":
        lines = ["! only a comment", "", "! another"]
    elif how == "drop_line":
        if lines:
            del lines[rng.randrange(len(lines))]
    elif how == "dup_line":
        if lines:
            i = rng.randrange(len(lines))
            lines.insert(i, lines[i])
    elif how == "sysexit_nested":
        lines = ["module m", "contains", "subroutine s", "end subroutine q", "end module m"]
    elif how == "garbage_tail":
        lines = lines + ["@@ garbage"]
    return lines


def gen_sources(rng, n, std="f2008"):
    """-> list of (source text, how-it-was-broken)"""
    out = []
    for _ in range(n):
        g = Gen(rng, std)
        lines = g.program()
        how = rng.choice(BREAKS)
        out.append(("\n".join(mutate(rng, lines, how)) + "\n", how))
    return out


FIXED = [
    # known defects of the pinned tree (DESIGN §8) and the paths around them
    ("subroutine s\nend subroutine q\n", "F-C06-1"),
    ("module m\ncontains\nsubroutine s\nend subroutine q\nend module m\n", "F-C09-3"),
    ("i = 1\nend\n@@ garbage\n", "F-C08-1"),
    ("subroutine a\nend subroutine a\ni = 1\nend\n", "F-C02-1"),
    ("integer :: a\nif (a > 0) then\nend if foo\nend\n", "F-C09-1"),
    ("program p\na = sin(1.0, 2.0)\nend program p\n", "F-C09-2"),
    ("program p\ndo 10 i=1,3\nb1: block\ninteger :: k\nend block b1\n10 x = 1\nend program p\n",
     "F-C16-1"),
    ("program p\ndo 10 i=1,3\nx = 1\nend program p\n", "seqDrop"),
    ("program p\ndo 100 i=1,2\ndo 101 j=1,2\ndo 102 k=1,2\n102 x=1\n101 x=1\n100 x=1\nend\n",
     "F-C20-2"),
    ("", "empty"),
    ("! c\n\n", "comments"),
    ("program p\nend program q\n", "main-name"),
    ("program p\nif (x) then\nend if\nend program p\nsubroutine s\nend\n", "two-units"),
    ("subroutine a\nend\nsubroutine a\nx = = 1\nend\n", "reuse-top"),
    ("subroutine s\ndo 12 i=1,n ! c\ndo 12 j=1,n\n12 continue\nif (ok) then\nend if\nend subroutine s\n",
     "shared-do-comment"),
    ("subroutine s\ndo 12 i=1,n\n#ifdef X\ndo 12 j=1,n\n#endif\n! c\n12 x = x + 1\nend subroutine s\n",
     "shared-do-cpp"),
    ("program p\ndo 10 i=1,3\nx = 1\nend do\n10 continue\nend program p\n", "enddo-label-mismatch"),
    ("program p\ndo 10 i=1,3\n20 end do\nend program p\n", "enddo-wrong-label"),
    ("program p\nouter: do 24 k=1,2\n24 end do wrong\nend program p\n", "labeldo-wrong-name"),
    ("program p\nouter: do 24 k=1,2\n24 end do outer\nend program p\n", "labeldo-name-ok"),
    ("program p\nouter: do 24 k=1,2\n24 end do\nend program p\n", "labeldo-name-missing"),
    ("program p\ndo 24 k=1,2\n24 end do nm\nend program p\n", "labeldo-name-nostart"),
    ("program p\nouter: do 24 k=1,2\ninner: do 24 j=1,2\n24 continue\nend program p\n", "labeldo-shared-named"),
    ("block data\nend block data bd\n", "unnamed-start"),
    ("module m\ncontains\nsubroutine s\nblock data\nend block data bd\nend subroutine s\nend module m\n",
     "unnamed-start-nested"),
    ("subroutine a\nend subroutine a\n@@garbage\n", "table-left"),
]


def main(argv=None):
    ap = argparse.ArgumentParser()
    ap.add_argument("--seed", type=int, default=0)
    ap.add_argument("--n", type=int, default=300)
    ap.add_argument("--verbose", action="store_true")
    ap.add_argument("--exe", default=None, help="model driver binary (default: the built one)")
    args = ap.parse_args(argv)
    from fv.model import get_model, Model
    model = Model(args.exe) if args.exe else get_model()
    rng = random.Random(args.seed)
    cases = []
    for src, how in FIXED:
        for std in ("f2003", "f2008"):
            cases.append((src, how, std, True, False))
        cases.append((src, how, "f2008", False, True))
    for std in ("f2008", "f2003"):
        for src, how in gen_sources(rng, args.n // 2, std):
            opt = rng.random()
            ic, pd = (True, False) if opt < 0.5 else ((False, False) if opt < 0.75 else (False, True))
            cases.append((src, how, std, ic, pd))
    outcomes = collections.Counter()
    ghosts = collections.Counter()
    classes = collections.Counter()
    hows = collections.Counter()
    disagreements = []
    nq = 0
    leak_bad = []     # outcome tree/none/Syntax although a scope leak event was logged
    drop_tree = collections.Counter()   # a tree was returned although items were dropped
    open_scope = collections.Counter()  # runs that end with a scope still open, by outcome
    stale = 0         # failed parse that leaves tables behind
    for src, how, std, ic, pd in cases:
        dis, info = check_source(model, src, std=std, ignore_comments=ic, process_directives=pd,
                                 want_info=True)
        outcomes[info["outcome"]] += 1
        hows[(how, info["outcome"])] += 1
        for g in set(info["ghost"]):
            ghosts[g] += 1
        classes.update(info["classes"].keys())
        nq += info["queries"]
        gh = set(info["ghost"])
        if info["outcome"] in ("tree", "none", "raise:Syntax") and \
                gh & {"scopeLeak", "main0Leak", "emptyScopeName"}:
            leak_bad.append((how, info["outcome"], src))
        if info["outcome"] == "tree":
            for g in gh & {"seqDrop", "hookDrop", "progDrop", "noMatchDrop"}:
                drop_tree[g] += 1
        if info["chain"]:
            open_scope[info["outcome"]] += 1
        if info["outcome"] != "tree" and info["forest"]:
            stale += 1
        if dis:
            dis["how"] = how
            disagreements.append(dis)
            if args.verbose:
                print("DISAGREE", how, dis["what"], dis["step"], dis["real"], dis["model"])
                print(src)
    print("cosim_block: %d sources, %d oracle queries" % (len(cases), nq))
    print("  outcomes: " + ", ".join("%s=%d" % kv for kv in sorted(outcomes.items())))
    print("  model boundary events (runs): " +
          (", ".join("%s=%d" % kv for kv in sorted(ghosts.items())) or "-"))
    blocks = sorted(k for k in classes)
    print("  classes seen in result trees: %d" % len(blocks))
    print("  constructs hit: " + " ".join(
        k for k in blocks if k.endswith(("_Construct", "_Subprogram", "_Def", "_Block", "_Part"))
        or k in ("Module", "Main_Program", "Main_Program0", "Program", "Comment", "Directive",
                 "Include_Stmt", "Cpp_If_Stmt", "Cpp_Macro_Stmt", "Cpp_Endif_Stmt")))
    print("  mutation x outcome: " + ", ".join(
        "%s/%s=%d" % (k[0], k[1], v) for k, v in sorted(hows.items())))
    print("  property view of the runs (model = code on every run that agrees):")
    print("    C09 scope left open, by outcome: %s" % (dict(open_scope) or "none"))
    print("    C09 leak event with outcome tree/none/Syntax: %d%s" % (
        len(leak_bad), "".join("\n      [%s %s]\n%s" % (h, o, "\n".join(
            "        | " + l for l in sx.splitlines())) for h, o, sx in leak_bad[:3])))
    print("    C16 failed parse leaving symbol tables: %d" % stale)
    print("    C02/C08 tree returned although items were dropped: %s" % (dict(drop_tree) or "none"))
    print("  disagreements: %d" % len(disagreements))
    for d in disagreements[:10]:
        print("   - [%s %s] %s at step %s: real=%r model=%r\n%s" % (
            d["how"], d["std"], d["what"], d["step"], d["real"], d["model"],
            "\n".join("       | " + l for l in d["src"].splitlines())))
    return 1 if disagreements else 0


if __name__ == "__main__":
    sys.exit(main())
