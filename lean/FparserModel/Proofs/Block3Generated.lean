import FparserModel.Proofs.Block3Eval
import FparserModel.Generated.Blocks2003
import FparserModel.Generated.Blocks2008

/-!
# M-D (C16): the discipline as a kernel-checkable property of a class table, and its check
on the generated tables (re-checked by `lake build` whenever the tables are regenerated)
-/
namespace Fp.Block

/-- the table part of `Discipline` for one class -/
def clsOK (tbl : Table) (S : Cls → Bool) (c : Cls) : Bool :=
  (S c || (altsOf (tbl.kind c)).all (fun d => !S d)) &&
  (match cfgOf (tbl.kind c) with
   | some cfg => cfg.subs.all (fun d => !S d) && cfg.end_.toList.all (fun d => !S d) &&
                 (!cfg.doHook || cfg.start.toList.all (fun d => !S d))
   | none => true) &&
  (match tbl.kind c with
   | .program _ m _ => !S m
   | _ => true)

/-- … for the classes `0 … n-1` and the fixed classes -/
def disciplineOK (tbl : Table) (S : Cls → Bool) (n : Nat) : Bool :=
  (List.range n).all (clsOK tbl S) &&
  !S tbl.comment && !S tbl.directive && !S tbl.includeStmt && !S tbl.cppFn

theorem Discipline.of_check {env : Env} {S : Cls → Bool} {n : Nat}
    (hc : disciplineOK env.tbl S n = true) (hleaf : ∀ c, n ≤ c → env.tbl.kind c = .leaf)
    (horc : ∀ i c info, (env.orc i c).res = .matched info → info.scoping = true → S c = true) :
    Discipline env S := by
  simp only [disciplineOK, Bool.and_eq_true, Bool.not_eq_true', List.all_eq_true,
    List.mem_range] at hc
  obtain ⟨⟨⟨⟨hall, h1⟩, h2⟩, h3⟩, h4⟩ := hc
  have hcls : ∀ c, clsOK env.tbl S c = true := by
    intro c
    by_cases h : c < n
    · exact hall c h
    · have hk := hleaf c (Nat.le_of_not_lt h)
      simp [clsOK, hk, altsOf, cfgOf]
  refine ⟨horc, ?_, ?_, ?_, ?_, h1, h2, h3, h4, ?_⟩
  · intro c hS d hdm
    have := hcls c
    simp only [clsOK, Bool.and_eq_true, Bool.or_eq_true, hS, Bool.false_eq_true, false_or,
      List.all_eq_true, Bool.not_eq_true'] at this
    exact this.1.1 d hdm
  · intro c cfg hk d hdm
    have := hcls c
    simp only [clsOK, hk, Bool.and_eq_true, List.all_eq_true, Bool.not_eq_true'] at this
    exact this.1.2.1.1 d hdm
  · intro c cfg hk d hdm
    have := hcls c
    simp only [clsOK, hk, Bool.and_eq_true, List.all_eq_true, Bool.not_eq_true'] at this
    exact this.1.2.1.2 d hdm
  · intro c cfg hk hdo d hdm
    have := hcls c
    simp only [clsOK, hk, hdo, Bool.and_eq_true, List.all_eq_true, Bool.not_eq_true',
      Bool.not_true, Bool.false_or] at this
    exact this.1.2.2 d hdm
  · intro c unit m subs hk
    have := hcls c
    simp only [clsOK, hk, Bool.and_eq_true, Bool.not_eq_true'] at this
    exact this.2

/-! ## the generated tables -/

/-- the statement classes that mix in `ScopingRegionMixin` (`two/utils.py`, `Fortran2003.py`,
`Fortran2008/block_stmt_r808.py`, `Fortran2008/submodule_stmt_r1117.py`) -/
def scopingStmts : List String :=
  ["Program_Stmt", "Module_Stmt", "Function_Stmt", "Subroutine_Stmt", "Block_Stmt",
   "Submodule_Stmt"]

def S2003 : Cls → Bool := fun c => scopingStmts.contains (Generated.F2003.names.getD c "")
def S2008 : Cls → Bool := fun c => scopingStmts.contains (Generated.F2008.names.getD c "")

/-- the block classes that open a symbol table: those whose start class is a scoping
statement, and `Main_Program0` -/
def scopingBlockNames (names : Array String) (kinds : Array Kind) (S : Cls → Bool) : List String :=
  (List.range names.size).filterMap fun c =>
    match kinds.getD c .leaf with
    | .block cfg _ => if cfg.start.toList.any S then some (names.getD c "") else none
    | .main0 .. => some (names.getD c "")
    | _ => none

theorem scoping_blocks_2003 :
    scopingBlockNames Generated.F2003.names Generated.F2003.kinds S2003 =
      ["Function_Body", "Function_Subprogram", "Main_Program", "Main_Program0", "Module",
       "Subroutine_Body", "Subroutine_Subprogram"] := by decide +kernel

theorem scoping_blocks_2008 :
    scopingBlockNames Generated.F2008.names Generated.F2008.kinds S2008 =
      ["Block_Construct", "Function_Body", "Function_Subprogram", "Main_Program",
       "Main_Program0", "Module", "Submodule", "Subroutine_Body", "Subroutine_Subprogram"] := by
  decide +kernel

theorem discipline_check_2003 :
    disciplineOK Generated.F2003.table S2003 Generated.F2003.names.size = true := by
  decide +kernel
theorem discipline_check_2008 :
    disciplineOK Generated.F2008.table S2008 Generated.F2008.names.size = true := by
  decide +kernel

set_option maxRecDepth 20000 in
theorem kinds_size_2003 : Generated.F2003.kinds.size = Generated.F2003.names.size := by
  decide +kernel
set_option maxRecDepth 20000 in
theorem kinds_size_2008 : Generated.F2008.kinds.size = Generated.F2008.names.size := by
  decide +kernel

theorem leaf_beyond_2003 (c : Cls) (h : Generated.F2003.names.size ≤ c) :
    Generated.F2003.table.kind c = .leaf := by
  have h2 : ¬ c < Generated.F2003.kinds.size := by rw [kinds_size_2003]; exact Nat.not_lt.mpr h
  simp only [Generated.F2003.table, Array.getD, dif_neg h2]

theorem leaf_beyond_2008 (c : Cls) (h : Generated.F2008.names.size ≤ c) :
    Generated.F2008.table.kind c = .leaf := by
  have h2 : ¬ c < Generated.F2008.kinds.size := by rw [kinds_size_2008]; exact Nat.not_lt.mpr h
  simp only [Generated.F2008.table, Array.getD, dif_neg h2]

end Fp.Block
