"""Translator: class facts of the real fparser2 -> Lean literals + JSON twin.

`generate(outdir)` imports the real fparser (via fv.repo), and for std in (f2003, f2008)
records what `ParserFactory.create(std)` sees and produces:

* the raw `inspect.getmembers` lists of `fparser.two.Fortran2003` / `fparser.two.Fortran2008`
  (member name, class) -- the input of `create`'s class selection;
* per class: module, `__name__`, MRO names, `subclass_names`, `use_names`, has (own /
  inherited) `match`, is BlockBase subclass, is ScopingRegionMixin, custom `__new__`, which
  `__getnewargs__` it resolves to, the copy-protocol facts (`__getnewargs__` reads
  `self.string`; instances have `.string`; `__new__` accepts the `__getnewargs__` tuple and
  routes its last element to `_deepcopy`);
* the REAL `Base.subclasses` after `create(std)` (name -> ordered classes);
* the intrinsic name tables of Fortran2003.Intrinsic_Name and Fortran2008 Intrinsic_Name.

Outputs (deterministic, rewritten only on change):
  <outdir>/Classes2003.lean  Classes2008.lean  Intrinsics.lean   (namespace Fp.Generated)
  <outdir>/classes.json                                         (twin for the harness)

Numeric ids keep `decide +kernel` fast: every class name / rule name is an index into
`Fp.Generated.names`; every class object is a `cid` (index into `allClasses`).
"""
import inspect
import json
import os
import sys

MOD_IDS = {"fparser.two.Fortran2003": 0, "fparser.two.Fortran2008": 1,
           "fparser.two.C99Preprocessor": 2, "fparser.two.utils": 3}
MOD_OTHER = 4


def _mod_id(modname):
    if modname.startswith("fparser.two.Fortran2008"):
        return 1
    return MOD_IDS.get(modname, MOD_OTHER)


# --------------------------------------------------------------------------- sample instances

_SAMPLE = """\
! leading comment
#define X 1
module m
  use other, only: q
  implicit none
  integer, parameter :: k = 4
  !$omp threadprivate(k)
  type :: t
    integer :: a
  end type t
  interface
    subroutine ext(a)
      integer :: a
    end subroutine ext
  end interface
contains
  subroutine s(a, b)
    real(kind=k), intent(in) :: a(:)
    real, intent(out) :: b
    integer :: i
    include 'inc.h'
    b = 0.0
    do i = 1, size(a)
      if (a(i) > 0) then
        b = b + sin(a(i)) ** 2
      else
        b = b - 1
      end if
    end do
    select case (i)
    case (1)
      print *, "one"
    case default
      write(*, '(a)') 'other'
    end select
    call ext(i)
  end subroutine s
  function f(x) result(y)
    real :: x, y
    y = x * 2.0
  end function f
end module m
program p
  use m
  real :: z(3), w
  z = [1.0, 2.0, 3.0]
  b1: block
    integer :: j
    j = 1
  end block b1
  call s(z, w)
end program p
"""


def _collect_instances():
    """Parse a sample (comments kept, directives on, cpp, include) with both standards and
    return {class: [instances]} for every node class that occurs."""
    from fparser.two.parser import ParserFactory
    from fparser.common.readfortran import FortranStringReader
    from fparser.two.utils import Base, walk
    found = {}
    for std in ("f2003", "f2008"):
        parser = ParserFactory().create(std=std)
        src = _SAMPLE
        if std == "f2003":
            # BLOCK is F2008
            src = src.replace("  b1: block\n    integer :: j\n    j = 1\n  end block b1\n", "")
        try:
            reader = FortranStringReader(src, ignore_comments=False, process_directives=True)
        except TypeError:
            reader = FortranStringReader(src, ignore_comments=False)
        tree = parser(reader)
        for node in walk(tree):
            if isinstance(node, Base):
                found.setdefault(type(node), []).append(node)
    ParserFactory().create(std="f2003")
    return found


# --------------------------------------------------------------------------- per class facts

def _resolved(cls, attr):
    """(owner class, function) of `attr` along the MRO, or (None, None)."""
    for k in cls.__mro__:
        if attr in k.__dict__:
            return k, k.__dict__[attr]
    return None, None


def _src(func):
    func = getattr(func, "__func__", func)
    func = getattr(func, "__wrapped__", func)
    try:
        return inspect.getsource(func)
    except (OSError, TypeError):
        return ""


def _getnewargs_template(cls, instances):
    """The tuple `__getnewargs__` returns, with the string replaced by a dummy.  Obtained
    from a real instance when possible, else by calling the function on a stub object."""
    owner, func = _resolved(cls, "__getnewargs__")
    if func is None:
        return None, None, False
    needs_string = "self.string" in _src(func)

    class _Stub:
        string = "<s>"
    try:
        args = func(_Stub())
    except Exception:  # pragma: no cover - exotic __getnewargs__
        args = None
    return owner, args, needs_string


def _new_accepts(cls, args):
    """Does `cls.__new__(cls, *args)` bind, with the last element going to `_deepcopy`?"""
    if args is None:
        return False
    owner, func = _resolved(cls, "__new__")
    func = getattr(func, "__func__", func)
    if owner is object:
        return len(args) == 0
    try:
        sig = inspect.signature(func)
        bound = sig.bind(cls, *args)
    except (TypeError, ValueError):
        return False
    return bound.arguments.get("_deepcopy", None) is True


def _has_string(cls, instances):
    """Do instances of cls get a `.string` attribute?  By construction where we have
    instances, else by inspecting the `__new__` the class resolves to."""
    if instances:
        return all(hasattr(i, "string") for i in instances), "constructed"
    from fparser.two.utils import Base
    owner, func = _resolved(cls, "__new__")
    if owner is Base:
        return True, "inspected"
    src = _src(func)
    if ".string =" in src or "Base.__new__(" in src or "super().__new__(cls, string" in src:
        return True, "inspected"
    return False, "inspected"


def _name_list(cls, attr):
    """`subclass_names` / `use_names` as a list, or None when the attribute is missing (or
    is not a sequence: `Type_Declaration_StmtBase.use_names = None`)."""
    val = getattr(cls, attr, None)
    if isinstance(val, (list, tuple)):
        return list(val)
    return None


def _protocol_ok(cls, instances):
    """Behavioural check of the copy protocol on a live instance: what `copy`/`pickle` do
    for one object -- `args = obj.__getnewargs__()` then `cls.__new__(cls, *args)` must give
    a bare instance of cls.  None when no instance is available."""
    if not instances:
        return None, ""
    inst = instances[0]
    try:
        args = inst.__getnewargs__()
    except Exception as err:  # e.g. AttributeError: no attribute 'string'
        return False, "getnewargs: %s: %s" % (type(err).__name__, err)
    try:
        new = cls.__new__(cls, *args)
    except Exception as err:  # e.g. TypeError: __new__() takes ...
        return False, "new: %s: %s" % (type(err).__name__, err)
    if type(new) is not cls:
        return False, "new returned %s" % type(new).__name__
    return True, ""


def _facts(cls, cid, instances):
    from fparser.two.utils import Base, BlockBase, ScopingRegionMixin
    is_rule = isinstance(cls, type(Base)) and issubclass(cls, Base)
    d = {
        "cid": cid,
        "module": cls.__module__,
        "mod": _mod_id(cls.__module__),
        "name": cls.__name__,
        "bases": [k.__name__ for k in cls.__mro__[1:] if k is not object],
        "is_rule": bool(is_rule),
        "ends_base": cls.__name__.endswith("Base"),
        "has_match": hasattr(cls, "match"),
        "own_match": "match" in cls.__dict__,
        "subclass_names": _name_list(cls, "subclass_names"),
        "use_names": _name_list(cls, "use_names"),
        "is_block": bool(is_rule and issubclass(cls, BlockBase)),
        "is_scoping": bool(inspect.isclass(cls) and issubclass(cls, ScopingRegionMixin)),
        "custom_new": "__new__" in cls.__dict__,
    }
    if is_rule:
        new_owner, _ = _resolved(cls, "__new__")
        gna_owner, args, needs_string = _getnewargs_template(cls, instances)
        has_string, how = _has_string(cls, instances)
        d.update({
            "new_owner": new_owner.__name__ if new_owner else None,
            "getnewargs_owner": gna_owner.__name__ if gna_owner else None,
            "getnewargs_arity": len(args) if args is not None else None,
            "args_need_string": bool(needs_string),
            "has_string": bool(has_string),
            "has_string_how": how,
            "new_accepts": bool(_new_accepts(cls, args)),
            "protocol_ok": _protocol_ok(cls, instances)[0],
            "protocol_note": _protocol_ok(cls, instances)[1],
            "custom_copy": any(a in k.__dict__ for k in cls.__mro__ if k is not object
                               for a in ("__deepcopy__", "__copy__", "__reduce__",
                                         "__reduce_ex__", "__getstate__", "__setstate__")),
        })
    else:
        d.update({"new_owner": None, "getnewargs_owner": None, "getnewargs_arity": None,
                  "args_need_string": False, "has_string": False, "has_string_how": "n/a",
                  "new_accepts": False, "custom_copy": False,
                  "protocol_ok": None, "protocol_note": ""})
    return d


# --------------------------------------------------------------------------- collection

def collect():
    from fv import repo
    repo.activate()
    from fparser.two.parser import ParserFactory, get_module_classes  # noqa: F401
    from fparser.two import Fortran2003, Fortran2008, C99Preprocessor, utils
    from fparser.two.utils import Base

    ParserFactory().create(std="f2003")
    instances = _collect_instances()

    raw03 = inspect.getmembers(sys.modules[Fortran2003.__name__], inspect.isclass)
    raw08 = inspect.getmembers(sys.modules[Fortran2008.__name__], inspect.isclass)
    rawc99 = [(n, c) for n, c in inspect.getmembers(C99Preprocessor, inspect.isclass)
              if c.__module__ == C99Preprocessor.__name__]

    # cid numbering: classes defined in Fortran2003 (member order), then everything else
    # reachable from raw03 / C99 (utils bases, ...), then what only raw08 brings.
    order03, order08 = [], []
    seen = {}

    def reg(cls, bucket):
        if cls not in seen:
            seen[cls] = None
            bucket.append(cls)
    for _, c in raw03:
        if c.__module__ == Fortran2003.__name__:
            reg(c, order03)
    for _, c in raw03:
        reg(c, order03)
    for _, c in rawc99:
        reg(c, order03)
    for _, c in raw08:
        reg(c, order08)
    classes = order03 + order08
    cid = {c: i for i, c in enumerate(classes)}
    facts = [_facts(c, cid[c], instances.get(c)) for c in classes]
    n03 = len(order03)

    # name table
    names = []
    nid = {}

    def name_id(s):
        if s not in nid:
            nid[s] = len(names)
            names.append(s)
        return nid[s]
    for f in facts:
        name_id(f["name"])
    for n, _ in raw03 + raw08:
        name_id(n)
    for f in facts:
        for s in (f["subclass_names"] or []) + (f["use_names"] or []):
            name_id(s)

    real = {}
    for std in ("f2003", "f2008"):
        ParserFactory().create(std=std)
        reg_ = []
        for key, lst in Base.subclasses.items():
            reg_.append((key, [cid[c] for c in lst]))
        real[std] = reg_
    # leave the process in the default state
    ParserFactory().create(std="f2003")

    i03 = Fortran2003.Intrinsic_Name
    i08 = Fortran2008.Intrinsic_Name

    def intr(cls):
        return {
            "function_names": list(cls.function_names),
            "generic": [(k, v["min"], v["max"]) for k, v in cls.generic_function_names.items()],
            "specific": list(cls.specific_function_names.items()),
        }
    # the static facts (signature / source inspection) must agree with the behaviour of
    # the live instances; a disagreement is reported by the co-simulation as a failure
    conflicts = []
    for f in facts:
        if f["is_rule"] and f["protocol_ok"] is not None:
            static_ok = ((not f["args_need_string"]) or f["has_string"]) and f["new_accepts"]
            if static_ok != f["protocol_ok"]:
                conflicts.append((f["name"], static_ok, f["protocol_ok"], f["protocol_note"]))
    return {
        "fact_conflicts": conflicts,
        "names": names,
        "classes": facts,
        "n03": n03,
        "raw03": [(n, cid[c]) for n, c in raw03],
        "raw08": [(n, cid[c]) for n, c in raw08],
        "c99": [cid[c] for _, c in rawc99],
        "real": real,
        "intrinsics": {"f2003": intr(i03), "f2008": intr(i08)},
        "fortran2003_module": Fortran2003.__name__,
    }


# --------------------------------------------------------------------------- Lean rendering

def _b(x):
    return "true" if x else "false"


def _nl(xs):
    return "[" + ", ".join(str(x) for x in xs) + "]"


def _opt_nl(xs, nid):
    if xs is None:
        return "none"
    return "(some " + _nl([nid[s] for s in xs]) + ")"


def _lstr(s):
    return '"' + s.replace("\\", "\\\\").replace('"', '\\"') + '"'


def _class_lit(f, nid):
    return ("⟨%d, %d, %d, %s, %s, %s, %s, %s, %s, %s, %s, %s, %s, %s⟩" % (
        f["cid"], nid[f["name"]], f["mod"], _b(f["is_rule"]), _b(f["ends_base"]),
        _b(f["has_match"]), _opt_nl(f["subclass_names"], nid), _opt_nl(f["use_names"], nid),
        _b(f["is_block"]), _b(f["is_scoping"]), _b(f["custom_new"]),
        _b(f["args_need_string"]), _b(f["has_string"]), _b(f["new_accepts"])))


def _chunks(xs, n):
    return [xs[i:i + n] for i in range(0, len(xs), n)] or [[]]


def _emit_list(lines, name, typ, items, per=40):
    """Emit `def name : typ := chunk0 ++ chunk1 ...` with small chunks (keeps the
    elaborator's recursion depth and the kernel's work per definition small)."""
    parts = _chunks(items, per)
    for i, part in enumerate(parts):
        lines.append("def %s_%d : %s := [" % (name, i, typ))
        lines.append(",\n".join("  " + p for p in part))
        lines.append("]")
    lines.append("def %s : %s := %s" % (
        name, typ, " ++ ".join("%s_%d" % (name, i) for i in range(len(parts)))))


def _reg_items(reg, nid):
    return ["(%d, %s)" % (nid[k], _nl(v)) for k, v in reg]


HEADER = ("/- GENERATED by fv/extract_classes.py from the real fparser tree -- do not edit.\n"
          "   Regenerated by `./check setup`; rewritten only when the facts change. -/\n")


def render(data):
    nid = {s: i for i, s in enumerate(data["names"])}
    facts = data["classes"]
    n03 = data["n03"]
    out = {}

    L = [HEADER, "import FparserModel.Registry", "namespace Fp.Generated", "open Fp.Registry", ""]
    L.append("/-- id -> class / rule name -/")
    _emit_list(L, "names", "List String", [_lstr(s) for s in data["names"]], per=60)
    L.append("")
    L.append("/-- classes of Fortran2003.py, utils.py bases, C99Preprocessor.py : cid = position -/")
    _emit_list(L, "classes2003", "List ClassFacts", [_class_lit(f, nid) for f in facts[:n03]])
    L.append("")
    L.append("/-- `inspect.getmembers(Fortran2003, isclass)` : (member name, cid) -/")
    _emit_list(L, "raw2003", "List (Nat × Nat)",
               ["(%d, %d)" % (nid[n], c) for n, c in data["raw03"]], per=100)
    L.append("")
    L.append("/-- cids of the C99Preprocessor node classes (occur in trees, not in the registry) -/")
    L.append("def c99 : List Nat := " + _nl(data["c99"]))
    L.append("")
    L.append("/-- the REAL `Base.subclasses` after `create('f2003')` : (name, cids), dict order -/")
    _emit_list(L, "real2003", "List (Nat × List Nat)", _reg_items(data["real"]["f2003"], nid))
    L.append("")
    L.append("end Fp.Generated")
    out["Classes2003.lean"] = "\n".join(L) + "\n"

    L = [HEADER, "import FparserModel.Generated.Classes2003", "namespace Fp.Generated",
         "open Fp.Registry", ""]
    L.append("/-- classes only reachable through the Fortran2008 package : cid = n03 + position -/")
    _emit_list(L, "classes2008", "List ClassFacts", [_class_lit(f, nid) for f in facts[n03:]])
    L.append("")
    L.append("def allClasses : List ClassFacts := classes2003 ++ classes2008")
    L.append("")
    L.append("/-- `inspect.getmembers(Fortran2008, isclass)` : (member name, cid) -/")
    _emit_list(L, "raw2008", "List (Nat × Nat)",
               ["(%d, %d)" % (nid[n], c) for n, c in data["raw08"]], per=100)
    L.append("")
    L.append("/-- the REAL `Base.subclasses` after `create('f2008')` -/")
    _emit_list(L, "real2008", "List (Nat × List Nat)", _reg_items(data["real"]["f2008"], nid))
    L.append("")
    L.append("end Fp.Generated")
    out["Classes2008.lean"] = "\n".join(L) + "\n"

    L = [HEADER, "namespace Fp.Generated", ""]
    for std, tag in (("f2003", "2003"), ("f2008", "2008")):
        I = data["intrinsics"][std]
        L.append("/-- `Intrinsic_Name.function_names` (%s) -/" % std)
        _emit_list(L, "intrNames" + tag, "List String",
                   [_lstr(s) for s in I["function_names"]], per=60)
        L.append("/-- `generic_function_names` (%s): (name, min, max) ; max = none is unlimited -/" % std)
        _emit_list(L, "intrGeneric" + tag, "List (String × Nat × Option Nat)",
                   ["(%s, %d, %s)" % (_lstr(k), mn, "none" if mx is None else "some %d" % mx)
                    for k, mn, mx in I["generic"]], per=60)
        L.append("/-- `specific_function_names` (%s): specific -> generic -/" % std)
        _emit_list(L, "intrSpecific" + tag, "List (String × String)",
                   ["(%s, %s)" % (_lstr(k), _lstr(v)) for k, v in I["specific"]], per=60)
        L.append("")
    L.append("end Fp.Generated")
    out["Intrinsics.lean"] = "\n".join(L) + "\n"

    out["classes.json"] = json.dumps(data, indent=1, sort_keys=True) + "\n"
    return out


def _write_if_changed(path, text):
    try:
        with open(path, "r", encoding="utf-8") as fh:
            if fh.read() == text:
                return False
    except OSError:
        pass
    tmp = path + ".tmp"
    with open(tmp, "w", encoding="utf-8") as fh:
        fh.write(text)
    os.replace(tmp, path)
    return True


def generate(outdir=None):
    """Write the Generated files into `outdir` (default: lean/FparserModel/Generated).
    Returns the list of files that changed."""
    if outdir is None:
        from fv import model
        outdir = os.path.join(model.LEAN_DIR, "FparserModel", "Generated")
    os.makedirs(outdir, exist_ok=True)
    data = collect()
    changed = []
    for fname, text in render(data).items():
        if _write_if_changed(os.path.join(outdir, fname), text):
            changed.append(fname)
    return changed


_cache = None


def load(outdir=None):
    """The JSON twin (generated on demand)."""
    global _cache
    if _cache is None:
        if outdir is None:
            from fv import model
            outdir = os.path.join(model.LEAN_DIR, "FparserModel", "Generated")
        path = os.path.join(outdir, "classes.json")
        if not os.path.exists(path):
            generate(outdir)
        with open(path, "r", encoding="utf-8") as fh:
            _cache = json.load(fh)
    return _cache


if __name__ == "__main__":
    ch = generate(sys.argv[1] if len(sys.argv) > 1 else None)
    print("extract_classes: changed:", ch if ch else "nothing")
