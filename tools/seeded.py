#!/usr/bin/env python3
"""Development aid (not a registered command): confirm a seeded change produced by a sub-agent
in a scratch worktree and run the corresponding check(s) against it.

  tools/seeded.py C04 [--checks C04,C12] [--tier quick] [--name C04a]

Steps: (1) demo.py exits 1 with the change and 0 without (git stash); (2) the project's
test-suite passes with the change; (3) ./check <id> <tier> with FV_REPO pointing at the
worktree -> must exit 1 with a VIOLATION line; (4) files are copied to seeded/<name>/ with
meta.json. /repo itself is not touched by this script."""
import json
import os
import shutil
import subprocess
import sys

VERIF = os.path.dirname(os.path.dirname(os.path.abspath(__file__)))


def sh(cmd, cwd=None, env=None, timeout=3000):
    r = subprocess.run(cmd, shell=True, cwd=cwd, env=env, capture_output=True, text=True, timeout=timeout)
    return r.returncode, r.stdout + r.stderr


def main():
    args = sys.argv[1:]
    pid = args[0]
    checks = [pid]
    tier = "quick"
    name = pid
    wt = None
    i = 1
    while i < len(args):
        if args[i] == "--checks":
            checks = args[i + 1].split(",")
        elif args[i] == "--tier":
            tier = args[i + 1]
        elif args[i] == "--name":
            name = args[i + 1]
        elif args[i] == "--wt":
            wt = args[i + 1]
        i += 2
    src_wt = wt or "/tmp/mut/%s" % pid
    sd = os.path.join(src_wt, "_seeded")
    if not os.path.exists(os.path.join(sd, "patch.diff")):
        sd = os.path.join(VERIF, "seeded", name)
    # fresh scratch worktree at /repo's current HEAD with the patch applied
    wt = "/tmp/mut/_verify_%s" % name
    sh("git -C /repo worktree remove --force %s" % wt)
    rc, out = sh("git -C /repo worktree add -q %s HEAD" % wt)
    rc, out = sh("git apply %s/patch.diff" % sd, cwd=wt)
    if rc != 0:
        print("patch does not apply to HEAD:", out[-500:])
        sh("git -C /repo worktree remove --force %s" % wt)
        return
    env = dict(os.environ, PYTHONPATH=os.path.join(wt, "src"))
    meta = {"property": pid, "worktree_base": sh("git rev-parse HEAD", cwd=wt)[1].strip()}
    # (1) demo with / without
    rc_with, out_with = sh("timeout 600 /venv/bin/python %s/demo.py" % sd, cwd=sd, env=env)
    sh("git stash -q", cwd=wt)
    rc_without, out_without = sh("timeout 600 /venv/bin/python %s/demo.py" % sd, cwd=sd, env=env)
    sh("git stash pop -q", cwd=wt)
    meta["demo_exit_with_change"] = rc_with
    meta["demo_exit_without_change"] = rc_without
    print("demo: with change rc=%d, without rc=%d" % (rc_with, rc_without))
    # (2) suite with the change
    rc, out = sh("timeout 1500 /venv/bin/python -m pytest -q -p no:cacheprovider -n 8 --timeout=900 src 2>&1 | tail -1", cwd=wt, env=env)
    meta["suite_with_change"] = out.strip()
    print("suite:", out.strip())
    # (3) checks against the worktree
    results = {}
    for c in checks:
        e2 = dict(os.environ, FV_REPO=wt)
        rc, out = sh("timeout 3000 ./check %s %s" % (c, tier), cwd=VERIF, env=e2)
        viol = [l for l in out.splitlines() if l.startswith("VIOLATION")]
        detail = [l for l in out.splitlines() if l.startswith("  #")]
        results[c] = {"exit": rc, "violations": len(viol), "first": (viol[:1] + detail[:1]), "summary": [l for l in out.splitlines() if l.startswith(c + " ")][-1:]}
        print("check %s %s: exit %d, %d VIOLATION line(s)" % (c, tier, rc, len(viol)))
        for l in (viol[:1] + detail[:2]):
            print("   ", l[:300])
    meta["checks_run"] = results
    meta["caught_by"] = [c for c, r in results.items() if r["exit"] == 1 and r["violations"] > 0]
    notes = ""
    try:
        notes = open(os.path.join(sd, "notes.txt")).read()
    except OSError:
        pass
    meta["needs_to_manifest"] = notes[:3000]
    dst = os.path.join(VERIF, "seeded", name)
    os.makedirs(dst, exist_ok=True)
    for f in ("patch.diff", "demo.py", "notes.txt"):
        if os.path.exists(os.path.join(sd, f)) and os.path.abspath(sd) != os.path.abspath(dst):
            shutil.copy(os.path.join(sd, f), os.path.join(dst, f))
    with open(os.path.join(dst, "meta.json"), "w") as f:
        json.dump(meta, f, indent=1)
    sh("git -C /repo worktree remove --force %s" % wt)
    # restore generated files for the real repo
    sh("timeout 1200 ./check setup", cwd=VERIF)


if __name__ == "__main__":
    main()
