import FparserModel.Props.Refine
import FparserModel.Props.Print

/-!
# EndToEnd — adapters between the three proved layers (reader → stream → tree → text)

    (1) READER → STREAM   `Fp.Refine`   (`reader_refines_stream`, `chunk_run_is_represented`, `read_comments_once`)
    (2) STREAM → TREE     `Fp.Block`    (`frontier_eq_consumed`, `program_consumes_all`)
    (3) TREE → TEXT       `Fp.Print`    (`print_lines_eq_frontier`, `print_tokens_lift`, `tofortran_eq_render`)

The interfaces differ in four places; each adapter below bridges exactly one of them.

* `ChunkSource o cs r`      the source class of layer (1) as ONE proposition: the eight hypotheses that
                            `read_comments_once` / `chunk_run_is_represented` take one by one.
* `readerItems`, `streamOf` the stream layer (2) is started on: `St.init (absItems dir 0 (what the reader
                            delivers))`.  `D_streamOf`: the side condition `D st' = D st` of layer (2) is
                            `D st' = 0` on that start state (fuel: layer (2) holds for every fuel; only
                            `program_consumes_all` needs `fuel + 1`).
* item ids vs positions     `absItems_ids`: the identities layer (2)/(3) carry are the POSITIONS of the items
                            in the reader's delivery order (`List.range'`); `getElem?` at the id decodes.
* `ofBlock L` leaf payloads `leaves_flatMap`: any per-leaf reading `f` of the printed leaves `L c (absItem dir i x)`
                            that agrees with a per-item reading `g` of the reader item `x` at position `i`
                            gives `frontier.flatMap f = items.flatMap g`; it is only asked for GENUINE leaves
                            (a class and the image of a reader item at its own position) — what
                            `printed_items_of_frontier` asks for every `Block.Item`.
-/
namespace Fp.EndToEnd
open Fp Fp.Reader Fp.Refine Fp.Print

/-- THE SOURCE CLASS OF LAYER (1), bundled: a free-form reader `r` (OpenMP flag `o`) standing at the
    beginning of a source that is a list of clean chunks (comment lines, one-line statements,
    continued statements with comment / blank lines inside, preprocessor directives), none of
    whose items is a resolvable INCLUDE line.  Exactly the hypotheses of
    `Fp.Reader.read_comments_once` and `Fp.Refine.chunk_run_is_represented`. -/
structure ChunkSource (o : Bool) (cs : List Chunk) (r : Rd) : Prop where
  ok : ∀ c ∈ cs, c.ok o
  omp : r.omp = o
  fifo : r.fifo = []
  filo : r.filo = []
  notClosed : r.closed = false
  free : r.isFree = true
  src : r.src = srcOf cs
  noInc : ∀ x ∈ chunkItems r.ignoreComments r.linecount cs, NoInc x

/-- what the reader delivers for the chunk source (`read_comments_once`) -/
abbrev readerItems (r : Rd) (cs : List Chunk) : List Item :=
  chunkItems r.ignoreComments r.linecount cs

/-- the block model's start state on the reader's items -/
abbrev streamOf (dir : Item → Bool) (r : Rd) (cs : List Chunk) : Block.St :=
  Block.St.init (absItems dir 0 (readerItems r cs))

/-- no drop event has been logged at the start -/
theorem D_init (items : List Block.Item) : Block.D (Block.St.init items) = 0 := rfl

theorem all_init (items : List Block.Item) : (Block.St.init items).stream.all = items := by
  simp [Block.St.init, Block.Stream.all]

/-! ## item ids = positions of the delivery order -/

theorem absItems_ids (dir : Item → Bool) : ∀ (xs : List Item) (k : Nat),
    (absItems dir k xs).map (·.id) = List.range' k xs.length
  | [], _ => rfl
  | x :: xs, k => by
    simp only [absItems, List.map_cons, List.length_cons, List.range'_succ, absItem,
      absItems_ids dir xs (k + 1)]

theorem absItems_ids0 (dir : Item → Bool) (xs : List Item) :
    (absItems dir 0 xs).map (·.id) = List.range xs.length := by
  rw [absItems_ids, List.range_eq_range']

theorem filter_const_true {α : Type} (l : List α) : l.filter (fun _ => true) = l :=
  List.filter_eq_self.mpr (fun _ _ => rfl)

/-- filter-then-map as one `flatMap` -/
theorem filter_map_eq_flatMap {α β : Type} (q : α → Bool) (h : α → β) (l : List α) :
    (l.filter q).map h = l.flatMap fun a => if q a then [h a] else [] := by
  induction l with
  | nil => rfl
  | cons a l ih =>
    by_cases hq : q a = true
    · simp [hq, ih]
    · simp [hq, ih]

/-! ## leaf payloads: readings of the printed leaves vs readings of the reader items -/

/-- `ps` = (class, item) of the leaves of a matcher tree whose frontier is the image of `xs`
    (positions `k …` of `xs0`).  A reading `f` of the printed leaf that agrees, on genuine leaves,
    with a reading `g` of the matcher's item gives the same concatenation. -/
theorem leaves_flatMap {β : Type} (dir : Item → Bool) (L : Block.Cls → Block.Item → Leaf)
    (f : Leaf → List β) (g : Block.Item → List β) (xs0 : List Item)
    (hfg : ∀ c i x, xs0[i]? = some x → f (L c (absItem dir i x)) = g (absItem dir i x)) :
    ∀ (xs : List Item) (k : Nat) (ps : List (Block.Cls × Block.Item)),
      ps.map (·.2) = absItems dir k xs → (∀ j, xs[j]? = xs0[k + j]?) →
      (ps.map fun p => L p.1 p.2).flatMap f = (absItems dir k xs).flatMap g
  | [], _, [], _, _ => rfl
  | [], _, _ :: _, h, _ => by simp [absItems] at h
  | _ :: _, _, [], h, _ => by simp [absItems] at h
  | x :: xs, k, p :: ps, h, hx => by
    simp only [absItems, List.map_cons, List.cons.injEq] at h
    have h0 : xs0[k]? = some x := by
      have := hx 0
      simp only [List.getElem?_cons_zero, Nat.add_zero] at this
      exact this.symm
    have h1 : f (L p.1 p.2) = g (absItem dir k x) := by rw [h.1]; exact hfg p.1 k x h0
    have ih := leaves_flatMap dir L f g xs0 hfg xs (k + 1) ps h.2 (fun j => by
      have := hx (j + 1)
      simp only [List.getElem?_cons_succ] at this
      rw [this]; congr 1; omega)
    simp only [List.map_cons, List.flatMap_cons, absItems, h1, ih]

/-- a reading `g` of the matcher's items that is, on genuine items, a reading `g'` of the reader
    item: the concatenation over the image of `xs` is the concatenation over `xs` -/
theorem absItems_flatMap {β : Type} (dir : Item → Bool) (g : Block.Item → List β) (g' : Item → List β)
    (xs0 : List Item) (hg : ∀ i x, xs0[i]? = some x → g (absItem dir i x) = g' x) :
    ∀ (xs : List Item) (k : Nat), (∀ j, xs[j]? = xs0[k + j]?) →
      (absItems dir k xs).flatMap g = xs.flatMap g'
  | [], _, _ => rfl
  | x :: xs, k, hx => by
    have h0 : xs0[k]? = some x := by
      have := hx 0
      simp only [List.getElem?_cons_zero, Nat.add_zero] at this
      exact this.symm
    have ih := absItems_flatMap dir g g' xs0 hg xs (k + 1) (fun j => by
      have := hx (j + 1)
      simp only [List.getElem?_cons_succ] at this
      rw [this]; congr 1; omega)
    simp only [absItems, List.flatMap_cons, hg k x h0, ih]

/-- the same for the WHOLE frontier of `ofBlock L t` when `t.frontier` is the image of `xs0` -/
theorem frontier_flatMap_abs {β : Type} (dir : Item → Bool) (L : Block.Cls → Block.Item → Leaf)
    (f : Leaf → List β) (g : Block.Item → List β) (xs0 : List Item) (t : Block.Tree)
    (hfr : t.frontier = absItems dir 0 xs0)
    (hfg : ∀ c i x, xs0[i]? = some x → f (L c (absItem dir i x)) = g (absItem dir i x)) :
    (ofBlock L t).frontier.flatMap f = (absItems dir 0 xs0).flatMap g := by
  rw [frontier_ofBlock]
  exact leaves_flatMap dir L f g xs0 hfg xs0 0 (leafPairs t) (by rw [leafPairs_snd, hfr])
    (fun j => by simp)

/-- … against a reading `g` of the READER items -/
theorem frontier_flatMap {β : Type} (dir : Item → Bool) (L : Block.Cls → Block.Item → Leaf)
    (f : Leaf → List β) (g : Item → List β) (xs0 : List Item) (t : Block.Tree)
    (hfr : t.frontier = absItems dir 0 xs0)
    (hfg : ∀ c i x, xs0[i]? = some x → f (L c (absItem dir i x)) = g x) :
    (ofBlock L t).frontier.flatMap f = xs0.flatMap g := by
  rw [frontier_flatMap_abs dir L f (fun a => match xs0[a.id]? with | some x => g x | none => [])
    xs0 t hfr (fun c i x hx => by rw [hfg c i x hx]; simp [absItem, hx])]
  exact absItems_flatMap dir _ g xs0 (fun i x hx => by simp [absItem, hx]) xs0 0 (fun j => by simp)

/-- every leaf of `ofBlock L t` is a genuine leaf: `L c (absItem dir i x)` with `x` the reader
    item at position `i` -/
theorem frontier_genuine (dir : Item → Bool) (L : Block.Cls → Block.Item → Leaf)
    (xs0 : List Item) (t : Block.Tree) (hfr : t.frontier = absItems dir 0 xs0) :
    ∀ l ∈ (ofBlock L t).frontier, ∃ c i x, xs0[i]? = some x ∧ l = L c (absItem dir i x) := by
  intro l hl
  rw [frontier_ofBlock] at hl
  obtain ⟨p, hp, rfl⟩ := List.mem_map.mp hl
  have hmem : p.2 ∈ absItems dir 0 xs0 := by
    rw [← hfr, ← leafPairs_snd]; exact List.mem_map.mpr ⟨p, hp, rfl⟩
  obtain ⟨x, hx, ha⟩ := absItems_genuine dir xs0 xs0 0 (fun j => by simp) p.2 hmem
  exact ⟨p.1, p.2.id, x, hx, by rw [← ha]⟩

/-! ## layers (1) + (2): the frontier of the tree is the reader's delivery order -/

/-- the reader half: a chunk source delivers exactly `readerItems`, ends in `finOf`, and the
    fresh reader is represented by the block model's start stream -/
theorem chunkSource_drains {o : Bool} {cs : List Chunk} {r : Rd} (hcs : ChunkSource o cs r)
    (d : Nat) (fs : Fs) :
    Drains (d + 1) fs [r] (evItems (readerItems r cs)) (finOf r cs) :=
  (read_comments_once d fs o cs r hcs.ok hcs.omp hcs.fifo hcs.filo hcs.notClosed hcs.free hcs.src
    hcs.noInc).1

/-- a tree that consumed the whole stream without a drop event has the stream as its frontier -/
theorem frontier_of_whole_stream (env : Block.Env) (fuel : Nat) (cl : Block.Cls)
    (items : List Block.Item) (st' : Block.St) (t : Block.Tree)
    (h : Block.run env fuel cl (Block.St.init items) = (.tree t, st'))
    (hd : Block.D st' = 0) (hall : st'.stream.all = []) : t.frontier = items := by
  have h1 := Block.frontier_eq_consumed env fuel cl _ st' t h (by rw [hd, D_init])
  rw [hall, List.append_nil, all_init] at h1
  exact h1.symm

/-! ## layer (3) on a tree whose frontier is the image of a delivery order `xs0` -/

/-- ids of the printed lines (filtered / all) -/
theorem printed_ids_of_frontier (dir : Item → Bool) (xs0 : List Item) (t : Block.Tree)
    (hfr : t.frontier = absItems dir 0 xs0)
    (p : Block.Item → Bool) (q : Leaf → Bool) (L : Block.Cls → Block.Item → Leaf)
    (hq : ∀ c i x, xs0[i]? = some x → q (L c (absItem dir i x)) = p (absItem dir i x))
    (hid : ∀ c i x, xs0[i]? = some x → (L c (absItem dir i x)).item = i)
    (T : Tbl) (tab : Str) (hs : (ofBlock L t).sane T = true) :
    ((lineLeaves (printTree T tab (ofBlock L t))).filter q).map (·.item)
      = (Block.itemsOf p (absItems dir 0 xs0)).map (·.id) ∧
    (lineLeaves (printTree T tab (ofBlock L t))).map (·.item) = List.range xs0.length := by
  constructor
  · rw [lineLeaves_printTree T tab _ hs, filter_map_eq_flatMap, Block.itemsOf, filter_map_eq_flatMap]
    exact frontier_flatMap_abs dir L _ _ _ t hfr (fun c i x hx => by
      rw [hq c i x hx, hid c i x hx]; rfl)
  · rw [lineLeaves_printTree T tab _ hs, ← absItems_ids0 dir]
    have h1 := frontier_flatMap_abs dir L (fun l => [l.item]) (fun a => [a.id]) _ t hfr
      (fun c i x hx => by rw [hid c i x hx]; rfl)
    rw [List.map_eq_flatMap, List.map_eq_flatMap]
    exact h1

/-- the printed lines selected by `q`, decoded through the position they carry -/
theorem printed_decode_of_frontier (dir : Item → Bool) (xs0 : List Item) (t : Block.Tree)
    (hfr : t.frontier = absItems dir 0 xs0)
    (p : Item → Bool) (q : Leaf → Bool) (L : Block.Cls → Block.Item → Leaf)
    (hq : ∀ c i x, xs0[i]? = some x → q (L c (absItem dir i x)) = p x)
    (hid : ∀ c i x, xs0[i]? = some x → (L c (absItem dir i x)).item = i)
    (T : Tbl) (tab : Str) (hs : (ofBlock L t).sane T = true) :
    ((lineLeaves (printTree T tab (ofBlock L t))).filter q).map (fun l => xs0[l.item]?)
      = (xs0.filter p).map some := by
  rw [lineLeaves_printTree T tab _ hs, filter_map_eq_flatMap, filter_map_eq_flatMap]
  exact frontier_flatMap dir L _ _ _ t hfr (fun c i x hx => by
    rw [hq c i x hx, hid c i x hx, hx])

/-- `print_tokens_lift` against the tokens of the reader items -/
theorem printed_tokens_of_frontier {τ : Type} (tokLine : Str → List τ) (itemToks : Item → List τ)
    (dir : Item → Bool) (xs0 : List Item) (t : Block.Tree)
    (hfr : t.frontier = absItems dir 0 xs0) (L : Block.Cls → Block.Item → Leaf)
    (T : Tbl) (isfix : Bool) (tab : Str) (hs : (ofBlock L t).sane T = true)
    (htab : ∀ ch ∈ tab, ch = ' ')
    (hleaf : ∀ c i x, xs0[i]? = some x → ∀ tb : Str, (∀ ch ∈ tb, ch = ' ') →
      tokLine ((L c (absItem dir i x)).str tb isfix) = itemToks x)
    (hnl : ∀ ln ∈ printTree T tab (ofBlock L t), '\n' ∉ ln.str isfix) :
    tokText tokLine (tofortran T isfix tab (ofBlock L t)) = xs0.flatMap itemToks := by
  -- `srcToks`: the tokens a printed leaf must give = the tokens of ITS OWN line at the empty tab
  rw [Fp.Print.Props.print_tokens_lift tokLine (fun l => tokLine (l.str [] isfix)) T isfix tab _ hs htab
    (fun l hl tb htb => by
      obtain ⟨c, i, x, hx, rfl⟩ := frontier_genuine dir L _ t hfr l hl
      rw [hleaf c i x hx tb htb, hleaf c i x hx [] (fun _ h => by cases h)]) hnl]
  exact frontier_flatMap dir L _ _ _ t hfr (fun c i x hx => hleaf c i x hx [] (fun _ h => by cases h))

/-- the final reader of a chunk source may take every delivered item back -/
theorem chunkSource_returnable_fin {o : Bool} {cs : List Chunk} {r : Rd} (hcs : ChunkSource o cs r)
    (fs : Fs) : ∀ r', innermost (finOf r cs) = some r' →
      ∀ x ∈ readerItems r cs, returnable fs r' x = true := by
  intro r' hi x hx
  simp only [finOf, innermost, Option.some.injEq] at hi
  subst hi
  obtain ⟨hkp, hns⟩ := chunkItems_keep_nosemi r.ignoreComments o cs r.linecount hcs.ok x hx
  exact returnable_of fs _ x hkp hns (hcs.noInc x hx)

end Fp.EndToEnd
