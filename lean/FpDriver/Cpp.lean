import FparserModel.Wire
import FparserModel.Cpp

/-!
# driver commands of the C-preprocessor directive model (FparserModel/Cpp.lean)

`cpp.classify` line        reply: `none`  or  `some` class-name rendered-text kind field…
                           (`match_cpp_directive` on a CppDirective item whose `.line` is the text)
`cpp.item`     raw         the same for the raw directive text (stripped first, as `Line.__init__`)
`cpp.match`    class line  reply as `cpp.classify` for ONE class (`Cls(string)`)
`cpp.order`                reply: the class names in the order they are tried
`cpp.scan`     name text   one hand scanner: reply `-` (no match) or the length of the match
                           name = kw:<keyword> (`^\s*#\s*KW\b`) | hkw:<keyword> (`#\s*KW\b`) |
                           idlist | linemarker | macroname | absmacroname | filename
`cpp.squash`   text        reply: the text without blanks

kind/fields:  word kw has-arg arg | str string | include filename |
              macro name has-plist plist has-defn defn | null
-/
namespace FpDriver.Cpp
open Fp Fp.Cpp Fp.Wire

def ok (fs : List String) : String := "\t".intercalate ("OK" :: fs)

def optF (a : Option Str) : List String :=
  match a with
  | some t => [enc "1", encL t]
  | none => [enc "0", enc ""]

def nodeFields : Node → List String
  | .word _ kw a => [enc "word", encL kw] ++ optF a
  | .str _ s => [enc "str", encL s]
  | .include f => [enc "include", encL f]
  | .macro n pl d => [enc "macro", encL n] ++ optF pl ++ optF d
  | .null => [enc "null"]

def reply (r : Option Node) : String :=
  match r with
  | none => ok [enc "none"]
  | some n => ok ([enc "some", enc n.cls.name, encL (render n)] ++ nodeFields n)

def clsOfName (s : String) : Option Cls := realOrder.find? (fun c => c.name == s)

def lenOpt (s : Str) (r : Option Str) : String :=
  match r with
  | some rest => ok [enc (toString (s.length - rest.length))]
  | none => ok [enc "-"]

def bit (b : Bool) : String := ok [enc (if b then "1" else "-")]

def scan (name : String) (s : Str) : Option String :=
  if name.startsWith "kw:" then some (lenOpt s (kwPrefix (name.drop 3).toString.toList s))
  else if name.startsWith "hkw:" then some (lenOpt s (hashKw (name.drop 4).toString.toList s))
  else match name with
  | "idlist" => some (lenOpt s (idList s))
  | "linemarker" =>
    some (match linemarker s with
      | some g => ok [enc (toString g.length)]
      | none => ok [enc "-"])
  | "macroname" => some (lenOpt s ((macroNamePrefix s).map (·.2)))
  | "absmacroname" => some (bit (absMacroName s))
  | "filename" => some (bit (fileName s))
  | _ => none

def handle (cmd : String) (args : List String) : Option String :=
  match cmd, args with
  | "cpp.classify", [line] => some (reply (classify (decL line)))
  | "cpp.item", [raw] => some (reply (classifyItem (decL raw)))
  | "cpp.match", [c, line] =>
    match clsOfName (dec c) with
    | some k => some (reply (matchCls k (decL line)))
    | none => some ("ERR\t" ++ enc "unknown class")
  | "cpp.order", [] => some (ok (realOrder.map fun c => enc c.name))
  | "cpp.order", [_] => some (ok (realOrder.map fun c => enc c.name))
  | "cpp.scan", [name, text] =>
    match scan (dec name) (decL text) with
    | some r => some r
    | none => some ("ERR\t" ++ enc "unknown scanner")
  | "cpp.squash", [text] => some (ok [encL (squash (decL text))])
  | _, _ => none

end FpDriver.Cpp
