import FparserModel.Proofs.ExprLex2RenderSym
import FparserModel.Proofs.ExprLex2RenderDot

/-!
`lex_render`: the segment list of a rendered token list, token by token facts.
-/
namespace Fp.ExprLex
open Fp Fp.Expr

def sepB (b : Bool) : Str := if b then [] else [' ']
/-- the blank in front of a token that is not glued -/
def sep (t : T) : Str := sepB t.glued

/-- the word kind of a token that is not a plain operand -/
def tkOf (N : Names) : T → TK
  | .atom i true _ => .dotted (if i = idOf ['T','R','U','E'] then ['T','R','U','E'] else ['F','A','L','S','E'])
  | .op (.dot n) _ => .dotted (N.dot n)
  | .op .eqv _ => .dotted ['E','Q','V'] | .op .neqv _ => .dotted ['N','E','Q','V']
  | .op .or _ => .dotted ['O','R'] | .op .and _ => .dotted ['A','N','D'] | .op .not _ => .dotted ['N','O','T']
  | .op (.rel n true) _ => .dotted (relWord n)
  | .op (.rel n false) _ =>
    match n with
    | 0 => .eq | 1 => .ne | 2 => .lt | 3 => .le | 4 => .gt | _ => .ge
  | .op .concat _ => .concat | .op .plus _ => .plus | .op .minus _ => .minus
  | .op .mul _ => .mul | .op .div _ => .div | .op .pow _ => .pow
  | _ => .plus

/-- segments of `acc ++ renderTail N ts`, `acc` being the gap text read so far -/
def segsT (N : Names) : Str → List T → List Seg
  | acc, [] => [.gap acc]
  | acc, t :: rest =>
    if t.isPlain then segsT N (acc ++ sep t ++ spellT N t) rest
    else .gap (acc ++ sep t) :: .word (tkOf N t) (spellT N t) :: segsT N [] rest

/-- segments of `renderStr N ts` -/
def segsOf (N : Names) : List T → List Seg
  | [] => [.gap []]
  | t :: rest =>
    if t.isPlain then segsT N (spellT N t) rest
    else .gap [] :: .word (tkOf N t) (spellT N t) :: segsT N [] rest

theorem renderTail_cons (N : Names) (t : T) (rest : List T) :
    renderTail N (t :: rest) = sep t ++ spellT N t ++ renderTail N rest := rfl

theorem flat_segsT (N : Names) : ∀ (ts : List T) (acc : Str), flat (segsT N acc ts) = acc ++ renderTail N ts
  | [], acc => by simp [segsT, flat, Seg.text, renderTail]
  | t :: rest, acc => by
    rw [segsT, renderTail_cons]
    split
    · rw [flat_segsT N rest]; simp
    · rw [flat_cons, flat_cons, flat_segsT N rest]; simp [Seg.text]

theorem flat_segsOf (N : Names) (ts : List T) : flat (segsOf N ts) = renderStr N ts := by
  cases ts with
  | nil => rfl
  | cons t rest =>
    rw [segsOf, renderStr]
    split
    · rw [flat_segsT]
    · rw [flat_cons, flat_cons, flat_segsT]; simp [Seg.text]

theorem alt_segsT (N : Names) : ∀ (ts : List T) (acc : Str), alt (segsT N acc ts) = true
  | [], acc => rfl
  | t :: rest, acc => by
    rw [segsT]
    split
    · exact alt_segsT N rest _
    · simp only [alt]; exact alt_segsT N rest _

theorem alt_segsOf (N : Names) (ts : List T) : alt (segsOf N ts) = true := by
  cases ts with
  | nil => rfl
  | cons t rest =>
    rw [segsOf]
    split
    · exact alt_segsT N rest _
    · simp only [alt]; exact alt_segsT N rest _

/-! ### the spelling of a token -/

theorem relWord_ok (n : Nat) : relWord n ≠ [] ∧ (relWord n).all isAlpha = true ∧ upper (relWord n) = relWord n := by
  unfold relWord
  split <;> decide

theorem plain_view {t : T} (h : t.isPlain = true) : ∃ i g, t = .atom i false g := by
  cases t with
  | atom i d g => cases d with
    | false => exact ⟨i, g, rfl⟩
    | true => simp [T.isPlain] at h
  | lp => simp [T.isPlain] at h
  | rp => simp [T.isPlain] at h
  | op o g => simp [T.isPlain] at h

theorem tokOK_plain {N : Names} {i : Nat} {g : Bool} (h : tokOK N (.atom i false g) = true) :
    N.atom i ≠ [] ∧ (N.atom i).all plainChar = true ∧ idOf (N.atom i) = i ∧
      dotClass (upper (N.atom i)) = .other := by
  simpa [tokOK, and_assoc] using h

/-- an operator word begins with one of `.*/+-=<>` -/
theorem word_head (N : Names) (t : T) (hok : tokOK N t = true) (hp : t.isPlain = false) :
    ∃ h tl, spellT N t = h :: tl ∧ opChar h = true := by
  cases t with
  | atom i d g => cases d with
    | false => simp [T.isPlain] at hp
    | true =>
      simp only [spellT]
      split <;> exact ⟨_, _, rfl, by decide⟩
  | lp => simp [tokOK] at hok
  | rp => simp [tokOK] at hok
  | op o g =>
    cases o with
    | rel n b =>
      cases b with
      | true => exact ⟨_, _, rfl, by decide⟩
      | false =>
        simp only [spellT, relSymS]
        split <;> exact ⟨_, _, rfl, by decide⟩
    | _ => exact ⟨_, _, rfl, by decide⟩

/-- a word that begins with `/` and is neither `/` nor `/=` is `//` -/
theorem slash_head (N : Names) (t : T) (hp : t.isPlain = false) (hs : t.slashFirst = false) (tl : Str)
    (h : spellT N t = '/' :: tl) : ∃ tl', tl = '/' :: tl' := by
  cases t with
  | atom i d g => cases d with
    | false => simp [T.isPlain] at hp
    | true =>
      simp only [spellT, dotted] at h
      split at h <;> simp at h
  | lp => simp [spellT] at h
  | rp => simp [spellT] at h
  | op o g =>
    cases o with
    | rel n b =>
      cases b with
      | true => simp [spellT, dotted] at h
      | false =>
        rcases n with _ | _ | _ | _ | _ | _ | n <;> simp [spellT, relSymS, T.slashFirst] at h hs
    | concat => simp [spellT] at h; exact ⟨[], h.symm⟩
    | div => simp [T.slashFirst] at hs
    | _ => simp [spellT, dotted] at h

end Fp.ExprLex
