import FparserModel.Proofs.Norm
import FparserModel.Proofs.NormLex

/-!
# Properties of the C02 token normaliser (all for every token list, no bound)

`norm` is the comparison key used by the C02/C19 oracles (`normeq` in the driver).  These
theorems say that the comparison itself cannot hide token loss outside the documented
canonicalisations:

* `norm_idem`                — `norm` is a projection (comparing normal forms is meaningful);
* `norm_only_drops_droppable`— apart from case folding / keyword splitting (`pre`), `norm` deletes
                               nothing but operator tokens, FORMAT commas and the keywords
                               `KIND LEN UNIT`: every name, number, BOZ, dotted token, label,
                               character literal and statement boundary survives, in order;
* `norm_never_invents`       — `norm ts` is a sub-sequence of `pre ts`;
* `norm_chrs`, `norm_literals_exact(_at)` — character literals are carried verbatim (kind prefix,
                               delimiters, doubled quotes, case): texts whose literal
                               sequences differ have different normal forms;
* `pre1_text`                — `pre` changes nothing but letter case outside literals (and where
                               token boundaries fall inside a compound keyword).
-/
namespace Fp.Norm
open Fp

/-- `norm` is idempotent. -/
theorem norm_idem (ts : List Tok) : norm (norm ts) = norm ts := by
  have hfix : pass (norm ts) = norm ts := fixpass_fixed _ _ (Nat.lt_succ_self _)
  have hsub : (norm ts).Sublist (pre ts) := fixpass_sublist _ _
  have hpre : pre (norm ts) = norm ts :=
    pre_of_fixed _ (fun t ht => pre_mem_fixed (hsub.subset ht))
  show fixpass ((pre (norm ts)).length + 1) (pre (norm ts)) = norm ts
  rw [hpre]
  exact fixpass_of_fixed _ _ hfix

/-- `norm` never invents or reorders a token: its result is a sub-sequence of the case-folded
    input. -/
theorem norm_never_invents (ts : List Tok) : (norm ts).Sublist (pre ts) := fixpass_sublist _ _

/-- `norm_keeps_names_numbers`: the sub-sequence of non-droppable tokens (names other than
    KIND/LEN/UNIT, numbers, BOZ, dotted tokens, labels, character literals, FORMAT characters
    other than `,`, statement boundaries) is exactly that of the case-folded input. -/
theorem norm_only_drops_droppable (ts : List Tok) :
    (norm ts).filter (fun t => !droppable t) = (pre ts).filter (fun t => !droppable t) := by
  have h := fixpass_filterMap (Option.guard fun t => !droppable t)
    (by intro t ht; simp [Option.guard, ht]) ((pre ts).length + 1) (pre ts)
  simpa [List.filterMap_eq_filter, norm] using h

/-- the deletion pass is the only lossy step and it is restricted to `droppable` tokens -/
theorem droppable_spec (t : Tok) :
    droppable t = true ↔
      (∃ s, t = .op s) ∨ t = .fch ',' ∨ t = .name (S "KIND") ∨ t = .name (S "LEN")
        ∨ t = .name (S "UNIT") := by
  cases t <;> simp [droppable, or_assoc]

/-- character literals: the sequence of literal texts (verbatim) is preserved by `norm`. -/
theorem norm_chrs (ts : List Tok) : (norm ts).filterMap chrOf = ts.filterMap chrOf := by
  show (fixpass _ (pre ts)).filterMap chrOf = _
  rw [fixpass_filterMap chrOf chrOf_droppable, pre_chrs]

/-- `norm_literals_exact`: token lists with different literal sequences have different norms. -/
theorem norm_literals_exact (ts ts' : List Tok)
    (h : ts.filterMap chrOf ≠ ts'.filterMap chrOf) : norm ts ≠ norm ts' := by
  intro e
  apply h
  rw [← norm_chrs ts, ← norm_chrs ts', e]

/-- pointwise form: changing the text of one character literal (any character of its
    interior, its delimiters or its kind prefix) changes the norm. -/
theorem norm_literals_exact_at (p q : List Tok) (a b : Str) (h : a ≠ b) :
    norm (p ++ .chr a :: q) ≠ norm (p ++ .chr b :: q) := by
  apply norm_literals_exact
  simp only [List.filterMap_append, List.filterMap_cons, chrOf]
  intro e
  have := List.append_cancel_left e
  simp at this
  exact h this

/-- every entry of the keyword table splits its key without changing a character -/
theorem splitTbl_concat : ∀ e ∈ splitTbl, e.2.flatten = e.1 := by decide

/-- `pre1` only changes letter case (outside character literals): the concatenated text of
    its output is the upper-cased text of the token. -/
theorem pre1_text (t : Tok) :
    (pre1 t).flatMap tokText =
      match t with
      | .chr s => s
      | .op s => s
      | .label s => s
      | .eos => ['\n']
      | .fch c => [upperC c]
      | t => upper (tokText t) := by
  cases t with
  | name s =>
    simp only [pre1]
    cases hl : lookupSplit (upper s) with
    | none => simp [tokText]
    | some parts =>
      obtain ⟨e, he, hk, rfl⟩ := lookupSplit_mem hl
      have := splitTbl_concat e he
      simp only [tokText]
      rw [← hk, ← this]
      simp [List.flatMap_def, List.map_map, Function.comp_def, tokText]
  | _ => simp [pre1, tokText]

/-! ## `lexF_layout`

The full theorem (all token classes, continuation / comment layouts, several statements) is
`Fp.Norm.lexF_layout` in `Props/NormLayout.lean`.  Below: the earlier names-only fragment and
concrete instances. -/

/-- `lexF_layout`, names-only fragment: a statement of well-formed names rendered with any
    number (≥ 1) of blanks after each name lexes back to exactly those names. -/
theorem lexF_layout_names (p : Str × Nat) (r : List (Str × Nat))
    (h : ∀ q ∈ p :: r, wfName q.1 = true) :
    lexF (renderNames (p :: r)) = (p :: r).map (fun q => Tok.name q.1) ++ [.eos] := by
  have hc := renderNames_length (p :: r) h
  have hk := lexGo_renderNames (p :: r) h ((renderNames (p :: r)).length + 1 - costNames (p :: r))
    .bol [] (by simp)
  have e : (renderNames (p :: r)).length + 1 - costNames (p :: r) + costNames (p :: r)
      = (renderNames (p :: r)).length + 1 := by omega
  rw [e, List.append_nil, lexGo_bol_nil] at hk
  exact hk

example : lexF (renderNames [("end".toList, 3), ("do".toList, 0), ("loop_1".toList, 2)])
    = [.name "end".toList, .name "do".toList, .name "loop_1".toList, .eos] :=
  lexF_layout_names _ _ (by decide)

/-- layout insensitivity on concrete statements with the other token classes: blanks, a
    trailing comment, a continuation with and without leading `&`, a `;` -/
example : lexF "10 x(1)=y**2.5e-3_dp\n".toList
    = lexF "10  x ( 1 ) = y ** &  ! c\n   & 2.5e-3_dp ! d\n".toList := by decide +kernel
example : lexF "s='a&b'.and..true.;call t\n".toList
    = lexF "s = 'a&b' .and. &\n .true.\n call t\n".toList := by decide +kernel

/-! ## non-vacuity: the canonicalisations really are identified, and nothing else is -/

/-- `real(8)::x` and the printed `REAL(KIND = 8) :: x` have the same norm -/
example : canon "real(8)::x\n".toList = canon "REAL(KIND = 8) :: x\n".toList := by decide

example : canon "call s()\nendif\ngoto 10\n".toList = canon "CALL s\nEND IF\nGO TO 10\n".toList := by
  decide

example : canon "10 format(1pe10.3,a/i3)\n".toList = canon "10 FORMAT(1P, E10.3, A, /, I3)\n".toList := by
  decide

/-- `.EQ.` is not unified with `==`, a literal is not case-folded, a dropped token is seen -/
example : canon "x = a .eq. b\n".toList ≠ canon "x = a == b\n".toList := by decide
example : canon "x = 'Abc'\n".toList ≠ canon "x = 'abc'\n".toList := by decide
example : canon "x = a + b\n".toList ≠ canon "x = a b\n".toList := by decide

/-- an instance of `norm_literals_exact_at` with non-trivial context -/
example : norm ([.name (S "x"), .op ['=']] ++ .chr (S "'It''s'") :: [.eos])
    ≠ norm ([.name (S "x"), .op ['=']] ++ .chr (S "'it''s'") :: [.eos]) :=
  norm_literals_exact_at _ _ _ _ (by decide)

/-- `norm` does delete something (so `norm_idem` is not the idempotence of the identity) -/
example : norm [.name (S "real"), .op ['('], .name (S "kind"), .op ['='], .num (S "8"), .op [')'],
    .op [':'], .op [':'], .name (S "x"), .eos]
    = [.name (S "REAL"), .op ['('], .num (S "8"), .op [')'], .name (S "X"), .eos] := by decide

end Fp.Norm
