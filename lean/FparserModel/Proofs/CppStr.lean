import FparserModel.Cpp

/-! # string lemmas for the Cpp slice (blanks, strip, squash) -/
namespace Fp.Cpp
open Fp

def allSp (s : Str) : Prop := ∀ c ∈ s, isSpace c = true

theorem allSp_nil : allSp [] := by intro c h; cases h
theorem allSp_cons {c : Char} {s : Str} : allSp (c :: s) ↔ isSpace c = true ∧ allSp s := by
  simp [allSp]
theorem allSp_append {a b : Str} : allSp (a ++ b) ↔ allSp a ∧ allSp b := by
  simp only [allSp, List.mem_append]
  constructor
  · intro h; exact ⟨fun c hc => h c (Or.inl hc), fun c hc => h c (Or.inr hc)⟩
  · rintro ⟨h1, h2⟩ c (hc | hc)
    · exact h1 c hc
    · exact h2 c hc

/-! ## lstrip -/
theorem lstrip_nil : lstrip [] = [] := rfl
theorem lstrip_cons_sp {c : Char} (s : Str) (h : isSpace c = true) : lstrip (c :: s) = lstrip s := by
  simp [lstrip, List.dropWhile, h]
theorem lstrip_cons_ns {c : Char} (s : Str) (h : isSpace c = false) : lstrip (c :: s) = c :: s := by
  simp [lstrip, List.dropWhile, h]

theorem lstrip_allSp_append {a : Str} (t : Str) (h : allSp a) : lstrip (a ++ t) = lstrip t := by
  induction a with
  | nil => rfl
  | cons c a ih =>
    have := allSp_cons.mp h
    rw [List.cons_append, lstrip_cons_sp _ this.1, ih this.2]

theorem lstrip_allSp {a : Str} (h : allSp a) : lstrip a = [] := by
  have := lstrip_allSp_append [] h
  rw [List.append_nil] at this; exact this

theorem lstrip_decomp (s : Str) : ∃ a, s = a ++ lstrip s ∧ allSp a := by
  induction s with
  | nil => exact ⟨[], rfl, allSp_nil⟩
  | cons c s ih =>
    by_cases h : isSpace c = true
    · obtain ⟨a, h1, h2⟩ := ih
      refine ⟨c :: a, ?_, allSp_cons.mpr ⟨h, h2⟩⟩
      rw [lstrip_cons_sp _ h, List.cons_append, ← h1]
    · have h' : isSpace c = false := by simpa using h
      exact ⟨[], by rw [lstrip_cons_ns _ h']; rfl, allSp_nil⟩

theorem lstrip_head {s r : Str} {c : Char} (h : lstrip s = c :: r) : isSpace c = false := by
  induction s with
  | nil => cases h
  | cons d s ih =>
    by_cases hd : isSpace d = true
    · rw [lstrip_cons_sp _ hd] at h; exact ih h
    · have hd' : isSpace d = false := by simpa using hd
      rw [lstrip_cons_ns _ hd'] at h
      cases h; exact hd'

theorem lstrip_idem (s : Str) : lstrip (lstrip s) = lstrip s := by
  cases h : lstrip s with
  | nil => rfl
  | cons c r => exact lstrip_cons_ns _ (lstrip_head h)

theorem lstrip_append_ne {a : Str} (b : Str) (h : lstrip a ≠ []) : lstrip (a ++ b) = lstrip a ++ b := by
  induction a with
  | nil => exact absurd rfl h
  | cons c a ih =>
    by_cases hc : isSpace c = true
    · rw [lstrip_cons_sp _ hc] at h ⊢
      rw [List.cons_append, lstrip_cons_sp _ hc]; exact ih h
    · have hc' : isSpace c = false := by simpa using hc
      rw [List.cons_append, lstrip_cons_ns _ hc', lstrip_cons_ns _ hc']; rfl

theorem lstrip_eq_nil {s : Str} (h : lstrip s = []) : allSp s := by
  obtain ⟨a, h1, h2⟩ := lstrip_decomp s
  rw [h, List.append_nil] at h1
  rw [h1]; exact h2

/-! ## rstrip -/
theorem rstrip_eq (s : Str) : rstrip s = (lstrip s.reverse).reverse := rfl

theorem allSp_reverse {a : Str} (h : allSp a) : allSp a.reverse := by
  intro c hc; exact h c (List.mem_reverse.mp hc)

theorem rstrip_append_allSp (s : Str) {b : Str} (h : allSp b) : rstrip (s ++ b) = rstrip s := by
  rw [rstrip_eq, rstrip_eq, List.reverse_append, lstrip_allSp_append _ (allSp_reverse h)]

theorem rstrip_decomp (s : Str) : ∃ b, s = rstrip s ++ b ∧ allSp b := by
  obtain ⟨a, h1, h2⟩ := lstrip_decomp s.reverse
  refine ⟨a.reverse, ?_, allSp_reverse h2⟩
  have := congrArg List.reverse h1
  rw [List.reverse_reverse, List.reverse_append] at this
  rw [rstrip_eq]; exact this

theorem rstrip_snoc_ns (s : Str) {c : Char} (h : isSpace c = false) : rstrip (s ++ [c]) = s ++ [c] := by
  rw [rstrip_eq, List.reverse_append]
  simp only [List.reverse_cons, List.reverse_nil, List.nil_append, List.singleton_append]
  rw [lstrip_cons_ns _ h]; simp

theorem rstrip_getLast {s : Str} {c : Char} (h : (rstrip s).getLast? = some c) : isSpace c = false := by
  rw [rstrip_eq, List.getLast?_reverse] at h
  cases hl : lstrip s.reverse with
  | nil => rw [hl] at h; cases h
  | cons d r =>
    rw [hl] at h; simp at h; subst h
    exact lstrip_head hl

theorem rstrip_allSp {a : Str} (h : allSp a) : rstrip a = [] := by
  rw [rstrip_eq, lstrip_allSp (allSp_reverse h)]; rfl

theorem rstrip_eq_nil {s : Str} (h : rstrip s = []) : allSp s := by
  obtain ⟨b, h1, h2⟩ := rstrip_decomp s
  rw [h, List.nil_append] at h1
  rw [h1]; exact h2

/-- a text whose last character is not a blank is not changed by rstrip -/
theorem rstrip_of_last {s : Str} {c : Char} (h : s.getLast? = some c) (hc : isSpace c = false) :
    rstrip s = s := by
  obtain ⟨t, rfl⟩ : ∃ t, s = t ++ [c] := by
    have hne : s ≠ [] := by intro h0; rw [h0] at h; cases h
    refine ⟨s.dropLast, ?_⟩
    have e := List.getLast?_eq_some_getLast hne
    rw [h] at e
    have := List.dropLast_concat_getLast hne
    rw [← Option.some.inj e] at this
    exact this.symm
  exact rstrip_snoc_ns t hc

/-! ## strip -/
theorem strip_eq (s : Str) : strip s = lstrip (rstrip s) := rfl

theorem strip_decomp (s : Str) : ∃ a b, s = a ++ strip s ++ b ∧ allSp a ∧ allSp b := by
  obtain ⟨b, h1, h2⟩ := rstrip_decomp s
  obtain ⟨a, h3, h4⟩ := lstrip_decomp (rstrip s)
  refine ⟨a, b, ?_, h4, h2⟩
  rw [strip_eq, ← h3]; exact h1

theorem strip_head {s r : Str} {c : Char} (h : strip s = c :: r) : isSpace c = false :=
  lstrip_head h

theorem getLast?_append_ne {a b : Str} (h : b ≠ []) : (a ++ b).getLast? = b.getLast? := by
  rw [List.getLast?_append, List.getLast?_eq_some_getLast h]; rfl

theorem strip_getLast {s : Str} {c : Char} (h : (strip s).getLast? = some c) : isSpace c = false := by
  obtain ⟨a, h3, _⟩ := lstrip_decomp (rstrip s)
  have hne : strip s ≠ [] := by intro h0; rw [h0] at h; cases h
  have : (rstrip s).getLast? = some c := by
    rw [h3, getLast?_append_ne (by rw [← strip_eq]; exact hne), ← strip_eq]; exact h
  exact rstrip_getLast this

/-- a text that starts and ends with non-blanks is its own strip -/
theorem strip_of_ends {s r : Str} {c z : Char} (h1 : s = c :: r) (hc : isSpace c = false)
    (h2 : s.getLast? = some z) (hz : isSpace z = false) : strip s = s := by
  rw [strip_eq, rstrip_of_last h2 hz, h1, lstrip_cons_ns _ hc]

theorem strip_nil : strip [] = [] := rfl

theorem strip_idem (s : Str) : strip (strip s) = strip s := by
  cases h : strip s with
  | nil => rfl
  | cons c r =>
    have hl : (c :: r).getLast? = some ((c :: r).getLast (by simp)) := List.getLast?_eq_some_getLast (by simp)
    exact strip_of_ends rfl (strip_head h) hl (strip_getLast (by rw [h]; exact hl))

theorem strip_allSp {a : Str} (h : allSp a) : strip a = [] := by
  rw [strip_eq, rstrip_allSp h]; rfl

theorem strip_eq_nil {s : Str} (h : strip s = []) : allSp s := by
  have := lstrip_eq_nil (by rw [← strip_eq]; exact h)
  obtain ⟨b, h1, h2⟩ := rstrip_decomp s
  rw [h1]; exact allSp_append.mpr ⟨this, h2⟩

theorem strip_append_allSp (s : Str) {b : Str} (h : allSp b) : strip (s ++ b) = strip s := by
  rw [strip_eq, strip_eq, rstrip_append_allSp _ h]

theorem strip_allSp_append {a : Str} (s : Str) (h : allSp a) : strip (a ++ s) = strip s := by
  obtain ⟨x, y, h1, h2, h3⟩ := strip_decomp s
  by_cases hs : strip s = []
  · have hall : allSp (a ++ s) := allSp_append.mpr ⟨h, strip_eq_nil hs⟩
    rw [hs, strip_allSp hall]
  · have e : a ++ s = (a ++ x) ++ strip s ++ y := by
      conv => lhs; rw [h1]
      simp [List.append_assoc]
    rw [e, strip_append_allSp _ h3, strip_eq]
    obtain ⟨c, r, hcr⟩ := List.exists_cons_of_ne_nil hs
    have hl : (strip s).getLast? = some ((strip s).getLast hs) := List.getLast?_eq_some_getLast hs
    have hz := strip_getLast hl
    have : ((a ++ x) ++ strip s).getLast? = some ((strip s).getLast hs) := by
      rw [getLast?_append_ne hs]; exact hl
    rw [rstrip_of_last this hz, lstrip_allSp_append _ (allSp_append.mpr ⟨h, h2⟩)]
    rw [hcr, lstrip_cons_ns _ (strip_head hcr)]

theorem strip_lstrip (s : Str) : strip (lstrip s) = strip s := by
  obtain ⟨a, h1, h2⟩ := lstrip_decomp s
  conv => rhs; rw [h1]
  rw [strip_allSp_append _ h2]

/-! ## squash -/
theorem squash_append (a b : Str) : squash (a ++ b) = squash a ++ squash b := by
  simp [squash]
theorem squash_cons_ns {c : Char} (s : Str) (h : isSpace c = false) : squash (c :: s) = c :: squash s := by
  simp [squash, h]
theorem squash_cons_sp {c : Char} (s : Str) (h : isSpace c = true) : squash (c :: s) = squash s := by
  simp [squash, h]
theorem squash_allSp {a : Str} (h : allSp a) : squash a = [] := by
  induction a with
  | nil => rfl
  | cons c a ih =>
    have := allSp_cons.mp h
    rw [squash_cons_sp _ this.1]; exact ih this.2
theorem squash_lstrip (s : Str) : squash (lstrip s) = squash s := by
  obtain ⟨a, h1, h2⟩ := lstrip_decomp s
  conv => rhs; rw [h1]
  rw [squash_append, squash_allSp h2]; rfl
theorem squash_strip (s : Str) : squash (strip s) = squash s := by
  obtain ⟨a, b, h1, h2, h3⟩ := strip_decomp s
  conv => rhs; rw [h1]
  rw [squash_append, squash_append, squash_allSp h2, squash_allSp h3]; simp
theorem squash_eq_nil {s : Str} (h : strip s = []) : squash s = [] := squash_allSp (strip_eq_nil h)

theorem squash_of_noSp {s : Str} (h : ∀ c ∈ s, isSpace c = false) : squash s = s := by
  induction s with
  | nil => rfl
  | cons c s ih =>
    rw [squash_cons_ns _ (h c (by simp))]
    rw [ih (fun d hd => h d (by simp [hd]))]

theorem space_cases {c : Char} (h : isSpace c = true) :
    c = ' ' ∨ c = '\t' ∨ c = '\n' ∨ c = '\r' ∨ c = '\x0b' ∨ c = '\x0c' ∨ c = '\x1c' ∨ c = '\x1d'
      ∨ c = '\x1e' ∨ c = '\x1f' := by
  unfold isSpace at h
  simp only [Bool.or_eq_true, beq_iff_eq] at h
  simp only [or_assoc] at h
  exact h

theorem space_not_word {c : Char} (h : isSpace c = true) : isWord c = false := by
  rcases space_cases h with h | h | h | h | h | h | h | h | h | h <;> subst h <;> decide

theorem isWord_not_space {c : Char} (h : isWord c = true) : isSpace c = false := by
  cases hs : isSpace c with
  | false => rfl
  | true => rw [space_not_word hs] at h; cases h

end Fp.Cpp
