import FparserModel.Block
import FparserModel.Generated.Blocks2003
import FparserModel.Generated.Blocks2008

/-!
# M-D: kernel-checked obligations over the generated class tables

Re-checked by `lake build` whenever `fv/extract_block.py` regenerates the tables.
-/
namespace Fp.Block

/-- the facts about a generated table that the property theorems are instantiated with -/
def programShape (tbl : Table) (prog : Cls) : Bool :=
  match tbl.kind prog with
  | .program _ _ [] => true
  | _ => false

/-- every block whose start class can carry a construct name checks names strictly; the
label-DO constructs check labels and use the DO hook -/
def cfgFlagsOK (k : Kind) : Bool :=
  match k with
  | .block cfg _ =>
    (!cfg.strictNames || cfg.matchNames) && (!cfg.doHook || cfg.matchLabels) &&
    (cfg.nameClasses.isEmpty || cfg.matchNames) &&
    (cfg.end_.isNone || !cfg.endAll.isEmpty) && (!cfg.matchLabels || (cfg.start.isSome && cfg.end_.isSome))
  | .main0 cfg _ _ => cfg.start.isNone && cfg.end_.isSome && !cfg.matchNames && !cfg.matchLabels
  | _ => true

/-- constructs that can carry a construct name: C801, C803, C819, C730, C732, C810, C821 -/
def strictNamed2003 : List String :=
  ["If_Construct", "Case_Construct", "Select_Type_Construct", "Where_Construct",
   "Forall_Construct", "Associate_Construct", "Block_Nonlabel_Do_Construct"]
def strictNamed2008 : List String := strictNamed2003 ++ ["Block_Construct", "Critical_Construct"]
def labelDo : List String := ["Block_Label_Do_Construct", "Action_Term_Do_Construct"]

/-- every listed construct is present, checks names strictly; the label-DO constructs match
labels and use the same-label hook -/
def namedOK (strict : List String) (names : Array String) (kinds : Array Kind) : Bool :=
  strict.all names.contains && labelDo.all names.contains &&
  (List.range names.size).all fun i =>
    let nm := names.getD i ""
    let k := kinds.getD i .leaf
    (if strict.contains nm then
      (match k with | .block cfg _ => cfg.matchNames && cfg.strictNames | _ => false) else true) &&
    (if labelDo.contains nm then
      (match k with | .block cfg _ => cfg.matchLabels && cfg.doHook | _ => false) else true)

theorem named_strict_2003 :
    namedOK strictNamed2003 Generated.F2003.names Generated.F2003.kinds = true := by decide +kernel
theorem named_strict_2008 :
    namedOK strictNamed2008 Generated.F2008.names Generated.F2008.kinds = true := by decide +kernel

theorem program_shape_2003 : programShape Generated.F2003.table Generated.F2003.program = true := by
  decide +kernel
theorem program_shape_2008 : programShape Generated.F2008.table Generated.F2008.program = true := by
  decide +kernel
theorem cfg_flags_2003 : Generated.F2003.kinds.toList.all cfgFlagsOK = true := by decide +kernel
theorem cfg_flags_2008 : Generated.F2008.kinds.toList.all cfgFlagsOK = true := by decide +kernel

end Fp.Block
