import FparserModel.Py

/-!
# Cpp — model of `fparser/two/C99Preprocessor.py`                           (serves C14)

What is modelled, branch for branch:

* `match_cpp_directive(reader)`: the item is a `CppDirective` (decided by the reader, see
  FparserModel/Reader.lean / Block.lean `cppNew`); the classes of `CPP_CLASS_NAMES` are tried in
  that order on `item.line` and the first one that produces an object wins (`classify`).
* `Cls(string)` for each of the twelve statement classes (`matchCls`): `Base.__new__` calls
  `Cls.match(string)`; a `NoMatchError` raised by a nested constructor (`Cpp_Macro_Identifier(..)`,
  `Include_Filename(..)`) ends as "no object" exactly like a `None` result (the classes have no
  registered subclasses: obligation `subclasses_empty` in Generated/CppTables.lean).
* the helpers of two/utils.py as far as they are used here: `WORDClsBase.match` with a `Pattern`
  keyword, `colons=False` (`wordTail`), `StringBase.match` with a `Pattern`.
* the nested classes `Cpp_Pp_Tokens` (`ppTokens`), `Cpp_Macro_Identifier` (`macroIdent`),
  `Cpp_Macro_Identifier_List` (`idList`), `Fortran2003.Include_Filename` (`fileName`).
* `tostr` of every class (`render`).

Every regular expression is replaced by a hand-written scanner; the text of the regular
expression each scanner stands for is in `Fp.Cpp.Spec`, and Generated/CppTables.lean (written by
fv/extract_cpp.py from the LIVE classes) proves `live pattern = Spec pattern` by `rfl`, replays
tables of the live compiled regexes over the scanners in the kernel, and replays a table of
live outcomes of the classes over `matchCls`/`classify`.

ASCII domain as in Py.lean: `\s`/`str.strip` = `Fp.isSpace`, `\w` = `Fp.isWord`, `\d` = ASCII
digits, `[A-Z_]` with re.I = ASCII letters and `_`, `str.isalnum` = ASCII alphanumeric. (Python is
Unicode aware for all of these; lines with non-ASCII letters, digits or blanks are outside the
model.) No Mathlib; everything total, computable and structurally recursive (no fuel).
-/
namespace Fp.Cpp
open Fp

/-! ## the classes, in the order of `CPP_CLASS_NAMES` -/

inductive Cls where
  | ifStmt | elifStmt | elseStmt | endifStmt | includeStmt | macroStmt | undefStmt | lineStmt
  | linemarkerStmt | errorStmt | warningStmt | nullStmt
deriving DecidableEq, Repr

def Cls.name : Cls → String
  | .ifStmt => "Cpp_If_Stmt" | .elifStmt => "Cpp_Elif_Stmt" | .elseStmt => "Cpp_Else_Stmt"
  | .endifStmt => "Cpp_Endif_Stmt" | .includeStmt => "Cpp_Include_Stmt"
  | .macroStmt => "Cpp_Macro_Stmt" | .undefStmt => "Cpp_Undef_Stmt" | .lineStmt => "Cpp_Line_Stmt"
  | .linemarkerStmt => "Cpp_Linemarker_Stmt" | .errorStmt => "Cpp_Error_Stmt"
  | .warningStmt => "Cpp_Warning_Stmt" | .nullStmt => "Cpp_Null_Stmt"

/-- `CPP_CLASS_NAMES` (obligation `classOrder_agrees` in Generated/CppTables.lean) -/
def realOrder : List Cls :=
  [.ifStmt, .elifStmt, .elseStmt, .endifStmt, .includeStmt, .macroStmt, .undefStmt, .lineStmt,
   .linemarkerStmt, .errorStmt, .warningStmt, .nullStmt]

/-- the object a class constructor returns (its `items` / `string`) -/
inductive Node where
  /-- a `WORDClsBase` class: `items = (pattern_value, cls(line) or None)`. Classes: If, Elif,
      Undef, Line, Linemarker, Error, Warning. -/
  | word (c : Cls) (kw : Str) (arg : Option Str)
  /-- a `StringBase` class: `string`. Classes: Else, Endif. -/
  | str (c : Cls) (s : Str)
  /-- `Cpp_Include_Stmt`: `items = (Include_Filename(f),)` -/
  | include (f : Str)
  /-- `Cpp_Macro_Stmt`: `items = (Cpp_Macro_Identifier, Cpp_Macro_Identifier_List|None,
      Cpp_Pp_Tokens|None)` -/
  | macro (name : Str) (plist : Option Str) (defn : Option Str)
  /-- `Cpp_Null_Stmt`: `items = ()` -/
  | null
deriving DecidableEq, Repr

def Node.cls : Node → Cls
  | .word c _ _ => c
  | .str c _ => c
  | .include _ => .includeStmt
  | .macro _ _ _ => .macroStmt
  | .null => .nullStmt

/-! ## the regular expressions the scanners below stand for -/
namespace Spec
/-- `Pattern("<if>", …, value="#if")` etc.: `^\s*#\s*KW\b` -/
def kwPattern (kw : String) : String := "^\\s*#\\s*" ++ kw ++ "\\b"
/-- `re.compile(r"#\s*include\b")`, `re.compile(r"#\s*define\b")`: `#\s*KW\b` -/
def kwRegex (kw : String) : String := "#\\s*" ++ kw ++ "\\b"
/-- `Cpp_Undef_Stmt._pattern` (a capturing group around the keyword; the group is not used) -/
def undefPattern : String := "^\\s*(#\\s*undef)\\b"
def linemarkerPattern : String := "^\\s*#\\s+\\d+\\s+\\\".*\\\".*$"
def idListPattern : String :=
  "\\((\\s*[A-Za-z_]\\w*(?:\\s*,\\s*[A-Za-z_]\\w*)*(?:\\s*,\\s*\\.{3})?|\\.{3})?\\s*\\)"
/-- `pattern_tools.macro_name` (flags re.I) -/
def macroNamePattern : String := "[A-Z_]\\w*"
/-- `pattern_tools.abs_macro_name` (flags re.I) -/
def absMacroNamePattern : String := "\\A[A-Z_]\\w*\\Z"
/-- `pattern_tools.file_name` (flags re.I) -/
def fileNamePattern : String := "^(\\S|\\S.*\\S)$"
/-- `Cpp_If_Stmt._regex` (not used by any `match`) -/
def ifRegex : String := "#\\s*(ifdef|ifndef|if)\\b"
end Spec

/-! ## scanners -/

/-- `s[len(p):]` when `s` starts with `p` -/
def dropPrefix? : Str → Str → Option Str
  | [], s => some s
  | _ :: _, [] => none
  | a :: p, b :: s => if a = b then dropPrefix? p s else none

/-- `\b` after a keyword (whose last character is a word character): end of string or a
non-word character -/
def boundary : Str → Bool
  | [] => true
  | c :: _ => !isWord c

/-- `#\s*KW\b` matched at position 0 (`re.match`): the text after the match -/
def hashKw (kw : Str) : Str → Option Str
  | '#' :: r =>
    match dropPrefix? kw (lstrip r) with
    | some rest => if boundary rest then some rest else none
    | none => none
  | _ => none

/-- `^\s*#\s*KW\b` matched at position 0: the text after the match, `string[len(group):]`.
(`\s*` before `#` is deterministic since `#` is not a blank.) -/
def kwPrefix (kw : Str) (s : Str) : Option Str := hashKw kw (lstrip s)

/-- `[A-Z_]` with re.I, `[A-Za-z_]` -/
def isIdStart (c : Char) : Bool := c.isAlpha || c == '_'

/-- `str.isalnum(c) or c == "_"` (two/utils.py `isalnum`) -/
def isAlnumU (c : Char) : Bool := c.isAlphanum || c == '_'

/-- `pattern.macro_name.match(s)`: `[A-Z_]\w*` (re.I) at position 0: (group, rest) -/
def macroNamePrefix : Str → Option (Str × Str)
  | c :: r => if isIdStart c then some (c :: r.takeWhile isWord, r.dropWhile isWord) else none
  | [] => none

/-- `pattern.abs_macro_name.match(s)`: `\A[A-Z_]\w*\Z` (re.I) -/
def absMacroName : Str → Bool
  | c :: r => isIdStart c && r.all isWord
  | [] => false

/-- remove one final `\n` (where `$` can match besides the very end) -/
def chompNl (s : Str) : Str :=
  match s.getLast? with
  | some '\n' => s.dropLast
  | _ => s

def noNl (s : Str) : Bool := s.all (· != '\n')

/-- `pattern.file_name.match(f)`: `^(\S|\S.*\S)$` — first and last character (before an optional
final newline) are not blanks, no newline in between -/
def fileName (f : Str) : Bool :=
  match chompNl f with
  | [] => false
  | [c] => !isSpace c
  | c :: r => !isSpace c && !isSpace (r.getLast?.getD ' ') && noNl r.dropLast

/-- states of the scanner of `Cpp_Macro_Identifier_List._pattern` after the opening `(` -/
inductive LS where
  /-- directly after `(` -/
  | opened
  /-- after `(` and at least one blank: an identifier or `)` may follow, `...` may NOT
      (the alternative `\.{3}` of the group has no `\s*` in front) -/
  | openedWs
  /-- inside an identifier -/
  | inId
  /-- after an identifier and at least one blank -/
  | afterId
  /-- after a `,` -/
  | afterComma
  /-- after one / two `.` of `...` -/
  | dot1 | dot2
  /-- after `...` -/
  | afterDots
deriving DecidableEq, Repr

inductive Step where
  | go (st : LS) | done | fail
deriving DecidableEq, Repr

/-- one character of `\((\s*ID(?:\s*,\s*ID)*(?:\s*,\s*\.{3})?|\.{3})?\s*\)` after the `(`.
The regex is deterministic on its language: an identifier is always taken to its end (the next
pattern element never starts with a word character), and whenever a greedy choice fails later,
every alternative left continues with a `,` or a word character where `\s*\)` is required. -/
def lsStep (st : LS) (c : Char) : Step :=
  match st with
  | .opened =>
    if isSpace c then .go .openedWs
    else if isIdStart c then .go .inId
    else if c = '.' then .go .dot1
    else if c = ')' then .done else .fail
  | .openedWs =>
    if isSpace c then .go .openedWs
    else if isIdStart c then .go .inId
    else if c = ')' then .done else .fail
  | .inId =>
    if isWord c then .go .inId
    else if isSpace c then .go .afterId
    else if c = ',' then .go .afterComma
    else if c = ')' then .done else .fail
  | .afterId =>
    if isSpace c then .go .afterId
    else if c = ',' then .go .afterComma
    else if c = ')' then .done else .fail
  | .afterComma =>
    if isSpace c then .go .afterComma
    else if isIdStart c then .go .inId
    else if c = '.' then .go .dot1
    else .fail
  | .dot1 => if c = '.' then .go .dot2 else .fail
  | .dot2 => if c = '.' then .go .afterDots else .fail
  | .afterDots =>
    if isSpace c then .go .afterDots
    else if c = ')' then .done else .fail

/-- run the scanner: the text after the closing `)` -/
def idListGo : LS → Str → Option Str
  | _, [] => none
  | st, c :: r =>
    match lsStep st c with
    | .go st' => idListGo st' r
    | .done => some r
    | .fail => none

/-- `Cpp_Macro_Identifier_List._pattern.match(s)`: the text after the match -/
def idList : Str → Option Str
  | '(' :: r => idListGo .opened r
  | _ => none

/-- `^\s*#\s+\d+\s+\".*\".*$` matched at position 0: the matched text (`my_match.group()`).
`.` does not match a newline and `$` matches at the end or before one final newline. -/
def linemarker (s : Str) : Option Str :=
  match lstrip s with
  | '#' :: r =>
    if (r.head?.map isSpace) != some true then none else
    let r1 := lstrip r
    if (r1.head?.map isDigit) != some true then none else
    let r2 := r1.dropWhile isDigit
    if (r2.head?.map isSpace) != some true then none else
    match lstrip r2 with
    | '"' :: r3 =>
      let body := chompNl r3
      if noNl body && body.contains '"' then some (chompNl s) else none
    | _ => none
  | _ => none

/-! ## the nested classes -/

/-- `Cpp_Pp_Tokens(string)`: `items[0]` -/
def ppTokens (s : Str) : Option Str :=
  if s = [] then none else
  let line := strip s
  if line = [] then none else some line

/-- `Cpp_Macro_Identifier(string)`: `.string` -/
def macroIdent (s : Str) : Option Str :=
  let t := strip s
  if absMacroName t then some t else none

/-- `Cpp_Macro_Identifier_List(string)`: `.string` (the pattern is matched as a prefix) -/
def macroIdentList (s : Str) : Option Str :=
  if s = [] then none else
  if (idList s).isSome then some s else none

/-- `Include_Filename(string)`: `.string` -/
def includeFilename (s : Str) : Option Str := if fileName s then some s else none

/-! ## `WORDClsBase.match(pattern, cls, string, colons=False, require_cls=…)` -/

/-- the part after `my_match = keyword.match(string)` succeeded: `value` is `pattern_value`,
`line` is `string[len(my_match.group()):]`, `argMatch` is `cls(line)` (none = NoMatchError) -/
def wordTail (value : Str) (requireCls : Bool) (argMatch : Str → Option Str) (line : Str) :
    Option (Str × Option Str) :=
  match line with
  | [] => if requireCls then none else some (value, none)
  | c :: _ =>
    if isAlnumU c then none else
    let l := lstrip line
    if l = [] then (if requireCls then none else some (value, none))
    else
      match argMatch l with
      | some a => some (value, some a)
      | none => none

/-- one `Pattern("<kw>", r"^\s*#\s*KW\b", value="#KW")` keyword -/
def wordKw (kw : Str) (requireCls : Bool) (argMatch : Str → Option Str) (s : Str) :
    Option (Str × Option Str) :=
  match kwPrefix kw s with
  | some line => wordTail ('#' :: kw) requireCls argMatch line
  | none => none

def kIf : Str := "if".toList
def kIfdef : Str := "ifdef".toList
def kIfndef : Str := "ifndef".toList
def kElif : Str := "elif".toList
def kElse : Str := "else".toList
def kEndif : Str := "endif".toList
def kInclude : Str := "include".toList
def kDefine : Str := "define".toList
def kUndef : Str := "undef".toList
def kLine : Str := "line".toList
def kError : Str := "error".toList
def kWarning : Str := "warning".toList

/-! ## the statement classes: `Cls(string)` -/

def mkWord (c : Cls) : Option (Str × Option Str) → Option Node
  | some (v, a) => some (.word c v a)
  | none => none

/-- `Cpp_If_Stmt.match`: `#if` with pp-tokens, else `#ifdef`, `#ifndef` with a macro identifier -/
def matchIf (s : Str) : Option Node :=
  if s = [] then none else
  match wordKw kIf true ppTokens s with
  | some r => mkWord .ifStmt (some r)
  | none =>
    match wordKw kIfdef true macroIdent s with
    | some r => mkWord .ifStmt (some r)
    | none => mkWord .ifStmt (wordKw kIfndef true macroIdent s)

def matchElif (s : Str) : Option Node :=
  if s = [] then none else mkWord .elifStmt (wordKw kElif true ppTokens s)

/-- `StringBase.match(pattern, string)`: the whole string is kept -/
def matchElse (s : Str) : Option Node :=
  if s = [] then none else
  match kwPrefix kElse s with
  | some _ => some (.str .elseStmt s)
  | none => none

def matchEndif (s : Str) : Option Node :=
  if s = [] then none else
  match kwPrefix kEndif s with
  | some _ => some (.str .endifStmt s)
  | none => none

/-- the payload test of `Cpp_Include_Stmt.match` on `rhs = line[found.end():].strip()`: the
file name -/
def includeArg (rhs : Str) : Option Str :=
  if rhs.length < 3 then none else
  let a := rhs.head?.getD ' '
  let z := rhs.getLast?.getD ' '
  if !(a == '"' && z == '"') && !(a == '<' && z == '>') then none else
  includeFilename (rhs.drop 1).dropLast

def matchInclude (s : Str) : Option Node :=
  if s = [] then none else
  let line := strip s
  match hashKw kInclude line with
  | none => none
  | some rest => (includeArg (strip rest)).map Node.include

def optTokens (d : Str) : Option Str := if d = [] then none else ppTokens d

/-- `Cpp_Macro_Stmt.match` after the macro name: `definition = rhs[found.end():]` -/
def macroBody (name defn : Str) : Option Node :=
  match defn with
  | [] => some (.macro name none none)
  | '(' :: _ =>
    match idList defn with
    | none => none
    | some after =>
      match macroIdentList (defn.take (defn.length - after.length)) with
      | none => none
      | some pl => some (.macro name (some pl) (optTokens (strip after)))
  | _ => some (.macro name none (optTokens (strip defn)))

/-- `Cpp_Macro_Stmt.match` on `rhs = line[found.end():].strip()` -/
def macroArg (rhs : Str) : Option Node :=
  match macroNamePrefix rhs with
  | none => none
  | some (grp, defn) =>
    match macroIdent grp with
    | none => none
    | some name => macroBody name defn

def matchMacro (s : Str) : Option Node :=
  if s = [] then none else
  let line := strip s
  match hashKw kDefine line with
  | none => none
  | some rest => macroArg (strip rest)

/-- `Cpp_Undef_Stmt.match`: pattern `^\s*(#\s*undef)\b` -/
def matchUndef (s : Str) : Option Node :=
  if s = [] then none else mkWord .undefStmt (wordKw kUndef true macroIdent s)

def matchLine (s : Str) : Option Node :=
  if s = [] then none else mkWord .lineStmt (wordKw kLine true ppTokens s)

/-- `Cpp_Linemarker_Stmt.match`: `value=None`, so `pattern_value` is the matched text; the
pattern ends in `.*$`, so nothing (or one newline) is left for `Cpp_Pp_Tokens` -/
def matchLinemarker (s : Str) : Option Node :=
  if s = [] then none else
  match linemarker s with
  | some grp => mkWord .linemarkerStmt (wordTail grp false ppTokens (s.drop grp.length))
  | none => none

def matchError (s : Str) : Option Node :=
  if s = [] then none else mkWord .errorStmt (wordKw kError false ppTokens s)

def matchWarning (s : Str) : Option Node :=
  if s = [] then none else mkWord .warningStmt (wordKw kWarning false ppTokens s)

def matchNull (s : Str) : Option Node :=
  if s = [] then none else
  if strip s = ['#'] then some .null else none

/-- `getattr(C99Preprocessor, name)(string)`: the object, or none for NoMatchError -/
def matchCls : Cls → Str → Option Node
  | .ifStmt => matchIf
  | .elifStmt => matchElif
  | .elseStmt => matchElse
  | .endifStmt => matchEndif
  | .includeStmt => matchInclude
  | .macroStmt => matchMacro
  | .undefStmt => matchUndef
  | .lineStmt => matchLine
  | .linemarkerStmt => matchLinemarker
  | .errorStmt => matchError
  | .warningStmt => matchWarning
  | .nullStmt => matchNull

/-- the loop of `match_cpp_directive` over a list of classes -/
def classifyIn (order : List Cls) (s : Str) : Option Node :=
  order.findSome? fun c => matchCls c s

/-- `match_cpp_directive(reader)` when the next item is a `CppDirective` whose `.line` is `s` -/
def classify (s : Str) : Option Node := classifyIn realOrder s

/-- a `CppDirective` item made from the raw (continuation-joined) text: `Line.__init__` strips
it (and raises for an all-blank text, which the reader never produces for a directive) -/
def classifyItem (raw : Str) : Option Node :=
  if strip raw = [] then none else classify (strip raw)

/-! ## `tostr` -/

def pyNone : Str := "None".toList

/-- `"{0} {1}".format(*self.items)` -/
def fmt2 (kw : Str) (a : Option Str) : Str := kw ++ ' ' :: a.getD pyNone

def render : Node → Str
  | .word .linemarkerStmt kw _ => lstrip kw
  | .word .errorStmt kw a | .word .warningStmt kw a =>
    match a with
    | some t => kw ++ ' ' :: t
    | none => kw
  | .word _ kw a => fmt2 kw a
  | .str _ s => s
  | .include f => "#include \"".toList ++ f ++ ['"']
  | .macro n pl d =>
    "#define ".toList ++ n ++ pl.getD [] ++ (if d.isSome then [' '] else []) ++ d.getD []
  | .null => ['#']

/-! ## vocabulary of the property theorems -/

/-- the text with every blank removed ("content modulo blanks") -/
def squash (s : Str) : Str := s.filter (fun c => !isSpace c)

/-- split at blanks -/
def words (s : Str) : List Str :=
  let rec go : Str → Str → List Str → List Str
    | [], cur, acc => (if cur = [] then acc else cur.reverse :: acc).reverse
    | c :: cs, cur, acc =>
      if isSpace c then go cs [] (if cur = [] then acc else cur.reverse :: acc)
      else go cs (c :: cur) acc
  go s [] []

/-- the maximal run of word characters after `\s*#\s*`, and the text after it -/
def shape (s : Str) : Option (Str × Str) :=
  match lstrip s with
  | '#' :: r => let r1 := lstrip r; some (r1.takeWhile isWord, r1.dropWhile isWord)
  | _ => none

/-- the keywords with a class, and the class -/
def kwTable : List (Str × Cls) :=
  [(kIf, .ifStmt), (kIfdef, .ifStmt), (kIfndef, .ifStmt), (kElif, .elifStmt), (kElse, .elseStmt),
   (kEndif, .endifStmt), (kInclude, .includeStmt), (kDefine, .macroStmt), (kUndef, .undefStmt),
   (kLine, .lineStmt), (kError, .errorStmt), (kWarning, .warningStmt)]

def kwClass (w : Str) : Option Cls := kwTable.lookup w

/-- the keywords whose payload must be ONE macro identifier (`Cpp_Macro_Identifier`) -/
def identArg (w : Str) : Bool := w = kIfdef || w = kIfndef || w = kUndef

/-- for a line `# w rest` with `kwClass w = some c`: the payload is accepted by class `c`
(theorem `classify_shaped`: exactly then the line is classified) -/
def payloadOK (c : Cls) (w rest : Str) : Bool :=
  let p := strip rest
  match c with
  | .elseStmt | .endifStmt | .errorStmt | .warningStmt => true
  | .includeStmt => (includeArg p).isSome
  | .macroStmt => (macroArg p).isSome
  | _ => if identArg w then absMacroName p else p != []

/-! ## what the generated file is compared with (see Generated/CppTables.lean)

The constants below are the facts of the repository this model was written for and validated
against (`fv/cosim_cpp.py`). `fv/extract_cpp.py` reads the same facts from the live code on every
run; the kernel compares. When the repository changes one of them, the build breaks here: re-read
the code, adapt the model, re-run the co-simulation, and only then update the constant
(`python -m fv.extract_cpp --spec` prints the `sources` block). -/
namespace Spec
/-- (pattern, flags without re.UNICODE, `Pattern.value`) -/
def ifP : String × Nat × Option String := (kwPattern "if", 0, some "#if")
def ifdefP : String × Nat × Option String := (kwPattern "ifdef", 0, some "#ifdef")
def ifndefP : String × Nat × Option String := (kwPattern "ifndef", 0, some "#ifndef")
def defPatternCount : Nat := 2
def ifRegexR : String × Nat × Option String := (ifRegex, 0, none)
def elifP : String × Nat × Option String := (kwPattern "elif", 0, some "#elif")
/-- no `value`: irrelevant, `StringBase.match` keeps the whole string -/
def elseP : String × Nat × Option String := (kwPattern "else", 0, none)
def endifP : String × Nat × Option String := (kwPattern "endif", 0, some "#endif")
def includeR : String × Nat × Option String := (kwRegex "include", 0, none)
def defineR : String × Nat × Option String := (kwRegex "define", 0, none)
def idListP : String × Nat × Option String := (idListPattern, 0, none)
def undefP : String × Nat × Option String := (undefPattern, 0, some "#undef")
def lineP : String × Nat × Option String := (kwPattern "line", 0, some "#line")
/-- `value=None`: the matched text is kept -/
def linemarkerP : String × Nat × Option String := (linemarkerPattern, 0, none)
def errorP : String × Nat × Option String := (kwPattern "error", 0, some "#error")
def warningP : String × Nat × Option String := (kwPattern "warning", 0, some "#warning")
/-- flags 2 = re.I -/
def macroNameP : String × Nat × Option String := (macroNamePattern, 2, none)
def absMacroNameP : String × Nat × Option String := (absMacroNamePattern, 2, none)
def fileNameP : String × Nat × Option String := (fileNamePattern, 2, none)

/-- first base class of every class of the module -/
def bases : List (String × String) := [
  ("Cpp_If_Stmt", "WORDClsBase"),
  ("Cpp_Elif_Stmt", "WORDClsBase"),
  ("Cpp_Else_Stmt", "StringBase"),
  ("Cpp_Endif_Stmt", "StringBase"),
  ("Cpp_Include_Stmt", "Base"),
  ("Cpp_Macro_Stmt", "Base"),
  ("Cpp_Undef_Stmt", "WORDClsBase"),
  ("Cpp_Line_Stmt", "WORDClsBase"),
  ("Cpp_Linemarker_Stmt", "WORDClsBase"),
  ("Cpp_Error_Stmt", "WORDClsBase"),
  ("Cpp_Warning_Stmt", "WORDClsBase"),
  ("Cpp_Null_Stmt", "Base"),
  ("Cpp_Pp_Tokens", "Base"),
  ("Cpp_Macro_Identifier", "StringBase"),
  ("Cpp_Macro_Identifier_List", "StringBase")]

/-- `use_names` -/
def useNames : List (String × List String) := [
  ("Cpp_If_Stmt", ["Cpp_Macro_Identifier", "Cpp_Pp_Tokens"]),
  ("Cpp_Elif_Stmt", ["Cpp_Pp_Tokens"]),
  ("Cpp_Else_Stmt", []),
  ("Cpp_Endif_Stmt", []),
  ("Cpp_Include_Stmt", ["Include_Filename"]),
  ("Cpp_Macro_Stmt", ["Cpp_Macro_Identifier", "Cpp_Macro_Identifier_List", "Cpp_Pp_Tokens"]),
  ("Cpp_Undef_Stmt", ["Cpp_Macro_Identifier"]),
  ("Cpp_Line_Stmt", ["Cpp_Pp_Tokens"]),
  ("Cpp_Linemarker_Stmt", ["Cpp_Pp_Tokens"]),
  ("Cpp_Error_Stmt", ["Cpp_Pp_Tokens"]),
  ("Cpp_Warning_Stmt", ["Cpp_Pp_Tokens"]),
  ("Cpp_Null_Stmt", []),
  ("Cpp_Pp_Tokens", []),
  ("Cpp_Macro_Identifier", []),
  ("Cpp_Macro_Identifier_List", [])]

/-- `ast.unparse` (docstrings, decorators, annotations removed) of every function the model mirrors -/
def sources : List (String × String) := [
  ("match_cpp_directive",
   "def match_cpp_directive(reader):\n    is_potential_cpp_directive = True\n    if isinstance(reader, FortranReaderBase):\n        item = reader.get_item()\n        is_potential_cpp_directive = isinstance(item, CppDirective)\n        if item:\n            reader.put_item(item)\n    if is_potential_cpp_directive:\n        for cls in CPP_CLASS_NAMES:\n            obj = getattr(sys.modules[__name__], cls)(reader)\n            if obj:\n                return obj\n    return None"),
  ("Cpp_Pp_Tokens.match",
   "def match(string):\n    if not string:\n        return None\n    line = string.strip()\n    if not line:\n        return None\n    return (line,)"),
  ("Cpp_Pp_Tokens.tostr",
   "def tostr(self):\n    return self.items[0]"),
  ("Cpp_If_Stmt.match",
   "def match(string):\n    if not string:\n        return None\n    result = WORDClsBase.match(Cpp_If_Stmt._if_pattern, Cpp_Pp_Tokens, string, colons=False, require_cls=True)\n    return result or WORDClsBase.match(Cpp_If_Stmt._def_pattern, Cpp_Macro_Identifier, string, colons=False, require_cls=True)"),
  ("Cpp_If_Stmt.tostr",
   "def tostr(self):\n    return '{0} {1}'.format(*self.items)"),
  ("Cpp_Elif_Stmt.match",
   "def match(string):\n    if not string:\n        return None\n    return WORDClsBase.match(Cpp_Elif_Stmt._pattern, Cpp_Pp_Tokens, string, colons=False, require_cls=True)"),
  ("Cpp_Elif_Stmt.tostr",
   "def tostr(self):\n    return '{0} {1}'.format(*self.items)"),
  ("Cpp_Else_Stmt.match",
   "def match(string):\n    if not string:\n        return None\n    return StringBase.match(Cpp_Else_Stmt._pattern, string)"),
  ("Cpp_Else_Stmt.tostr",
   "def tostr(self):\n    return self.string"),
  ("Cpp_Endif_Stmt.match",
   "def match(string):\n    if not string:\n        return None\n    return StringBase.match(Cpp_Endif_Stmt._pattern, string)"),
  ("Cpp_Endif_Stmt.tostr",
   "def tostr(self):\n    return self.string"),
  ("Cpp_Include_Stmt.match",
   "def match(string):\n    from fparser.two.Fortran2003 import Include_Filename\n    if not string:\n        return None\n    line = string.strip()\n    found = Cpp_Include_Stmt._regex.match(line)\n    if not found:\n        return None\n    rhs = line[found.end():].strip()\n    if rhs is None or len(rhs) < 3:\n        return None\n    if not (rhs[0] == '\"' and rhs[-1] == '\"') and (not (rhs[0] == '<' and rhs[-1] == '>')):\n        return None\n    file_name = rhs[1:-1]\n    return (Include_Filename(file_name),)"),
  ("Cpp_Include_Stmt.tostr",
   "def tostr(self):\n    return '#include \"{0}\"'.format(self.items[0])"),
  ("Cpp_Macro_Stmt.match",
   "def match(string):\n    if not string:\n        return None\n    line = string.strip()\n    found = Cpp_Macro_Stmt._regex.match(line)\n    if not found:\n        return None\n    rhs = line[found.end():].strip()\n    found = pattern.macro_name.match(rhs)\n    if not found:\n        return None\n    name = Cpp_Macro_Identifier(found.group())\n    definition = rhs[found.end():]\n    if not definition:\n        return (name, None, None)\n    if definition[0] == '(':\n        found = Cpp_Macro_Identifier_List._pattern.match(definition)\n        if not found:\n            return None\n        parameter_list = Cpp_Macro_Identifier_List(found.group())\n        definition = definition[found.end():]\n    else:\n        parameter_list = None\n    definition = definition.strip()\n    if definition:\n        definition = Cpp_Pp_Tokens(definition)\n    else:\n        definition = None\n    return (name, parameter_list, definition)"),
  ("Cpp_Macro_Stmt.tostr",
   "def tostr(self):\n    return '#define {0}{1}{2}{3}'.format(self.items[0], self.items[1] or '', ' ' if self.items[2] else '', self.items[2] or '')"),
  ("Cpp_Undef_Stmt.match",
   "def match(string):\n    if not string:\n        return None\n    return WORDClsBase.match(Cpp_Undef_Stmt._pattern, Cpp_Macro_Identifier, string, colons=False, require_cls=True)"),
  ("Cpp_Undef_Stmt.tostr",
   "def tostr(self):\n    return '{0} {1}'.format(*self.items)"),
  ("Cpp_Line_Stmt.match",
   "def match(string):\n    if not string:\n        return None\n    return WORDClsBase.match(Cpp_Line_Stmt._pattern, Cpp_Pp_Tokens, string, colons=False, require_cls=True)"),
  ("Cpp_Line_Stmt.tostr",
   "def tostr(self):\n    return '{0} {1}'.format(*self.items)"),
  ("Cpp_Linemarker_Stmt.match",
   "def match(string):\n    if not string:\n        return None\n    return WORDClsBase.match(Cpp_Linemarker_Stmt._pattern, Cpp_Pp_Tokens, string, colons=False, require_cls=False)"),
  ("Cpp_Linemarker_Stmt.tostr",
   "def tostr(self):\n    return self.items[0].lstrip()"),
  ("Cpp_Error_Stmt.match",
   "def match(string):\n    if not string:\n        return None\n    return WORDClsBase.match(Cpp_Error_Stmt._pattern, Cpp_Pp_Tokens, string, colons=False, require_cls=False)"),
  ("Cpp_Error_Stmt.tostr",
   "def tostr(self):\n    if self.items[1]:\n        return '{0} {1}'.format(*self.items)\n    return self.items[0]"),
  ("Cpp_Warning_Stmt.match",
   "def match(string):\n    if not string:\n        return None\n    return WORDClsBase.match(Cpp_Warning_Stmt._pattern, Cpp_Pp_Tokens, string, colons=False, require_cls=False)"),
  ("Cpp_Warning_Stmt.tostr",
   "def tostr(self):\n    if self.items[1]:\n        return '{0} {1}'.format(*self.items)\n    return self.items[0]"),
  ("Cpp_Null_Stmt.match",
   "def match(string):\n    if not string:\n        return None\n    line = string.strip()\n    if not line == '#':\n        return None\n    return ()"),
  ("Cpp_Null_Stmt.tostr",
   "def tostr(self):\n    return '#'"),
  ("Cpp_Macro_Identifier.match",
   "def match(string):\n    return StringBase.match(pattern.abs_macro_name, string.strip())"),
  ("Cpp_Macro_Identifier_List.match",
   "def match(string):\n    if not string:\n        return None\n    return StringBase.match(Cpp_Macro_Identifier_List._pattern, string)"),
  ("Cpp_Macro_Identifier_List.tostr",
   "def tostr(self):\n    return self.string"),
  ("Include_Filename.match",
   "def match(string):\n    return StringBase.match(pattern.file_name, string)"),
  ("WORDClsBase.match",
   "def match(keyword, cls, string, colons=False, require_cls=False):\n    if isinstance(keyword, (tuple, list)):\n        for child in keyword:\n            try:\n                obj = WORDClsBase.match(child, cls, string, colons=colons, require_cls=require_cls)\n            except NoMatchError:\n                obj = None\n            if obj is not None:\n                return obj\n        return None\n    if isinstance(keyword, str):\n        line = string.lstrip()\n        if line[:len(keyword)].upper() != keyword.upper():\n            return None\n        line = line[len(keyword):]\n        pattern_value = keyword\n    else:\n        my_match = keyword.match(string)\n        if my_match is None:\n            return None\n        line = string[len(my_match.group()):]\n        if keyword.value:\n            pattern_value = keyword.value\n        else:\n            pattern_value = my_match.group()\n    if not line:\n        if require_cls:\n            return None\n        return (pattern_value, None)\n    if isalnum(line[0]):\n        return None\n    line = line.lstrip()\n    has_colons = False\n    if colons and line.startswith('::'):\n        has_colons = True\n        line = line[2:].lstrip()\n    if not line:\n        if has_colons or require_cls:\n            return None\n        return (pattern_value, None)\n    if cls is None:\n        return None\n    return (pattern_value, cls(line))"),
  ("StringBase.match",
   "def match(pattern, string):\n    if isinstance(pattern, (list, tuple)):\n        for p in pattern:\n            obj = StringBase.match(p, string)\n            if obj is not None:\n                return obj\n        return\n    if isinstance(pattern, str):\n        if len(pattern) == len(string) and pattern == string:\n            return (string,)\n        return\n    if pattern.match(string):\n        return (string,)\n    return None"),
  ("StringBase.init",
   "def init(self, string):\n    self.string = string"),
  ("StringBase.tostr",
   "def tostr(self):\n    return str(self.string)"),
  ("utils.isalnum",
   "def isalnum(c):\n    return c.isalnum() or c == '_'")]
end Spec

end Fp.Cpp
