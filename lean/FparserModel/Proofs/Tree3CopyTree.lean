import FparserModel.Proofs.Tree3Copy
/-!
# A copy started at any node of a well-formed tree copies the whole tree (helper lemmas, C18)
-/
namespace Fp.Tree3
open Fp.Tree

theorem reach_cases {a : Arena} {r n : Nat} (h : Reach a r n) :
    n = r ∨ ∃ c nd, Reach a r c ∧ a[c]? = some nd ∧ n ∈ spList nd.children := by
  cases h with
  | refl => exact .inl rfl
  | step c n nd hc hnd hn => exact .inr ⟨c, nd, hc, hnd, hn⟩

/-- the nodes of a well-formed tree are closed under child and parent references -/
theorem closed_of_wf (facts : Nat → CopyFacts) (a : Arena) (root h : Nat) (t : RTree)
    (ht : absNode a h root = some t) (wf : TreeWF a root)
    (hok : ∀ n ∈ t.pre, ∀ nd, a[n]? = some nd → (facts nd.cls).ok = true) :
    Closed facts a t.pre := by
  intro z hz
  have hlt := pre_alloc a h root t ht z hz
  have hget : a[z]? = some a[z] := List.getElem?_eq_getElem hlt
  refine ⟨a[z], hget, hok z hz _ hget, pre_closed a h root t ht z hz _ hget, ?_⟩
  intro p hp
  have hpar : parentOf a z = some p := by simp [parentOf, hget, hp]
  rcases reach_cases (pre_reach a h root t ht z hz) with rfl | ⟨c, nd, hc, hnd, hn⟩
  · rw [wf.root_parent] at hpar; cases hpar
  · have := wf.parent_ok c nd z hc hnd hn
    rw [this] at hpar
    have hcp : c = p := by simpa using hpar
    rw [← hcp]
    exact reach_pre a h root t ht c hc

theorem keys_nodup {C : List Nat} {base : Nat} {st : CopyState} (h : MInv C base st) :
    (st.memo.map Prod.fst).Nodup := by
  rw [List.nodup_iff_getElem?_ne_getElem?]
  intro i j hij hj heq
  simp only [List.length_map] at hj
  have hi : i < st.memo.length := by omega
  have e1 : st.memo[i]? = some st.memo[i] := List.getElem?_eq_getElem hi
  have e2 : st.memo[j]? = some st.memo[j] := List.getElem?_eq_getElem hj
  simp only [List.getElem?_map, e1, e2, Option.map_some, Option.some.injEq] at heq
  obtain ⟨y1, g1, _⟩ := h.ent i st.memo[i].1 st.memo[i].2 e1
  obtain ⟨y2, g2, _⟩ := h.ent j st.memo[j].1 st.memo[j].2 e2
  rw [heq, g2] at g1
  simp only [Option.some.injEq] at g1
  omega

structure Core (facts : Nat → CopyFacts) (a : Arena) (t : RTree) (n : Nat) (st : CopyState) : Prop where
  run : copyNode facts a a.length (2 * arenaFuel a + 2) n {} = .ok (a.length, st)
  lenO : st.out.length = t.pre.length
  lenM : st.memo.length = t.pre.length
  ent : ∀ (i x y : Nat), st.memo[i]? = some (x, y) → y = a.length + i ∧ x ∈ t.pre ∧ phi st.memo x = y
  cover : ∀ m ∈ t.pre, ∃ i : Nat, st.memo[i]? = some (m, a.length + i) ∧ phi st.memo m = a.length + i
    ∧ ∀ nd, a[m]? = some nd → st.out[i]? = some (expNode (phi st.memo) nd)
  start : phi st.memo n = a.length

theorem copy_tree_core (facts : Nat → CopyFacts) (a : Arena) (root h : Nat) (t : RTree)
    (ht : absNode a h root = some t) (wf : TreeWF a root)
    (hok : ∀ n ∈ t.pre, ∀ nd, a[n]? = some nd → (facts nd.cls).ok = true)
    (n : Nat) (hn : n ∈ t.pre) : ∃ st, Core facts a t n st := by
  have hC := closed_of_wf facts a root h t ht wf hok
  have hnd := wf_pre_nodup a root h t wf ht
  obtain ⟨st, hrun, hinv, hmn, hfill⟩ := copy_graph facts a t.pre hC hnd n hn
  -- the memo is closed under references
  have inM : ∀ x, (∃ y, memoGet st.memo x = some y) → ∃ nd, a[x]? = some nd ∧ RefsIn st.memo nd := by
    rintro x ⟨y, hy⟩
    obtain ⟨i, hi⟩ := memoGet_index st.memo x y hy
    obtain ⟨nd, h1, _, h3⟩ := hfill i x y hi
    exact ⟨nd, h1, h3⟩
  have upM : ∀ k x r, (∃ y, memoGet st.memo x = some y) → anc a k x = some r → ∃ y, memoGet st.memo r = some y := by
    intro k
    induction k with
    | zero => intro x r hx hr; simp only [anc, Option.some.injEq] at hr; subst hr; exact hx
    | succ k ih =>
      intro x r hx hr
      obtain ⟨nd, h1, h2⟩ := inM x hx
      simp only [anc] at hr
      cases hp : parentOf a x with
      | none => simp [hp] at hr
      | some p =>
        simp only [hp, Option.bind_some] at hr
        have : nd.parent = some p := by simpa [parentOf, h1] using hp
        exact ih p r (h2.2 p this) hr
  have hrootM : ∃ y, memoGet st.memo root = some y := by
    obtain ⟨k, hk⟩ := pre_anc a h root t ht
      (fun c hc nd m hnd' hm => wf.parent_ok c nd m (pre_reach a h root t ht c hc) hnd' hm) n hn
    exact upM k n root ⟨_, hmn⟩ hk
  have downM : ∀ m, Reach a root m → ∃ y, memoGet st.memo m = some y := by
    intro m hm
    induction hm with
    | refl => exact hrootM
    | step c m nd _ hc hmem ih =>
      obtain ⟨nd', h1, h2⟩ := inM c ih
      rw [hc] at h1; cases h1
      exact h2.1 m hmem
  have allM : ∀ m ∈ t.pre, ∃ y, memoGet st.memo m = some y :=
    fun m hm => downM m (pre_reach a h root t ht m hm)
  -- sizes
  have hkn := keys_nodup hinv
  have hsub1 : st.memo.map Prod.fst ⊆ t.pre := by
    intro x hx
    obtain ⟨⟨x', y⟩, hmem, rfl⟩ := List.mem_map.1 hx
    obtain ⟨i, hi⟩ := List.getElem?_of_mem hmem
    exact (hinv.ent i x' y hi).2.2
  have hsub2 : t.pre ⊆ st.memo.map Prod.fst := by
    intro m hm
    obtain ⟨y, hy⟩ := allM m hm
    obtain ⟨i, hi⟩ := memoGet_index st.memo m y hy
    exact List.mem_map.2 ⟨(m, y), List.mem_of_getElem? hi, rfl⟩
  have hlen : st.memo.length = t.pre.length := by
    have l1 := (List.subperm_of_subset hkn hsub1).length_le
    have l2 := (List.subperm_of_subset hnd hsub2).length_le
    simp only [List.length_map] at l1 l2
    omega
  refine ⟨st, hrun, by rw [← hinv.len, hlen], hlen, ?_, ?_, by simp [phi, hmn]⟩
  · intro i x y hi
    obtain ⟨e1, e2, e3⟩ := hinv.ent i x y hi
    exact ⟨e1, e3, by simp [phi, e2]⟩
  · intro m hm
    obtain ⟨y, hy⟩ := allM m hm
    obtain ⟨i, hi⟩ := memoGet_index st.memo m y hy
    obtain ⟨e1, e2, _⟩ := hinv.ent i m y hi
    subst e1
    refine ⟨i, hi, by simp [phi, e2], fun nd hnd' => ?_⟩
    obtain ⟨nd', h1, h2, _⟩ := hfill i m _ hi
    rw [hnd'] at h1; cases h1
    exact h2

/-- generic: an arena `a'` that holds, for every node of the tree, its renamed copy at the
    renamed id is again a well-formed tree of the same shape -/
theorem copy_tree_of_entries (a a' : Arena) (φ : Nat → Nat) (root h : Nat) (t : RTree)
    (ht : absNode a h root = some t) (wf : TreeWF a root)
    (hent : ∀ n ∈ t.pre, ∀ nd, a[n]? = some nd → a'[φ n]? = some (expNode φ nd))
    (hinj : ∀ n ∈ t.pre, ∀ m ∈ t.pre, φ n = φ m → n = m) :
    (∀ n ∈ t.pre, parentOf a' (φ n) = (parentOf a n).map φ)
    ∧ absNode a' h (φ root) = some (t.mapIds φ)
    ∧ TreeWF a' (φ root)
    ∧ walkIds a' (φ root) = t.pre.map φ := by
  have hpar : ∀ n ∈ t.pre, parentOf a' (φ n) = (parentOf a n).map φ := by
    intro n hn
    have hlt := pre_alloc a h root t ht n hn
    have hnd : a[n]? = some a[n] := List.getElem?_eq_getElem hlt
    simp [parentOf, hent n hn _ hnd, hnd, expNode]
  have hrootmem : root ∈ t.pre := by
    have := absNode_id a h root t ht; rw [← this]; exact id_mem_pre t
  have hrp : parentOf a' (φ root) = none := by
    rw [hpar root hrootmem, wf.root_parent]; rfl
  have habs := absNode_copy a a' φ t.pre hent h root t ht (fun _ hn => hn)
  have hpre := pre_mapIds φ t
  have hwf : TreeWF a' (φ root) := by
    have back : ∀ c, Reach a' (φ root) c → ∃ n ∈ t.pre, c = φ n := by
      intro c hc
      have := reach_pre a' h (φ root) _ habs c hc
      rw [hpre, List.mem_map] at this
      obtain ⟨n, hn, rfl⟩ := this
      exact ⟨n, hn, rfl⟩
    refine ⟨hrp, ?_, ?_⟩
    · intro c nd' m hc hnd' hm
      obtain ⟨n, hn, rfl⟩ := back c hc
      have hlt := pre_alloc a h root t ht n hn
      have hnd : a[n]? = some a[n] := List.getElem?_eq_getElem hlt
      rw [hent n hn _ hnd] at hnd'
      cases hnd'
      simp only [expNode, spList_mapItems, List.mem_map] at hm
      obtain ⟨m0, hm0, rfl⟩ := hm
      have hm0t := pre_closed a h root t ht n hn _ hnd m0 hm0
      rw [hpar m0 hm0t, wf.parent_ok n _ m0 (pre_reach a h root t ht n hn) hnd hm0]
      rfl
    · intro c nd' hc hnd'
      obtain ⟨n, hn, rfl⟩ := back c hc
      have hlt := pre_alloc a h root t ht n hn
      have hnd : a[n]? = some a[n] := List.getElem?_eq_getElem hlt
      rw [hent n hn _ hnd] at hnd'
      cases hnd'
      simp only [expNode, spList_mapItems]
      refine List.Nodup.map_on ?_ (wf.kids_nodup n _ (pre_reach a h root t ht n hn) hnd)
      intro x hx y hy hxy
      exact hinj x (pre_closed a h root t ht n hn _ hnd x hx) y (pre_closed a h root t ht n hn _ hnd y hy) hxy
  refine ⟨hpar, habs, hwf, ?_⟩
  have hwalk : ∀ (b : Arena) (r : Nat) (t' : RTree), absNode b h r = some t' → TreeWF b r → walkIds b r = t'.pre := by
    intro b r t' hb hw
    have hnd := wf_pre_nodup b r h t' hw hb
    exact walkIds_of_fuel b h r t' hb (arena_fuel_walk b t'.pre hnd (pre_alloc b h r t' hb))
  rw [hwalk a' (φ root) _ habs hwf, hpre]

end Fp.Tree3
