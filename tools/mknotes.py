import json, os
R = "/tmp/lw/primary"
head = open(os.path.join(R, "tools", "notes_head_primary.md"), encoding="utf-8").read()
extra = ""
p = os.path.join(R, "tools", "notes_translator.md")
if os.path.exists(p):
    extra = open(p, encoding="utf-8").read()
head = head.replace("See the section written by the translator sub-agent below (`TRANSLATOR`).", extra or "(see fv/extract_primary.py)")
th = json.load(open(os.path.join(R, "theorems", "Primary.json"), encoding="utf-8"))
L = [head, "## Theorems (FparserModel/Props/Primary.lean, namespace Fp.Primary.Props) — exact statements\n",
     "`toks s = upper (noBlank s)`; `net` = #`(` − #`)`; `OracleTok o := ∀ c t n, o.call c t = .ok n → toks (o.str n) = toks t`; "
     "`SrmOK l` (decidable) = the hypotheses of `srm_roundtrip_partial`; `CallEndOK s` (decidable) = the tokenised text also ends in `)`; "
     "`TripletStrideOK s` (decidable) = with two colons the stride text is not empty. All `#print axioms` ⊆ {propext, Classical.choice, Quot.sound}.\n"]
for e in th:
    L.append("* **%s** [%s; %s]\n  `%s`%s" % (e["name"].split(".")[-1], ",".join(e["serves"]), e["strength"], e["statement"],
                                              ("\n  — " + e["note"]) if e["note"] else ""))
tail = os.path.join(R, "tools", "notes_tail_primary.md")
if os.path.exists(tail):
    L.append(open(tail, encoding="utf-8").read())
open(os.path.join(R, "DELIVER", "NOTES.md"), "w", encoding="utf-8").write("\n".join(L) + "\n")
print("NOTES.md:", len(th), "theorems")
