"""Co-simulation of the Primary slice (operand layer of Fortran2003.py) against the real fparser.

    python -m fv.cosim_primary --seed S --n N [--max-seconds T] [--verbose]

LEVEL B  (`Base.__new__`): for a class C of the layer and a text t the real `C(t)` runs with
`utils.Base.__new__` instrumented: every call is counted, every FRONTIER call of an external class
(Expr, Int_Expr, Type_Spec, Type_Param_Spec_List, Label, Level_1_Expr) is recorded (outcome, printed
text, call count).  The model (`primary.new`) evaluates the layer itself - `match`, subclass loop,
`parent_cls` - and ASKS for the external calls, which are answered from the recording.  Compared:
outcome (node / NoMatchError / which other exception), class chosen, printed text, the structural
rendering `Cls(item, ...)` of the whole tree, and the TOTAL NUMBER of `Base.__new__` calls.

LEVEL A  (`match` of one class): the real `C.match(t)` runs with the depth-1 child calls recorded;
the model (`primary.match`) asks for exactly those; compared: the sequence of child calls asked,
outcome, items, and `tostr`.

CLOSED MODEL: for references over plain names / integer literals (any nesting, the family of finding
F-C20-1) the model runs with NO external answers (`primary.closed`: the expression chain is the
model's `chainExt`); class, printed text and the total call count must equal the real ones.

Samples: operands harvested from generated programs (`fv.gen`; nodes of the layer's classes are
re-matched class by class from `node.string`), a shape generator (all literal forms, sections,
components, substrings, constructors, keyword arguments, nested references to depth 6), and
one-token deletions / duplications / parenthesis insertions of those, and UNBALANCED DEEP REFERENCES
(depth 1..8, one surplus or missing parenthesis at every nesting level, one- and two-argument chains).
A real run that exceeds the per-sample limit is a TIME-OUT (counted, not a disagreement): rejected inputs
can be exponentially expensive (`f6(f5(f4(f3(f2(f1(x)))))))` needs 2 034 178 rule-constructor calls).

Negative controls (each run): source-level mutations of the real code applied in-process (order of
Primary's alternatives, Part_Ref accepting a trailing parenthesis, Array_Constructor printing `(/ /)`
for `[ ]` and dropping the type-spec, a loosened literal regex, Actual_Arg_Spec split at the last
`=`, one useless extra Part_Ref parse in Data_Ref, and /repo 2a636f5 REVERTED: the repaired exponential
cost of nested references) must each be REPORTED as disagreements, and a flipped
driver answer; otherwise the run FAILS.
"""
import argparse
import collections
import os
import random
import re
import signal
import sys
import time

from fv import repo

repo.activate()

from fparser.two.parser import ParserFactory  # noqa: E402
from fparser.two import utils as U  # noqa: E402
from fparser.two import Fortran2003 as F3  # noqa: E402
from fparser.two import pattern_tools as PT  # noqa: E402
from fv.model import Model, get_model  # noqa: E402

STDS = ("f2003", "f2008")
MAX_LEN = 120
MAX_DEPTH = 7
MAX_GROUPS = 14

# per-sample wall-clock limit of the REAL run (seconds); a sample that exceeds it is counted as a time-out,
# never as a disagreement (rejected inputs can be exponentially expensive: see EXPENSIVE below)
SAMPLE_LIMIT = [3.0]

EXTERNAL = ("Expr", "Int_Expr", "Type_Spec", "Type_Param_Spec_List", "Label", "Level_1_Expr")


def model():
    exe = os.environ.get("FV_MODEL_EXE")
    return Model(exe) if exe else get_model()


# ------------------------------------------------------------------------------- guards

class CaseTimeout(BaseException):
    """per-sample limit; BaseException so that `except Exception` cannot swallow it"""


def _alarm(signum, frame):
    raise CaseTimeout()


class time_limit:
    def __init__(self, seconds=2.0):
        self.seconds = seconds

    def __enter__(self):
        self.old = signal.signal(signal.SIGALRM, _alarm)
        signal.setitimer(signal.ITIMER_REAL, self.seconds, 1.0)

    def __exit__(self, *a):
        signal.setitimer(signal.ITIMER_REAL, 0)
        signal.signal(signal.SIGALRM, self.old)
        return False


def admissible(s):
    if len(s) > MAX_LEN or "\n" in s:
        return False
    depth = best = groups = 0
    for ch in s:
        if ch in "([":
            depth += 1
            groups += 1
            best = max(best, depth)
        elif ch in ")]":
            depth = max(0, depth - 1)
    if "F2PY" in s and best > 0:
        return False
    try:
        s.encode("ascii")
    except UnicodeEncodeError:
        return False
    return best <= MAX_DEPTH and groups <= MAX_GROUPS


# ------------------------------------------------------------------------------- real side

_cur_std = [None]
_modules = {}


def set_std(std):
    if _cur_std[0] != std:
        ParserFactory().create(std=std)
        _cur_std[0] = std
    if std not in _modules:
        import fparser.two.Fortran2008 as F8
        _modules[std] = F8 if std == "f2008" else F3


def real_class(std, name):
    """the class object the rules of `std` use for `name`"""
    set_std(std)
    if std == "f2008" and not name.endswith("_List"):
        # (the exec-generated `*_List` classes of the Fortran2008 package are not the ones the rules
        #  use, two of them raise NameError on every input: finding of the Combi slice)
        import fparser.two.Fortran2008 as F8
        c = getattr(F8, name, None)
        if c is not None:
            return c
    return getattr(F3, name)


def exc_kind(e):
    if isinstance(e, U.NoMatchError):
        return "nomatch"
    return "raises:" + type(e).__name__


class Recorder:
    """instrumented Base.__new__"""

    def __init__(self, layer):
        self.layer = layer            # class names of the layer (non external)
        self.reset()

    def reset(self):
        self.calls = 0
        self.depth = 0
        self.ext_depth = 0
        self.ext = collections.OrderedDict()     # (cls, text) -> [(kind, str, shape, calls)]
        self.ext_ids = {}                        # id(node) -> shape text
        self.keep = []                           # keep ext nodes alive (ids stay unique)
        self.children = []                       # depth-1 calls: (cls, text, kind, str, obj)

    def install(self):
        self.orig = U.Base.__new__
        rec = self

        def counting(cls, string, parent_cls=None, _deepcopy=False):
            rec.calls += 1
            name = cls.__name__
            is_ext = name in EXTERNAL and rec.ext_depth == 0 and isinstance(string, str)
            start = rec.calls
            rec.depth += 1
            if name in EXTERNAL:
                rec.ext_depth += 1
            d = rec.depth
            # `kind` stays "timeout" when the per-sample limit (CaseTimeout) cuts the call short: nothing is
            # recorded then and the CaseTimeout travels on unchanged.  (Before this was fixed the `finally`
            # below read an unbound `kind` and turned the time-out into an UnboundLocalError that looked
            # like an exception of the real parser.)
            obj = None
            kind = "timeout"
            try:
                obj = rec.orig(cls, string, parent_cls, _deepcopy)
                kind = "ok"
            except CaseTimeout:
                raise
            except BaseException as e:  # noqa: BLE001
                kind = exc_kind(e)
                raise
            finally:
                rec.depth -= 1
                if name in EXTERNAL:
                    rec.ext_depth -= 1
                if kind == "timeout":
                    pass
                elif is_ext:
                    if kind == "ok":
                        sh = "<" + repr(obj) + ">"
                        rec.ext_ids[id(obj)] = sh
                        rec.keep.append(obj)
                        ent = (kind, str(obj), sh, rec.calls - start + 1)
                    else:
                        ent = (kind, "", "", rec.calls - start + 1)
                    lst = rec.ext.setdefault((name if parent_cls is None else "+" + name, string), [])
                    if ent not in lst:
                        lst.append(ent)
                if kind != "timeout" and d == 1 and isinstance(string, str):
                    rec.children.append((name, string, kind, str(obj) if kind == "ok" else "", obj))
            return obj

        U.Base.__new__ = counting

    def remove(self):
        U.Base.__new__ = self.orig


STRING_CLASSES = ("Name", "Type_Name", "Binary_Constant", "Octal_Constant", "Hex_Constant", "Intrinsic_Name")


def shape(node, rec):
    if node is None:
        return "None"
    if isinstance(node, str):
        return "'" + node + "'"
    if isinstance(node, list):
        return "[" + ", ".join(shape(x, rec) for x in node) + "]"
    if id(node) in rec.ext_ids:
        return rec.ext_ids[id(node)]
    name = type(node).__name__
    if isinstance(node, U.StringBase):
        items = [node.string]
    else:
        items = list(node.items)
    return name + "(" + ", ".join(shape(x, rec) for x in items) + ")"


def real_new(std, cname, text, rec):
    """-> dict(kind, cls, str, shape, calls, ext)"""
    cls = real_class(std, cname)
    rec.reset()
    rec.install()
    try:
        try:
            obj = cls(text)
            kind = "ok"
        except CaseTimeout:
            raise
        except BaseException as e:  # noqa: BLE001
            obj = None
            kind = exc_kind(e)
    finally:
        rec.remove()
    out = dict(kind=kind, calls=rec.calls, ext=rec.ext, cls="", str="", shape="")
    if kind == "ok":
        out["cls"] = type(obj).__name__ if id(obj) not in rec.ext_ids else "<ext>"
        try:
            out["str"] = str(obj)
        except BaseException as e:  # noqa: BLE001
            out["str"] = "<str raises %s>" % type(e).__name__
        out["shape"] = shape(obj, rec)
    return out


def real_match(std, cname, text, rec):
    """`cls.match(text)` with the depth-1 child calls recorded -> (kind, items, children)"""
    cls = real_class(std, cname)
    rec.reset()
    rec.install()
    try:
        try:
            res = cls.match(text)
            kind = "ok" if res is not None else "nomatch"
        except CaseTimeout:
            raise
        except BaseException as e:  # noqa: BLE001
            res = None
            kind = exc_kind(e)
    finally:
        rec.remove()
    return kind, res, list(rec.children), cls


# ------------------------------------------------------------------------------- comparison

class Stats:
    def __init__(self):
        self.n = collections.Counter()
        self.bad = []
        self.findings = collections.OrderedDict()

    def disagree(self, what, std, cname, text, detail):
        self.bad.append((what, std, cname, text, detail))


def ask_new(M, std, cname, text, ext):
    """drive `primary.new` answering the external calls from `ext`; -> reply fields, asked, ambiguous"""
    entries = []
    asked = []
    ambiguous = False
    for _ in range(400):
        rep = M.ask("primary.new", std, cname, text, *entries)
        if rep and rep[0] == "ask":
            key = (rep[1], rep[2])
            asked.append(key)
            lst = ext.get(key)
            if not lst:
                return ["unanswered", key[0], key[1]], asked, ambiguous
            if len(lst) > 1:
                ambiguous = True
            kind, s, sh, calls = lst[0]
            entries += [key[0], key[1], kind, s, sh, str(calls)]
            continue
        return rep, asked, ambiguous
    return ["loop"], asked, ambiguous


def compare_new(M, st, std, cname, text, rec):
    with time_limit(SAMPLE_LIMIT[0]):
        r = real_new(std, cname, text, rec)
    rep, asked, amb = ask_new(M, std, cname, text, r["ext"])
    st.n["levelB"] += 1
    if amb:
        st.n["levelB ambiguous external answers (counts not compared)"] += 1
    if rep[0] == "unmodelled":
        st.n["unmodelled"] += 1
        return r
    mk = rep[0]
    if mk == "unanswered":
        st.disagree("B: model asks a call the real run never made", std, cname, text, rep[1:])
        return r
    if mk == "raises":
        mkind, mcalls = "raises:" + rep[1], int(rep[2])
    elif mk == "nomatch":
        mkind, mcalls = "nomatch", int(rep[1])
    elif mk == "ok":
        mkind, mcalls = "ok", int(rep[4])
    else:
        st.disagree("B: bad reply", std, cname, text, rep)
        return r
    if mkind != r["kind"]:
        st.disagree("B: outcome", std, cname, text, (r["kind"], mkind))
        return r
    st.n["levelB " + r["kind"].split(":")[0]] += 1
    if mk == "ok":
        if not rep[3].startswith("<") and rep[1] != r["cls"]:
            st.disagree("B: class chosen", std, cname, text, (r["cls"], rep[1]))
        if rep[2] != r["str"]:
            st.disagree("B: printed text", std, cname, text, (r["str"], rep[2]))
        if rep[3] != r["shape"]:
            st.disagree("B: tree", std, cname, text, (r["shape"], rep[3]))
    if not amb and mcalls != r["calls"]:
        st.disagree("B: Base.__new__ call count", std, cname, text, (r["calls"], mcalls))
    # every recorded frontier call must have been asked (the model makes the same external calls)
    if not amb and r["kind"] != "raises:RecursionError":
        miss = [k for k in r["ext"] if k not in asked]
        if miss:
            st.disagree("B: real run made external calls the model did not", std, cname, text, miss[:3])
    return r


def item_desc(x):
    if x is None:
        return ("N",)
    if isinstance(x, str):
        return ("S", x)
    if isinstance(x, (list, tuple)):
        return ("L",) + tuple(str(y) for y in x)
    return ("T", str(x))


def compare_match(M, st, std, cname, text, rec):
    with time_limit(SAMPLE_LIMIT[0]):
        kind, res, children, cls = real_match(std, cname, text, rec)
    entries = []
    asked = []
    rep = None
    table = collections.OrderedDict()
    for (c, t, k, s, _o) in children:
        table.setdefault((c, t), (k, s))
    for _ in range(200):
        rep = M.ask("primary.match", std, cname, text, *entries)
        if rep[0] == "ask":
            key = (rep[1], rep[2])
            asked.append(key)
            if key not in table:
                st.disagree("A: model asks a child call the real match never made", std, cname, text, key)
                return
            k, s = table[key]
            entries += [key[0], key[1], k, s]
            continue
        break
    st.n["levelA"] += 1
    if rep[0] == "unmodelled":
        return
    real_calls = []
    for (c, t, k, s, _o) in children:
        if (c, t) not in real_calls:
            real_calls.append((c, t))
    if asked != real_calls:
        st.disagree("A: child calls (order/text)", std, cname, text, (real_calls, asked))
        return
    mkind = "raises:" + rep[1] if rep[0] == "raises" else rep[0]
    if mkind != kind:
        st.disagree("A: outcome of match", std, cname, text, (kind, mkind))
        return
    st.n["levelA " + kind.split(":")[0]] += 1
    if kind != "ok":
        return
    # items
    n = int(rep[1])
    f = rep[2:]
    mitems = []
    i = 0
    ents = [(entries[j], entries[j + 1], entries[j + 2], entries[j + 3]) for j in range(0, len(entries), 4)]
    while len(mitems) < n:
        tag = f[i]
        if tag == "N":
            mitems.append(("N",))
            i += 1
        elif tag == "S":
            mitems.append(("S", f[i + 1]))
            i += 2
        elif tag in ("T", "B"):
            mitems.append(("T", ents[int(f[i + 1])][3]))
            i += 2
        elif tag == "L":
            idx = [int(x) for x in f[i + 1].split(",")] if f[i + 1] else []
            mitems.append(("L",) + tuple(ents[k][3] for k in idx))
            i += 2
    tail = f[i:]
    if isinstance(res, tuple) and issubclass(cls, U.SequenceBase):
        ritems = [item_desc(x) for x in res[1]]
    else:
        ritems = [item_desc(x) for x in res]
    if mitems != ritems:
        st.disagree("A: items", std, cname, text, (ritems, mitems))
        return
    # tostr through the real object
    try:
        obj = object.__new__(cls)
        obj.string = text
        obj.item = None
        obj.init(*res)
        rstr = ("str", obj.tostr())
    except BaseException as e:  # noqa: BLE001
        rstr = ("strraises", type(e).__name__)
    if tuple(tail[:2]) != rstr:
        st.disagree("A: tostr", std, cname, text, (rstr, tail[:2]))


# ------------------------------------------------------------------------------- samples

LITERALS = ["1", "12", "1_8", "1_k", "007", "1.0", "1.", ".5", "1.0e-3_wp", "1e5", "1.d0", "2.5E+3_8", "1.0_dp",
            ".true.", ".FALSE._k", ".true._1", "'a'", '"b"', "'don''t'", '"a""b"', "k_'pre'", "1_'x y'", "''",
            "z'1F'", "b'01'", 'o"17"', "Z\"ff\"", "(1.0, 2)", "(a, b)", "(1, -2.0_8)", "(-1, +2)"]
NAMES = ["x", "a1", "n_b", "abc$d", "F2PY_EXPR_TUPLE_1"]


def shapes(rng, n):
    out = []
    g = lambda seq: rng.choice(seq)  # noqa: E731

    def operand(d):
        k = rng.randrange(12)
        if d <= 0 or k < 3:
            return g(NAMES[:4]) if rng.random() < 0.6 else g(LITERALS)
        if k == 3:
            return "%s(%s)" % (g("abfg"), ", ".join(sub(d - 1) for _ in range(rng.randint(1, 3))))
        if k == 4:
            return "%s%%%s" % (operand(d - 1) if rng.random() < 0.3 else g(NAMES[:3]), comp(d - 1))
        if k == 5:
            return "%s(%s:%s)" % (g("sc"), g(["", "2", "i"]), g(["", "5", "n"]))
        if k == 6:
            return "%s(%s)(%s:%s)" % (g("cd"), sub(d - 1), g(["1", ""]), g(["2", "n", ""]))
        if k == 7:
            return g(["[%s]", "(/ %s /)", "(/%s/)", "[ %s ]"]) % acspec(d - 1)
        if k == 8:
            return "%s(%s)" % (g("tf"), ", ".join(arg(d - 1) for _ in range(rng.randint(0, 3))))
        if k == 9:
            return "(%s)" % expr(d - 1)
        if k == 10:
            return "%s(%s)" % (g(["sin", "max", "real", "size", "abs", "SQRT"]),
                               ", ".join(expr(d - 1) for _ in range(rng.randint(0, 3))))
        return "%s %% %s(%s)" % (g("xy"), g("pq"), sub(d - 1))

    def comp(d):
        return g("bc") if rng.random() < 0.5 else "%s(%s)" % (g("bc"), sub(d))

    def sub(d):
        k = rng.randrange(6)
        if k == 0:
            return ":"
        if k == 1:
            return "%s:%s:%s" % (g(["1", ""]), g(["n", ""]), g(["2", "k", ""]))
        if k == 2:
            return "%s:%s" % (g(["1", "", "i"]), g(["n", ""]))
        return expr(d)

    def expr(d):
        if rng.random() < 0.7:
            return operand(d)
        return "%s %s %s" % (operand(d), g(["+", "*", "==", "<=", ".and.", "//", "**", "/=", ">="]), operand(d))

    def arg(d):
        k = rng.randrange(5)
        if k == 0:
            return "%s = %s" % (g("xyk"), expr(d))
        if k == 1:
            return "*%d" % rng.randint(1, 99)
        return expr(d)

    def acspec(d):
        k = rng.randrange(6)
        vals = ", ".join(expr(d) for _ in range(rng.randint(1, 3)))
        if k == 0:
            return "(%s, i = 1, %s)" % (vals, g(["3", "n", "n, 2"]))
        if k == 1:
            return "%s :: %s" % (g(["integer", "real(8)", "character(len=3)", "t"]), vals)
        if k == 2:
            return "%s ::" % g(["integer", "real"])
        if k == 3:
            return "(%s <= %s)" % (g("ab"), g("cd"))
        return vals

    for _ in range(n):
        out.append(operand(rng.randint(1, 3)))
    return out


def nested(d):
    return "x" if d == 0 else "f%d(%s)" % (d, nested(d - 1))


def unbalanced_ref(d, k, kind, two_args):
    """`fd(…f1(x)…)` (or `fd(…f1(x, y)…, y)`) with ONE parenthesis fault at nesting level k (1 = innermost):
    kind = "surplus)" | "missing)" | "surplus(" """
    t = "x"
    for j in range(1, d + 1):
        op, cl = "(", ")"
        if j == k:
            if kind == "surplus)":
                cl = "))"
            elif kind == "missing)":
                cl = ""
            else:
                op = "(("
        t = "f%d%s%s%s%s" % (j, op, t, ", y" if two_args else "", cl)
    return t


def unbalanced_deep():
    """-> (cheap, expensive): unbalanced deep references, depth 1..8, a surplus / missing parenthesis at every
    nesting level.  EXPENSIVE = the single-argument chain with a surplus `)` (the same text for every level):
    the real parser REJECTS it but needs 238, 1546, 9394, 56482, 339010, 2034178, 12205186 `Base.__new__`
    calls for depth 1..7 (x6 per level: every alternative that takes `name(args)` - Part_Ref, Array_Section,
    Substring, Structure_Constructor, Function_Reference, Parenthesis - hands `args)` on and each of them
    fails only at the bottom): depth >= 5 is run under a short limit and may time out."""
    cheap, expensive = [], []
    for d in range(1, 9):
        for two in (True, False):
            for kind in ("surplus)", "missing)", "surplus("):
                for k in range(1, d + 1):
                    t = unbalanced_ref(d, k, kind, two)
                    if not two and kind == "surplus)":
                        (cheap if d <= 4 else expensive).append(t)
                    else:
                        cheap.append(t)
    dedup = lambda l: list(collections.OrderedDict.fromkeys(l))  # noqa: E731
    return dedup(cheap), dedup(expensive)


PROBES = (LITERALS + NAMES + [
    "a(:)", "a(1:n:2)", "a(:, j)", "a(1:2:)", "a(::2)", "a%b(1)%c", "a % b", "a%b%c(1)", "x%kind", "s(2:5)", "c(i)(1:2)",
    "'abc'(1:2)", "[1, 2]", "(/ (i, i = 1, 3) /)", "[integer :: 1, 2]", "[integer ::]", "[ ]", "(/ /)", "(/ (a <= b) /)",
    "t(1, x = 2)", "f()", "f(a=1)", "f(a = b == c)", "f(x(1) = 2)", "f(1.0)", "f('a')", "f(*10)", "g(f(1.0))",
    "sin(x)", "sin()", "sin(x,y)", "SIN(x)", "max(a)", "max(a, b, c)", "real(x, kind=8)", "a(1))", "a(1)) ", "(a", "a)",
    "((a)", "f(g(x)", "a(1)(2)(3)", "x(1,2)(3)", "[1,2](1)", "f(x)%y", "-1", "+1.0", "1 2", "1 . 0 e 3", ". TRUE .",
    "1_", "_k", "1._k", "1.e5", "z'1g'", "b'012'", "1\t_k", "k _ 'a'", "1_ 'a b'", "'a' 'b'", "a(F2PY_EXPR_TUPLE_1)",
    "x%F2PY_EXPR_TUPLE_3", "a%%b", "a%", "%b", "(a)", "( a + b )", "()", "(/ 1 /)", "(/1, 2/)", "[(i, i=1,2)]",
    "[(a, b == c)]", "[(a, b(i=1), i = 1, 2)]", "[x, (i, j = 1, 2, 3, 4)]", "p(1:)", "integer", "real", "double precision",
    "a(1:2, :, 3:)", "a(b(c(1)))", "f(g(h(x), y), z)", "a(1)%b(2)%c(3)", "a(1)%b(2:3)", "t%f(x)", "t%f()", "f(x)(y)",
] + [nested(d) for d in range(0, 7)])

STMT_PROBES = {
    "Assignment_Stmt": ["x = 1", "x = (/ (a <= b) /)", "a(i) = b == c", "a%b = 1", "x = 'a=b'", "x == 1", "x = ", " = 1",
                        "a(i=1) = 2", "x = y = z", "x(1:2) = [1, 2]", "s(2:3) = 'ab'", "x = f(g(h(1)))"],
    "Pointer_Assignment_Stmt": ["p => t", "p(1:) => t", "p(1:2) => t", "a%p => f(x)", "p => a%f", "(1) => t", "p() => t",
                                "p => ", "p(1:, 2:) => t(:, :)", "p(1:2, 3:4) => t", "a%b%p => null()", "p =>t%q(1)",
                                "p(1:2 => t", "p => 'a=>b'"],
    "Variable": ["a(1)", "1", "a%b", "x"],
    "Data_Pointer_Object": ["a%b%c", "a", "a%b(1)"],
    "Data_Target": ["a(1)", "a + 1", "f(x)"],
    "Proc_Target": ["f", "a%f", "null()"],
    "Bounds_Spec": ["1:", "1:2", ":", "n+1:"],
    "Bounds_Remapping": ["1:2", "1:", ":2"],
    "Actual_Arg_Spec": ["x", "k = x", "k = a == b", "x(1) = 2", "*10", "= 1", "k ="],
    "Component_Spec": ["x", "k = x", "k = null()"],
    "Section_Subscript": [":", "1:2", "i", "[1,2]", "1:2:3:4"],
    "Designator": ["a", "a(1)", "a(1:2)", "a%b", "a(1)(2:3)", "1"],
    "Constant": ["1", "x", "1.0", "(1,2)"],
    "Parent_String": ["s", "a(1)", "'abc'"],
    "Real_Part": ["1", "-1.0", "x", "1+2"],
    "Ac_Value": ["1", "(i, i=1,2)", "(a)"],
    "Structure_Constructor": ["t()", "real(1)", "t(1)", "t(k=1)(2)"],
    "Function_Reference": ["f()", "a%f(1)", "f(x, k = 2)"],
    "Type_Param_Inquiry": ["a%kind", "a%%b", "a(1)%len"],
    "Intrinsic_Function_Reference": ["sin(x)", "sin(x, y)", "max(a)", "foo(a)", "dble(1)"],
    "Substring_Range": [":", "1:2", "1:", "a"],
    "Subscript_Triplet": ["1:2:", "::2", ":", "a:b:c:d", "1:2:3", "'a:b':2"],
    "Ac_Implied_Do": ["(i, i = 1, 3)", "(a <= b)", "(a, b == c)", "(a, b(i=1), i = 1, 2)", "(i, j, k = 1, 2, 3)"],
    "Ac_Implied_Do_Control": ["i = 1", "i = 1,2,3,4", "i = 1,,3", "i = 1, 2", "i = f(1,2), 3"],
    "Ac_Spec": ["integer ::", "integer :: 1, 2", "1, 2", "a :: b :: c", "::", ":: 1"],
    "Char_Literal_Constant": ["k_'pre'", " 'a' ", "'a(b'", "'a' 'b'", "1_ 'a b'", "'", "a'b'", "k_\"x\"", "'a'\"b\""],
    "Complex_Literal_Constant": ["(1,2,3)", "(a, -b)", "(1, 2)", "( 1.0 , x )", "(1,)"],
    "Signed_Int_Literal_Constant": ["- 1_8", "+1", "1", "--1"],
    "Signed_Real_Literal_Constant": ["-1.0", "+ 1.e3_k", "1"],
    "Alt_Return_Spec": ["*10", "*", "* 10", "10"],
    "Name": ["a b", " a ", "a$b", "_a", ""],
    "Type_Name": ["t", "integer", "double  precision", "doubleprecisionx"],
    "Derived_Type_Spec": ["t", "t(1)", "t(k=2)", "real"],
    "Procedure_Designator": ["f", "a%f", "a%b%f", "a(1)%f"],
    "Proc_Component_Ref": ["a%b", "a", "a%b%c"],
    "Data_Ref": ["a", "a%b", "a(1)%b", "a%"],
    "Part_Ref": ["a(1))", "a()", "a(1)", "a", "a(1, 2:3)"],
    "Array_Section": ["a(1)(2:3)", "a(2:3)", "a%b(1:2)"],
    "Substring": ["s(1:2)", "'abc'(1:2)", "s(1)"],
}


def tokens(s):
    return re.findall(r"[A-Za-z_]\w*|\d+\.?\d*|'[^']*'|\"[^\"]*\"|\(/|/\)|::|=>|==|<=|>=|/=|\*\*|//|\s+|.", s)


def mutations(rng, s, k=3):
    t = tokens(s)
    out = []
    if not t:
        return out
    for _ in range(k):
        u = list(t)
        i = rng.randrange(len(u))
        m = rng.randrange(4)
        if m == 0:
            del u[i]
        elif m == 1:
            u.insert(i, u[i])
        elif m == 2:
            u.insert(i, rng.choice(["(", ")"]))
        else:
            u.insert(rng.randrange(len(u) + 1), rng.choice(["(", ")", ",", ":", "%", "=", "_", "'", " "]))
        out.append("".join(u))
    return out


def harvest(seed, n, deadline, layer):
    from fv import gen, real
    out = collections.defaultdict(set)
    parsed = 0
    for i in range(n):
        if time.time() > deadline:
            break
        try:
            with time_limit(5.0):
                p = gen.gen_program(seed * 100003 + i, std="f2008")
                o = real.try_parse(p.text(), std="f2008")
        except CaseTimeout:
            continue
        except Exception:  # noqa: BLE001
            continue
        if o.kind != "tree":
            continue
        parsed += 1
        for node in U.walk(o.tree):
            nm = type(node).__name__
            if nm in layer and isinstance(getattr(node, "string", None), str):
                t = node.string
                if admissible(t):
                    out[nm].add(t)
    _cur_std[0] = None          # real.get_parser changed the global registry
    return out, parsed


# ------------------------------------------------------------------------------- negative controls

def _mut_order():
    for k in ("Primary", "Level_1_Expr"):
        lst = U.Base.subclasses[k]
        i = [c.__name__ for c in lst].index("Structure_Constructor")
        j = [c.__name__ for c in lst].index("Function_Reference")
        lst[i], lst[j] = lst[j], lst[i]

    def undo():
        for k in ("Primary", "Level_1_Expr"):
            lst = U.Base.subclasses[k]
            i = [c.__name__ for c in lst].index("Structure_Constructor")
            j = [c.__name__ for c in lst].index("Function_Reference")
            lst[i], lst[j] = lst[j], lst[i]
    return undo


def _patch(cls, name, fn):
    old = cls.__dict__[name]
    setattr(cls, name, fn)
    return lambda: setattr(cls, name, old)


def _mut_partref():
    def match(string):
        s = string.rstrip()
        if s.endswith("))"):
            string = s[:-1]
        return U.CallBase.match(F3.Part_Name, F3.Section_Subscript_List, string, require_rhs=True)
    return _patch(F3.Part_Ref, "match", staticmethod(match))


def _mut_arrayctor():
    def tostr(self):
        mid = self.items[1]
        if isinstance(mid, F3.Ac_Spec) and mid.items[0] is not None and mid.items[1] is not None:
            mid = mid.items[1]
        return "(/ %s /)" % mid
    F3.Array_Constructor.tostr = tostr

    def undo():
        del F3.Array_Constructor.tostr
    return undo


def _mut_regex():
    old = PT.abs_int_literal_constant_named
    loose = re.compile(old.get_compiled().pattern.replace(r"(\d+|[A-Z][\w$]*)", r"(\d+|[A-Z_][\w$]*)"), re.I)

    class P:
        def match(self, s):
            return loose.match(s)
    PT.abs_int_literal_constant_named = P()

    def undo():
        PT.abs_int_literal_constant_named = old
    return undo


def _mut_kwsplit():
    def match(string):
        if "=" in string:
            i = string.rfind("=")
            lhs, rhs = string[:i].strip(), string[i + 1:].strip()
            if not rhs:
                return None
            return F3.Keyword(lhs), F3.Actual_Arg(rhs)
        return None
    return _patch(F3.Actual_Arg_Spec, "match", staticmethod(match))


def _mut_revert_2a636f5():
    """Data_Ref.match as it was before /repo 2a636f5 (no early `"%" not in line` test)"""
    def match(string):
        result = U.SequenceBase.match(r"%", F3.Part_Ref, string)
        if len(result[1]) > 1:
            return result
        return None
    return _patch(F3.Data_Ref, "match", staticmethod(match))


def _mut_dataref():
    """the current Data_Ref.match with one useless parse of the whole reference (cost only)"""
    from fparser.common.splitline import string_replace_map

    def match(string):
        line, _ = string_replace_map(string)
        if "%" not in line:
            try:
                F3.Part_Ref(string)
            except U.NoMatchError:
                pass
            return None
        result = U.SequenceBase.match(r"%", F3.Part_Ref, string)
        if len(result[1]) > 1:
            return result
        return None
    return _patch(F3.Data_Ref, "match", staticmethod(match))


CONTROLS = [
    ("order of Primary's alternatives", _mut_order, [("Primary", "f(*10)"), ("Primary", "t(1, x = 2)"), ("Primary", "f()")]),
    ("Part_Ref accepts a trailing )", _mut_partref, [("Part_Ref", "a(1))"), ("Primary", "a(1))")]),
    ("Array_Constructor prints (/ /) and drops the type-spec", _mut_arrayctor,
     [("Primary", "[integer :: 1, 2]"), ("Array_Constructor", "[1, 2]")]),
    ("loosened kind suffix of the integer literal", _mut_regex, [("Int_Literal_Constant", "1__k"), ("Primary", "1__k")]),
    ("Actual_Arg_Spec split at the last =", _mut_kwsplit, [("Actual_Arg_Spec", "k = a == b"), ("Function_Reference", "f(*1, k = a == b)")]),
    ("Data_Ref parses the reference once more", _mut_dataref, [("Primary", "f(g(x))"), ("Primary", nested(4))]),
    ("/repo 2a636f5 reverted (Data_Ref parses a single part-ref and discards it)", _mut_revert_2a636f5,
     [("Primary", "f(g(x))"), ("Primary", nested(4)), ("Data_Ref", "f(x)")]),
]


def run_controls(M, layer, verbose):
    ok = True
    lines = []
    rec = Recorder(layer)
    for title, mut, cases in CONTROLS:
        set_std("f2003")
        undo = mut()
        st = Stats()
        try:
            for cname, text in cases:
                try:
                    compare_new(M, st, "f2003", cname, text, rec)
                    if cname in MATCH_CLASSES:
                        compare_match(M, st, "f2003", cname, text, rec)
                except CaseTimeout:
                    st.disagree("timeout", "f2003", cname, text, "")
        finally:
            undo()
        hit = len(st.bad)
        lines.append("  control %-55s %s (%d disagreement(s) on %d case(s))" % (
            title, "DETECTED" if hit else "MISSED", hit, len(cases)))
        if not hit:
            ok = False
    # the COUNTER-FACTUAL model (`newOld`, the code before 2a636f5) must agree with the reverted code:
    # class, printed text and call count for nest depth 0..5 and a few references (`primary.closedold`)
    set_std("f2003")
    undo = _mut_revert_2a636f5()
    nbad = 0
    try:
        for t in [nested(d) for d in range(0, 6)] + ["f(x, y)", "f(g(x), h(y, 1))", "a%b(f(x))"]:
            r = real_new("f2003", "Primary", t, rec)
            m = M.ask("primary.closedold", "f2003", "6", t)
            mk = m[0] if m[0] != "raises" else "raises:" + m[1]
            if mk != r["kind"] or int(m[-1]) != r["calls"] or (mk == "ok" and (m[1] != r["cls"] or m[2] != r["str"])):
                nbad += 1
                lines.append("    counter-factual mismatch %r real %r model %r" % (t, (r["kind"], r["cls"], r["calls"]), m[:2] + m[-1:]))
    finally:
        undo()
    lines.append("  check   %-55s %s" % ("model of the OLD code (newOld) = reverted real code (9 texts)", "OK" if not nbad else "MISMATCH"))
    if nbad:
        ok = False
    # flipped driver answer
    st = Stats()

    class Flip:
        def ask(self, cmd, *a):
            rep = M.ask(cmd, *a)
            if cmd == "primary.new" and rep and rep[0] == "ok":
                rep = list(rep)
                rep[4] = str(int(rep[4]) + 1)
            return rep
    set_std("f2003")
    compare_new(Flip(), st, "f2003", "Primary", "f(x)", rec)
    lines.append("  control %-55s %s" % ("tampered driver reply (call count + 1)", "DETECTED" if st.bad else "MISSED"))
    if not st.bad:
        ok = False
    return ok, lines


MATCH_CLASSES = []
LAYER = []


def main(argv=None):
    ap = argparse.ArgumentParser()
    ap.add_argument("--seed", type=int, default=1)
    ap.add_argument("--n", type=int, default=100)
    ap.add_argument("--max-seconds", type=float, default=34.0)
    ap.add_argument("--verbose", action="store_true")
    a = ap.parse_args(argv)
    t0 = time.time()
    deadline = t0 + a.max_seconds
    M = model()
    names = M.ask("primary.classes")
    first_ext = names.index("Expr")
    first_nomatch = names.index("Primary")
    global MATCH_CLASSES, LAYER
    MATCH_CLASSES = names[:first_nomatch]
    LAYER = names[:first_ext]
    rng = random.Random(a.seed)
    rec = Recorder(LAYER)
    st = Stats()

    # the model's subclass table = the live one
    for std in STDS:
        set_std(std)
        for c in LAYER:
            live = [k.__name__ for k in U.Base.subclasses.get(c, [])]
            mod = M.ask("primary.alts", std, c)
            mod = [x for x in mod if x]
            st.n["subclass tables"] += 1
            if live != mod:
                st.disagree("table: Base.subclasses", std, c, "", (live, mod))

    samples = []          # (class, text)
    for t in PROBES:
        samples.append(("Primary", t))
    for c, ts in STMT_PROBES.items():
        for t in ts:
            samples.append((c, t))
    gen_ops = shapes(rng, max(10, a.n))
    for t in gen_ops:
        samples.append(("Primary", t))
        samples.append((rng.choice(["Variable", "Designator", "Actual_Arg_Spec", "Data_Target", "Section_Subscript",
                                    "Component_Spec", "Ac_Value"]), t))
        if rng.random() < 0.3:
            samples.append(("Assignment_Stmt", "%s = %s" % (rng.choice(gen_ops), t)))
        if rng.random() < 0.15:
            samples.append(("Pointer_Assignment_Stmt", "%s => %s" % (rng.choice(["p", "a%p", "p(1:)", "p(1:2)"]), t)))
    harvested, parsed = harvest(a.seed, max(2, a.n // 8), t0 + a.max_seconds * 0.25, set(LAYER))
    for c in sorted(harvested):
        ts = sorted(harvested[c])
        rng.shuffle(ts)
        for t in ts[: max(4, a.n // 4)]:
            samples.append((c, t))
            samples.append(("Primary", t))
    base = list(samples)
    for c, t in base:
        if rng.random() < 0.5:
            for m in mutations(rng, t, 2):
                samples.append((c, m))
    seen = set()
    uniq = []
    for c, t in samples:
        if (c, t) not in seen and admissible(t):
            seen.add((c, t))
            uniq.append((c, t))
    # level A on every class with a match for the probes, on the sample's own class otherwise
    timeouts = 0
    done = 0
    for idx, (c, t) in enumerate(uniq):
        if time.time() > deadline:
            break
        for std in STDS:
            set_std(std)
            try:
                compare_new(M, st, std, c, t, rec)
                if c in MATCH_CLASSES:
                    compare_match(M, st, std, c, t, rec)
                elif idx % 3 == 0:
                    for mc in rng.sample(MATCH_CLASSES, 3):
                        compare_match(M, st, std, mc, t, rec)
            except CaseTimeout:
                timeouts += 1
        done += 1
    # every class with a match on the fixed probes (f2003)
    set_std("f2003")
    for t in PROBES:
        if time.time() > deadline + 5:
            break
        for mc in MATCH_CLASSES:
            try:
                compare_match(M, st, "f2003", mc, t, rec)
            except CaseTimeout:
                timeouts += 1

    # unbalanced deep references (depth 1..8, a surplus / missing parenthesis at every nesting level)
    cheap, expensive = unbalanced_deep()
    for std in STDS:
        set_std(std)
        for t in cheap:
            try:
                r = compare_new(M, st, std, "Primary", t, rec)
                st.n["unbalanced deep references"] += 1
                if r and r["kind"] == "ok":
                    st.disagree("unbalanced reference ACCEPTED by the real parser", std, "Primary", t, r["str"])
            except CaseTimeout:
                timeouts += 1
        old_limit = SAMPLE_LIMIT[0]
        SAMPLE_LIMIT[0] = 0.5
        try:
            for t in expensive:
                try:
                    compare_new(M, st, std, "Primary", t, rec)
                    st.n["unbalanced deep references"] += 1
                except CaseTimeout:
                    st.n["unbalanced deep references: EXPENSIVE rejections cut off at 0.5 s (known finding, not a failure)"] += 1
        finally:
            SAMPLE_LIMIT[0] = old_limit

    # CLOSED model (no external answers): the expression chain is the model's own `chainExt`; exact for
    # references over plain names / integer literals (the family of finding F-C20-1), any nesting
    def ref(d):
        if d == 0 or rng.random() < 0.3:
            return rng.choice(["x", "y1", "1", "42", "n_b"])
        return "%s(%s)" % (rng.choice("fgh"), ", ".join(ref(d - 1) for _ in range(rng.randint(1, 3))))
    closed = [nested(d) for d in range(0, 7)] + [ref(rng.randint(1, 4)) for _ in range(max(10, a.n // 4))]
    for std in STDS:
        set_std(std)
        for t in closed:
            if not admissible(t) or time.time() > deadline + 8:
                continue
            try:
                with time_limit(10.0):
                    r = real_new(std, "Primary", t, rec)
            except CaseTimeout:
                timeouts += 1
                continue
            m = M.ask("primary.closed", std, "7", t)
            st.n["closed model (chainExt), no external answers"] += 1
            mk = m[0] if m[0] != "raises" else "raises:" + m[1]
            if mk != r["kind"] or int(m[-1]) != r["calls"] or (mk == "ok" and (m[1] != r["cls"] or m[2] != r["str"])):
                st.disagree("closed: class / text / call count", std, "Primary", t, ((r["kind"], r["cls"], r["calls"]), m[:2] + m[-1:]))

    ok_controls, lines = run_controls(M, LAYER, a.verbose)

    print("cosim_primary seed=%d n=%d : %d/%d samples (%d programs parsed), %.1f s, %d timeouts" % (
        a.seed, a.n, done, len(uniq), parsed, time.time() - t0, timeouts))
    for k in sorted(st.n):
        print("  %-60s %d" % (k, st.n[k]))
    print("negative controls:")
    for ln in lines:
        print(ln)
    if st.bad:
        print("DISAGREEMENTS: %d" % len(st.bad))
        byk = collections.Counter(b[0] for b in st.bad)
        for k, v in byk.most_common():
            print("  %-50s %d" % (k, v))
        for b in st.bad[: (60 if a.verbose else 15)]:
            print("   ", b)
    passed = not st.bad and ok_controls and done > 0
    print("RESULT: %s" % ("PASS" if passed else "FAIL"))
    return 0 if passed else 1


if __name__ == "__main__":
    sys.exit(main())
