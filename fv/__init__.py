"""fv — verification harness for stfc/fparser (see /verif/DESIGN.md)."""
