import FparserModel.Proofs.BlockStream

/-!
# M-D proofs, part 5: where exceptions come from; `Program` consumes everything

* `Prov e0`: a `SystemExit` / `InternalSyntaxError` that no leaf class raises can only be the
  `reader.error → sys.exit` of `BlockBase.match` (logged as `sysExit`);
* a successful `Program` that did not fall back to `Main_Program0` leaves the stream empty.
-/
namespace Fp.Block

def isSysExit : Ev → Bool
  | .ghost .sysExit => true
  | _ => false
def isFallback : Ev → Bool
  | .ghost .fallback => true
  | _ => false

/-- number of `reader.error → sys.exit` events -/
def SX (s : St) : Nat := (s.log.filter isSysExit).length
/-- number of fall-backs to `Main_Program0` -/
def FB (s : St) : Nat := (s.log.filter isFallback).length

theorem SX_mono {a b : St} (h : LogExt a b) : SX a ≤ SX b := by
  obtain ⟨new, e⟩ := h; simp [SX, e, List.filter_append]
theorem FB_mono {a b : St} (h : LogExt a b) : FB a ≤ FB b := by
  obtain ⟨new, e⟩ := h; simp [FB, e, List.filter_append]

/-- the exception kinds only leaf classes (or `reader.error`) can originate -/
def Foreign (e : Exc) : Prop := e = .systemExit ∨ e = .internalSyntax

/-- provenance of a foreign exception `e0` that the oracle never raises -/
def Prov (e0 : Exc) (s : St) (e : Exc) (s' : St) : Prop :=
  e = e0 → e0 = .systemExit ∧ SX s < SX s'

variable {env : Env} {e0 : Exc}

theorem Prov.of_ne {s s' : St} {e : Exc} (h : e ≠ e0) : Prov e0 s e s' := fun h' => absurd h' h

theorem Prov.mono {a b c d : St} {e : Exc} (h : Prov e0 b e c) (h1 : LogExt a b) (h2 : LogExt c d) :
    Prov e0 a e d := by
  intro he
  have := h he
  have m1 := SX_mono h1; have m2 := SX_mono h2
  exact ⟨this.1, by omega⟩

section
variable (hfor : Foreign e0) (horc : ∀ i c, (env.orc i c).res ≠ .raise e0)
include hfor horc

theorem leafNew_P {c : Cls} {pc : List Cls} {s : St} {e : Exc} {pc' : List Cls} {s' : St}
    (heq : leafNew env c pc s = (.raise e, pc', s')) : Prov e0 s e s' := by
  unfold leafNew at heq
  split at heq
  · simp at heq
  · split at heq
    · simp at heq
    · rename_i it s1 _ _
      simp only at heq
      split at heq
      · split at heq <;> simp at heq
      · split at heq
        · simp at heq
        · simp at heq
        · simp at heq
        · rename_i e' _ hres
          simp only [Prod.mk.injEq, Outcome.raise.injEq] at heq
          apply Prov.of_ne
          rw [← heq.1]
          intro h; exact horc it.id c (by rw [hres, h])

theorem leafFresh_P {c : Cls} {s : St} {e : Exc} {s' : St}
    (heq : leafFresh env c s = (.raise e, s')) : Prov e0 s e s' := by
  unfold leafFresh at heq
  simp only [Prod.mk.injEq] at heq
  exact heq.2 ▸ leafNew_P hfor horc (pc' := (leafNew env c [c] s).2.1)
    (s' := (leafNew env c [c] s).2.2) (Prod.ext heq.1 rfl)

theorem firstLeaf_P {cs : List Cls} {s : St} {e : Exc} {s' : St}
    (heq : firstLeaf env cs s = (.raise e, s')) : Prov e0 s e s' := by
  induction cs generalizing s with
  | nil => simp [firstLeaf] at heq
  | cons c cs ih =>
    simp only [firstLeaf] at heq
    split at heq
    · rename_i s1 h1
      exact (ih heq).mono (leafFresh_rel (logExt_ok env) c s |> fun h => by rw [h1] at h; exact h)
        (LogExt.refl _)
    · exact leafFresh_P hfor horc heq

theorem cppNew_P {cs : List Cls} {s : St} {e : Exc} {s' : St}
    (heq : cppNew env cs s = (.raise e, s')) : Prov e0 s e s' := by
  unfold cppNew at heq
  split at heq
  · simp at heq
  · rename_i it s1 hg
    simp only at heq
    split at heq
    · have l : LogExt s (s1.put it) := by
        have := (logExt_ok env).peek s; rw [hg] at this; exact this
      exact (firstLeaf_P hfor horc heq).mono l (LogExt.refl _)
    · simp at heq

theorem cidRest_P {s : St} {e : Exc} {s' : St} (heq : cidRest env s = (.raise e, s')) :
    Prov e0 s e s' := by
  unfold cidRest at heq
  split at heq
  · rename_i s2 h1
    have l1 : LogExt s s2 := by have := (logExt_ok env).comment s; rw [h1] at this; exact this
    split at heq
    · rename_i s3 h2
      have l2 : LogExt s2 s3 := by
        have := leafFresh_rel (logExt_ok env) env.tbl.includeStmt s2; rw [h2] at this; exact this
      exact (cppNew_P hfor horc heq).mono (l1.trans l2) (LogExt.refl _)
    · exact (leafFresh_P hfor horc heq).mono l1 (LogExt.refl _)
  · -- commentNew never raises
    exfalso
    unfold commentNew at heq
    split at heq
    · simp at heq
    · split at heq <;> simp at heq

theorem cidOne_P {s : St} {e : Exc} {s' : St} (heq : cidOne env s = (.raise e, s')) :
    Prov e0 s e s' := by
  unfold cidOne at heq
  split at heq
  · split at heq
    · rename_i s1 h1
      have l1 : LogExt s s1 := by have := (logExt_ok env).directive s; rw [h1] at this; exact this
      exact (cidRest_P hfor horc heq).mono l1 (LogExt.refl _)
    · exfalso
      unfold directiveNew at heq
      split at heq
      · simp at heq
      · split at heq
        · split at heq <;> simp at heq
        · simp at heq
  · exact cidRest_P hfor horc heq

theorem addCID_P {k : Nat} {rc : List Tree} {s : St} {e : Exc} {s' : St}
    (heq : addCID env k rc s = (.error e, s')) : Prov e0 s e s' := by
  induction k generalizing rc s with
  | zero =>
    simp only [addCID, Prod.mk.injEq, Except.error.injEq] at heq
    apply Prov.of_ne; rw [← heq.1]; rcases hfor with h | h <;> simp [h]
  | succ k ih =>
    simp only [addCID] at heq
    split at heq
    · rename_i t s1 h1
      have l1 : LogExt s s1 := by have := cidOne_rel (logExt_ok env) s; rw [h1] at this; exact this
      exact (ih heq).mono l1 (LogExt.refl _)
    · simp at heq
    · rename_i e' s1 h1
      simp only [Prod.mk.injEq, Except.error.injEq] at heq
      obtain ⟨rfl, rfl⟩ := heq
      exact cidOne_P hfor horc h1

/-- what is assumed of the recursive call -/
structure FP (e0 : Exc) (f : F) : Prop where
  log : FRel LogExt f
  spec : ∀ c s e s', f c s = (.raise e, s') → Prov e0 s e s'

structure GP (e0 : Exc) (g : G) : Prop where
  log : GRel LogExt g
  spec : ∀ c pc s e pc' s', g c pc s = (.raise e, pc', s') → Prov e0 s e s'

omit hfor horc in
theorem fresh_P {g : G} (hg : GP e0 g) : FP e0 (fresh g) :=
  ⟨fresh_rel hg.log, fun c s e s' h => by
    unfold fresh at h
    simp only [Prod.mk.injEq] at h
    exact h.2 ▸ hg.spec c [] s e (g c [] s).2.1 _ (Prod.ext h.1 rfl)⟩

omit hfor horc in
theorem callCatch_P {f : F} (hf : FP e0 f) {c : Cls} {s : St} {e : Exc} {s' : St}
    (heq : callCatch f c s = (.raise e, s')) : Prov e0 s e s' := by
  unfold callCatch at heq
  split at heq
  · simp at heq
  · exact hf.spec _ _ _ _ heq

omit horc in
theorem lit_ne {e : Exc} (h : e = .other ∨ e = .syntax ∨ e = .outOfFuel ∨ e = .noMatch) :
    e ≠ e0 := by
  rcases hfor with h0 | h0 <;> rcases h with h | h | h | h <;> simp [h, h0]

theorem doHook_P {f : F} (hf : FP e0 f) {fuel : Nat} {cfg : Cfg} {v : LoopVars} {s : St}
    {e : Exc} {s' : St} (heq : doHook env f fuel cfg v s = (.raise e, s')) : Prov e0 s e s' := by
  unfold doHook at heq
  split at heq
  · split at heq
    · rename_i e' s0 h0
      simp only [Prod.mk.injEq, HookRes.raise.injEq] at heq
      obtain ⟨rfl, rfl⟩ := heq
      unfold hookLead at h0
      split at h0
      · exact addCID_P hfor horc h0
      · simp at h0
    · rename_i lead s0 h0
      have l0 : LogExt s s0 := by
        have := hookLead_rel (L env) fuel s; rw [h0] at this; exact this
      split at heq
      · simp only [Prod.mk.injEq, HookRes.raise.injEq] at heq
        exact Prov.of_ne (lit_ne hfor (Or.inl heq.1.symm))
      · split at heq
        · rename_i e' s1 h1
          simp only [Prod.mk.injEq, HookRes.raise.injEq] at heq
          obtain ⟨rfl, rfl⟩ := heq
          exact (hf.spec _ _ _ _ h1).mono l0 (LogExt.refl _)
        · simp at heq
        · split at heq
          · split at heq
            · simp only [Prod.mk.injEq, HookRes.raise.injEq] at heq
              exact Prov.of_ne (lit_ne hfor (Or.inl heq.1.symm))
            · split at heq <;> simp at heq
          · simp at heq
  · simp at heq

omit horc in
theorem matchedStep_P {cfg : Cfg} {startT : Option Tree} {sn : Option (Option Name)} {i : Nat}
    {v : LoopVars} {t : Tree} {s1 : St} {e : Exc} {s2 : St}
    (heq : matchedStep env cfg startT sn i v t s1 = (.raise e, s2)) : e ≠ e0 := by
  apply lit_ne hfor
  unfold matchedStep at heq
  simp only at heq
  split at heq
  · simp only [Prod.mk.injEq, Step.raise.injEq] at heq; exact Or.inl heq.1.symm
  · simp at heq
  · split at heq
    · rename_i e' hn
      simp only [Prod.mk.injEq, Step.raise.injEq] at heq
      rw [← heq.1]
      unfold nameClassCheck at hn
      split at hn
      · split at hn
        · simp at hn; exact Or.inl hn.symm
        · split at hn
          · split at hn
            · simp at hn; exact Or.inl hn.symm
            · split at hn
              · simp at hn; exact Or.inr (Or.inl hn.symm)
              · split at hn
                · simp at hn; exact Or.inr (Or.inl hn.symm)
                · simp at hn
          · simp at hn
      · simp at hn
    · split at heq
      · split at heq
        · rename_i e' hl
          simp only [Prod.mk.injEq, Step.raise.injEq] at heq
          rw [← heq.1]
          unfold endLabelCheck at hl
          split at hl
          · split at hl
            · simp at hl; exact Or.inl hl.symm
            · split at hl
              · simp at hl; exact Or.inl hl.symm
              · split at hl
                · simp at hl; exact Or.inl hl.symm
                · simp at hl
          · simp at hl
        · split at heq <;> simp at heq
        · split at heq
          · rename_i e' hn
            simp only [Prod.mk.injEq, Step.raise.injEq] at heq
            rw [← heq.1]
            have hlit : ∀ cfg', endNameCheck cfg' (Option.map (infoOf env.tbl) startT)
                (infoOf env.tbl t) = some e' → e' = .other ∨ e' = .syntax := by
              intro cfg' hn'
              unfold endNameCheck at hn'
              split at hn'
              · split at hn'
                · simp at hn'; exact Or.inl hn'.symm
                · split at hn'
                  · simp at hn'; exact Or.inl hn'.symm
                  · split at hn'
                    · simp at hn'; exact Or.inl hn'.symm
                    · split at hn'
                      · simp at hn'; exact Or.inr hn'.symm
                      · split at hn'
                        · simp at hn'; exact Or.inr hn'.symm
                        · split at hn'
                          · simp at hn'; exact Or.inr hn'.symm
                          · simp at hn'
              · simp at hn'
            unfold endNameCheckQ at hn
            split at hn
            · rcases hlit _ hn with h | h
              · exact Or.inl h
              · exact Or.inr (Or.inl h)
            · rcases hlit _ hn with h | h
              · exact Or.inl h
              · exact Or.inr (Or.inl h)
          · simp at heq
      · simp at heq

theorem blockLoop_P {f : F} (hf : FP e0 f) {cfg : Cfg} {classes : List Cls}
    {startT : Option Tree} {sn : Option (Option Name)} {k i : Nat} {v : LoopVars} {s : St}
    {e : Exc} {s' : St}
    (heq : blockLoop env f cfg classes startT sn k i v s = (.raise e, s')) : Prov e0 s e s' := by
  induction k generalizing i v s with
  | zero =>
    simp only [blockLoop, Prod.mk.injEq, LoopRes.raise.injEq] at heq
    exact Prov.of_ne (lit_ne hfor (Or.inr (Or.inr (Or.inl heq.1.symm))))
  | succ k ih =>
    simp only [blockLoop] at heq
    split at heq
    · simp at heq
    · rename_i cls _
      split at heq
      · rename_i e' s1 h1
        simp only [Prod.mk.injEq, LoopRes.raise.injEq] at heq
        obtain ⟨rfl, rfl⟩ := heq
        exact doHook_P hfor horc hf h1
      · rename_i t s1 h1
        have l1 : LogExt s s1 := by
          have := doHook_rel (L env) hf.log k cfg v s; rw [h1] at this; exact this
        exact (ih heq).mono l1 (LogExt.refl _)
      · rename_i sa h1
        have l1 : LogExt s sa := by
          have := doHook_rel (L env) hf.log k cfg v s; rw [h1] at this; exact this
        split at heq
        · rename_i e' sb h2
          simp only [Prod.mk.injEq, LoopRes.raise.injEq] at heq
          obtain ⟨rfl, rfl⟩ := heq
          exact (callCatch_P hf h2).mono l1 (LogExt.refl _)
        · rename_i sb h2
          have l2 : LogExt sa sb := by
            have := callCatch_rel hf.log cls sa; rw [h2] at this; exact this
          exact (ih heq).mono (l1.trans l2) (LogExt.refl _)
        · rename_i t sb h2
          have l2 : LogExt sa sb := by
            have := callCatch_rel hf.log cls sa; rw [h2] at this; exact this
          split at heq
          · rename_i e' sc h3
            simp only [Prod.mk.injEq, LoopRes.raise.injEq] at heq
            obtain ⟨rfl, rfl⟩ := heq
            exact Prov.of_ne (matchedStep_P hfor h3)
          · simp at heq
          · simp at heq
          · rename_i i2 v2 sc h3
            have l3 : LogExt sb sc := by
              have := matchedStep_rel (L env) cfg startT sn i v t sb; rw [h3] at this; exact this
            exact (ih heq).mono (l1.trans (l2.trans l3)) (LogExt.refl _)

theorem blockStart_P {f : F} (hf : FP e0 f) {fuel : Nat} {cfg : Cfg} {s : St} {e : Exc} {s1 : St}
    (heq : blockStart env f fuel cfg s = (.ret (.raise e), s1)) : Prov e0 s e s1 := by
  unfold blockStart at heq
  split at heq
  · simp at heq
  · rename_i sc _
    split at heq
    · rename_i e' sa h1
      simp only [Prod.mk.injEq, StartRes.ret.injEq, MRes.raise.injEq] at heq
      obtain ⟨rfl, rfl⟩ := heq
      exact addCID_P hfor horc h1
    · rename_i rc0 sa h1
      have l1 : LogExt s sa := by
        have := addCID_rel (L env) fuel [] s; rw [h1] at this; exact this
      split at heq
      · rename_i e' sb h2
        simp only [Prod.mk.injEq, StartRes.ret.injEq, MRes.raise.injEq] at heq
        obtain ⟨rfl, rfl⟩ := heq
        exact (callCatch_P hf h2).mono l1 (LogExt.refl _)
      · simp at heq
      · split at heq
        · simp only [Prod.mk.injEq, StartRes.ret.injEq, MRes.raise.injEq] at heq
          exact Prov.of_ne (lit_ne hfor (Or.inl heq.1.symm))
        · split at heq
          · simp only [Prod.mk.injEq, StartRes.ret.injEq, MRes.raise.injEq] at heq
            exact Prov.of_ne (lit_ne hfor (Or.inl heq.1.symm))
          · simp at heq

omit horc in
theorem blockTail_P {cfg : Cfg} {startT : Option Tree} {tn : Option Name} {v : LoopVars}
    {fe : Bool} {s3 : St} {e : Exc} {s' : St}
    (heq : blockTail env cfg startT tn v fe s3 = (.raise e, s')) : Prov e0 s3 e s' := by
  unfold blockTail at heq
  split at heq
  · split at heq
    · simp only [Prod.mk.injEq, MRes.raise.injEq] at heq
      exact Prov.of_ne (lit_ne hfor (Or.inl heq.1.symm))
    · simp at heq
  · split at heq
    · simp at heq
    · split at heq
      · simp at heq
      · simp only [Prod.mk.injEq, MRes.raise.injEq] at heq
        exact Prov.of_ne (lit_ne hfor (Or.inl heq.1.symm))
      · split at heq
        · split at heq
          · simp only [Prod.mk.injEq, MRes.raise.injEq] at heq
            exact Prov.of_ne (lit_ne hfor (Or.inl heq.1.symm))
          · simp only [Prod.mk.injEq, MRes.raise.injEq] at heq
            exact Prov.of_ne (lit_ne hfor (Or.inr (Or.inl heq.1.symm)))
        · simp only [Prod.mk.injEq, MRes.raise.injEq] at heq
          exact Prov.of_ne (lit_ne hfor (Or.inl heq.1.symm))
      · split at heq
        · split at heq
          · simp only [Prod.mk.injEq, MRes.raise.injEq] at heq
            exact Prov.of_ne (lit_ne hfor (Or.inl heq.1.symm))
          · simp only [Prod.mk.injEq, MRes.raise.injEq] at heq
            exact Prov.of_ne (lit_ne hfor (Or.inr (Or.inl heq.1.symm)))
        · simp only [Prod.mk.injEq, MRes.raise.injEq] at heq
          obtain ⟨rfl, rfl⟩ := heq
          intro h
          refine ⟨h.symm, ?_⟩
          simp [SX, St.ev, List.filter_cons, isSysExit]

omit horc in
theorem blockFinish_P {cfg : Cfg} {startT : Option Tree} {tn : Option Name} {res : LoopRes}
    {s0 sL : St} {e : Exc} {s' : St} (hl : LogExt s0 sL)
    (hres : ∀ e', res = .raise e' → Prov e0 s0 e' sL)
    (heq : blockFinish env cfg startT tn res sL = (.raise e, s')) : Prov e0 s0 e s' := by
  have lf := blockFinish_log (env := env) cfg startT tn res sL
  rw [heq] at lf
  unfold blockFinish at heq
  split at heq
  · rename_i e'
    split at heq
    · unfold blockCleanup at heq
      split at heq
      · simp only [Prod.mk.injEq, MRes.raise.injEq] at heq
        exact Prov.of_ne (lit_ne hfor (Or.inl heq.1.symm))
      · split at heq
        · simp only [Prod.mk.injEq, MRes.raise.injEq] at heq
          exact Prov.of_ne (lit_ne hfor (Or.inl heq.1.symm))
        · simp only [Prod.mk.injEq, MRes.raise.injEq] at heq
          obtain ⟨rfl, _⟩ := heq
          exact (hres _ rfl).mono (LogExt.refl _) lf
    · simp only [Prod.mk.injEq, MRes.raise.injEq] at heq
      obtain ⟨rfl, _⟩ := heq
      exact (hres _ rfl).mono (LogExt.refl _) lf
  · simp at heq
  · rename_i v fe
    split at heq
    · simp only [Prod.mk.injEq, MRes.raise.injEq] at heq
      exact Prov.of_ne (lit_ne hfor (Or.inl heq.1.symm))
    · rename_i s3 h1
      have l3 : LogExt sL s3 := by
        have : LogExt sL (condExit (truthy tn) sL).2 := by
          unfold condExit; split
          · exact ⟨[Ev.exit], by simp⟩
          · exact LogExt.refl _
        rw [h1] at this; exact this
      exact (blockTail_P hfor heq).mono (hl.trans l3) (LogExt.refl _)

theorem blockMatch_P {f : F} (hf : FP e0 f) {fuel : Nat} {cfg : Cfg} {s : St} {e : Exc} {s' : St}
    (heq : blockMatch env f fuel cfg s = (.raise e, s')) : Prov e0 s e s' := by
  unfold blockMatch at heq
  split at heq
  · rename_i r s1 h1
    simp only [Prod.mk.injEq] at heq
    obtain ⟨rfl, rfl⟩ := heq
    exact blockStart_P hfor horc hf h1
  · rename_i rc0 startT tn sl sn s1 h1
    simp only at heq
    obtain ⟨s2, l02, rfl⟩ := blockStart_rel (L env) hf.log _ _ _ _ _ h1
    generalize hlr : blockLoop env f cfg (blockClasses env cfg) startT sn fuel 0
      (loopVars0 cfg rc0 sl) (enterState tn s2) = lr at heq
    obtain ⟨res, sL⟩ := lr
    simp only at heq
    have le : LogExt s2 (enterState tn s2) := by
      unfold enterState; split
      · exact LogExt.trans ((ghostIf_log _ _ _).trans ⟨[Ev.enter _], rfl⟩) (ghostIf_log _ _ _)
      · exact LogExt.refl _
    have l2L : LogExt (enterState tn s2) sL := by
      have := blockLoop_rel (L env) hf.log cfg (blockClasses env cfg) startT sn fuel 0
        (loopVars0 cfg rc0 sl) (enterState tn s2)
      rw [hlr] at this; exact this
    refine blockFinish_P hfor (l02.trans (le.trans l2L)) ?_ heq
    intro e' he'
    subst he'
    exact (blockLoop_P hfor horc hf hlr).mono (l02.trans le) (LogExt.refl _)

omit hfor horc in
theorem manyLoop_P (env : Env) {f : F} (hfor : Foreign e0) (hf : FP e0 f) {c : Cls} {k : Nat}
    {rc : List Tree} {s : St} {e : Exc} {s' : St}
    (heq : manyLoop f c k rc s = (.raise e, s')) : Prov e0 s e s' := by
  induction k generalizing rc s with
  | zero =>
    simp only [manyLoop, Prod.mk.injEq, MRes.raise.injEq] at heq
    exact Prov.of_ne (lit_ne hfor (Or.inr (Or.inr (Or.inl heq.1.symm))))
  | succ k ih =>
    simp only [manyLoop] at heq
    split at heq
    · rename_i e' s1 h1
      simp only [Prod.mk.injEq, MRes.raise.injEq] at heq
      obtain ⟨rfl, rfl⟩ := heq
      exact callCatch_P hf h1
    · split at heq <;> simp at heq
    · rename_i t s1 h1
      have l1 : LogExt s s1 := by have := callCatch_rel hf.log c s; rw [h1] at this; exact this
      exact (ih heq).mono l1 (LogExt.refl _)

omit hfor horc in
theorem seqNR_P (env : Env) {f : F} (hf : FP e0 f) {q : Quirks} {cs : List Cls}
    {rc : List Tree} {s : St} {e : Exc} {s' : St}
    (heq : seqNR q f cs rc s = (.raise e, s')) : Prov e0 s e s' := by
  induction cs generalizing rc s with
  | nil => simp [seqNR] at heq
  | cons c cs ih =>
    simp only [seqNR] at heq
    split at heq
    · split at heq
      · rename_i e' s1 h1
        simp only [Prod.mk.injEq, MRes.raise.injEq] at heq
        obtain ⟨rfl, rfl⟩ := heq
        exact callCatch_P hf h1
      · simp at heq
      · rename_i t s1 h1
        have l1 : LogExt s s1 := by have := callCatch_rel hf.log c s; rw [h1] at this; exact this
        exact (ih heq).mono l1 (LogExt.refl _)
    · split at heq
      · rename_i e' s1 h1
        simp only [Prod.mk.injEq, MRes.raise.injEq] at heq
        obtain ⟨rfl, rfl⟩ := heq
        exact (hf.spec _ _ _ _ h1).mono (LogExt.refl _) (ghostIf_log _ _ _)
      · simp at heq
      · rename_i t s1 h1
        have l1 : LogExt s s1 := by have := hf.log c s; rw [h1] at this; exact this
        exact (ih heq).mono l1 (LogExt.refl _)

theorem main0Match_P {f : F} (hf : FP e0 f) {fuel : Nat} {cfg : Cfg} {scope : Name} {s : St}
    {e : Exc} {s' : St} (heq : main0Match env f fuel cfg scope s = (.raise e, s')) :
    Prov e0 s e s' := by
  have lall : LogExt s s' := by
    have := main0Match_rel (L env) hf.log fuel cfg scope s; rw [heq] at this; exact this
  unfold main0Match at heq
  generalize hb : blockMatch env f fuel cfg ((ghostIf (s.sym.clashes scope) Ghost.nameClash s).enter scope) = br at heq
  obtain ⟨r0, s2⟩ := br
  have le : LogExt s ((ghostIf (s.sym.clashes scope) Ghost.nameClash s).enter scope) :=
    (ghostIf_log _ _ _).trans ⟨[Ev.enter scope], rfl⟩
  have hex : ∀ b s3, s2.exit = (b, s3) → LogExt s2 s3 := by
    intro b s3 h; exact ⟨[Ev.exit], by have := St.exit_log s2; rw [h] at this; simpa using this⟩
  have hrm : ∀ s3 b s4, s3.remove scope = (b, s4) → LogExt s3 s4 := by
    intro s3 b s4 h
    exact ⟨[Ev.remove scope], by have := St.remove_log s3 scope; rw [h] at this; simpa using this⟩
  cases r0 with
  | raise e' =>
    have hp := blockMatch_P hfor horc hf hb
    simp only at heq
    split at heq
    · simp only [Prod.mk.injEq, MRes.raise.injEq] at heq
      obtain ⟨rfl, rfl⟩ := heq
      exact hp.mono le ⟨[_], rfl⟩
    split at heq
    · split at heq
      · simp only [Prod.mk.injEq, MRes.raise.injEq] at heq
        exact Prov.of_ne (lit_ne hfor (Or.inl heq.1.symm))
      · rename_i s3 h1
        split at heq
        · simp only [Prod.mk.injEq, MRes.raise.injEq] at heq
          exact Prov.of_ne (lit_ne hfor (Or.inl heq.1.symm))
        · rename_i s4 h2
          simp only [Prod.mk.injEq, MRes.raise.injEq] at heq
          obtain ⟨rfl, rfl⟩ := heq
          exact hp.mono le ((hex _ _ h1).trans (hrm _ _ _ h2))
    · simp only [Prod.mk.injEq, MRes.raise.injEq] at heq
      obtain ⟨rfl, rfl⟩ := heq
      exact hp.mono le ⟨[_], rfl⟩
  | none =>
    simp only at heq
    split at heq
    · simp only [Prod.mk.injEq, MRes.raise.injEq] at heq
      exact Prov.of_ne (lit_ne hfor (Or.inl heq.1.symm))
    · split at heq
      · simp only [Prod.mk.injEq, MRes.raise.injEq] at heq
        exact Prov.of_ne (lit_ne hfor (Or.inl heq.1.symm))
      · simp at heq
  | tuple c0 =>
    simp only at heq
    split at heq
    · simp only [Prod.mk.injEq, MRes.raise.injEq] at heq
      exact Prov.of_ne (lit_ne hfor (Or.inl heq.1.symm))
    · simp at heq

theorem unitStep_P {f : F} (hf : FP e0 f) {fuel : Nat} {unit main0 : Cls} {rc : List Tree}
    {s : St} {rc' : List Tree} {e : Exc} {s' : St}
    (heq : unitStep env f fuel unit main0 rc s = (.stop (.fail rc' e), s')) : Prov e0 s e s' := by
  unfold unitStep at heq
  split at heq
  · rename_i e1 s1 h1
    have l1 : LogExt s s1 := by have := hf.log unit s; rw [h1] at this; exact this
    split at heq
    · split at heq
      · simp at heq
      · simp at heq
      · rename_i e2 s2 hb
        simp only [Prod.mk.injEq, UnitStep.stop.injEq, PRes.fail.injEq] at heq
        obtain ⟨⟨_, rfl⟩, rfl⟩ := heq
        exact (blockMatch_P hfor horc hf hb).mono (l1.trans ⟨[_], rfl⟩) (ghostIf_log _ _ _)
    · simp only [Prod.mk.injEq, UnitStep.stop.injEq, PRes.fail.injEq] at heq
      obtain ⟨⟨_, rfl⟩, rfl⟩ := heq
      exact hf.spec _ _ _ _ h1
  · simp at heq

theorem programLoop_P {f : F} (hf : FP e0 f) {unit main0 : Cls} {fuel k : Nat} {rc : List Tree}
    {s : St} {rc' : List Tree} {e : Exc} {s' : St}
    (heq : programLoop env f unit main0 fuel k rc s = (.fail rc' e, s')) : Prov e0 s e s' := by
  induction k generalizing rc s with
  | zero =>
    simp only [programLoop, Prod.mk.injEq, PRes.fail.injEq] at heq
    exact Prov.of_ne (lit_ne hfor (Or.inr (Or.inr (Or.inl heq.1.2.symm))))
  | succ k ih =>
    simp only [programLoop] at heq
    split at heq
    · rename_i r1 s1 h1
      simp only [Prod.mk.injEq] at heq
      obtain ⟨rfl, rfl⟩ := heq
      exact unitStep_P hfor horc hf h1
    · rename_i rc1 s1 h1
      have l1 : LogExt s s1 := by
        have := unitStep_rel (L env) hf.log fuel unit main0 rc s; rw [h1] at this; exact this
      split at heq
      · rename_i e' s2 h2
        simp only [Prod.mk.injEq, PRes.fail.injEq] at heq
        obtain ⟨⟨_, rfl⟩, rfl⟩ := heq
        exact (addCID_P hfor horc h2).mono l1 (LogExt.refl _)
      · rename_i rc2 s2 h2
        have l2 : LogExt s1 s2 := by
          have := addCID_rel (L env) fuel rc1 s1; rw [h2] at this; exact this
        split at heq
        · simp at heq
        · rename_i it s3 h3
          have l3 : LogExt s2 (s3.put it) := by
            have := (L env).peek s2; rw [h3] at this; exact this
          exact (ih heq).mono (l1.trans (l2.trans l3)) (LogExt.refl _)

theorem programMatch_P {f : F} (hf : FP e0 f) {fuel : Nat} {unit main0 : Cls} {s : St} {e : Exc}
    {s' : St} (heq : programMatch env f fuel unit main0 s = (.raise e, s')) : Prov e0 s e s' := by
  unfold programMatch at heq
  split at heq
  · rename_i e' s1 h1
    simp only [Prod.mk.injEq, MRes.raise.injEq] at heq
    obtain ⟨rfl, rfl⟩ := heq
    exact addCID_P hfor horc h1
  · rename_i rc0 s1 h1
    have l1 : LogExt s s1 := by
      have := addCID_rel (L env) fuel [] s; rw [h1] at this; exact this
    split at heq
    · simp at heq
    · simp at heq
    · rename_i rc e' s2 h2
      have l2 : LogExt s1 s2 := by
        have := programLoop_rel (L env) hf.log unit main0 fuel fuel rc0 s1
        rw [h2] at this; exact this
      split at heq
      · have l3 : LogExt s2 (ghostIf (!rc.isEmpty) Ghost.progDrop (s2.ev (Ev.ghost Ghost.fallback))) :=
          LogExt.trans ⟨[_], rfl⟩ (ghostIf_log _ _ _)
        exact (blockMatch_P hfor horc hf heq).mono (l1.trans (l2.trans l3)) (LogExt.refl _)
      · simp only [Prod.mk.injEq, MRes.raise.injEq] at heq
        obtain ⟨rfl, rfl⟩ := heq
        exact (programLoop_P hfor horc hf h2).mono l1 (LogExt.refl _)

omit horc in
theorem altLoop_P {g : G} (hg : GP e0 g) {ds pc : List Cls} {s : St} {e : Exc} {pc' : List Cls}
    {s' : St} (heq : altLoop env g ds pc s = (.raise e, pc', s')) : Prov e0 s e s' := by
  induction ds generalizing pc s with
  | nil =>
    simp only [altLoop, Prod.mk.injEq] at heq
    apply Prov.of_ne
    apply lit_ne hfor
    have := heq.1
    unfold blankRule at this
    split at this
    · cases this
    · simp only [Outcome.raise.injEq] at this; exact Or.inr (Or.inr (Or.inr this.symm))
  | cons d ds ih =>
    simp only [altLoop] at heq
    split at heq
    · exact ih heq
    · split at heq
      · simp at heq
      · rename_i pc1 s1 h1
        have l1 : LogExt s s1 := by have := hg.log d pc s; rw [h1] at this; exact this
        exact (ih heq).mono l1 (LogExt.refl _)
      · rename_i pc1 s1 h1
        have l1 : LogExt s s1 := by have := hg.log d pc s; rw [h1] at this; exact this
        exact (ih heq).mono l1 (LogExt.refl _)
      · rename_i e' pc1 s1 _ h1
        simp only [Prod.mk.injEq, Outcome.raise.injEq] at heq
        obtain ⟨rfl, _, rfl⟩ := heq
        exact hg.spec _ _ _ _ _ _ h1

omit horc in
theorem finish_P {g : G} (hg : GP e0 g) {c : Cls} {subs : List Cls} {r : MRes} {s s1 : St}
    {pc : List Cls} {e : Exc} {pc' : List Cls} {s' : St} (hl : LogExt s s1)
    (hr : ∀ e', r = .raise e' → Prov e0 s e' s1)
    (heq : finish env g c subs (r, s1) pc = (.raise e, pc', s')) : Prov e0 s e s' := by
  unfold finish at heq
  split at heq
  · simp at heq
  · rename_i sa hh
    simp only [Prod.mk.injEq] at hh
    obtain ⟨_, rfl⟩ := hh
    exact (altLoop_P hfor hg heq).mono hl (LogExt.refl _)
  · rename_i sa hh
    simp only [Prod.mk.injEq] at hh
    obtain ⟨_, rfl⟩ := hh
    exact (altLoop_P hfor hg heq).mono hl (LogExt.refl _)
  · rename_i e' sa _ hh
    simp only [Prod.mk.injEq] at hh
    obtain ⟨rfl, rfl⟩ := hh
    simp only [Prod.mk.injEq, Outcome.raise.injEq] at heq
    obtain ⟨rfl, _, rfl⟩ := heq
    exact hr _ rfl

theorem eval_P (fuel : Nat) : GP e0 (eval env fuel) := by
  induction fuel with
  | zero =>
    refine ⟨eval_log env 0, fun c pc s e pc' s' heq => ?_⟩
    simp only [eval, Prod.mk.injEq, Outcome.raise.injEq] at heq
    exact Prov.of_ne (lit_ne hfor (Or.inr (Or.inr (Or.inl heq.1.symm))))
  | succ fuel ih =>
    refine ⟨eval_log env (fuel + 1), fun c pc s e pc' s' heq => ?_⟩
    have hf : FP e0 (fresh (eval env fuel)) := fresh_P ih
    simp only [eval] at heq
    split at heq
    · exact leafNew_P hfor horc heq
    · exact altLoop_P hfor ih heq
    · rename_i cfg subs _
      generalize hb : blockMatch env (fresh (eval env fuel)) fuel cfg s = br at heq
      obtain ⟨r, s1⟩ := br
      refine finish_P hfor ih ?_ ?_ heq
      · have := blockMatch_rel (L env) hf.log fuel cfg s; rw [hb] at this; exact this
      · intro e' he'; subst he'; exact blockMatch_P hfor horc hf hb
    · rename_i item subs _
      generalize hb : manyLoop (fresh (eval env fuel)) item fuel [] s = br at heq
      obtain ⟨r, s1⟩ := br
      refine finish_P hfor ih ?_ ?_ heq
      · have := manyLoop_rel (L env) hf.log item fuel [] s; rw [hb] at this; exact this
      · intro e' he'; subst he'; exact manyLoop_P env hfor hf hb
    · rename_i cs subs _
      generalize hb : seqNR env.tbl.quirks (fresh (eval env fuel)) cs [] s = br at heq
      obtain ⟨r, s1⟩ := br
      refine finish_P hfor ih ?_ ?_ heq
      · have := seqNR_log env hf.log env.tbl.quirks cs [] s; rw [hb] at this; exact this
      · intro e' he'; subst he'; exact seqNR_P env hf hb
    · rename_i cfg scope subs _
      generalize hb : main0Match env (fresh (eval env fuel)) fuel cfg scope s = br at heq
      obtain ⟨r, s1⟩ := br
      refine finish_P hfor ih ?_ ?_ heq
      · have := main0Match_rel (L env) hf.log fuel cfg scope s; rw [hb] at this; exact this
      · intro e' he'; subst he'; exact main0Match_P hfor horc hf hb
    · rename_i unit main0 subs _
      generalize hb : programMatch env (fresh (eval env fuel)) fuel unit main0 s = br at heq
      obtain ⟨r, s1⟩ := br
      generalize hfin : finish env (eval env fuel) c subs (r, s1) [c] = fr at heq
      obtain ⟨o1, pc1, s2⟩ := fr
      simp only [Prod.mk.injEq] at heq
      obtain ⟨ho, _, rfl⟩ := heq
      cases o1 with
      | none => simp [programConvert] at ho
      | tree t => simp [programConvert] at ho
      | raise e1 =>
        have hp : Prov e0 s e1 s2 := by
          refine finish_P hfor ih ?_ ?_ hfin
          · have := programMatch_rel (L env) hf.log fuel unit main0 s; rw [hb] at this; exact this
          · intro e' he'; subst he'; exact programMatch_P hfor horc hf hb
        cases e1 with
        | noMatch =>
          simp only [programConvert, Outcome.raise.injEq] at ho
          exact Prov.of_ne (lit_ne hfor (Or.inr (Or.inl ho.symm)))
        | internalSyntax =>
          simp only [programConvert, Outcome.raise.injEq] at ho
          exact Prov.of_ne (lit_ne hfor (Or.inr (Or.inl ho.symm)))
        | _ =>
          simp only [programConvert, Outcome.raise.injEq] at ho; subst ho
          refine hp.mono (LogExt.refl _) ?_
          unfold programExit
          simp only [programConvert]
          split
          · exact ⟨[Ev.rollback], rfl⟩
          · exact LogExt.refl _
    · exfalso
      simp only [Prod.mk.injEq] at heq
      have := heq.1
      unfold commentNew at this
      split at this
      · cases this
      · split at this <;> cases this
    · exfalso
      simp only [Prod.mk.injEq] at heq
      have := heq.1
      unfold directiveNew at this
      split at this
      · cases this
      · split at this
        · split at this <;> cases this
        · cases this
    · rename_i cs _
      simp only [Prod.mk.injEq] at heq
      obtain ⟨h1, _, rfl⟩ := heq
      exact cppNew_P hfor horc (Prod.ext h1 rfl)

end

/-! ### a successful `Program` without fall-back leaves nothing unread -/

variable {env : Env}

theorem programLoop_done_empty {f : F} {unit main0 : Cls} {fuel k : Nat} {rc : List Tree} {s : St}
    {rc' : List Tree} {s' : St}
    (heq : programLoop env f unit main0 fuel k rc s = (.done rc', s')) : s'.all = [] := by
  induction k generalizing rc s with
  | zero => simp [programLoop] at heq
  | succ k ih =>
    simp only [programLoop] at heq
    split at heq
    · rename_i r1 s1 h1
      exfalso
      simp only [Prod.mk.injEq] at heq
      obtain ⟨rfl, _⟩ := heq
      unfold unitStep at h1
      split at h1
      · split at h1
        · split at h1 <;> simp at h1
        · simp at h1
      · simp at h1
    · split at heq
      · simp at heq
      · split at heq
        · rename_i s3 h3
          simp only [Prod.mk.injEq, PRes.done.injEq] at heq
          rw [← heq.2]; exact (St.get_none_all h3).2
        · exact ih heq

/-- in the repaired variant the tuple can only come from the end of the loop; in the pinned
one it may come from the fall-back, which logs a `fallback` event -/
theorem programMatch_consumes {f : F} (hf : FRel LogExt f) {fuel : Nat} {unit main0 : Cls} {s : St}
    {content : List Tree} {s' : St}
    (heq : programMatch env f fuel unit main0 s = (.tuple content, s'))
    (hfb : env.tbl.quirks.programContinues = true ∨ FB s' = FB s) : s'.all = [] := by
  unfold programMatch at heq
  split at heq
  · simp at heq
  · rename_i rc0 s1 h1
    have l1 : LogExt s s1 := by
      have := addCID_rel (L env) fuel [] s; rw [h1] at this; exact this
    split at heq
    · rename_i rc s2 h2
      simp only [Prod.mk.injEq, MRes.tuple.injEq] at heq
      rw [← heq.2]; exact programLoop_done_empty h2
    · simp at heq
    · rename_i rc e s2 h2
      split at heq
      · rename_i hc
        exfalso
        simp only [Bool.and_eq_true, beq_iff_eq, Bool.not_eq_true'] at hc
        rcases hfb with hq | hfb
        · rw [hq] at hc; exact absurd hc.2 (by simp)
        · have l2 : LogExt s1 s2 := by
            have := programLoop_rel (L env) hf unit main0 fuel fuel rc0 s1
            rw [h2] at this; exact this
          have l3 : LogExt (s2.ev (Ev.ghost Ghost.fallback)) s' := by
            have h4 := blockMatch_rel (L env) hf fuel (fallbackCfg main0)
              (ghostIf (!rc.isEmpty) Ghost.progDrop (s2.ev (Ev.ghost Ghost.fallback)))
            rw [heq] at h4
            exact (ghostIf_log _ _ _).trans h4
          have m1 := FB_mono l1; have m2 := FB_mono l2; have m3 := FB_mono l3
          have : FB (s2.ev (Ev.ghost Ghost.fallback)) = FB s2 + 1 := by
            simp [FB, St.ev, List.filter_cons, isFallback]
          omega
      · simp at heq

/-- `Program(reader)` returned a tree and no fall-back to `Main_Program0` happened in this
run: the whole input was consumed -/
theorem program_consumes_eval (env : Env) (fuel : Nat) (c unit main0 : Cls) (pc pc' : List Cls)
    (st st' : St) (t : Tree) (hk : env.tbl.kind c = .program unit main0 [])
    (heq : eval env (fuel + 1) c pc st = (.tree t, pc', st'))
    (hfb : env.tbl.quirks.programContinues = true ∨ FB st' = FB st) :
    st'.stream.all = [] := by
  simp only [eval, hk] at heq
  generalize hb : programMatch env (fresh (eval env fuel)) fuel unit main0 st = br at heq
  obtain ⟨r, s1⟩ := br
  simp only [Prod.mk.injEq] at heq
  obtain ⟨ho, _, hs⟩ := heq
  unfold finish at ho hs
  cases r with
  | tuple content =>
    simp only at hs
    subst hs
    exact programMatch_consumes (fresh_rel (eval_log env fuel)) hb hfb
  | none =>
    simp only [altLoop] at ho
    unfold blankRule at ho
    split at ho <;> simp [programConvert] at ho
  | raise e =>
    cases e with
    | noMatch =>
      simp only [altLoop] at ho
      unfold blankRule at ho
      split at ho <;> simp [programConvert] at ho
    | _ => simp [programConvert] at ho

end Fp.Block
